---------------------------- MODULE ModelCompare ----------------------------
(***************************************************************************)
(* elfi.methods.model_selection.compare_models(sample_objs, model_priors)  *)
(*                                                                         *)
(* The Sample objects are assembled one at a time (AddModel), then the     *)
(* public call is one action (Compare) that resolves the unstable argsort  *)
(* by a free choice among the possible index sets; Refuse is the call on   *)
(* inputs for which every weight in the cut vanishes (0/0 in the code).    *)
(* Clause (e) of property C17 is stated as invariants of the state after   *)
(* Compare, over exact rationals.                                          *)
(***************************************************************************)
EXTENDS Naturals, Integers, Sequences, FiniteSets, TLC, ModelCompareOps

CONSTANTS MaxModels,    \* number of Sample objects handed over (2..MaxModels)
          ModelSet,     \* set of records [d, nsim, w]
          Variant       \* "code" = the code; "times-nsim" = negative control: the share is multiplied by
                        \* the number of simulations instead of divided

VARIABLES ms, pc, cnt, out
vars == <<ms, pc, cnt, out>>

Init == ms = <<>> /\ pc = "build" /\ cnt = <<>> /\ out = <<>>

AddModel(m) == /\ pc = "build" /\ Len(ms) < MaxModels
               /\ ms' = Append(ms, m)
               /\ UNCHANGED <<pc, cnt, out>>

\* negative control only: count_i * nsim_i * w_i, normalised
WrongProbs(m, c) ==
  LET t == SumS([i \in 1..Len(m) |-> c[i] * m[i].nsim * m[i].w])
  IN [i \in 1..Len(m) |-> <<c[i] * m[i].nsim * m[i].w, t>>]

Compare(s) == /\ pc = "build" /\ Len(ms) >= 2
              /\ Total(ms, CountsOfSel(ms, s)) > 0
              /\ cnt' = CountsOfSel(ms, s)
              /\ out' = IF Variant = "code" THEN Probs(ms, cnt') ELSE WrongProbs(ms, cnt')
              /\ pc' = "done"
              /\ UNCHANGED ms

Refuse(s) == /\ pc = "build" /\ Len(ms) >= 2
             /\ Total(ms, CountsOfSel(ms, s)) = 0
             /\ pc' = "undefined"
             /\ UNCHANGED <<ms, cnt, out>>

CompareAny == Len(ms) >= 2 /\ \E s \in Selections(Concat(ms), NMin(ms)) : Compare(s)
RefuseAny == Len(ms) >= 2 /\ \E s \in Selections(Concat(ms), NMin(ms)) : Refuse(s)
Next == (\E m \in ModelSet : AddModel(m)) \/ CompareAny \/ RefuseAny
Spec == Init /\ [][Next]_vars

\* ---- the property (C17, model comparison part) ------------------------------------------------
Done == pc = "done"
M == Len(ms)

\* the counts are each model's share of the n_min jointly smallest discrepancies:
\* n_min places in all, nothing outside the cut is smaller than something inside
SharesOfSmallest == Done => cnt \in DefCounts(ms)
\* and conversely every such share can be produced by the code (the definition is not narrower)
AllSharesReachable == (pc = "build" /\ Len(ms) >= 2) => MechCounts(ms) = DefCounts(ms)
\* the index sets of Compare are the prefixes of the sorting permutations (short concatenations)
SelectionsArePrefixes ==
  (pc = "build" /\ Len(ms) >= 2 /\ Len(Concat(ms)) <= 4) =>
     Selections(Concat(ms), NMin(ms)) = PrefixSets(Concat(ms), NMin(ms))
\* probabilities sum to one
SumOne == Done => /\ \A i \in 1..M : out[i][2] > 0 /\ out[i][1] >= 0
                  /\ SumS([i \in 1..M |-> out[i][1]]) = out[1][2]
                  /\ \A i \in 1..M : out[i][2] = out[1][2]
\* proportional to share / n_sim * prior weight:  p_i * (c_j w_j / n_j) = p_j * (c_i w_i / n_i)
Proportional ==
  Done => \A i, j \in 1..M :
    out[i][1] * (cnt[j] * ms[j].w * ms[i].nsim) = out[j][1] * (cnt[i] * ms[i].w * ms[j].nsim)
\* permute with the models: the set of possible results of the permuted call is the permuted set;
\* when the shares are determined (no tie straddles the n_min cut) the result itself permutes
Permutes ==
  Done => \A pi \in Perms(M) :
    LET ms2 == PermuteSeq(ms, pi) IN
    /\ Outcomes(ms2) = {PermuteSeq(o, pi) : o \in Outcomes(ms)}
    /\ PermuteSeq(out, pi) \in Outcomes(ms2)
    /\ Determined(ms) => Outcomes(ms2) = {PermuteSeq(out, pi)}
\* negative control (must be refuted): ties that straddle the cut exist, so the proviso of Permutes
\* is needed and the free tie order of Compare is exercised
DeterminedAlways == (pc = "build" /\ Len(ms) >= 2) => Determined(ms)
=============================================================================

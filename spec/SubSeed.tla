------------------------------ MODULE SubSeed ------------------------------
(***************************************************************************)
(* elfi.utils.get_sub_seed(seed, sub_seed_index, high, cache)              *)
(*                                                                         *)
(* The master seed fixes a draw stream  RandomState(seed).randint(high)    *)
(* which is modelled as an ARBITRARY sequence over 0..High-1, so that      *)
(* collisions are forced for small High.  One public call is one action;   *)
(* the chunked re-draw loop of the code                                    *)
(*      while n_unique != n_unique_required:                               *)
(*          n_draws = n_unique_required - n_unique                         *)
(*          sub_seeds = random_state.randint(high, size=n_draws)           *)
(*          seen.update(sub_seeds); n_unique = len(seen)                   *)
(*      return sub_seeds[-1]                                               *)
(* is the recursive operator Loop.  The cache is [pos, seen]: position of  *)
(* the cached generator in the stream and the values seen so far.          *)
(***************************************************************************)
EXTENDS Naturals, Integers, Sequences, FiniteSets, TLC, SubSeedOps

CONSTANTS High,        \* exclusive upper limit of sub seeds
          StreamLen,   \* length of the modelled stream prefix
          MaxIdx,      \* largest index requested (indices >= High must be rejected)
          MaxCalls     \* history length

VARIABLES stream, cache, hist
vars == <<stream, cache, hist>>

\* ---- behaviour ---------------------------------------------------------------
Init == /\ stream \in [1..StreamLen -> 0..(High - 1)]
        /\ cache = NoCache
        /\ hist = <<>>

Call(idx, useCache) ==
  /\ Len(hist) < MaxCalls
  /\ idx < High                                   \* otherwise ValueError, see Reject
  /\ LET r == CallResult(stream, cache, idx, useCache) IN
       /\ r[1] # Fail                               \* stay inside the modelled prefix
       /\ hist' = Append(hist, [idx |-> idx, uc |-> useCache, val |-> r[3]])
       /\ cache' = IF useCache THEN [pos |-> r[1], seen |-> r[2]] ELSE cache
  /\ UNCHANGED stream

Reject(idx) ==
  /\ Len(hist) < MaxCalls
  /\ idx >= High
  /\ hist' = Append(hist, [idx |-> idx, uc |-> FALSE, val |-> Fail])
  /\ UNCHANGED <<stream, cache>>

Next == \E idx \in 0..MaxIdx : (\E uc \in BOOLEAN : Call(idx, uc)) \/ Reject(idx)
Spec == Init /\ [][Next]_vars

\* ---- properties (C15) ---------------------------------------------------------
Served(h) == h.val # Fail
\* (a) same value with or without cache, whatever was requested before
HistoryIndependent == \A k \in 1..Len(hist) : Served(hist[k]) => hist[k].val = Ref(stream, hist[k].idx)
\* (b) different indices never share a value
Distinct == \A a, b \in 1..Len(hist) :
              (Served(hist[a]) /\ Served(hist[b]) /\ hist[a].idx # hist[b].idx) => hist[a].val # hist[b].val
\* (c) range
InRange == \A k \in 1..Len(hist) : Served(hist[k]) => hist[k].val \in 0..(High - 1)
\* (d) rejected, not aliased
Rejects == \A k \in 1..Len(hist) : (hist[k].idx >= High) <=> ~Served(hist[k])
\* mechanism invariant used by the trace spec: the cache is always a consistent stream prefix
CacheConsistent == cache.seen = {stream[i] : i \in 1..cache.pos}
=============================================================================

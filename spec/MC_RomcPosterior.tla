--------------------------- MODULE MC_RomcPosterior ---------------------------
(* Exhaustive configurations of RomcPosterior.tla: sets of boxes and prior    *)
(* values that a cfg file cannot express.                                     *)
EXTENDS RomcPosterior
\* 1-D: both rotations, three centres, degenerate / threshold / wide limits (Eps = 2)
Boxes1 == [R : SignedPerms(1), c : {<<-1>>, <<0>>, <<1>>}, lim : {<<<<0, 0>>>>, <<<<-1, 1>>>>, <<<<-1, 2>>>>}]
Boxes1Small == [R : SignedPerms(1), c : {<<0>>, <<1>>}, lim : {<<<<0, 0>>>>, <<<<-1, 2>>>>}]
\* 2-D: the two quarter turns (R # R^-1) and a reflection, one centre off the origin
Boxes2 == [R : {<<<<0, -1>>, <<1, 0>>>>, <<<<0, 1>>, <<-1, 0>>>>, <<<<0, 1>>, <<1, 0>>>>},
           c : {<<1, -1>>}, lim : {<<<<0, 0>>, <<-1, 2>>>>, <<<<-1, 2>>, <<0, 1>>>>}]
\* prior densities 0, 1/4, 1/2, 2
SomePriors == {<<0, 1>>, <<1, 4>>, <<1, 2>>, <<2, 1>>}
ThreePriors == {<<0, 1>>, <<1, 4>>, <<2, 1>>}
=============================================================================

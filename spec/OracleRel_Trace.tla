--------------------------- MODULE OracleRel_Trace ---------------------------
(***************************************************************************)
(* A generic relation on logged oracle fields (T4): a trace is a list of   *)
(* items, each with the value the code returned, the value the definition  *)
(* gives (evaluated by the harness with numpy / scipy / GPy, the trusted   *)
(* base named in the driver), both in 10^-6 fixed point, a tolerance and   *)
(* the P: clause that names the definition.  TLC judges |v - o| <= tol.    *)
(* Used where a statement's definition has no integer model (C10: the      *)
(* posterior of a BOLFI object whose surrogate orders the parameters       *)
(* differently from the model).                                            *)
(***************************************************************************)
EXTENDS Naturals, Integers, Sequences, TLC, Json, IOUtils

Traces == JsonDeserialize(IOEnv.TRACE_FILE)
VARIABLES tid, l, verdict, drift, done
vars == <<tid, l, verdict, drift, done>>
T == Traces[tid]
Abs(x) == IF x < 0 THEN -x ELSE x

Init == tid \in 1..Len(Traces) /\ l = 1 /\ verdict = "ok" /\ drift = "" /\ done = FALSE

Judge(e) == IF e.res # "val" THEN e.clause
            ELSE IF Len(e.v) # Len(e.o) THEN e.clause
            ELSE IF \E i \in 1..Len(e.o) : Abs(e.v[i] - e.o[i]) > e.tol THEN e.clause
            ELSE "ok"

Step == /\ ~done
        /\ IF l > Len(T.items) THEN done' = TRUE /\ UNCHANGED <<tid, l, verdict, drift>>
           ELSE LET j == Judge(T.items[l]) IN verdict' = j /\ done' = (j # "ok") /\ l' = l + 1 /\ UNCHANGED <<tid, drift>>
Spec == Init /\ [][Step]_vars
Report == done => PrintT(<<"V", tid, l, verdict, drift>>)
=============================================================================

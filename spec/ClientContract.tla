--------------------------- MODULE ClientContract ---------------------------
(***************************************************************************)
(* The ClientBase contract that Batches.tla / BoLoop.tla / BslRound.tla    *)
(* ASSUME of a client (extension of the specification: it binds the real   *)
(* native and multiprocessing clients to that assumption).                 *)
(*   apply(f, x)        -> a fresh id, never handed out before             *)
(*   is_ready(id)       -> any answer for a held task; once TRUE it stays   *)
(*                         TRUE (a finished task does not un-finish)        *)
(*   get_result(id)     -> the value of THAT task's computation; the task   *)
(*                         is forgotten (ELFI calls it once per id)         *)
(*   remove_task(id)    -> the task is forgotten; unknown ids are ignored   *)
(*   apply_sync(f, x)   -> the value, nothing is held                       *)
(* A task is the pair <<id, x>>; the computation is a pure function of x.   *)
(***************************************************************************)
EXTENDS Naturals, Sequences, FiniteSets, TLC
CONSTANTS Args, MaxOps
VARIABLES held,      \* id -> [x, ready]
          nextId, given, results, nops
vars == <<held, nextId, given, results, nops>>
Init == held = <<>> /\ nextId = 0 /\ given = {} /\ results = <<>> /\ nops = 0

Apply(x) == /\ held' = [i \in DOMAIN held \cup {nextId} |-> IF i = nextId THEN [x |-> x, ready |-> FALSE] ELSE held[i]]
            /\ given' = given \cup {nextId} /\ nextId' = nextId + 1 /\ UNCHANGED results
Finish(i) == /\ i \in DOMAIN held /\ ~held[i].ready /\ held' = [held EXCEPT ![i].ready = TRUE]      \* a worker finishes (silent)
             /\ UNCHANGED <<nextId, given, results>>
GetResult(i) == /\ i \in DOMAIN held /\ results' = Append(results, <<i, held[i].x>>)
                /\ held' = [j \in DOMAIN held \ {i} |-> held[j]] /\ UNCHANGED <<nextId, given>>
Remove(i) == /\ held' = [j \in DOMAIN held \ {i} |-> held[j]] /\ UNCHANGED <<nextId, given, results>>
Next == /\ nops < MaxOps /\ nops' = nops + 1
        /\ (\E x \in Args : Apply(x)) \/ (\E i \in 0..MaxOps : Finish(i) \/ GetResult(i) \/ Remove(i))
Spec == Init /\ [][Next]_vars

FreshIds == DOMAIN held \subseteq given /\ Cardinality(given) = nextId
\* every result is the computation of the task that was submitted under that id, delivered at most once
EachResultOnce == \A a, b \in 1..Len(results) : a # b => results[a][1] # results[b][1]
NoResultForHeld == \A a \in 1..Len(results) : results[a][1] \notin DOMAIN held
=============================================================================

----------------------------- MODULE GmRvs_Trace -----------------------------
(***************************************************************************)
(* Trace validation for C13 clause (f): GMDistribution.rvs with a          *)
(* constraint returns exactly the requested number of points, all          *)
(* satisfying the constraint.                                              *)
(*                                                                         *)
(* One trace = one call.  The harness supplies a recording random_state    *)
(* (logs the `size` of every choice() call) and a recording prior_logpdf   *)
(* (logs how many proposals it was shown and which of them it declared     *)
(* finite), so a trace is                                                  *)
(*   size        requested number of points (nowrap = TRUE: size=None)     *)
(*   constrained a prior_logpdf was given                                  *)
(*   possible    the scripted constraint accepts something in every trial  *)
(*               window it is asked about eventually (the call can return) *)
(*   events      ev="choice": k      (size argument of choice(); "neg" if  *)
(*                                    negative, logged as kneg = TRUE)     *)
(*               ev="prior":  n, mask (proposals shown; 1 = declared       *)
(*                                    finite)                              *)
(*               ev="ret":    res ("val"|"raise"|"hang"), wrapped (result  *)
(*                            has the enclosing array), nrows, dimok (each *)
(*                            row has the shape of one mean), rows: one    *)
(*                            <<t, j, sat>> per returned row = the row is  *)
(*                            bit-identical to proposal j of the t-th      *)
(*                            prior call (0,0 = to none), sat = 1 iff the  *)
(*                            scenario's constraint predicate holds on the *)
(*                            returned row (evaluated after the call);     *)
(*                            truncated = the harness stopped logging      *)
(*                            (thousands of trials; never on a call that   *)
(*                            returns in the scenarios generated)          *)
(* Design state (GmRvs.tla) is tracked for the M: clauses.                 *)
(***************************************************************************)
EXTENDS Naturals, Integers, Sequences, FiniteSets, TLC, Json, IOUtils

Traces == JsonDeserialize(IOEnv.TRACE_FILE)

VARIABLES tid, l,
          nacc, nleft,      \* GmRvs.tla state as implied by the prior masks seen so far
          masks,            \* the masks of the prior calls so far
          verdict, drift, done
vars == <<tid, l, nacc, nleft, masks, verdict, drift, done>>

T == Traces[tid]
Size == IF T.nowrap THEN 1 ELSE T.size

Init == /\ tid \in 1..Len(Traces) /\ l = 1 /\ nacc = 0 /\ nleft = Size /\ masks = <<>>
        /\ verdict = "ok" /\ drift = "" /\ done = FALSE

RECURSIVE SumTo(_, _)
SumTo(f, n) == IF n = 0 THEN 0 ELSE f[n] + SumTo(f, n - 1)
NAcc(mask) == SumTo(mask, Len(mask))

\* the accepted proposals in order of acceptance: <<t, j>> for mask bit 1
RECURSIVE AccOfMask(_, _, _)
AccOfMask(mask, t, j) == IF j > Len(mask) THEN <<>>
                         ELSE (IF mask[j] = 1 THEN <<<<t, j>>>> ELSE <<>>) \o AccOfMask(mask, t, j + 1)
RECURSIVE AccAll(_, _)
AccAll(ms, t) == IF t > Len(ms) THEN <<>> ELSE AccOfMask(ms[t], t, 1) \o AccAll(ms, t + 1)

FirstOf(s) == IF Len(s) = 0 THEN <<>> ELSE <<s[1]>>

JudgeP(e) ==
  IF e.ev # "ret" THEN "ok"
  ELSE IF e.res # "val" THEN (IF T.possible THEN "P:count" ELSE "ok")   \* did not return the points
  ELSE IF e.truncated THEN "X:log-truncated"
  ELSE IF T.nowrap /\ (e.wrapped \/ e.nrows # 1) THEN "P:count"
  ELSE IF ~T.nowrap /\ (~e.wrapped \/ e.nrows # T.size) THEN "P:count"
  ELSE IF ~e.dimok THEN "P:count"
  ELSE IF T.constrained /\ \E r \in 1..Len(e.rows) :
            LET t == e.rows[r][1]
                j == e.rows[r][2]
            IN \/ e.rows[r][3] # 1                               \* violates the constraint
               \/ ~(t >= 1 /\ t <= Len(masks) /\ j >= 1 /\ j <= Len(masks[t]))  \* not a proposal at all
               \/ masks[t][j] # 1                                \* a proposal the constraint refused
       THEN "P:all-valid"
  ELSE IF T.constrained /\ Len(e.rows) # e.nrows THEN "X:rows-not-logged"
  ELSE "ok"

JudgeM(e) ==
  CASE e.ev = "choice" ->
         IF e.kneg \/ e.k # nleft THEN "M:draws-what-is-missing"
         ELSE IF nacc >= Size THEN "M:loop-ends-when-full" ELSE ""
    [] e.ev = "prior" ->
         IF e.n # nleft THEN "M:all-proposals-checked" ELSE ""
    [] e.ev = "ret" ->
         IF e.res # "val" THEN ""
         ELSE IF T.constrained /\ [r \in 1..Len(e.rows) |-> <<e.rows[r][1], e.rows[r][2]>>] #
                                  (IF T.nowrap THEN FirstOf(AccAll(masks, 1)) ELSE AccAll(masks, 1))
              THEN "M:accepted-in-order"
         ELSE ""
    [] OTHER -> "X:unknown-event"

Step ==
  /\ ~done
  /\ IF l > Len(T.events) THEN done' = TRUE /\ UNCHANGED <<tid, l, nacc, nleft, masks, verdict, drift>>
     ELSE LET e == T.events[l]
              j == JudgeP(e)
              m == IF drift = "" THEN JudgeM(e) ELSE drift
          IN /\ verdict' = j
             /\ drift' = m
             /\ done' = (j # "ok")
             /\ l' = l + 1
             /\ UNCHANGED tid
             /\ IF e.ev = "prior"
                THEN /\ masks' = Append(masks, e.mask)
                     /\ nacc' = nacc + NAcc(e.mask)
                     /\ nleft' = nleft - NAcc(e.mask)
                ELSE IF e.ev = "choice" /\ ~T.constrained /\ ~e.kneg
                THEN \* no constraint: every proposal is kept
                     /\ nacc' = nacc + e.k /\ nleft' = nleft - e.k /\ UNCHANGED masks
                ELSE UNCHANGED <<masks, nacc, nleft>>

Spec == Init /\ [][Step]_vars
Report == done => PrintT(<<"V", tid, l, verdict, drift>>)
=============================================================================

------------------------------ MODULE BBoxOps ------------------------------
(***************************************************************************)
(* elfi.methods.inference.romc.NDimBoundingBox in exact integer arithmetic,*)
(* shared by the design module BBox.tla and the trace specs.               *)
(*                                                                         *)
(* Lengths are integers in an arbitrary unit (small integers in the design *)
(* module, 10^-6 in traces).  Vectors are sequences of length D, matrices  *)
(* are sequences of rows, limits are sequences of <<lo, hi>> pairs         *)
(* (lo <= 0 <= hi: translations around the centre, in the box's own frame).*)
(* Rotations are restricted to the signed permutation matrices - the       *)
(* orthonormal matrices with integer entries (2 in 1-D, 8 in 2-D, 48 in    *)
(* 3-D); for most of them R # R^-1, which is what separates `rotation`     *)
(* from `rotation_inv`.                                                    *)
(***************************************************************************)
EXTENDS Integers, Sequences, FiniteSets, TLC

Dim(v) == Len(v)

RECURSIVE DotFrom(_, _, _)
DotFrom(a, b, k) == IF k = 0 THEN 0 ELSE a[k] * b[k] + DotFrom(a, b, k - 1)
Dot(a, b) == DotFrom(a, b, Len(a))
MatVec(M, v) == [r \in 1..Len(M) |-> Dot(M[r], v)]
VAdd(a, b) == [k \in 1..Len(a) |-> a[k] + b[k]]
VNeg(a) == [k \in 1..Len(a) |-> -a[k]]
Transpose(M) == [r \in 1..Len(M) |-> [c \in 1..Len(M) |-> M[c][r]]]
MatMul(A, B) == [r \in 1..Len(A) |-> [c \in 1..Len(A) |-> Dot(A[r], [k \in 1..Len(A) |-> B[k][c]])]]
Identity(D) == [r \in 1..D |-> [c \in 1..D |-> IF r = c THEN 1 ELSE 0]]

\* all signed permutation matrices of dimension D
SignedPerms(D) ==
  { [r \in 1..D |-> [c \in 1..D |-> IF p[r] = c THEN s[r] ELSE 0]] :
      p \in Permutations(1..D), s \in [1..D -> {-1, 1}] }
IsSignedPerm(M) ==
  /\ \A r \in 1..Len(M) : Len(M[r]) = Len(M) /\ Cardinality({c \in 1..Len(M) : M[r][c] # 0}) = 1
  /\ \A c \in 1..Len(M) : Cardinality({r \in 1..Len(M) : M[r][c] # 0}) = 1
  /\ \A r, c \in 1..Len(M) : M[r][c] \in {-1, 0, 1}

\* np.linalg.inv(rotation): for an orthonormal matrix the transpose (theorem InverseIsInverse of BBox.tla)
Inverse(R) == Transpose(R)

\* ---- __init__ / _secure_limits -------------------------------------------------
\*   if math.isclose(limits[i,0], limits[i,1], abs_tol=eps): limits[i,0] -= eps/2; limits[i,1] += eps/2
\* with lo <= 0 <= hi the relative part of isclose (1e-9 * max(|lo|,|hi|) <= 1e-9 * (hi-lo)) never
\* decides, so the test is  hi - lo <= eps.  eps is an even number of units.
Narrow(l, eps) == l[2] - l[1] <= eps
Widen(l, eps) == <<l[1] - eps \div 2, l[2] + eps \div 2>>
Secure(lim, eps) == [k \in 1..Len(lim) |-> IF Narrow(lim[k], eps) THEN Widen(lim[k], eps) ELSE lim[k]]
ValidLimits(lim) == \A k \in 1..Len(lim) : lim[k][1] <= 0 /\ lim[k][2] >= 0     \* the two asserts

\* ---- _compute_volume: np.prod(-limits[:,0] + limits[:,1]) ------------------------
RECURSIVE VolFrom(_, _)
VolFrom(lim, k) == IF k = 0 THEN 1 ELSE (lim[k][2] - lim[k][1]) * VolFrom(lim, k - 1)
Volume(lim) == VolFrom(lim, Len(lim))

\* ---- contains ------------------------------------------------------------------------
\*   point = np.dot(self.rotation_inv, point) + np.dot(self.rotation_inv, -self.center)
ToBody(Rinv, c, x) == VAdd(MatVec(Rinv, x), MatVec(Rinv, VNeg(c)))
\*   inside unless some coordinate is < lo or > hi
InLimits(lim, u) == \A k \in 1..Len(u) : ~(u[k] < lim[k][1] \/ u[k] > lim[k][2])
Contains(Rinv, c, lim, x) == InLimits(lim, ToBody(Rinv, c, x))

\* ---- sample: theta_new = np.dot(rot, theta.T).T + center,  theta uniform in the limits --
Forward(R, c, u) == VAdd(MatVec(R, u), c)

\* ---- pdf = contains / volume, as the rational <<num, den>> ---------------------------
Pdf(Rinv, c, lim, x) == <<IF Contains(Rinv, c, lim, x) THEN 1 ELSE 0, Volume(lim)>>

\* ---- distance of a body-frame point to the faces (negative = outside) --------------------
RECURSIVE MarginFrom(_, _, _)
Min2(a, b) == IF a < b THEN a ELSE b
MarginFrom(lim, u, k) ==
  LET m == Min2(u[k] - lim[k][1], lim[k][2] - u[k])
  IN IF k = 1 THEN m ELSE Min2(m, MarginFrom(lim, u, k - 1))
Margin(lim, u) == MarginFrom(lim, u, Len(u))
=============================================================================

SPECIFICATION Spec
CONSTANTS
  MaxDepth = 2
  MergeGuard = TRUE
INVARIANT SelectedIsInSliceLeafOrPrevious
INVARIANT NOkCountsSlice
INVARIANT DivergenceIsLast
INVARIANT LeafBound
INVARIANT SubtreeLemma
INVARIANT DirectedAgrees
CHECK_DEADLOCK FALSE

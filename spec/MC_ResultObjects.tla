--------------------------- MODULE MC_ResultObjects ---------------------------
(* Finite families of constructor calls for ResultObjects.tla.  Names are small integers (so that  *)
(* the negative control "iterate sorted(outputs)" is defined); 9 is an output that is not a        *)
(* parameter (discrepancy / summary node).                                                          *)
EXTENDS ResultObjects

\* explicit tuples instead of lazily evaluated function expressions (cheap to compare)
MatT(f) == f \o <<>>
Range(f) == {f[i] : i \in DOMAIN f}
Perms(S) == {f \in [1..Cardinality(S) -> S] : \A i, j \in 1..Cardinality(S) : i # j => f[i] # f[j]}
NameOrders == {<<1>>, <<2, 1>>, <<1, 2>>, <<3, 1, 2>>}

\* family A: structure.  Every value is its own provenance: id = 10 * key + row
FixedWs(n) == IF n = 1 THEN {<<2>>} ELSE IF n = 2 THEN {<<1, 3>>} ELSE {<<4, 0, 4>>}
StructCtors(Ns) ==
  UNION {UNION {UNION {
     {[kind |-> "sample", names |-> nm, okeys |-> ks,
       ovals |-> MatT([k \in 1..Len(ks) |-> MatT([i \in 1..n |-> 10 * ks[k] + i])]),
       hasw |-> FALSE, ws |-> <<>>, chains |-> <<>>, warmup |-> 0]}
     \cup
     {[kind |-> "sample", names |-> nm, okeys |-> ks,
       ovals |-> MatT([k \in 1..Len(ks) |-> MatT([i \in 1..n |-> 10 * ks[k] + i])]),
       hasw |-> TRUE, ws |-> w, chains |-> <<>>, warmup |-> 0] : w \in FixedWs(n)}
     : ks \in Perms(Range(nm) \cup {9})} : nm \in NameOrders} : n \in Ns}

\* family B: values.  One parameter, every unsorted / tied column over 0..MaxV, every weight vector
ValueCtors(Ns, MaxV, MaxW) ==
  UNION {UNION {
     {[kind |-> "sample", names |-> <<1>>, okeys |-> <<9, 1>>, ovals |-> <<MatT([i \in 1..n |-> 7]), col>>,
       hasw |-> FALSE, ws |-> <<>>, chains |-> <<>>, warmup |-> 0]}
     \cup
     {[kind |-> "sample", names |-> <<1>>, okeys |-> <<9, 1>>, ovals |-> <<MatT([i \in 1..n |-> 7]), col>>,
       hasw |-> TRUE, ws |-> w, chains |-> <<>>, warmup |-> 0]
        : w \in {v \in [1..n -> 0..MaxW] : \E i \in 1..n : v[i] > 0}}
     : col \in [1..n -> 0..MaxV]} : n \in Ns}

\* family C: BOLFI.  chains[c][t][p] = 100 c + 10 t + p, all shapes, every warm-up 0..n (n = everything dropped)
BolfiCtors(MaxC, MaxLen, NameSet) ==
  UNION {UNION {UNION {
     {[kind |-> "bolfi", names |-> nm, okeys |-> <<>>, ovals |-> <<>>, hasw |-> FALSE, ws |-> <<>>,
       chains |-> MatT([c \in 1..C |-> MatT([t \in 1..n |-> MatT([p \in 1..Len(nm) |-> 100 * c + 10 * t + p])])]),
       warmup |-> w] : w \in 0..n}
     : nm \in NameSet} : n \in 1..MaxLen} : C \in 1..MaxC}

\* one family per configuration (TLC evaluates every constant definition at start-up, so the
\* families are selected by a constant instead of being separate definitions)
CONSTANT Family
MCCtors ==
  CASE Family = "quick" -> StructCtors({1, 2}) \cup ValueCtors({2}, 2, 2) \cup ValueCtors({3}, 1, 1) \cup BolfiCtors(2, 3, {<<1>>, <<2, 1>>})
    [] Family = "mid" -> StructCtors({1, 2}) \cup ValueCtors({2, 3}, 2, 2) \cup BolfiCtors(2, 3, {<<1>>, <<2, 1>>})
    [] Family = "thorough" -> StructCtors({0, 1, 2, 3}) \cup ValueCtors({1, 2, 3}, 2, 3) \cup ValueCtors({4}, 1, 2)
                              \cup BolfiCtors(3, 4, {<<1>>, <<2, 1>>, <<3, 1, 2>>})
    [] Family = "cov" -> ValueCtors({1}, 0, 1) \cup BolfiCtors(1, 1, {<<1>>})      \* tiny: the run with -coverage
    [] Family = "neg" -> StructCtors({2}) \cup BolfiCtors(2, 3, {<<2, 1>>})
=============================================================================

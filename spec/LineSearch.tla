----------------------------- MODULE LineSearch -----------------------------
(***************************************************************************)
(* Design module for C19(c): elfi.methods.inference.romc.line_search.      *)
(*                                                                         *)
(* One action per statement group of the python loop (see LineSearchOps).  *)
(* The objective is an ARBITRARY predicate on positions: its value at a    *)
(* position is chosen freely the first time the position is probed and     *)
(* remembered afterwards (`passed` / `failed`), which quantifies over all  *)
(* predicates on all integer positions the search can reach.  K and the    *)
(* repetition limit are chosen in Init from the constant sets.             *)
(*                                                                         *)
(* StepBack = TRUE is the code; FALSE (the two lines after the while loop  *)
(* dropped) is the negative control.  HalveFirst = FALSE is the code; with *)
(* RepLims = {0} TLC refutes BelowUpToResult for it (finding F25), with    *)
(* HalveFirst = TRUE (the proposed repair) the theorem holds there too.    *)
(***************************************************************************)
EXTENDS Integers, Sequences, FiniteSets, TLC, LineSearchOps

CONSTANTS Ks,        \* set of refinement counts K
          RepLims,   \* set of repetition limits
          StepBack,  \* BOOLEAN
          HalveFirst \* BOOLEAN: FALSE is the code; TRUE = `eta = eta / 2` moved above the break (repair of F25)

VARIABLES K, replim, pc, i, rep, pos, eta, passed, failed, probes, off, broke
vars == <<K, replim, pc, i, rep, pos, eta, passed, failed, probes, off, broke>>

Init == /\ K \in Ks /\ replim \in RepLims
        /\ pc = "for" /\ i = 0 /\ rep = 0 /\ pos = 0 /\ eta = Pow2(K)
        /\ passed = {} /\ failed = {} /\ probes = <<>> /\ off = 0 /\ broke = FALSE

\* for i in range(K): rep = 0
ForHead == /\ pc = "for"
           /\ IF i < K THEN rep' = 0 /\ pc' = "while" ELSE pc' = "fallback" /\ UNCHANGED rep
           /\ UNCHANGED <<K, replim, i, pos, eta, passed, failed, probes, off, broke>>

\* while f(th) < eps and rep <= rep_lim   (v = the value of `f(th) < eps`)
WhileTest(v) ==
  /\ pc = "while"
  /\ (pos \in passed => v) /\ (pos \in failed => ~v)          \* f is a function of the position
  /\ passed' = IF v THEN passed \cup {pos} ELSE passed
  /\ failed' = IF v THEN failed ELSE failed \cup {pos}
  /\ probes' = Append(probes, pos)
  /\ pc' = IF v /\ rep <= replim THEN "body" ELSE "back"
  /\ UNCHANGED <<K, replim, i, rep, pos, eta, off, broke>>

\* th += eta * vd; offset += eta; rep += 1
Body == /\ pc = "body"
        /\ pos' = pos + eta /\ rep' = rep + 1 /\ pc' = "while"
        /\ UNCHANGED <<K, replim, i, eta, passed, failed, probes, off, broke>>

\* th -= eta * vd; offset -= eta; if rep > rep_lim: break; eta = eta / 2
Back == /\ pc = "back"
        /\ pos' = IF StepBack THEN pos - eta ELSE pos
        /\ IF rep > replim
           THEN pc' = "fallback" /\ broke' = TRUE /\ eta' = (IF HalveFirst THEN eta \div 2 ELSE eta) /\ UNCHANGED i
           ELSE pc' = "for" /\ eta' = eta \div 2 /\ i' = i + 1 /\ UNCHANGED broke
        /\ UNCHANGED <<K, replim, rep, passed, failed, probes, off>>

\* if offset <= 0: offset = eta; return offset
Fallback == /\ pc = "fallback"
            /\ off' = IF pos <= 0 THEN eta ELSE pos
            /\ pc' = "done"
            /\ UNCHANGED <<K, replim, i, rep, pos, eta, passed, failed, probes, broke>>

Next == ForHead \/ (\E v \in BOOLEAN : WhileTest(v)) \/ Body \/ Back \/ Fallback
Spec == Init /\ [][Next]_vars /\ WF_vars(Next)

\* ---- theorems (C19 c) -------------------------------------------------------------
Done == pc = "done"
StartBelow == 0 \in passed          \* precondition of ROMC: f(th_star) < eps (filtered solutions)

\* the returned offset is positive - for every predicate, even when the start is not below
PositiveResult == Done => Positive(off)

\* up to the returned offset the objective stayed below at the probed steps
BelowUpToResult == (Done /\ StartBelow) => BelowUpTo(off, passed \cup failed, LAMBDA p : p \in passed)

\* the search position never moves beyond a position where the probe failed
NeverPassesAFailedProbe == StartBelow => \A q \in failed : q >= 0 => pos <= q

\* the result is a position that was probed and found below, or the resolution fall-back
ResultProbedOrResolution == (Done /\ StartBelow) => (off \in passed \/ (pos <= 0 /\ off = eta))

\* without hitting the repetition limit the result is tight: two units further the probe failed
\* (the last refinement of K >= 1 uses a step of 2 units)
Tight == (Done /\ StartBelow /\ ~broke /\ K >= 1 /\ pos > 0) => (off + 2) \in failed

\* the recursive operators used by the trace spec are this state machine
AgreesWithOps ==
  Done => LET b == [p \in passed \cup failed |-> p \in passed]
              r == LSRun(b, K, replim, StepBack, HalveFirst)
          IN r.off = off /\ r.probes = probes /\ r.broke = broke

\* the number of probes is bounded by K * (rep_lim + 2)
BoundedWork == Len(probes) <= K * (replim + 2)

Terminates == <>Done
=============================================================================

------------------------------ MODULE Surrogate ------------------------------
(***************************************************************************)
(* C10, clauses (d) (e), design level: the surrogate                       *)
(*     elfi/methods/bo/gpy_regression.py  class GPyRegression              *)
(* as a state machine over what decides WHICH Gaussian process an answer   *)
(* is computed from.                                                       *)
(*                                                                         *)
(*   evidence      ids of the rows of X / Y, in order                      *)
(*   gpVersion     0 = no GP yet (self._gp is None); +1 whenever the GP    *)
(*                 object or its hyper-parameters change (update rebuilds  *)
(*                 the GPy model on the concatenated evidence, optimize    *)
(*                 moves the hyper-parameters)                             *)
(*   cached        self._rbf_is_cached                                     *)
(*   cacheVersion  gpVersion at the time _cache_RBF_kernel last ran (the   *)
(*                 _rbf_* attributes are a snapshot of that GP)            *)
(*   isSampling    self.is_sampling (set by BOLFI.sample around MCMC)      *)
(*   kdef          self._kernel_is_default (the fast path exists only for  *)
(*                 the default RBF + bias kernel)                          *)
(*                                                                         *)
(* One action per public call, clause by clause:                           *)
(*   Update(k, opt)  update(x, y, optimize=opt) with k new rows            *)
(*   Optimize        optimize()                                            *)
(*   SetSampling(b)  is_sampling = b                                       *)
(*   Predict         predict(x): no GP -> prior answer; is_sampling and    *)
(*                   default kernel -> (cache if not cached) fast answer   *)
(*                   from the cache; else CLEAR the cached flag and ask    *)
(*                   the library                                           *)
(*   Gradients       predictive_gradients(x): same, except that the        *)
(*                   library branch leaves the cached flag alone           *)
(*                                                                         *)
(* ClearOnChange models whether update()/optimize() clear the cached flag. *)
(* In the code as found they do not (only the library branch of predict    *)
(* does): ClearOnChange = FALSE is the original and TLC refutes            *)
(* FastPathFresh on it (defect F10: sampling on; predict; sampling off;    *)
(* update; sampling on; predict).  ClearOnChange = TRUE is the repair.     *)
(* UpdateMode = "prepend" is the negative control of AppendOnly.           *)
(*                                                                         *)
(* `last` is the answer given by the last step (path, the GP version the   *)
(* answer was computed from, the GP version it should have come from);     *)
(* `hist` is the history of calls, used only to emit behaviours.           *)
(***************************************************************************)
EXTENDS Naturals, Sequences, TLC, SurrogateOps

CONSTANTS ClearOnChange,   \* BOOLEAN
          UpdateMode,      \* "append" | "prepend"
          MaxChanges,      \* bound on update + optimize calls of one history
          MaxLen,          \* bound on the length of a history
          MaxEvidence,     \* bound on the number of evidence rows
          KernelDefaults   \* subset of BOOLEAN: values of _kernel_is_default explored

VARIABLES evidence, gpVersion, cacheVersion, cached, isSampling, kdef, last, hist
vars == <<evidence, gpVersion, cacheVersion, cached, isSampling, kdef, last, hist>>
state == <<evidence, gpVersion, cacheVersion, cached, isSampling, kdef>>

NewIds(k) == [i \in 1..k |-> Len(evidence) + i]
HasGp == gpVersion > 0
NoAnswer(op) == [op |-> op, path |-> "none", from |-> 0, gpv |-> gpVersion']
Changes == Len(SelectSeq(hist, LAMBDA h : h[1] \in {"update", "optimize"}))

Init == /\ evidence = <<>> /\ gpVersion = 0 /\ cacheVersion = 0 /\ cached = FALSE
        /\ isSampling = FALSE /\ kdef \in KernelDefaults
        /\ last = [op |-> "init", path |-> "none", from |-> 0, gpv |-> 0] /\ hist = <<>>

Room == Len(hist) < MaxLen

Update(k, opt) ==
  /\ Room
  /\ Len(evidence) + k <= MaxEvidence
  /\ Changes < MaxChanges
  /\ evidence' = IF UpdateMode = "append" THEN evidence \o NewIds(k) ELSE NewIds(k) \o evidence
  /\ gpVersion' = gpVersion + (IF opt THEN 2 ELSE 1)       \* rebuild (+ optimize)
  /\ cached' = IF ClearOnChange THEN FALSE ELSE cached
  /\ UNCHANGED <<cacheVersion, isSampling, kdef>>
  /\ last' = NoAnswer("update")
  /\ hist' = Append(hist, <<"update", k, opt>>)

Optimize ==
  /\ Room
  /\ HasGp                                                  \* optimize() before any update is an error
  /\ Changes < MaxChanges
  /\ gpVersion' = gpVersion + 1
  /\ cached' = IF ClearOnChange THEN FALSE ELSE cached
  /\ UNCHANGED <<evidence, cacheVersion, isSampling, kdef>>
  /\ last' = NoAnswer("optimize")
  /\ hist' = Append(hist, <<"optimize", 0, FALSE>>)

SetSampling(b) ==
  /\ Room
  /\ b # isSampling
  /\ isSampling' = b
  /\ UNCHANGED <<evidence, gpVersion, cacheVersion, cached, kdef>>
  /\ last' = NoAnswer("sampling")
  /\ hist' = Append(hist, <<"sampling", 0, b>>)

\* the branch structure shared by predict and predictive_gradients
Answer(op, libClears) ==
  /\ Room
  /\ UNCHANGED <<evidence, gpVersion, isSampling, kdef>>
  /\ hist' = Append(hist, <<op, 0, FALSE>>)
  /\ LET path == PathOf(HasGp, isSampling, kdef) IN
     CASE path = "nogp" ->
            /\ UNCHANGED <<cached, cacheVersion>>
            /\ last' = [op |-> op, path |-> "nogp", from |-> 0, gpv |-> 0]
       [] path = "fast" ->
            /\ cached' = TRUE
            /\ cacheVersion' = IF cached THEN cacheVersion ELSE gpVersion     \* _cache_RBF_kernel
            /\ last' = [op |-> op, path |-> "fast", from |-> cacheVersion', gpv |-> gpVersion]
       [] path = "lib" ->
            /\ cached' = IF libClears THEN FALSE ELSE cached
            /\ UNCHANGED cacheVersion
            /\ last' = [op |-> op, path |-> "lib", from |-> gpVersion, gpv |-> gpVersion]
Predict == Answer("predict", TRUE)
Gradients == Answer("gradients", FALSE)

Updates == \E k \in 1..2 : \E opt \in BOOLEAN : Update(k, opt)
Toggles == \E b \in BOOLEAN : SetSampling(b)
Next == Updates \/ Optimize \/ Toggles \/ Predict \/ Gradients
Spec == Init /\ [][Next]_vars

TypeOK == /\ cacheVersion <= gpVersion /\ cached \in BOOLEAN /\ isSampling \in BOOLEAN
          /\ (cached => cacheVersion > 0)
          /\ Len(evidence) <= MaxEvidence
\* (d), mechanism: whatever the fast path answers was computed from the CURRENT Gaussian process
FastPathFresh == last.path = "fast" => last.from = last.gpv
\* every answer comes from the current GP (the library path trivially)
AnswersCurrent == last.path \in {"fast", "lib"} => last.from = last.gpv
\* (e): evidence only ever grows at the end
AppendOnly == [][IsPrefix(evidence, evidence')]_evidence
EvidenceIsIdsInOrder == evidence = [i \in 1..Len(evidence) |-> i]
=============================================================================

---------------------------- MODULE PoolLifeOps ----------------------------
(***************************************************************************)
(* EXTENSION (no listed property): pure operators of PoolLife.tla, shared   *)
(* with PoolLife_Trace.tla.  One operator per public call of               *)
(* elfi.store.OutputPool / ArrayPool, transcribed from elfi/store.py, on    *)
(* an abstract state                                                        *)
(*   S = [pools, disk, cwd, torn]                                           *)
(*   pools[h]  the pool OBJECT in handle h (a Python variable): ex, kind    *)
(*             ("array" | "output"), name ("" = None), prefix, bs (0 =      *)
(*             None), seed (-1 = None), order (the keys of self.stores in   *)
(*             dict order), st[node] (the store object), and the ghost gst  *)
(*             ("open" | "closed" | "deleted": the last of close() /        *)
(*             delete() that returned).                                     *)
(*   store     k ("absent" | "none" | "dict" | "bad" | "npy"); for dicts c  *)
(*             (batch index -> value); for NpyStores n (n_batches), al      *)
(*             (len(array) in batches, as THIS object believes), op (the    *)
(*             file object is open), ini (header_length is set), d (the     *)
(*             directory of the file it works on), ref (what its            *)
(*             `filename` pickles to: the absolute directory, or Rel = a    *)
(*             path that only resolves inside the pool folder), inh (ghost: *)
(*             batches found in the file when _make_store_for made it).     *)
(*             "bad" = a user store (dict subclass) that cannot be pickled. *)
(*   disk[d]   the directory d = <<prefix, name>>: ex, pkl (the pool        *)
(*             pickle _outputpool.pkl), spk[node] (node.pkl), npy[node]     *)
(*             (node.npy: ex, ini = has a header, data = batch values).     *)
(*   cwd       the process working directory (Home or a pool directory).    *)
(*   torn      the history left the modelled domain (see below).            *)
(*                                                                         *)
(* A batch value is a small integer (the harness encodes it, the node and   *)
(* the row into the array; -1 = rows that are missing / zeros, -2 = the     *)
(* read raised).  All pools of one history use one batch_size.              *)
(*                                                                         *)
(* Deliberate deviations (named):                                           *)
(* - WRITE-THROUGH: what a store appends is in the file at once.  The       *)
(*   conformance projection flushes and reads every open store after every  *)
(*   call, which makes this true of the recorded executions; buffered /     *)
(*   crashed writes are the subject of NpyStore.tla (property C06).         *)
(* - torn: a file is cut below what ANOTHER live open store believes it     *)
(*   holds, or removed / moved under an open file object.  What follows     *)
(*   depends on memmap caching and unlinked inodes; the machine stops and   *)
(*   the trace spec accepts the prefix.                                     *)
(* - while cwd # Home nothing but ChdirHome happens (relative prefixes      *)
(*   would resolve inside the pool folder and leave Dirs).                  *)
(* - dtype / shape mismatches of appended arrays are not modelled.          *)
(*                                                                         *)
(* Fix = the set of REPAIRS applied to the transcription ({} = the code).   *)
(* Each is a finding about store.py: the repaired machine keeps the         *)
(* user-level invariants at the end of this module, and TLC refutes one of  *)
(* them as soon as a single repair is left out.                             *)
(*   "atomic"                    a call that raises leaves pools and disk   *)
(*                               as they were (remove_batch / add_batch /   *)
(*                               clear stop half way; ArrayStore.__delitem__*)
(*                               lowers n_batches BEFORE truncate raises on *)
(*                               a closed array; a refused first add_batch  *)
(*                               leaves an empty store and a 0-byte file;   *)
(*                               save() leaves the pickles written so far)  *)
(*   "save_restores_cwd"         save() returns to the old working          *)
(*                               directory when pickling a store fails      *)
(*   "make_store_exclusive"      _make_store_for refuses to adopt an        *)
(*                               existing node.npy (a NEW pool with the     *)
(*                               auto-name arraypool_<seed>, or built       *)
(*                               before its namesake made the folder,       *)
(*                               silently serves the other pool's batches)  *)
(*   "open_reconciles"           open() lowers a pickled n_batches to what  *)
(*                               the file holds (save; remove_batch / clear;*)
(*                               open -> batches that are empty arrays)     *)
(*   "empty_file_is_empty_store" a 0-byte node.npy loads as an empty store  *)
(*                               instead of open() dropping the store       *)
(*   "basename_first"            NpyArray.__setstate__ looks in the pool    *)
(*                               folder first (a COPY of a pool saved under *)
(*                               an absolute prefix works on the ORIGINAL's *)
(*                               files)                                     *)
(***************************************************************************)
EXTENDS Naturals, Integers, Sequences, FiniteSets, TLC

CONSTANTS Nodes, Prefixes, AbsPrefixes, Names, Seeds, Handles, Fix

AllFixes == {"atomic", "save_restores_cwd", "make_store_exclusive", "open_reconciles", "empty_file_is_empty_store",
             "basename_first"}

\* ------------------------------------------------------------------ universe
Kinds == {"array", "output"}
AutoName(kind, seed) == kind \o "pool_" \o ToString(seed)       \* "{}_{}".format(cls.__name__.lower(), seed)
AllNames == Names \cup {AutoName(k, s) : k \in Kinds, s \in Seeds}
Dirs == Prefixes \X AllNames
NoDir == <<"", "">>
Rel == <<"rel", "">>
Home == <<"home", "">>

SeqSet(q) == {q[j] : j \in 1..Len(q)}
Min2(a, b) == IF a <= b THEN a ELSE b
MaxOf(T) == IF T = {} THEN 0 ELSE CHOOSE m \in T : \A y \in T : y <= m
Without(q, x) == SelectSeq(q, LAMBDA y : y # x)
EmptyC == [j \in {} |-> 0]

\* ------------------------------------------------------------------ records
Absent == [k |-> "absent", n |-> 0, al |-> 0, op |-> FALSE, ini |-> FALSE, c |-> EmptyC, d |-> NoDir, ref |-> NoDir, inh |-> 0]
NoneSt == [Absent EXCEPT !.k = "none"]
DictSt(c) == [Absent EXCEPT !.k = "dict", !.c = c]
BadSt == [Absent EXCEPT !.k = "bad"]
NpySt(n, al, op, ini, d, ref, inh) == [k |-> "npy", n |-> n, al |-> al, op |-> op, ini |-> ini, c |-> EmptyC, d |-> d, ref |-> ref, inh |-> inh]
IsDict(st) == st.k \in {"dict", "bad"}

NoFile == [ex |-> FALSE, ini |-> FALSE, data |-> <<>>]
NoSpk == [k |-> "absent", n |-> 0, c |-> EmptyC, ref |-> NoDir]
NoPkl == [ex |-> FALSE, kind |-> "", bs |-> 0, seed |-> -1, order |-> <<>>]
NoDirRec == [ex |-> FALSE, pkl |-> NoPkl, spk |-> [x \in Nodes |-> NoSpk], npy |-> [x \in Nodes |-> NoFile]]
NoPool == [ex |-> FALSE, kind |-> "", name |-> "", prefix |-> "", bs |-> 0, seed |-> -1, order |-> <<>>,
           st |-> [x \in Nodes |-> Absent], gst |-> "open"]

S0 == [pools |-> [h \in Handles |-> NoPool], disk |-> [d \in Dirs |-> NoDirRec], cwd |-> Home, torn |-> FALSE]

\* every call carries every field
C0 == [op |-> "", h |-> 0, kind |-> "", outs |-> <<>>, name |-> "", prefix |-> "", bs |-> 0, seed |-> -1, i |-> 0,
       ns |-> <<>>, v |-> 0, node |-> "", what |-> "", d1 |-> NoDir, d2 |-> NoDir]

PathOf(p) == IF p.name = "" THEN NoDir ELSE <<p.prefix, p.name>>
HasCtx(p) == p.seed # -1 /\ p.bs # 0                      \* has_context: both `is not None`
SetSt(S, h, node, st) == [S EXCEPT !.pools[h].st[node] = st]
File(S, d, node) == IF d \in Dirs THEN S.disk[d].npy[node] ELSE NoFile
StoreHas(st, i) == IF IsDict(st) THEN i \in DOMAIN st.c ELSE i < st.n        \* `batch_index in store`
StLen(st) == IF IsDict(st) THEN Cardinality(DOMAIN st.c) ELSE st.n          \* len(store)
\* len(pool): the LARGEST store;  `i in pool` is len(pool) > i
PoolLen(p) == MaxOf({StLen(p.st[x]) : x \in {y \in Nodes : p.st[y].k \notin {"absent", "none"}}})

Ok(S) == [s |-> S, raised |-> ""]
Raise(S, k) == [s |-> S, raised |-> k]

\* another live store object works on the file (d, node) and believes it longer than newLen (-1: the file goes away)
TornBy(S, h, d, node, newLen) ==
  \E h2 \in Handles \ {h} : S.pools[h2].ex /\ LET t == S.pools[h2].st[node] IN t.k = "npy" /\ t.d = d /\ t.op /\ t.al > newLen
Tear(S, b) == IF b THEN [S EXCEPT !.torn = TRUE] ELSE S

\* ------------------------------------------------------------------ stores
\* OutputPool._make_store_for: {} ;  ArrayPool._make_store_for: context, makedirs(path), NpyStore(join(path, node), batch_size)
\* -> NpyArray(filename): an EXISTING file is opened and its header read (n_batches = all it holds), else a 0-byte file
MakeStore(S, h, node) ==
  LET p == S.pools[h]
      d == PathOf(p)
  IN IF p.kind = "output" THEN [s |-> S, raised |-> "", st |-> DictSt(EmptyC)]
     ELSE IF ~HasCtx(p) THEN [s |-> S, raised |-> "ValueError", st |-> Absent]
     ELSE LET S1 == [S EXCEPT !.disk[d].ex = TRUE]
              f == S1.disk[d].npy[node]
              ref == IF p.prefix \in AbsPrefixes THEN d ELSE Rel
          IN IF f.ex
             THEN IF "make_store_exclusive" \in Fix THEN [s |-> S1, raised |-> "FileExistsError", st |-> Absent]
                  ELSE IF ~f.ini THEN [s |-> S1, raised |-> "ValueError", st |-> Absent]       \* header is not 2.0 format
                  ELSE [s |-> S1, raised |-> "", st |-> NpySt(Len(f.data), Len(f.data), TRUE, TRUE, d, ref, Len(f.data))]
             ELSE [s |-> [S1 EXCEPT !.disk[d].npy[node] = [ex |-> TRUE, ini |-> FALSE, data |-> <<>>]], raised |-> "",
                   st |-> NpySt(0, 0, TRUE, FALSE, d, ref, 0)]

\* store[i] = v for i not in the store.  NpyStore.__setitem__: append when i = n_batches and the slice starts at the end
\* of the array as this object knows it, else ArrayStore.__setitem__ (in place through the memmap)
SetItem(S, h, node, i, v) ==
  LET st == S.pools[h].st[node] IN
  IF IsDict(st) THEN Ok(SetSt(S, h, node, [st EXCEPT !.c = [j \in DOMAIN st.c \cup {i} |-> IF j = i THEN v ELSE st.c[j]]]))
  ELSE LET f == File(S, st.d, node) IN
       IF i = st.n /\ i = st.al
       THEN IF ~st.op THEN Raise(S, "ValueError")                                      \* Array is not opened.
            ELSE LET data == IF st.al < Len(f.data) THEN [f.data EXCEPT ![st.al + 1] = v] ELSE Append(f.data, v)
                     S1 == [S EXCEPT !.disk[st.d].npy[node] = [ex |-> TRUE, ini |-> TRUE, data |-> data]]
                 IN Ok(SetSt(S1, h, node, [st EXCEPT !.n = st.n + 1, !.al = st.al + 1, !.ini = TRUE]))
       ELSE IF i > st.n THEN Raise(S, "IndexError")                                    \* appending further than the end
       ELSE IF i + 1 > st.al THEN Raise(S, "IndexError")                               \* not enough space left
       ELSE IF ~(st.op /\ st.ini) THEN Raise(S, "IndexError")                          \* NpyArray is not initialized
       ELSE Ok(SetSt([S EXCEPT !.disk[st.d].npy[node].data = [f.data EXCEPT ![i + 1] = v]], h, node, [st EXCEPT !.n = st.n + 1]))

\* del store[i] for i in the NpyStore: n_batches goes down FIRST, then NpyArray.truncate (which may raise)
DelItem(S, h, node, i) ==
  LET st == S.pools[h].st[node]
      f == File(S, st.d, node)
  IN IF i # st.n - 1 THEN Raise(S, "IndexError")                                       \* from the middle
     ELSE LET S1 == SetSt(S, h, node, [st EXCEPT !.n = st.n - 1]) IN
          IF ~(st.op /\ st.ini) THEN Raise(S1, "ValueError")
          ELSE LET data == IF i <= Len(f.data) THEN SubSeq(f.data, 1, i)
                           ELSE f.data \o [j \in 1..(i - Len(f.data)) |-> -1]           \* seek past the end + truncate: zeros
               IN Ok(Tear(SetSt([S1 EXCEPT !.disk[st.d].npy[node].data = data], h, node, [st EXCEPT !.n = st.n - 1, !.al = i]),
                          TornBy(S, h, st.d, node, i)))

\* ArrayStore.clear: array.clear() = truncate(0), THEN n_batches = 0
ClearStore(S, h, node) ==
  LET st == S.pools[h].st[node] IN
  IF IsDict(st) THEN Ok(SetSt(S, h, node, [st EXCEPT !.c = EmptyC]))
  ELSE IF ~(st.op /\ st.ini) THEN Raise(S, "ValueError")
  ELSE Ok(Tear(SetSt([S EXCEPT !.disk[st.d].npy[node].data = <<>>], h, node, [st EXCEPT !.n = 0, !.al = 0]),
               TornBy(S, h, st.d, node, 0)))

\* store[i] for i in the store: a slice of the memmap (shorter or empty where the array ends before the batch does)
ReadItem(S, st, node, i) ==
  IF IsDict(st) THEN st.c[i]
  ELSE LET f == File(S, st.d, node) IN IF i < st.al /\ i < Len(f.data) THEN f.data[i + 1] ELSE -1

\* ------------------------------------------------------------------ the loops over self.stores (dict order)
RECURSIVE AddLoop(_, _, _, _, _)
AddLoop(S, h, ns, i, v) ==
  IF ns = <<>> THEN Ok(S)
  ELSE LET node == Head(ns)
           st == S.pools[h].st[node]
       IN IF st.k = "absent" THEN AddLoop(S, h, Tail(ns), i, v)                         \* node not in self.stores: continue
          ELSE LET m == IF st.k = "none" THEN MakeStore(S, h, node) ELSE [s |-> S, raised |-> "", st |-> st] IN
               IF m.raised # "" THEN Raise(m.s, m.raised)
               ELSE LET S1 == SetSt(m.s, h, node, m.st) IN
                    IF StoreHas(m.st, i) THEN AddLoop(S1, h, Tail(ns), i, v)            \* do not add again
                    ELSE LET w == SetItem(S1, h, node, i, v) IN
                         IF w.raised # "" THEN w ELSE AddLoop(w.s, h, Tail(ns), i, v)

RECURSIVE RemoveLoop(_, _, _, _)
RemoveLoop(S, h, ord, i) ==
  IF ord = <<>> THEN Ok(S)
  ELSE LET node == Head(ord)
           st == S.pools[h].st[node]
       IN IF st.k = "none" THEN Raise(S, "TypeError")                                   \* `i in None`
          ELSE IF ~StoreHas(st, i) THEN RemoveLoop(S, h, Tail(ord), i)
          ELSE IF IsDict(st)
               THEN RemoveLoop(SetSt(S, h, node, [st EXCEPT !.c = [j \in DOMAIN st.c \ {i} |-> st.c[j]]]), h, Tail(ord), i)
          ELSE LET w == DelItem(S, h, node, i) IN IF w.raised # "" THEN w ELSE RemoveLoop(w.s, h, Tail(ord), i)

RECURSIVE ClearLoop(_, _, _)
ClearLoop(S, h, ord) ==
  IF ord = <<>> THEN Ok(S)
  ELSE LET node == Head(ord) IN
       IF S.pools[h].st[node].k = "none" THEN Raise(S, "AttributeError")                \* None.clear()
       ELSE LET w == ClearStore(S, h, node) IN IF w.raised # "" THEN w ELSE ClearLoop(w.s, h, Tail(ord))

\* get_batch(i, output_names or all): [s, raised, ret] with ret = <<node, value>> pairs in the order of the names
RECURSIVE GetLoop(_, _, _, _, _)
GetLoop(S, h, ord, i, acc) ==
  IF ord = <<>> THEN [s |-> S, raised |-> "", ret |-> acc]
  ELSE LET node == Head(ord)
           st == S.pools[h].st[node]
       IN IF st.k = "absent" THEN [s |-> S, raised |-> "KeyError", ret |-> <<>>]           \* self.stores[output]
          ELSE IF st.k = "none" \/ ~StoreHas(st, i) THEN GetLoop(S, h, Tail(ord), i, acc)
          ELSE IF st.k = "npy" /\ ~(st.op /\ st.ini) THEN [s |-> S, raised |-> "IndexError", ret |-> <<>>]
          ELSE GetLoop(S, h, Tail(ord), i, Append(acc, <<node, ReadItem(S, st, node, i)>>))

\* pickle.dump(store, open(node + '.pkl', 'wb')) for every store; a store that cannot be pickled leaves an EMPTY node.pkl
RECURSIVE SaveLoop(_, _, _, _)
SaveLoop(S, h, d, ord) ==
  IF ord = <<>> THEN Ok(S)
  ELSE LET node == Head(ord)
           st == S.pools[h].st[node]
       IN IF st.k = "bad" THEN Raise([S EXCEPT !.disk[d].spk[node] = [NoSpk EXCEPT !.k = "empty"]], "OSError")
          ELSE SaveLoop([S EXCEPT !.disk[d].spk[node] = [k |-> st.k, n |-> st.n, c |-> st.c, ref |-> st.ref]], h, d, Tail(ord))

\* store.close() where the store has one: NpyArray.close only closes an INITIALISED array
RECURSIVE CloseLoop(_, _, _)
CloseLoop(S, h, ord) ==
  IF ord = <<>> THEN S
  ELSE LET node == Head(ord)
           st == S.pools[h].st[node]
       IN CloseLoop(IF st.k = "npy" /\ st.op /\ st.ini THEN SetSt(S, h, node, [st EXCEPT !.op = FALSE]) ELSE S, h, Tail(ord))

RECURSIVE FlushLoop(_, _, _)
FlushLoop(S, h, ord) ==
  IF ord = <<>> THEN Ok(S)
  ELSE LET st == S.pools[h].st[Head(ord)] IN
       IF st.k = "npy" /\ ~st.op THEN Raise(S, "ValueError")                            \* flush of closed file
       ELSE FlushLoop(S, h, Tail(ord))

\* open(): the stores named by the pool pickle are loaded from their own pickles; one that fails to load is DROPPED
LoadStore(S, d, node) ==
  LET k == S.disk[d].spk[node]
      own == File(S, d, node).ex
      orig == k.ref \in Dirs /\ S.disk[k.ref].ex /\ File(S, k.ref, node).ex
      \* NpyArray.__setstate__: the pickled filename if it exists, else its basename in the pool folder (the cwd)
      rd == IF "basename_first" \in Fix THEN (IF own THEN d ELSE IF orig THEN k.ref ELSE NoDir)
            ELSE (IF orig THEN k.ref ELSE IF own THEN d ELSE NoDir)
      f == File(S, rd, node)
      ref == IF rd = k.ref THEN k.ref ELSE Rel
  IN IF k.k \in {"absent", "empty"} THEN Absent                                         \* FileNotFoundError / EOFError
     ELSE IF k.k = "none" THEN NoneSt
     ELSE IF k.k = "dict" THEN DictSt(k.c)
     ELSE IF rd = NoDir THEN Absent                                                     \* Could not find the file
     ELSE IF ~f.ini THEN (IF "empty_file_is_empty_store" \in Fix THEN NpySt(0, 0, TRUE, FALSE, rd, ref, 0) ELSE Absent)
     ELSE NpySt(IF "open_reconciles" \in Fix THEN Min2(k.n, Len(f.data)) ELSE k.n, Len(f.data), TRUE, TRUE, rd, ref, 0)

\* ------------------------------------------------------------------ the public calls: [s, raised, ret]
R3(w) == [s |-> w.s, raised |-> w.raised, ret |-> <<>>]

New(S, c) ==
  IF c.name # "" /\ S.disk[<<c.prefix, c.name>>].ex THEN R3(Raise(S, "ValueError"))      \* a pool with this name already exists
  ELSE R3(Ok([S EXCEPT !.pools[c.h] = [ex |-> TRUE, kind |-> c.kind, name |-> c.name, prefix |-> c.prefix, bs |-> 0, seed |-> -1,
                                       order |-> c.outs,
                                       st |-> [x \in Nodes |-> IF x \in SeqSet(c.outs) THEN NoneSt ELSE Absent],
                                       gst |-> "open"]]))

SetContext(S, c) ==
  LET p == S.pools[c.h] IN
  IF HasCtx(p) THEN R3(Raise(S, "ValueError"))
  ELSE R3(Ok([S EXCEPT !.pools[c.h].bs = c.bs, !.pools[c.h].seed = c.seed,
                       !.pools[c.h].name = IF p.name = "" THEN AutoName(p.kind, c.seed) ELSE p.name]))

AddBatch(S, c) == R3(AddLoop(S, c.h, c.ns, c.i, c.v))
RemoveBatch(S, c) == R3(RemoveLoop(S, c.h, S.pools[c.h].order, c.i))
GetBatch(S, c) == GetLoop(S, c.h, IF c.ns = <<>> THEN S.pools[c.h].order ELSE c.ns, c.i, <<>>)
Clear(S, c) == R3(ClearLoop(S, c.h, S.pools[c.h].order))
Flush(S, c) == R3(FlushLoop(S, c.h, S.pools[c.h].order))

AddStore(S, c) ==
  LET p == S.pools[c.h]
      st == p.st[c.node]
  IN IF st.k \notin {"absent", "none"} THEN R3(Raise(S, "ValueError"))                   \* Store already exists
     ELSE LET m == IF c.what = "default" THEN MakeStore(S, c.h, c.node)
                   ELSE [s |-> S, raised |-> "", st |-> IF c.what = "bad" THEN BadSt ELSE DictSt(EmptyC)]
          IN IF m.raised # "" THEN R3(Raise(m.s, m.raised))
             ELSE R3(Ok([SetSt(m.s, c.h, c.node, m.st) EXCEPT
                           !.pools[c.h].order = IF c.node \in SeqSet(p.order) THEN p.order ELSE Append(p.order, c.node)]))

RemoveStore(S, c) ==
  LET p == S.pools[c.h] IN
  IF p.st[c.node].k = "absent" THEN R3(Raise(S, "KeyError"))
  ELSE R3(Ok([SetSt(S, c.h, c.node, Absent) EXCEPT !.pools[c.h].order = Without(p.order, c.node)]))

Save(S, c) ==
  LET p == S.pools[c.h]
      d == PathOf(p)
  IN IF ~HasCtx(p) THEN R3(Raise(S, "ValueError"))
     ELSE LET S1 == [S EXCEPT !.disk[d].ex = TRUE, !.cwd = d]                           \* makedirs, chdir
              w == SaveLoop(S1, c.h, d, p.order)
          IN IF w.raised # ""
             THEN R3(Raise(IF "save_restores_cwd" \in Fix THEN [w.s EXCEPT !.cwd = Home] ELSE w.s, w.raised))
             ELSE R3(Ok([w.s EXCEPT !.cwd = Home,
                                    !.disk[d].pkl = [ex |-> TRUE, kind |-> p.kind, bs |-> p.bs, seed |-> p.seed, order |-> p.order]]))

Close(S, c) ==
  LET w == Save(S, c) IN
  IF w.raised # "" THEN w
  ELSE R3(Ok([CloseLoop(w.s, c.h, w.s.pools[c.h].order) EXCEPT !.pools[c.h].gst = "closed"]))

Delete(S, c) ==
  LET S1 == CloseLoop(S, c.h, S.pools[c.h].order)
      d == PathOf(S.pools[c.h])
      S2 == [S1 EXCEPT !.pools[c.h].gst = "deleted"]
  IN IF d = NoDir \/ ~S1.disk[d].ex THEN R3(Ok(S2))
     ELSE R3(Ok(Tear([S2 EXCEPT !.disk[d] = NoDirRec], \E x \in Nodes : TornBy(S1, 0, d, x, -1))))      \* shutil.rmtree

RECURSIVE LoadLoop(_, _, _, _)
LoadLoop(S, d, ord, p) ==
  IF ord = <<>> THEN p
  ELSE LET node == Head(ord)
           st == LoadStore(S, d, node)
       IN LoadLoop(S, d, Tail(ord), IF st.k = "absent" THEN p ELSE [p EXCEPT !.order = Append(p.order, node), !.st[node] = st])

Open(S, c) ==
  LET d == <<c.prefix, c.name>>
      k == S.disk[d].pkl
  IN IF ~(S.disk[d].ex /\ k.ex) THEN R3(Raise(S, "FileNotFoundError"))
     ELSE R3(Ok([S EXCEPT !.pools[c.h] = LoadLoop(S, d, k.order,
                   [NoPool EXCEPT !.ex = TRUE, !.kind = k.kind, !.name = c.name, !.prefix = c.prefix, !.bs = k.bs, !.seed = k.seed])]))

\* the Python variable is dropped (ArrayStore.__del__ closes the files; write-through: nothing else happens)
Drop(S, c) == R3(Ok([S EXCEPT !.pools[c.h] = NoPool]))

\* environment: the folder is renamed / copied with everything in it, while no file object is open in it
OpenIn(S, d) == \E h \in Handles, x \in Nodes : S.pools[h].ex /\ S.pools[h].st[x].k = "npy" /\ S.pools[h].st[x].d = d /\ S.pools[h].st[x].op
MoveDir(S, c) ==
  IF ~S.disk[c.d1].ex \/ S.disk[c.d2].ex THEN R3(Raise(S, "OSError"))
  ELSE R3(Ok(Tear([S EXCEPT !.disk[c.d2] = S.disk[c.d1], !.disk[c.d1] = NoDirRec], OpenIn(S, c.d1))))
CopyDir(S, c) ==
  IF ~S.disk[c.d1].ex \/ S.disk[c.d2].ex THEN R3(Raise(S, "OSError"))
  ELSE R3(Ok([S EXCEPT !.disk[c.d2] = S.disk[c.d1]]))
ChdirHome(S, c) == R3(Ok([S EXCEPT !.cwd = Home]))

EnvOps == {"move", "copy", "chdir_home"}
NeedsPool == {"set_context", "add_batch", "remove_batch", "get_batch", "clear", "flush", "add_store", "remove_store", "save",
              "close", "delete", "drop"}

RunRaw(S, c) ==
  CASE c.op = "new" -> New(S, c)
    [] c.op = "set_context" -> SetContext(S, c)
    [] c.op = "add_batch" -> AddBatch(S, c)
    [] c.op = "remove_batch" -> RemoveBatch(S, c)
    [] c.op = "get_batch" -> GetBatch(S, c)
    [] c.op = "clear" -> Clear(S, c)
    [] c.op = "flush" -> Flush(S, c)
    [] c.op = "add_store" -> AddStore(S, c)
    [] c.op = "remove_store" -> RemoveStore(S, c)
    [] c.op = "save" -> Save(S, c)
    [] c.op = "close" -> Close(S, c)
    [] c.op = "delete" -> Delete(S, c)
    [] c.op = "open" -> Open(S, c)
    [] c.op = "drop" -> Drop(S, c)
    [] c.op = "move" -> MoveDir(S, c)
    [] c.op = "copy" -> CopyDir(S, c)
    [] c.op = "chdir_home" -> ChdirHome(S, c)

\* one public call: the transcription w = RunRaw(S, c), then the repair "atomic"
Finish(S, c, w) ==
  [s |-> IF w.raised # "" /\ "atomic" \in Fix THEN [S EXCEPT !.cwd = w.s.cwd] ELSE w.s, raised |-> w.raised, ret |-> w.ret]
Run(S, c) == Finish(S, c, RunRaw(S, c))

\* ------------------------------------------------------------------ ghosts for the round trip
StoreView(S, node, st) ==
  IF st.k = "npy" THEN LET f == File(S, st.d, node) IN
                       [k |-> "npy", n |-> st.n, ini |-> st.ini, fx |-> f.ex, vals |-> SubSeq(f.data, 1, Min2(st.n, Len(f.data)))]
  ELSE [k |-> st.k, n |-> StLen(st), ini |-> FALSE, fx |-> TRUE, vals |-> st.c]
View(S, p) == [kind |-> p.kind, bs |-> p.bs, seed |-> p.seed, order |-> p.order,
               sv |-> [j \in 1..Len(p.order) |-> StoreView(S, p.order[j], p.st[p.order[j]])]]
NoView == [kind |-> "", bs |-> 0, seed |-> -1, order |-> <<>>, sv |-> <<>>]
G0 == [snap |-> [d \in Dirs |-> NoView], snapok |-> [d \in Dirs |-> FALSE], jo |-> [h \in Handles |-> FALSE]]

RefDirs(S, d) == {d} \cup ({S.disk[d].spk[x].ref : x \in Nodes} \cap Dirs)
\* snap[d] = what the pool looked like when close() last returned into d; snapok[d] = nothing d's pickles refer to changed
\* since; jo[h] = the pool in h was returned by open() after that close(), and no call was made on it since
GhostStep(G, S, c, r) ==
  LET same(d) == \A dd \in RefDirs(S, d) : r.s.disk[dd] = S.disk[dd]
      kept == [d \in Dirs |-> G.snapok[d] /\ same(d)]
      closed == IF c.op = "close" /\ r.raised = "" THEN PathOf(r.s.pools[c.h]) ELSE NoDir
      jo == [h \in Handles |-> IF h = c.h THEN c.op = "open" /\ r.raised = ""
                                ELSE G.jo[h] /\ r.s.pools[h].ex /\ PathOf(r.s.pools[h]) # closed]
  IN IF closed # NoDir
     THEN [snap |-> [G.snap EXCEPT ![closed] = View(r.s, r.s.pools[c.h])], snapok |-> [kept EXCEPT ![closed] = TRUE], jo |-> jo]
     ELSE IF c.op \in {"move", "copy"} /\ r.raised = ""
     THEN [snap |-> [G.snap EXCEPT ![c.d2] = G.snap[c.d1]],
           snapok |-> [d \in Dirs |-> IF d = c.d2 THEN G.snapok[c.d1] ELSE IF d = c.d1 /\ c.op = "move" THEN FALSE ELSE kept[d]],
           jo |-> jo]
     ELSE [snap |-> G.snap, snapok |-> kept, jo |-> jo]

\* ------------------------------------------------------------------ what a user relies on: state invariants
Live(S) == {h \in Handles : S.pools[h].ex}
\* close() ; open(name, prefix) gives the same pool: stores (in order), batch_size, seed, and per store the same batches
RoundTripFor(S, G, strict) ==
  \A h \in Live(S) : LET p == S.pools[h] d == PathOf(p) IN
     (G.jo[h] /\ d \in Dirs /\ G.snapok[d]
        /\ (\A j \in 1..Len(G.snap[d].sv) : G.snap[d].sv[j].k = "npy" => (G.snap[d].sv[j].fx /\ (strict => G.snap[d].sv[j].ini))))
     => View(S, p) = G.snap[d]
InvRoundTrip(S, G) == S.torn \/ RoundTripFor(S, G, FALSE)
InvRoundTripInitialised(S, G) == S.torn \/ RoundTripFor(S, G, TRUE)          \* what the code as it is keeps
\* every batch a usable store claims to hold is backed by data
InvNoPhantoms(S) == S.torn \/ \A h \in Live(S), x \in Nodes : LET st == S.pools[h].st[x] IN
                                (st.k = "npy" /\ st.op) => st.n <= Len(File(S, st.d, x).data)
\* a pool built with the constructor holds only what was added through it
InvFreshIsEmpty(S) == \A h \in Live(S), x \in Nodes : S.pools[h].st[x].inh = 0
InvCwdKept(S) == S.cwd = Home
\* the stores of a pool work on files in the pool's own folder
InvSelfContained(S) == S.torn \/ \A h \in Live(S), x \in Nodes : LET st == S.pools[h].st[x] IN st.k = "npy" => st.d = PathOf(S.pools[h])

\* ------------------------------------------------------------------ ... and about single calls (S before, T after)
Strip(p) == [p EXCEPT !.gst = "open"]
PoolsEq(S, T) == \A h \in Handles : Strip(S.pools[h]) = Strip(T.pools[h])
\* a call that raises changes nothing
AtomicOK(S, T, c, raised) == (raised # "" /\ ~T.torn) => (PoolsEq(S, T) /\ T.disk = S.disk)
\* a call on a pool changes nothing outside that pool's folder (same name under another prefix, other names)
IsolationOK(S, T, c) ==
  (c.op \notin EnvOps /\ c.h \in Handles /\ ~T.torn) =>
     \A d \in Dirs : T.disk[d] # S.disk[d] => d \in {PathOf(S.pools[c.h]), PathOf(T.pools[c.h])}
\* delete() removes the folder;  close() keeps every data file as it is and leaves the pickles;  clear() keeps the stores
DeleteOK(S, T, c, raised) ==
  (c.op = "delete" /\ raised = "" /\ PathOf(S.pools[c.h]) # NoDir /\ ~T.torn) => ~T.disk[PathOf(S.pools[c.h])].ex
CloseOK(S, T, c, raised) ==
  (c.op = "close" /\ raised = "") =>
     LET d == PathOf(T.pools[c.h]) IN
     /\ T.disk[d].ex /\ T.disk[d].pkl.ex /\ T.disk[d].npy = S.disk[d].npy
     /\ T.disk[d].pkl.order = T.pools[c.h].order
     /\ \A x \in Nodes : LET st == T.pools[c.h].st[x] IN (st.k = "npy" /\ st.ini) => ~st.op
ClearOK(S, T, c, raised) ==
  (c.op = "clear" /\ raised = "" /\ ~T.torn) =>
     /\ T.pools[c.h].order = S.pools[c.h].order
     /\ \A x \in Nodes : T.pools[c.h].st[x].k = S.pools[c.h].st[x].k /\ (T.pools[c.h].st[x].k # "absent" => StLen(T.pools[c.h].st[x]) = 0)
\* save() / close() need the context;  an ArrayPool makes no store without it;  set_context is accepted once
ContextOK(S, T, c, raised) ==
  /\ (c.op \in {"save", "close"} /\ ~HasCtx(S.pools[c.h])) => (raised = "ValueError" /\ T.disk = S.disk)
  /\ (c.op = "set_context" /\ HasCtx(S.pools[c.h])) => (raised = "ValueError" /\ PoolsEq(S, T))
  /\ (c.op = "set_context" /\ ~HasCtx(S.pools[c.h])) => (raised = "" /\ HasCtx(T.pools[c.h]) /\ T.pools[c.h].name # "")
\* the constructor never takes over an existing folder
NewOK(S, T, c, raised) ==
  (c.op = "new" /\ c.name # "") => (raised = "ValueError" <=> S.disk[<<c.prefix, c.name>>].ex)
=============================================================================

SPECIFICATION Spec
CONSTANTS
  High = 2
  StreamLen = 6
  MaxIdx = 2
  MaxCalls = 5
INVARIANT HistoryIndependent
INVARIANT Distinct
INVARIANT InRange
INVARIANT Rejects
INVARIANT CacheConsistent
CHECK_DEADLOCK FALSE

\* RoundGate.tla by hand (the driver harness/props/x_round_gate.py generates its configurations; this is its quick sweep):
\*   cd spec; java -cp tla2tools.jar:CommunityModules-deps.jar tlc2.TLC -workers 3 -config MC_RoundGate.cfg RoundGate.tla
SPECIFICATION Spec
CONSTANTS
  Kinds = {"bo", "bolfire", "bsl"}
  MaxPars = {3}
  BSs = {1, 2}
  Ks = {1, 3}
  NInits = {0, 2}
  NPres = {0, 2}
  BPAs = {1, 2}
  Upds = {0, 2}
  Asyncs = {FALSE, TRUE}
  BoO1s = {6}
  BoO2s = {0, 8}
  MbO1s = {2}
  MbO2s = {0, 3}
  Gates = {TRUE}
  ReInits = {TRUE}
INVARIANT Bounded
INVARIANT NothingCancelled
INVARIANT NoLeak
INVARIANT PendingAreTasks
INVARIANT NeverWaitsOnNothing
INVARIANT PendingInIndexOrder
INVARIANT SimCounts
INVARIANT MbRoundExact
INVARIANT MbNoEarlySubmit
INVARIANT MbFreshPointPerRound
INVARIANT MbCounters
INVARIANT MbTermination
INVARIANT BolfireAcqSeesAll
INVARIANT BolfireFedPerRound
INVARIANT BoFedInOrderOnce
INVARIANT BoQueueExact
INVARIANT BoAcquiredAccounted
INVARIANT BoAcqWindow
INVARIANT BoSyncSeesAll
INVARIANT BoSyncEvidenceScheduleFree
INVARIANT UpdateGate
INVARIANT BoTotal
INVARIANT SyncAcqAfterInitialEvidence
PROPERTY Terminates
CHECK_DEADLOCK FALSE

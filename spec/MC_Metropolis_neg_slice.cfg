SPECIFICATION Spec
CONSTANTS
  MaxN = 2
  MaxW = 1
  GuardInf = TRUE
  GuardNaN = TRUE
  SliceFrom = 0
  StartClass = "fin"
INVARIANT LengthExact
CHECK_DEADLOCK FALSE

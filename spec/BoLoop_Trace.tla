---------------------------- MODULE BoLoop_Trace ----------------------------
(***************************************************************************)
(* Trace validation for C11.  Two kinds of traces:                         *)
(*  kind "bo": one real BayesianOptimization / BOLFI fit through the        *)
(*    scheduled client: the client events of Batches_Trace (submit, ready,  *)
(*    get, rm) plus "acq" (an acquire(n, t) call: points returned, number    *)
(*    of batches pending at that moment) and a final "end" event with the   *)
(*    bounds, every consumed simulated row (batch, coordinates, target      *)
(*    value as logged by the operations themselves), the surrogate's X / Y  *)
(*    rows, n_evidence, and the result digest vs the sequential run.        *)
(*  kind "acq": direct acquire(n, t) calls of an acquisition class on a     *)
(*    fitted surrogate, and gradient checks (analytic gradient vs central   *)
(*    difference of the same acquisition function).                         *)
(* Coordinates / values are fixed-point integers (1e-6).                    *)
(***************************************************************************)
EXTENDS Naturals, Integers, Sequences, FiniteSets, TLC, Json, IOUtils

Traces == JsonDeserialize(IOEnv.TRACE_FILE)
VARIABLES tid, l, pending, nCons, removed, verdict, drift, done
vars == <<tid, l, pending, nCons, removed, verdict, drift, done>>
T == Traces[tid]
Abs(x) == IF x < 0 THEN -x ELSE x

Init == /\ tid \in 1..Len(Traces) /\ l = 1 /\ pending = <<>> /\ nCons = 0 /\ removed = {}
        /\ verdict = "ok" /\ drift = "" /\ done = FALSE

Has(id) == \E i \in 1..Len(pending) : pending[i][2] = id
IdxOf(id) == CHOOSE i \in 1..Len(pending) : pending[i][2] = id
Drop(i) == SubSeq(pending, 1, i - 1) \o SubSeq(pending, i + 1, Len(pending))
InBounds(p) == \A j \in 1..Len(p) : T.bounds[j][1] <= p[j] /\ p[j] <= T.bounds[j][2]

JudgeP(e) ==
  CASE e.ev = "submit" -> IF Len(pending) + 1 > T.maxpar THEN "P:bounded-outstanding" ELSE "ok"
    [] e.ev = "get" ->
         IF e.id \in removed THEN "P:no-cancelled-result-used"
         ELSE IF ~Has(e.id) THEN "P:each-batch-consumed-once"
         ELSE IF pending[IdxOf(e.id)][1] # nCons THEN "P:consumed-in-index-order"
         ELSE "ok"
    [] e.ev = "acq" ->
         IF e.raised = "ValueError" /\ e.unservable THEN "ok"          \* more points requested than the sampler keeps: refused
         ELSE IF e.raised # "" THEN "P:acquire-returns"
         ELSE IF Len(e.pts) # e.n THEN "P:acquire-returns-exactly-n-points"
         ELSE IF \E i \in 1..Len(e.pts) : ~InBounds(e.pts[i]) THEN "P:acquired-points-inside-bounds"
         ELSE "ok"
    [] e.ev = "grad" ->
         IF \E j \in 1..Len(e.g) : Abs(e.g[j] - e.fd[j]) > e.tol THEN "P:acquisition-gradient-is-derivative" ELSE "ok"
    [] e.ev = "end" ->
         IF e.raised # "" THEN "P:optimisation-returns"
         ELSE IF pending # <<>> \/ e.left # 0 THEN "P:no-task-left-in-client"
         ELSE IF \E i \in 1..Len(e.sims) : e.sims[i][1] >= T.offb /\ ~InBounds(e.sims[i][2]) THEN "P:simulated-acquired-points-inside-bounds"
         ELSE IF Len(e.xrows) # e.pre + Len(e.sims) THEN "P:evidence-is-precomputed-plus-consumed"
         ELSE IF \E i \in 1..Len(e.sims) : e.xrows[e.pre + i] # e.sims[i][2] \/ e.yrows[e.pre + i] # e.sims[i][3] THEN "P:evidence-rows-are-the-simulated-pairs-in-order"
         ELSE IF \E i \in 1..Len(e.sims) : e.sims[i][1] # (i - 1) \div T.bs THEN "P:evidence-rows-are-the-simulated-pairs-in-order"
         ELSE IF e.n_evidence # Len(e.xrows) THEN "P:n_evidence-counts-evidence"
         ELSE IF T.sync /\ e.digest # T.seq THEN "P:synchronous-fit-independent-of-schedule"
         ELSE "ok"
    [] OTHER -> "ok"

\* mechanism (BoLoop.tla): a synchronous acquisition happens only with nothing pending
JudgeM(e) ==
  CASE e.ev = "acq" -> IF T.sync /\ T.kind = "bo" /\ e.pend # 0 THEN "M:acquisition-with-batches-pending"
                       ELSE IF T.kind = "bo" /\ e.n # T.bs * T.bpa THEN "M:acquisition-size"
                       ELSE ""
    [] e.ev = "rm" -> IF ~Has(e.id) THEN "M:remove-unknown-task" ELSE ""
    [] OTHER -> ""

Apply(e) ==
  CASE e.ev = "submit" -> pending' = Append(pending, <<e.bi, e.id>>) /\ UNCHANGED <<nCons, removed>>
    [] e.ev = "get" -> pending' = Drop(IdxOf(e.id)) /\ nCons' = nCons + 1 /\ UNCHANGED removed
    [] e.ev = "rm" -> /\ removed' = removed \cup {e.id} /\ UNCHANGED nCons
                      /\ pending' = IF Has(e.id) THEN Drop(IdxOf(e.id)) ELSE pending
    [] OTHER -> UNCHANGED <<pending, nCons, removed>>

Step == /\ ~done
        /\ IF l > Len(T.events) THEN done' = TRUE /\ UNCHANGED <<tid, l, pending, nCons, removed, verdict, drift>>
           ELSE LET e == T.events[l] j == JudgeP(e) IN
                /\ verdict' = j /\ done' = (j # "ok") /\ l' = l + 1 /\ UNCHANGED tid
                /\ drift' = IF drift # "" THEN drift ELSE JudgeM(e)
                /\ IF j = "ok" THEN Apply(e) ELSE UNCHANGED <<pending, nCons, removed>>
Spec == Init /\ [][Step]_vars
Report == done => PrintT(<<"V", tid, l, verdict, drift>>)
=============================================================================

-------------------------------- MODULE GmRvs --------------------------------
(***************************************************************************)
(* Design module for the constrained sampler of C13                        *)
(*     elfi.methods.utils.GMDistribution.rvs(means, cov, weights, size,    *)
(*                                           prior_logpdf, random_state)   *)
(*                                                                         *)
(*   output = np.empty((size,) + means.shape[1:])                          *)
(*   n_accepted = 0; n_left = size; trials = 0                             *)
(*   while n_accepted < size:                                              *)
(*       inds = random_state.choice(len(means), size=n_left, p=weights)    *)
(*       x = means[inds] + perturbation                 # n_left proposals *)
(*       if prior_logpdf is not None:                                      *)
(*           x = x[np.isfinite(prior_logpdf(x))]        # keep the valid   *)
(*       n_accepted1 = len(x)                                              *)
(*       output[n_accepted: n_accepted + n_accepted1] = x                  *)
(*       n_accepted += n_accepted1; n_left -= n_accepted1                  *)
(*       trials += 1; if trials == 100: warn                               *)
(*   return output[0] if size was None else output                         *)
(*                                                                         *)
(* One loop iteration is the action Trial(m): the environment (generator + *)
(* constraint) decides how many, m, of the n_left proposals are valid.     *)
(* Accepted points are numbered 1, 2, ... in the order of acceptance; an   *)
(* output slot holds such a number, or 0 = uninitialised (np.empty).       *)
(* Rejected proposals never get a number, so "a slot holds a number" is    *)
(* "the slot holds a point that satisfied the constraint".                 *)
(* trials is counted up to WarnAt + 1 only (it has no other effect).       *)
(*                                                                         *)
(* LeftBug = TRUE is the negative control  `n_left -= n_accepted`.         *)
(***************************************************************************)
EXTENDS Naturals, Integers, Sequences, FiniteSets, TLC

CONSTANTS MaxSize,   \* requested sizes 0..MaxSize (size=None is size 1, unwrapped)
          WarnAt,    \* the code's 100
          LeftBug    \* negative control

VARIABLES pc,        \* "loop" | "done" | "raise"
          size, nowrap, nacc, nleft, trials, warned,
          out,       \* the output array: slot -> number of the accepted point, 0 = uninitialised
          total      \* number of points accepted so far (numbering)
vars == <<pc, size, nowrap, nacc, nleft, trials, warned, out, total>>

Min(x, y) == IF x < y THEN x ELSE y

Init == /\ size \in 0..MaxSize
        /\ nowrap \in BOOLEAN /\ (nowrap => size = 1)
        /\ pc = "loop" /\ nacc = 0 /\ nleft = size /\ trials = 0 /\ warned = FALSE
        /\ out = [j \in 1..size |-> 0]
        /\ total = 0

\* one iteration of the while loop in which m proposals are valid
Trial(m) ==
  /\ pc = "loop" /\ nacc < size
  /\ nleft >= 0                                  \* else Choice raises, see ChoiceRaises
  /\ m <= nleft                                  \* at most all of the n_left proposals
  /\ IF nacc + m > size
     THEN \* the slice output[nacc : nacc+m] is shorter than x: numpy raises ValueError
          /\ pc' = "raise" /\ UNCHANGED <<nacc, nleft, trials, warned, out, total>>
     ELSE /\ out' = [j \in 1..size |-> IF j > nacc /\ j <= nacc + m THEN total + (j - nacc) ELSE out[j]]
          /\ total' = total + m
          /\ nacc' = nacc + m
          /\ nleft' = IF LeftBug THEN nleft - (nacc + m) ELSE nleft - m
          /\ trials' = Min(trials + 1, WarnAt + 1)
          /\ warned' = (warned \/ trials + 1 = WarnAt)
          /\ pc' = pc
  /\ UNCHANGED <<size, nowrap>>

\* random_state.choice(size=n_left) with a negative size raises ValueError
ChoiceRaises == /\ pc = "loop" /\ nacc < size /\ nleft < 0
                /\ pc' = "raise"
                /\ UNCHANGED <<size, nowrap, nacc, nleft, trials, warned, out, total>>

Return == /\ pc = "loop" /\ nacc >= size
          /\ pc' = "done"
          /\ UNCHANGED <<size, nowrap, nacc, nleft, trials, warned, out, total>>

AcceptSome == \E m \in 1..MaxSize : Trial(m)
AcceptNone == Trial(0)
Next == AcceptSome \/ AcceptNone \/ ChoiceRaises \/ Return
\* "acceptance is possible": the environment does not reject for ever
Spec == Init /\ [][Next]_vars /\ WF_vars(AcceptSome) /\ WF_vars(Return) /\ WF_vars(ChoiceRaises)

\* ---- properties (C13 f) ------------------------------------------------------------
\* what the call returns: the whole array, or its first row when size was None
Returned == IF nowrap THEN <<out[1]>> ELSE out
\* exactly the requested number of points, each of them a point (no uninitialised slot) ...
ExactCount == pc = "done" => /\ Len(Returned) = size
                             /\ \A j \in 1..Len(Returned) : Returned[j] # 0
\* ... all satisfying the constraint: every filled slot holds an accepted point
AllValid == \A j \in 1..size : out[j] # 0 => out[j] \in 1..total
\* mechanism: the accepted points in their order of acceptance, none lost, none twice
InOrder == /\ \A j \in 1..size : out[j] # 0 <=> j <= nacc
           /\ \A j \in 1..size : out[j] # 0 => out[j] = j
           /\ nacc = total
Conservation == pc = "loop" => nleft + nacc = size
NeverRaises == pc # "raise"
WarnedIff == warned <=> trials >= WarnAt
\* a trial writes only inside the array and never over a slot written before
WindowDisjoint == [][\A j \in 1..size : out[j] # 0 => out'[j] = out[j]]_vars
\* the loop draws exactly as many proposals as are still missing
DrawsWhatIsMissing == pc = "loop" => nleft = size - nacc
\* liveness: when acceptance is possible (fairness of AcceptSome) the call returns
Terminates == <>(pc = "done")
=============================================================================

---------------------------- MODULE NutsTreeOps ----------------------------
(***************************************************************************)
(* Control skeleton of elfi.methods.mcmc.nuts / _build_tree_nuts, shared   *)
(* by the design module NutsTree.tla and the trace spec Nuts_Trace.tla.    *)
(*                                                                         *)
(* One leapfrog step (the depth-0 case of _build_tree_nuts) is a LEAF with *)
(* an abstract outcome                                                     *)
(*    "in"  : log_slicevar <= log_joint            (n_ok = 1, sub_ok)      *)
(*    "ok"  : not in the slice, no diverging error (n_ok = 0, sub_ok)      *)
(*    "div" : diverging error or outside support   (n_ok = 0, not sub_ok;  *)
(*            covers log_joint = -inf and log_joint = nan)                 *)
(* Leaves are numbered in creation order within one iteration; `outs` is   *)
(* the sequence of their outcomes.  The U-turn tests (inner products of    *)
(* positions and momenta) are abstracted to free booleans, the uniform     *)
(* draws that select sub-trees to free choices wherever a draw from [0,1)  *)
(* can make the comparison go both ways.                                   *)
(*                                                                         *)
(* A result of _build_tree_nuts is [len, n, ok, cand]: number of leaves    *)
(* built (n_steps), n_sub, sub_ok and the leaf number of params1.          *)
(***************************************************************************)
EXTENDS Naturals, Integers, Sequences, FiniteSets

Outcomes == {"in", "ok", "div"}

\* `if n_sub2 > 0: if float(n_sub2) / (n_sub + n_sub2) > random_state.rand(): params1 = params2`
\* rand() is in [0, 1): the quotient 1.0 (n_sub = 0) always wins, a quotient in (0, 1) may go both ways.
\* guard = FALSE drops `if n_sub2 > 0` (negative control only).
CandSet(a, b, guard) ==
  IF b.n = 0 THEN (IF guard THEN {a.cand} ELSE {a.cand, b.cand})
  ELSE IF a.n = 0 THEN {b.cand}
  ELSE {a.cand, b.cand}

\* depth > 0 after both halves were built:
\*   sub_ok = sub_ok(second half) and no U-turn;  n_sub += n_sub2;  n_steps += n_steps2
Merge(a, b, guard) ==
  { [len |-> a.len + b.len, n |-> a.n + b.n, ok |-> b.ok /\ u, cand |-> c] :
      u \in BOOLEAN, c \in CandSet(a, b, guard) }

\* all results of _build_tree_nuts(depth = d) whose leaves have the outcomes outs[pos+1], outs[pos+2], ...
\* ({} when `outs` ends before the tree is complete)
RECURSIVE Build(_, _, _, _)
Build(d, outs, pos, guard) ==
  IF d = 0
  THEN IF pos + 1 > Len(outs) THEN {}
       ELSE {[len |-> 1, n |-> IF outs[pos + 1] = "in" THEN 1 ELSE 0, ok |-> outs[pos + 1] # "div", cand |-> pos + 1]}
  ELSE LET A == Build(d - 1, outs, pos, guard) IN
       {a \in A : ~a.ok}                                    \* `if sub_ok:` fails - first half returned as it is
       \cup UNION { UNION { Merge(a, b, guard) : b \in Build(d - 1, outs, pos + a.len, guard) } : a \in {x \in A : x.ok} }

\* nuts(): `if sub_ok == 1: if random_state.rand() < float(n_sub) / n_ok: samples[ii] = params1`
\* rand() < 0 never holds; rand() < q holds always for q >= 1.
TopTake(r, nOk) ==
  IF ~r.ok \/ r.n = 0 THEN {FALSE}
  ELSE IF r.n >= nOk THEN {TRUE}
  ELSE BOOLEAN

\* One NUTS iteration directed by a complete outcome sequence: the set of states (0 = the previous
\* sample, k = leaf k) that can be in samples[ii] when exactly the leaves of `outs` were built.
\*   while all_ok and depth <= max_depth: build; maybe accept; n_ok += n_sub;
\*         all_ok = sub_ok and no U-turn; depth += 1
RECURSIVE Iterate(_, _, _, _, _, _)
Iterate(outs, pos, depth, nOk, sel, maxDepth) ==
  IF depth > maxDepth THEN (IF pos = Len(outs) THEN {sel} ELSE {})
  ELSE UNION { UNION { LET s2 == IF take THEN r.cand ELSE sel IN
                         (IF pos + r.len = Len(outs) THEN {s2} ELSE {})                     \* loop ends here (all_ok false or depth exhausted)
                         \cup (IF r.ok /\ pos + r.len < Len(outs)                              \* no U-turn: next doubling
                               THEN Iterate(outs, pos + r.len, depth + 1, nOk + r.n, s2, maxDepth) ELSE {})
                       : take \in TopTake(r, nOk) }
               : r \in Build(depth, outs, pos, TRUE) }
\* (the first alternative over-approximates "loop ends": after an ok tree at depth < maxDepth the
\*  loop ends only by a U-turn, which is free; at depth = maxDepth it always ends.)
FinalSelections(outs, maxDepth) == Iterate(outs, 0, 0, 1, 0, maxDepth)

Pow2n(k) == IF k = 0 THEN 1 ELSE IF k = 1 THEN 2 ELSE IF k = 2 THEN 4 ELSE IF k = 3 THEN 8 ELSE IF k = 4 THEN 16 ELSE 32
=============================================================================

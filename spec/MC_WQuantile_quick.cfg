SPECIFICATION Spec
CONSTANTS
  MaxN = 3
  MaxV = 2
  MaxW = 2
  A = 8
  Scales = {1, 2, 3}
  Swapped = FALSE
INVARIANT Found
INVARIANT Def
INVARIANT Least
INVARIANT TieOrderIrrelevant
INVARIANT IdxConsistent
PROPERTY Monotone
PROPERTY ScaleInvariant
CHECK_DEADLOCK FALSE

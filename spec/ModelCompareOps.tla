-------------------------- MODULE ModelCompareOps --------------------------
(***************************************************************************)
(* Pure operators of elfi.methods.model_selection.compare_models, shared   *)
(* by the design module ModelCompare.tla and the trace spec                *)
(* ModelCompare_Trace.tla.                                                 *)
(*                                                                         *)
(* A model (one Sample object) is a record                                 *)
(*    [d |-> sequence of discrepancies, nsim |-> simulations, w |-> prior  *)
(*     weight (1 for every model when model_priors is None)].              *)
(* Discrepancies are integers; the reserved codes are ordered the way      *)
(* numpy.argsort orders floats:  -inf < finite < +inf < nan.               *)
(*                                                                         *)
(* The code:                                                               *)
(*   n_min = min(n_samples);  D = concatenate(discrepancies)               *)
(*   inds  = argsort(D)[:n_min]          (argsort is not stable: any order *)
(*                                        among equal values is possible)  *)
(*   p_i   = #{inds in block i} / n_sim_i * prior_i ;  p = p / sum(p)      *)
(* Probabilities are rationals <<num, den>>.                               *)
(***************************************************************************)
EXTENDS Naturals, Integers, Sequences, FiniteSets, FixedPoint

RECURSIVE SumS(_)
SumS(s) == IF s = <<>> THEN 0 ELSE Head(s) + SumS(Tail(s))
RECURSIVE ProdS(_)
ProdS(s) == IF s = <<>> THEN 1 ELSE Head(s) * ProdS(Tail(s))
RECURSIVE MinS(_)
MinS(s) == IF Len(s) = 1 THEN s[1] ELSE LET r == MinS(Tail(s)) IN IF Head(s) < r THEN Head(s) ELSE r
RECURSIVE Flat(_)
Flat(ss) == IF ss = <<>> THEN <<>> ELSE Head(ss) \o Flat(Tail(ss))

NModels(ms) == Len(ms)
NMin(ms) == MinS([i \in 1..Len(ms) |-> Len(ms[i].d)])
Concat(ms) == Flat([i \in 1..Len(ms) |-> ms[i].d])
\* the block of concatenated positions that belongs to model i:  low < pos <= up
Low(ms, i) == SumS([j \in 1..(i - 1) |-> Len(ms[j].d)])
Up(ms, i) == Low(ms, i) + Len(ms[i].d)

\* ---- the code: one argsort of the concatenation, any tie order ------------------------------
\* Only the SET inds = argsort(D)[:n_min] is used (membership counts per block).  The possible sets
\* are the k-subsets of positions with nothing outside smaller than something inside ...
Selections(D, k) == {s \in SUBSET (1..Len(D)) :
                       /\ Cardinality(s) = k
                       /\ \A a \in s : \A b \in (1..Len(D)) \ s : D[a] <= D[b]}
CountsOfSel(ms, s) == [i \in 1..Len(ms) |-> Cardinality({q \in s : q > Low(ms, i) /\ q <= Up(ms, i)})]
MechCounts(ms) == {CountsOfSel(ms, s) : s \in Selections(Concat(ms), NMin(ms))}
\* ... which are exactly the k-prefixes of the sorting permutations (checked by TLC for short D)
Perms(n) == {p \in [1..n -> 1..n] : \A i, j \in 1..n : i # j => p[i] # p[j]}
SortPerms(D) == {p \in Perms(Len(D)) : \A i \in 1..(Len(D) - 1) : D[p[i]] <= D[p[i + 1]]}
PrefixSets(D, k) == {{p[q] : q \in 1..k} : p \in SortPerms(D)}

\* ---- the definition: each model's share of the n_min jointly smallest discrepancies -----------
\* Cut = the n_min-th smallest value.  Everything below it is in, the values equal to it fill the
\* remaining places in ANY way (free tie order).
CountLt(s, v) == Cardinality({k \in 1..Len(s) : s[k] < v})
CountEq(s, v) == Cardinality({k \in 1..Len(s) : s[k] = v})
Cut(ms) == LET D == Concat(ms)
           IN CHOOSE v \in {D[k] : k \in 1..Len(D)} : CountLt(D, v) < NMin(ms) /\ NMin(ms) <= CountLt(D, v) + CountEq(D, v)
DefCounts(ms) ==
  LET c == Cut(ms)
      M == Len(ms)
  IN {cnt \in [1..M -> 0..NMin(ms)] :
        /\ \A i \in 1..M : CountLt(ms[i].d, c) <= cnt[i] /\ cnt[i] <= CountLt(ms[i].d, c) + CountEq(ms[i].d, c)
        /\ SumS(cnt) = NMin(ms)}
\* no tie straddles the cut in a way that matters: the shares are determined
Determined(ms) == Cardinality(DefCounts(ms)) = 1

\* ---- probabilities ----------------------------------------------------------------------------
\* count_i / nsim_i * w_i, cleared of the denominators: count_i * w_i * prod_{j # i} nsim_j
Numer(ms, cnt, i) == cnt[i] * ms[i].w * ProdS([j \in 1..Len(ms) |-> IF j = i THEN 1 ELSE ms[j].nsim])
Total(ms, cnt) == SumS([i \in 1..Len(ms) |-> Numer(ms, cnt, i)])
Probs(ms, cnt) == [i \in 1..Len(ms) |-> <<Numer(ms, cnt, i), Total(ms, cnt)>>]
\* all possible results (0/0 is not a result)
Outcomes(ms) == {Probs(ms, cnt) : cnt \in {c \in DefCounts(ms) : Total(ms, c) > 0}}

\* ---- permuting the models -----------------------------------------------------------------------
PermuteSeq(s, pi) == [k \in 1..Len(s) |-> s[pi[k]]]
=============================================================================

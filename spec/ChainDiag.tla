------------------------------ MODULE ChainDiag ------------------------------
(***************************************************************************)
(* Design module for clause (e) of C16: the split R-hat and effective-     *)
(* sample-size diagnostics of elfi.methods.mcmc                            *)
(*   - equal their textbook formula (split R-hat, BDA3 11.4) / the         *)
(*     estimator the code documents (ESS: Stan 2.14, autocovariance with   *)
(*     N - t normalisation, variogram form, truncation at the first        *)
(*     negative autocorrelation), and                                      *)
(*   - are invariant under affine rescaling x -> k x + c of all chains and *)
(*     under reordering of the chains.                                     *)
(*                                                                         *)
(* One state = one call: `base` the integer chains, `cur` the transformed  *)
(* chains the call receives, `how` the transformation.  Extend builds the  *)
(* base chains value by value; the other actions move from the             *)
(* untransformed call to its neighbours:                                   *)
(*     ShiftBy(c)   every value + c                                        *)
(*     ScaleBy(k)   every value * k  (k # 0, negative allowed)             *)
(*     Reorder(p)   chains permuted                                        *)
(* All values are exact rationals (ChainDiagOps).  Variant selects a       *)
(* deliberately broken implementation (negative controls):                 *)
(*     "code"        the code as transcribed                               *)
(*     "nosplit"     R-hat on the unsplit chains                           *)
(*     "ddof0"       between-chain variance with ddof = 0                  *)
(*     "uncentered"  ESS autocovariance of the raw (not centred) chains    *)
(*     "firstchain"  ESS autocovariance of chain 1 only                    *)
(***************************************************************************)
EXTENDS Naturals, Integers, Sequences, FiniteSets, TLC, ChainDiagOps

CONSTANTS Shapes,    \* set of <<M, N, V>>: M chains of N samples with values in 0..V-1
          Shifts,    \* integer shifts c
          Scales,    \* integer factors k (non-zero)
          Variant

VARIABLES shape,   \* <<M, N, V>>
          flat,    \* the values chosen so far, chain after chain (the chains are built one value per
                   \* step so that TLC's workers share the enumeration; "build" states carry no claim)
          base, cur, how,
          bres, cres   \* Diag(base), Diag(cur): evaluated once per state
vars == <<shape, flat, base, cur, how, bres, cres>>

\* ---- the implementation under the chosen variant ---------------------------------
RhatSq(ch) == CASE Variant = "nosplit" -> RhatSqGen(ch, TRUE, 1)
                [] Variant = "ddof0" -> RhatSqGen(ch, FALSE, 0)
                [] OTHER -> RhatSqCode(ch)
Ess(ch) == CASE Variant = "uncentered" -> EssGen(ch, FALSE, FALSE)
             [] Variant = "firstchain" -> EssGen(ch, TRUE, TRUE)
             [] OTHER -> EssCodeRat(ch)
Diag(ch) == [r2 |-> RhatSq(ch), ess |-> Ess(ch)]
NoDiag == [r2 |-> Undef, ess |-> [val |-> Undef, bnd |-> FALSE]]

\* ---- behaviour -----------------------------------------------------------------------
Init == /\ shape \in Shapes /\ flat = <<>> /\ base = <<>> /\ cur = <<>> /\ how = "build"
        /\ bres = NoDiag /\ cres = NoDiag

Extend(v) ==
  /\ how = "build" /\ v < shape[3]
  /\ LET M == shape[1]
         N == shape[2]
         f == Append(flat, v)
     IN IF Len(f) < M * N
        THEN /\ flat' = f /\ UNCHANGED <<shape, base, cur, how, bres, cres>>
        ELSE LET b == [j \in 1..M |-> [i \in 1..N |-> f[(j - 1) * N + i]]]
                 d == Diag(b)
             IN /\ flat' = f /\ base' = b /\ cur' = b /\ how' = "id"
                /\ bres' = d /\ cres' = d /\ UNCHANGED shape

Transform(ch, kind) == /\ cur' = ch /\ how' = kind /\ cres' = Diag(ch)
                       /\ UNCHANGED <<shape, flat, base, bres>>
ShiftBy(c) == how = "id" /\ c # 0 /\ Transform(ShiftChains(base, c), "shift")
ScaleBy(k) == how = "id" /\ k # 1 /\ Transform(ScaleChains(base, k), "scale")
\* rotation and transposition of the first two chains generate every permutation
PermOf(kind, M) == IF kind = "rot" THEN [j \in 1..M |-> (j % M) + 1]
                   ELSE [j \in 1..M |-> IF j = 1 THEN 2 ELSE IF j = 2 THEN 1 ELSE j]
Reorder(kind) == /\ how = "id" /\ Len(base) >= 2 /\ (kind = "rot" => Len(base) >= 3)
                 /\ Transform(PermChains(base, PermOf(kind, Len(base))), "perm")

MaxV == 4      \* values are 0..shape[3]-1 with shape[3] <= MaxV
Next == \/ \E v \in 0..(MaxV - 1) : Extend(v)
        \/ \E c \in Shifts : ShiftBy(c)
        \/ \E k \in Scales : ScaleBy(k)
        \/ \E kind \in {"rot", "swap"} : Reorder(kind)
Spec == Init /\ [][Next]_vars

\* ---- properties --------------------------------------------------------------------------
Built == how # "build"
\* split R-hat: the implementation equals the textbook formula ...
RhatIsTextbook == Built => REq(cres.r2, RhatSqTextbook(cur))
\* ... the cleared integer form used by the trace spec equals the textbook formula too ...
RhatClearedIsTextbook == Built => REq(R2Int(cur), RhatSqTextbook(cur))
\* ... and it is invariant under the transformations
RhatInvariant == Built => REq(cres.r2, bres.r2)
\* ESS: the cleared big-natural form equals the transcription of the code
EssClearedIsCode ==
  Built => LET r == IF Variant = "code" THEN cres.ess ELSE EssCodeRat(cur)
               c == EssCleared(cur)
           IN /\ c.def = IsDef(r.val)
              /\ c.def => (FracEqRat(c.num, c.den, r.val) /\ c.bnd = r.bnd)
\* invariance (where no truncation test sits exactly on 0, which floats cannot decide)
EssInvariant == Built => /\ cres.ess.bnd = bres.ess.bnd
                         /\ ~bres.ess.bnd => REq(cres.ess.val, bres.ess.val)
\* the estimate never exceeds the number of draws (only non-negative correlations are summed)
EssAtMostDraws == Built => LET r == cres.ess.val IN IsDef(r) => r[1] <= Len(cur) * NSamp(cur) * r[2]

\* ---- unit tests of the big-natural arithmetic ----------------------------------------------
BigTests ==
  /\ \A a \in {0, 1, 9999, 10000, 46340, 12345} : \A b \in {0, 1, 7, 9999, 10001, 46340} :
        /\ BEq(BMul(BOfInt(a), BOfInt(b)), BOfInt(a * b))
        /\ BEq(BAdd(BOfInt(a), BOfInt(b)), BOfInt(a + b))
        /\ BEq(BSub(BOfInt(a), BOfInt(b)), BOfInt(IF a >= b THEN a - b ELSE 0))
        /\ BLe(BOfInt(a), BOfInt(b)) = (a <= b)
  /\ BMul(BOfInt(2147483647), BOfInt(2147483647)) = <<609, 3242, 141, 1686, 461>>   \* 4611686014132420609
  /\ BMul(<<609, 3242, 141, 1686, 461>>, BOfInt(1000000000)) = <<0, 0, 6090, 2420, 1413, 6860, 4611>>
  /\ BSub(<<0, 0, 1>>, <<1>>) = <<9999, 9999, 0>>
  /\ BNear(<<9999, 9999>>, <<3, 0, 1>>, 4) /\ ~BNear(<<9999, 9999>>, <<3, 0, 1>>, 3)
  /\ BSqrtAgrees(<<1356, 4142, 1>>, 2, 1, 100000000, 0)          \* floor(sqrt(2) * 10^8) = 141421356
  /\ ~BSqrtAgrees(<<1357, 4142, 1>>, 2, 1, 100000000, 0)
  /\ BFracAgrees(<<3333, 3333>>, <<1>>, <<3>>, 100000000, 0)    \* floor(10^8 / 3)
  /\ ~BFracAgrees(<<3335, 3333>>, <<1>>, <<3>>, 100000000, 1)
  /\ LcmUpTo(15) = 360360
ASSUME BigTests
=============================================================================

------------------------------ MODULE ChainDiag ------------------------------
(***************************************************************************)
(* Design module for clause (e) of C16: the split R-hat and effective-     *)
(* sample-size diagnostics of elfi.methods.mcmc                            *)
(*   - equal their textbook formula (split R-hat, BDA3 11.4) / the         *)
(*     estimator the code documents (ESS: Stan 2.14, autocovariance with   *)
(*     N - t normalisation, variogram form, truncation at the first        *)
(*     negative autocorrelation), and                                      *)
(*   - are invariant under affine rescaling x -> k x + c of all chains and *)
(*     under reordering of the chains.                                     *)
(*                                                                         *)
(* One state = one call: `base` the integer chains, `cur` the transformed  *)
(* chains the call receives, `how` the transformation.  The actions move   *)
(* from the untransformed call to its neighbours:                          *)
(*     ShiftBy(c)   every value + c                                        *)
(*     ScaleBy(k)   every value * k  (k # 0, negative allowed)             *)
(*     Reorder(p)   chains permuted                                        *)
(* All values are exact rationals (ChainDiagOps).  Variant selects a       *)
(* deliberately broken implementation (negative controls):                 *)
(*     "code"        the code as transcribed                               *)
(*     "nosplit"     R-hat on the unsplit chains                           *)
(*     "ddof0"       between-chain variance with ddof = 0                  *)
(*     "uncentered"  ESS autocovariance of the raw (not centred) chains    *)
(*     "firstchain"  ESS autocovariance of chain 1 only                    *)
(***************************************************************************)
EXTENDS Naturals, Integers, Sequences, FiniteSets, TLC, ChainDiagOps

CONSTANTS Shapes,    \* set of <<M, N>>: M chains of N samples
          Vals,      \* chain values (set of integers)
          Shifts,    \* integer shifts c
          Scales,    \* integer factors k (non-zero)
          Variant

VARIABLES base, cur, how
vars == <<base, cur, how>>

\* ---- the implementation under the chosen variant ---------------------------------
RhatSq(ch) == CASE Variant = "nosplit" -> RhatSqGen(ch, TRUE, 1)
                [] Variant = "ddof0" -> RhatSqGen(ch, FALSE, 0)
                [] OTHER -> RhatSqGen(ch, FALSE, 1)
Ess(ch) == CASE Variant = "uncentered" -> EssGen(ch, FALSE, FALSE)
             [] Variant = "firstchain" -> EssGen(ch, TRUE, TRUE)
             [] OTHER -> EssGen(ch, TRUE, FALSE)

\* ---- behaviour -----------------------------------------------------------------------
Init == /\ \E s \in Shapes : base \in [1..s[1] -> [1..s[2] -> Vals]]
        /\ cur = base
        /\ how = "id"

ShiftBy(c) == /\ how = "id" /\ c # 0
              /\ cur' = ShiftChains(base, c) /\ how' = "shift" /\ UNCHANGED base
ScaleBy(k) == /\ how = "id" /\ k # 1
              /\ cur' = ScaleChains(base, k) /\ how' = "scale" /\ UNCHANGED base
\* rotation and transposition of the first two chains generate every permutation
Reorder(kind) ==
  LET M == Len(base)
      perm == IF kind = "rot" THEN [j \in 1..M |-> (j % M) + 1]
              ELSE [j \in 1..M |-> IF j = 1 THEN 2 ELSE IF j = 2 THEN 1 ELSE j]
  IN /\ how = "id" /\ M >= 2
     /\ cur' = PermChains(base, perm) /\ how' = "perm" /\ UNCHANGED base

Next == \/ \E c \in Shifts : ShiftBy(c)
        \/ \E k \in Scales : ScaleBy(k)
        \/ \E kind \in {"rot", "swap"} : Reorder(kind)
Spec == Init /\ [][Next]_vars

\* ---- properties --------------------------------------------------------------------------
\* split R-hat: the implementation equals the textbook formula ...
RhatIsTextbook == REq(RhatSq(cur), RhatSqTextbook(cur))
\* ... the cleared integer form used by the trace spec equals it too
RhatClearedIsTextbook == LET a == R2Int(cur) b == RhatSqTextbook(cur) IN REq(a, b)
\* ... and it is invariant under the transformations
RhatInvariant == REq(RhatSq(cur), RhatSq(base))
\* ESS: the cleared big-natural form equals the transcription of the code
EssClearedIsCode ==
  LET r == EssCodeRat(cur)
  IN /\ EssDefined(cur) = IsDef(r)
     /\ IsDef(r) => /\ FracEqRat(EssFrac(cur), r)
                    /\ EssBoundary(cur) = EssBoundaryRat(cur)
\* invariance (where no truncation test sits exactly on 0, which floats cannot decide)
EssInvariant == /\ EssBoundaryRat(cur) = EssBoundaryRat(base)
                /\ ~EssBoundaryRat(base) => REq(Ess(cur), Ess(base))
\* the estimate never exceeds the number of draws (only non-negative correlations are summed)
EssAtMostDraws == LET r == Ess(cur) IN IsDef(r) => r[1] <= Len(cur) * NSamp(cur) * r[2]

\* ---- unit tests of the big-natural arithmetic ----------------------------------------------
BigTests ==
  /\ \A a \in {0, 1, 9999, 10000, 46340, 12345} : \A b \in {0, 1, 7, 9999, 10001, 46340} :
        /\ BEq(BMul(BOfInt(a), BOfInt(b)), BOfInt(a * b))
        /\ BEq(BAdd(BOfInt(a), BOfInt(b)), BOfInt(a + b))
        /\ BEq(BSub(BOfInt(a), BOfInt(b)), BOfInt(IF a >= b THEN a - b ELSE 0))
        /\ BLe(BOfInt(a), BOfInt(b)) = (a <= b)
  /\ BMul(BOfInt(2147483647), BOfInt(2147483647)) = <<609, 3242, 141, 1686, 461>>   \* 4611686014132420609
  /\ BMul(<<609, 3242, 141, 1686, 461>>, BOfInt(1000000000)) = <<0, 0, 6090, 2420, 1413, 6860, 4611>>
  /\ BSub(<<0, 0, 1>>, <<1>>) = <<9999, 9999, 0>>
  /\ BNear(<<9999, 9999>>, <<3, 0, 1>>, 4) /\ ~BNear(<<9999, 9999>>, <<3, 0, 1>>, 3)
  /\ BSqrtAgrees(<<1356, 4142, 1>>, 2, 1, 100000000, 0)          \* floor(sqrt(2) * 10^8) = 141421356
  /\ ~BSqrtAgrees(<<1357, 4142, 1>>, 2, 1, 100000000, 0)
  /\ BFracAgrees(<<3333, 3333>>, <<1>>, <<3>>, 100000000, 0)    \* floor(10^8 / 3)
  /\ ~BFracAgrees(<<3335, 3333>>, <<1>>, <<3>>, 100000000, 1)
  /\ LcmUpTo(15) = 360360
ASSUME BigTests
=============================================================================

--------------------------- MODULE NpyStore_Trace ---------------------------
(***************************************************************************)
(* Trace validation for C06, re-using the actions of NpyStore.tla.         *)
(* A trace is one history on a real NpyArray / NpyStore:                   *)
(*   T.init   initial batches (ids), flushed                               *)
(*   T.calls  public calls [op, a, b] with op in                           *)
(*            append(v=a) overwrite(i=a, v=b) truncate(n=a) read flush     *)
(*            reopen pickle; for T.kind = "api" each call carries the      *)
(*            observation after it: obs.len, obs.content (ids per batch    *)
(*            as reported by the store, -1 = torn/mixed batch) and, after  *)
(*            flush / reopen / pickle, obs.file = what numpy.load reads    *)
(*   T.kill   (kind "crash") index of the call during which the process    *)
(*            was killed at some low-level file operation; T.obs = what    *)
(*            the parent then found: loadable, content (ids per batch).    *)
(* The unlogged choices - how far the killed call got, and which buffered  *)
(* writes Python had already handed to the OS - are inferred by TLC.       *)
(***************************************************************************)
EXTENDS NpyStore, Json, IOUtils

Traces == JsonDeserialize(IOEnv.TRACE_FILE)

VARIABLES tid, l, inCall, sf, view, verdict, drift, done
tvars == <<vars, tid, l, inCall, sf, view, verdict, drift, done>>
\* view: how many batches of the file the NpyStore makes available (-1 = all of them).  NpyStore(file, bs, n_batches=k)
\* - call "reopen_n" - opens a PREFIX view: the file keeps its rows, the store reports the first k batches, setting
\* batch k overwrites slot k in place, deleting the last visible batch cuts the file there.

T == Traces[tid]

TInit == /\ tid \in 1..Len(Traces)
         /\ rows = T.init /\ hdr = Len(T.init) /\ data = T.init /\ wbuf = <<>> /\ hdrPrep = None
         /\ memValid = FALSE /\ isOpen = TRUE /\ prog = <<>> /\ pend = T.init
         /\ sinceFlush = {T.init} /\ ncalls = 0 /\ crashed = FALSE
         /\ l = 1 /\ inCall = FALSE /\ sf = {T.init} /\ view = -1 /\ verdict = "ok" /\ drift = "" /\ done = FALSE

\* list model of one call
RowsAfter(c, r) ==
  CASE c.op = "append" -> Append(r, c.a)
    [] c.op = "overwrite" -> [r EXCEPT ![c.a] = c.b]
    [] c.op = "truncate" -> SubSeq(r, 1, c.a)
    [] OTHER -> r
ProgFor(c) ==
  CASE c.op = "append" -> ProgAppend(rows, c.a)
    [] c.op = "overwrite" -> ProgOverwrite(c.a, c.b, hdrPrep, memValid, MmapSyncsHeader)
    [] c.op = "truncate" -> ProgTruncate(c.a, TruncHeaderFirst)
    [] c.op = "read" -> ProgRead(hdrPrep, memValid, MmapSyncsHeader)
    [] c.op = "flush" -> ProgFlush(hdrPrep)
    [] c.op = "reopen" -> ProgCloseReopen(hdrPrep)
    [] c.op = "pickle" -> ProgPickle(hdrPrep)
IsFlushing(c) == c.op \in {"flush", "reopen", "pickle", "reopen_n"}
\* the call on the underlying array that a store call amounts to under the current view
Eff(c) == IF c.op = "append" /\ view # -1 /\ view < Len(rows) THEN [op |-> "overwrite", a |-> view + 1, b |-> c.a]
          ELSE IF c.op = "reopen_n" THEN [op |-> "reopen", a |-> 0, b |-> 0]
          ELSE [op |-> c.op, a |-> c.a, b |-> c.b]
ViewAfter(c) == CASE c.op = "reopen_n" -> c.a
                  [] c.op = "reopen" -> -1
                  [] c.op = "append" -> IF view = -1 THEN -1 ELSE view + 1
                  [] c.op = "truncate" -> IF view = -1 THEN -1 ELSE c.a
                  [] OTHER -> view
Visible(r, v) == IF v = -1 \/ v > Len(r) THEN r ELSE SubSeq(r, 1, v)

Live == ~done /\ ~crashed /\ verdict = "ok"

StartCall ==
  /\ Live /\ ~inCall /\ prog = <<>> /\ l <= Len(T.calls) /\ (T.kind = "crash" => l <= T.kill)
  /\ Begin(ProgFor(Eff(T.calls[l])), RowsAfter(Eff(T.calls[l]), rows))
  /\ inCall' = TRUE /\ sf' = sf \cup {RowsAfter(Eff(T.calls[l]), rows)}
  /\ UNCHANGED <<tid, l, view, verdict, drift, done>>

TMicro == Live /\ inCall /\ Micro /\ UNCHANGED <<tid, l, inCall, sf, view, verdict, drift, done>>
TOSWrite == Live /\ OSWrite /\ UNCHANGED <<tid, l, inCall, sf, view, verdict, drift, done>>

\* the call returned: compare what the store reports with the list model
JudgeApiP(c, expect, v) ==
  IF c.obs.len # Len(expect) THEN "P:reports-length-of-list-model"
  ELSE IF c.obs.looked /\ c.obs.content # expect THEN "P:reports-batches-of-list-model"
  ELSE IF IsFlushing(c) /\ ~c.obs.fileok THEN "P:file-loads-after-flush"
  ELSE IF IsFlushing(c) /\ Visible(c.obs.file, v) # expect THEN "P:file-equals-content-after-flush"
  ELSE "ok"
EndCall ==
  /\ Live /\ inCall /\ prog = <<>>
  /\ LET c == T.calls[l]
         v == ViewAfter(c)
     IN /\ verdict' = IF T.kind = "api" THEN JudgeApiP(c, Visible(pend, v), v) ELSE "ok"
        /\ drift' = IF drift # "" THEN drift
                    ELSE IF rows # pend THEN "M:logical-content-after-call"
                    ELSE IF IsFlushing(c) /\ OnDisk(hdr, data) # rows THEN "M:disk-after-flush"
                    ELSE IF T.kind = "api" /\ IsFlushing(c) /\ c.obs.fileok /\ c.obs.file # pend THEN "M:whole-file-after-flush"
                    ELSE ""
        /\ sf' = IF IsFlushing(c) THEN {pend} ELSE sf
        /\ view' = v
  /\ inCall' = FALSE /\ l' = l + 1
  /\ done' = (verdict' # "ok")
  /\ UNCHANGED <<vars, tid>>

\* the kill, somewhere inside call T.kill
JudgeCrashP ==
  IF ~T.obs.loadable THEN "P:file-loads-after-kill"
  ELSE IF \E i \in 1..Len(T.obs.content) : T.obs.content[i] = -1 THEN "P:batch-aligned-never-torn"
  ELSE IF T.obs.content \notin sf THEN "P:content-existed-since-last-flush"
  ELSE "ok"
CrashNow ==
  /\ Live /\ T.kind = "crash" /\ inCall /\ l = T.kill
  /\ Crash
  /\ verdict' = JudgeCrashP
  /\ drift' = IF drift # "" THEN drift
              ELSE IF T.obs.loadable /\ ~Loadable(hdr, data) THEN "M:disk-state-allowed-by-model"
              ELSE IF T.obs.loadable /\ OnDisk(hdr, data) # T.obs.content THEN "M:disk-state-allowed-by-model"
              ELSE IF ~T.obs.loadable /\ Loadable(hdr, data) THEN "M:disk-state-allowed-by-model"
              ELSE ""
  /\ done' = TRUE
  /\ UNCHANGED <<tid, l, inCall, sf, view>>

\* (for a crash trace the branches that run past the killed call simply end without a verdict)
Finish ==
  /\ Live /\ T.kind = "api" /\ ~inCall /\ l > Len(T.calls) /\ done' = TRUE
  /\ UNCHANGED <<vars, tid, l, inCall, sf, view, verdict, drift>>

TNext == StartCall \/ TMicro \/ TOSWrite \/ EndCall \/ CrashNow \/ Finish
TSpec == TInit /\ [][TNext]_tvars
Report == done => PrintT(<<"V", tid, l, verdict, drift>>)
=============================================================================

SPECIFICATION Spec
INVARIANT Report
CHECK_DEADLOCK FALSE

----------------------------- MODULE Metropolis -----------------------------
(***************************************************************************)
(* Design module for C09 (a)-(d), elfi.methods.mcmc.metropolis.            *)
(*                                                                         *)
(* One action per loop iteration.  The environment (target, RandomState)   *)
(* is adversarial: every iteration it chooses the class of the proposed    *)
(* log-target and the outcome of the float comparison exp(dt) < u, within  *)
(* what IEEE arithmetic can produce (MetropolisOps!Realizable).            *)
(* States are ids (0 = start, i = i-th proposal), so "which state is       *)
(* output" is an equality on small integers.                               *)
(*                                                                         *)
(* Constants GuardInf / GuardNaN / SliceFrom / StartClass are the code's   *)
(* (TRUE, TRUE, 1, "fin"); other values exist only as negative controls.   *)
(***************************************************************************)
EXTENDS Naturals, Integers, Sequences, FiniteSets, TLC, MetropolisOps

CONSTANTS MaxN,        \* n_samples ranges over 0..MaxN
          MaxW,        \* warmup ranges over 0..MaxW
          GuardInf, GuardNaN,
          SliceFrom,   \* 1 in the code: samples[(1 + warmup):]
          StartClass   \* class of target(params0); "fin" = a valid start

VARIABLES n, w,        \* n_samples, warmup of this run
          st,          \* [cur, tcur]: current state id and the class of target_current
          samples,     \* the array `samples` as a sequence of state ids, samples[1] = start
          props,       \* history: props[i] = [base, t, cmp] of the i-th iteration
          out          \* <<>> until returned; then <<"ret", sequence of ids>>
vars == <<n, w, st, samples, props, out>>

Init == /\ n \in 0..MaxN /\ w \in 0..MaxW
        /\ st = [cur |-> 0, tcur |-> StartClass]
        /\ samples = <<0>> /\ props = <<>> /\ out = <<>>

\* one loop iteration `for ii in range(1, n_samples + warmup + 1)`
Step(tprop, cmp) ==
  /\ out = <<>> /\ Len(samples) < n + w + 1
  /\ Realizable(tprop, cmp)
  /\ (st.tcur = "nan") => cmp = "ge"                  \* exp(x - nan) < u is FALSE (only for the control StartClass = "nan")
  /\ LET i == Len(samples)
         acc == ~RejectsG(tprop, cmp, GuardInf, GuardNaN)
         st2 == IF acc THEN [cur |-> i, tcur |-> tprop] ELSE st
     IN /\ props' = Append(props, [base |-> st.cur, t |-> tprop, cmp |-> cmp])
        /\ st' = st2
        /\ samples' = Append(samples, st2.cur)
  /\ UNCHANGED <<n, w, out>>

Return ==
  /\ out = <<>> /\ Len(samples) = n + w + 1
  /\ out' = <<"ret", OutSliceFrom(samples, w, SliceFrom)>>
  /\ UNCHANGED <<n, w, st, samples, props>>

Next == (\E t \in TClass, c \in CmpOutcomes : Step(t, c)) \/ Return
Spec == Init /\ [][Next]_vars

\* ---- theorems (C09) ------------------------------------------------------------
ClassOf(id) == IF id = 0 THEN StartClass ELSE props[id].t
\* (d) never outputs a state whose log-target is -inf or NaN (here: not even +inf) from a valid start
OutputsFinite == out # <<>> => \A k \in 1..Len(out[2]) : ClassOf(out[2][k]) = "fin"
CurrentFinite == st.tcur = "fin" /\ ClassOf(st.cur) = st.tcur
\* (b) the requested number of states
LengthExact == out # <<>> => Len(out[2]) = n
\* (a) each state is the previous state or a proposal built from the previous state ...
ChainIsRandomWalk ==
  \A j \in 1..Len(props) :
     \/ samples[j + 1] = samples[j]
     \/ samples[j + 1] = j /\ props[j].base = samples[j]
\* ... accepted precisely when u is below the ratio and the proposed log-target is finite
AcceptIff == \A j \in 1..Len(props) : (samples[j + 1] = j) <=> AcceptsStmt(props[j].t, props[j].cmp)
\* the output is the chain after the warm-up states, in order
OutputIsChainTail == out # <<>> => \A k \in 1..Len(out[2]) : k + w + 1 <= Len(samples) /\ out[2][k] = samples[k + w + 1]
\* the code's rule is the statement's rule on everything IEEE can produce
RuleMatchesStatement ==
  \A t \in TClass, c \in CmpOutcomes : Realizable(t, c) => (Accepts(t, c) <=> AcceptsStmt(t, c))
=============================================================================

SPECIFICATION Spec
CONSTANTS
  MaxSize = 5
  WarnAt = 3
  LeftBug = TRUE
PROPERTY Terminates
CHECK_DEADLOCK FALSE

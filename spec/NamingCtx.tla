------------------------------ MODULE NamingCtx ------------------------------
(***************************************************************************)
(* EXTENSION (no listed property), second machine of the Naming extension: *)
(* the bookkeeping of ComputationContext and BatchHandler over the         *)
(* operators of NamingOps.tla (second half): defaults of a new context     *)
(* (batch_size or 1, seed None -> random_seed(), 'global'), what a pool    *)
(* with / without context does to it, num_submissions, the batch index and *)
(* the submission_index loaded into the `meta` dict of a batch.  One       *)
(* action per public call.  Random numbers are out of scope (C15).         *)
(*                                                                         *)
(* Ghosts: given[c] = the batch_size ComputationContext was given,         *)
(* loaded[c] = the submission indices loaded on context c so far,          *)
(* hist[h] = the batch indices handler h has submitted so far.             *)
(***************************************************************************)
EXTENDS NamingOps

CONSTANTS BatchSizes,   \* values of batch_size (-1 = None)
          Seeds,        \* values of seed (-1 = None, -2 = 'global')
          RandomSeeds,  \* what random_seed() may return
          MaxCtxs, MaxPools, MaxHandlers, MaxSubmits, MaxOps

VARIABLES cx, nops, given, loaded, hist, lastop
cvars == <<cx, nops, given, loaded, hist, lastop>>

Init == cx = C0 /\ nops = 0 /\ given = <<>> /\ loaded = <<>> /\ hist = <<>> /\ lastop = B0

Step(b) == /\ nops < MaxOps /\ nops' = nops + 1 /\ cx' = CRun(cx, b) /\ lastop' = b

NewCtxCall == \E bs \in BatchSizes, seed \in Seeds, rs \in RandomSeeds, p \in 0..Len(cx.pools) :
  /\ Len(cx.ctxs) < MaxCtxs
  /\ Step([B0 EXCEPT !.op = "newctx", !.bs = bs, !.seed = seed, !.rs = rs, !.pool = p])
  /\ LET ok == CRun(cx, [B0 EXCEPT !.op = "newctx", !.bs = bs, !.seed = seed, !.rs = rs, !.pool = p]).raised = "" IN
     /\ given' = IF ok THEN Append(given, bs) ELSE given
     /\ loaded' = IF ok THEN Append(loaded, <<>>) ELSE loaded
  /\ UNCHANGED hist
NewPoolCall == /\ Len(cx.pools) < MaxPools /\ Step([B0 EXCEPT !.op = "newpool"]) /\ UNCHANGED <<given, loaded, hist>>
NewHandlerCall == \E c \in 1..Len(cx.ctxs) :
  /\ Len(cx.hds) < MaxHandlers /\ Step([B0 EXCEPT !.op = "handler", !.ctx = c]) /\ hist' = Append(hist, <<>>) /\ UNCHANGED <<given, loaded>>
SubmitCall == \E h \in 1..Len(cx.hds) :
  /\ Len(hist[h]) < MaxSubmits
  /\ Step([B0 EXCEPT !.op = "submit", !.hd = h])
  /\ hist' = [hist EXCEPT ![h] = Append(@, cx.hds[h].next)]
  /\ loaded' = [loaded EXCEPT ![cx.hds[h].ctx] = Append(@, cx.ctxs[cx.hds[h].ctx].nsub)]
  /\ UNCHANGED given
WaitCall == \E h \in 1..Len(cx.hds) : Step([B0 EXCEPT !.op = "wait", !.hd = h]) /\ UNCHANGED <<given, loaded, hist>>
CancelCall == \E h \in 1..Len(cx.hds) : Step([B0 EXCEPT !.op = "cancel", !.hd = h]) /\ UNCHANGED <<given, loaded, hist>>
ResetCall == \E h \in 1..Len(cx.hds) : Step([B0 EXCEPT !.op = "reset", !.hd = h]) /\ UNCHANGED <<given, loaded, hist>>
ComputeCall == \E h \in 1..Len(cx.hds), bi \in 0..2 : Step([B0 EXCEPT !.op = "compute", !.hd = h, !.bi = bi]) /\ UNCHANGED <<given, loaded, hist>>
\* (the domain mentions the state only so that TLC keeps this one action instead of splitting it per constant)
GenerateCall == \E seed \in {s \in Seeds \ {-2} : nops >= 0} : Step([B0 EXCEPT !.op = "generate", !.seed = seed]) /\ UNCHANGED <<given, loaded, hist>>

Next == \/ NewCtxCall \/ NewPoolCall \/ NewHandlerCall \/ SubmitCall \/ WaitCall \/ CancelCall \/ ResetCall \/ ComputeCall \/ GenerateCall
Spec == Init /\ [][Next]_cvars

\* ------------------------------------------------------------------ theorems
Ctxs == 1..Len(cx.ctxs)
Hds == 1..Len(cx.hds)
\* a context always has a positive batch size and a seed (an integer or 'global')
CtxWellFormed == \A c \in Ctxs : cx.ctxs[c].bs >= 1 /\ cx.ctxs[c].seed # -1 /\ cx.ctxs[c].nsub >= 0
\* batch_size / seed that were given are the context's (0 is a seed; batch_size 0 is NOT kept: control GivenBatchSizeKept)
SeedGivenIsKept == lastop.op = "newctx" /\ cx.raised = "" /\ lastop.seed # -1 => cx.ctxs[Len(cx.ctxs)].seed = lastop.seed
\* a context and its pool agree on batch size and seed
CtxAgreesWithPool == \A c \in Ctxs : cx.ctxs[c].pool # 0 =>
                        LET p == cx.pools[cx.ctxs[c].pool] IN PoolHasContext(p) /\ p.bs = cx.ctxs[c].bs /\ p.seed = cx.ctxs[c].seed
\* num_submissions counts the batches submitted on the context, by whichever handler, cancelled or not
NumSubmissionsCounts == \A c \in Ctxs : cx.ctxs[c].nsub = Len(loaded[c])
\* the submission indices loaded on a context are 0, 1, 2, ... : no two batches of a context share one
SubmissionIndexIsOrdinal == \A c \in Ctxs : \A i \in 1..Len(loaded[c]) : loaded[c][i] = i - 1
\* the pending batches of a handler are consecutive and end right below next_index; their submission indices increase
PendingConsecutive == \A h \in Hds : LET q == cx.hds[h].pend IN
                         /\ \A i \in 1..Len(q) : q[i].bi = cx.hds[h].next - Len(q) + i - 1
                         /\ \A i \in 1..(Len(q) - 1) : q[i].si < q[i + 1].si
                         /\ cx.hds[h].next >= Len(q)
\* wait_next returns the oldest pending batch with the submission index it was loaded with; with nothing pending it refuses
WaitReturnsOldest == lastop.op = "wait" => (cx.raised = "ValueError" \/ (cx.raised = "" /\ Len(cx.ret) = 3))
\* generate() always sees submission index 0 and batch index 0
GenerateIsFresh == lastop.op = "generate" => cx.ret[1] = 0 /\ cx.ret[2] = 0
\* the attributes of a context never change; a pool's context is set once; num_submissions never decreases
Immutable == [][/\ \A c \in Ctxs : /\ cx'.ctxs[c].bs = cx.ctxs[c].bs /\ cx'.ctxs[c].seed = cx.ctxs[c].seed /\ cx'.ctxs[c].pool = cx.ctxs[c].pool
                                   /\ cx'.ctxs[c].nsub >= cx.ctxs[c].nsub
               /\ \A p \in 1..Len(cx.pools) : PoolHasContext(cx.pools[p]) => cx'.pools[p] = cx.pools[p]]_cvars
\* NOT kept (controls): batch_size=0 silently becomes 1; a handler submits the same batch index again after cancel / reset
GivenBatchSizeKept == \A c \in Ctxs : given[c] # -1 => cx.ctxs[c].bs = given[c]
BatchIndexNeverReused == \A h \in Hds : NoDup(hist[h])
=============================================================================

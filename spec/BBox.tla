-------------------------------- MODULE BBox --------------------------------
(***************************************************************************)
(* Design module for C19(a,b): NDimBoundingBox.                            *)
(*                                                                         *)
(* Init chooses an arbitrary box (exact rotation, integer centre, integer  *)
(* limits incl. degenerate ones); Construct is __init__ (_secure_limits,   *)
(* inverse rotation, volume); Sample(u) is sample() for the body-frame     *)
(* draw u (every lattice point of the widened limits, faces included);     *)
(* Query(x) is contains()/pdf() at a world lattice point.                  *)
(*                                                                         *)
(* UseInverse = TRUE is the code; FALSE (contains() applies `rotation`     *)
(* instead of `rotation_inv`) is the negative control.                     *)
(***************************************************************************)
EXTENDS Integers, Sequences, FiniteSets, TLC, BBoxOps

CONSTANTS D,          \* dimension
          Centres,    \* set of centres (integer vectors)
          CMax,       \* bound on |centre coordinate|
          LimPairs,   \* set of raw limit pairs <<lo, hi>>, lo <= 0 <= hi, incl. degenerate and narrow ones
          LMax,       \* bound on |lo|, |hi|
          Eps,        \* widening threshold in units (even)
          QR,         \* contains()/pdf() are queried at all lattice points within QR of the centre
          UseInverse  \* BOOLEAN

VARIABLES box, built, last, q
vars == <<box, built, last, q>>

None == <<>>                      \* no point yet (points are sequences of length D >= 1)
NoRec == [tag |-> "none"]         \* no record yet
Rotations == SignedPerms(D)
RawLimits == [1..D -> LimPairs]
Reach == CMax + LMax + Eps \div 2 + 2                  \* world window that covers every box, plus a margin
Window == [1..D -> -Reach..Reach]
\* query points: the surroundings of the box (QR > LMax + Eps/2 reaches beyond the farthest possible face)
Near(c) == {[k \in 1..D |-> c[k] + d[k]] : d \in [1..D -> -QR..QR]}

Init == /\ box \in [R : Rotations, c : Centres, lim : RawLimits]
        /\ built = NoRec /\ last = None /\ q = NoRec

BodyLattice(lim) == {u \in [1..D -> -(LMax + Eps)..(LMax + Eps)] : InLimits(lim, u)}

\* `region` is not a field of the python object: it is the meaning of the box (the image of the
\* widened limits under x = c + R u), kept in the state so that the theorems can refer to it.
Construct == /\ built = NoRec
             /\ ValidLimits(box.lim)
             /\ built' = [lim  |-> Secure(box.lim, Eps),
                          rinv |-> IF UseInverse THEN Inverse(box.R) ELSE box.R,
                          vol  |-> Volume(Secure(box.lim, Eps)),
                          region |-> {Forward(box.R, box.c, u) : u \in BodyLattice(Secure(box.lim, Eps))}]
             /\ UNCHANGED <<box, last, q>>

Sample(u) == /\ built # NoRec /\ last = None /\ q = NoRec
             /\ last' = Forward(box.R, box.c, u)
             /\ UNCHANGED <<box, built, q>>

Query(x) == /\ built # NoRec /\ last = None /\ q = NoRec
            /\ q' = [x |-> x, inside |-> Contains(built.rinv, box.c, built.lim, x),
                     pdf |-> Pdf(built.rinv, box.c, built.lim, x)]
            /\ UNCHANGED <<box, built, last>>

\* (the guard is hoisted out of the quantifiers so that TLC does not enumerate them in leaf states)
Fresh == built # NoRec /\ last = None /\ q = NoRec
SampleStep == Fresh /\ \E u \in BodyLattice(built.lim) : Sample(u)
QueryStep == Fresh /\ \E x \in Near(box.c) : Query(x)
Next == Construct \/ SampleStep \/ QueryStep
Spec == Init /\ [][Next]_vars

\* ---- theorems --------------------------------------------------------------------
\* (a) every point drawn from the region is contained in it
SampleInside == last # None => Contains(built.rinv, box.c, built.lim, last)

\* the region as the statement means it
Region == built.region

\* (b) forward (sample) and inverse (contains) maps describe the same set
ForwardInverseAgree ==
  (built # NoRec /\ last = None /\ q = NoRec) =>
      {x \in Window : Contains(built.rinv, box.c, built.lim, x)} = Region

\* (b) density: 1/volume inside, 0 outside
Density == q # NoRec => q.pdf = <<IF q.x \in Region THEN 1 ELSE 0, built.vol>>

\* the volume is positive, so the density is defined - also for degenerate raw limits
VolumePositive == built # NoRec => built.vol > 0 /\ \A k \in 1..D : built.lim[k][2] - built.lim[k][1] >= Eps

\* (b) "integrates to one": the region is a union of unit cells; in doubled coordinates the cell
\* centres are the odd lattice points.  Sum over cells of pdf * cellvolume = count / volume = 1.
Twice(v) == [k \in 1..Len(v) |-> 2 * v[k]]
OddWindow == [1..D -> {2 * k + 1 : k \in -(Reach + 1)..Reach}]
CellsInside ==
  Cardinality({x2 \in OddWindow :
                 Contains(built.rinv, Twice(box.c), [k \in 1..D |-> Twice(built.lim[k])], x2)})
IntegratesToOne == (built # NoRec /\ last = None /\ q = NoRec) => CellsInside = built.vol

\* np.linalg.inv of an orthonormal integer matrix is its transpose
InverseIsInverse == MatMul(Inverse(box.R), box.R) = Identity(D)

\* how many of the rotations separate rotation from rotation_inv (printed once, for the record)
NonInvolutions == Cardinality({R \in Rotations : Inverse(R) # R})
=============================================================================

------------------------------ MODULE PoolOps ------------------------------
(***************************************************************************)
(* Output pools: loader.PoolLoader + executor + ComputationContext.callback *)
(* on the canonical inference graph                                        *)
(*        t1, t2 (parameters)  ->  sim  ->  S  ->  d                        *)
(* Every stochastic node (t1, t2, sim) draws ONE value from the batch's     *)
(* generator, in the fixed execution order t1, t2, sim; a value is a term   *)
(* that records which draw it is, so that a shifted generator is visible.   *)
(*   <<"t1", i, pos>>  <<"t2", i, pos>>  <<"sim", t1val, t2val, i, pos>>    *)
(*   <<"S", simval, version>>  <<"d", Sval, version>>                       *)
(***************************************************************************)
EXTENDS Naturals, Sequences, FiniteSets

NodesSeq == <<"t1", "t2", "sim", "S", "d">>        \* execution order
NodeSet == {"t1", "t2", "sim", "S", "d"}
Stoch == {"t1", "t2", "sim"}
ParentsOf(n) == CASE n = "sim" -> {"t1", "t2"} [] n = "S" -> {"sim"} [] n = "d" -> {"S"} [] OTHER -> {}

\* PoolLoader: stored nodes that hold the batch are loaded (operation dropped); stored nodes that do
\* not hold it are added to the requested outputs
Loaded(stores, i) == {n \in DOMAIN stores : i \in DOMAIN stores[n]}
Outputs(stores, req) == req \cup (DOMAIN stores)

\* executor: outputs that still have an operation, plus their ancestors through nodes without output
RECURSIVE Need(_, _)
Need(S, loaded) == LET new == (UNION {ParentsOf(n) : n \in S} \ loaded) \ S IN IF new = {} THEN S ELSE Need(S \cup new, loaded)
ToExec(stores, req, i) == Need(Outputs(stores, req) \ Loaded(stores, i), Loaded(stores, i))

\* run one batch: returns [val: node -> term (for loaded and executed nodes), ran: set]
RECURSIVE Eval(_, _, _, _, _, _)
Eval(k, val, pos, exec, i, ver) ==
  IF k > Len(NodesSeq) THEN val
  ELSE LET n == NodesSeq[k] IN
       IF n \notin exec THEN Eval(k + 1, val, pos, exec, i, ver)
       ELSE LET v == CASE n = "t1" -> <<"t1", i, pos>>
                       [] n = "t2" -> <<"t2", i, pos>>
                       [] n = "sim" -> <<"sim", val["t1"], val["t2"], i, pos>>
                       [] n = "S" -> <<"S", val["sim"], ver["S"]>>
                       [] n = "d" -> <<"d", val["S"], ver["d"]>>
            IN Eval(k + 1, [m \in DOMAIN val \cup {n} |-> IF m = n THEN v ELSE val[m]],
                    IF n \in Stoch THEN pos + 1 ELSE pos, exec, i, ver)
RunBatch(stores, req, i, ver) ==
  LET ld == Loaded(stores, i)
      ex == ToExec(stores, req, i)
      val0 == [n \in ld |-> stores[n][i]]
      val == Eval(1, val0, 0, ex, i, ver)
  IN [val |-> val, ran |-> ex]
\* the values a fresh (pool-free) computation of batch i produces
Fresh(i, ver) == Eval(1, <<>>, 0, NodeSet, i, ver)

\* callback: add_batch never overwrites
AddBatch(stores, val, i) ==
  [n \in DOMAIN stores |-> IF i \in DOMAIN stores[n] \/ n \notin DOMAIN val THEN stores[n]
                           ELSE [j \in DOMAIN stores[n] \cup {i} |-> IF j = i THEN val[n] ELSE stores[n][j]]]
=============================================================================

------------------------------ MODULE MC_BBox ------------------------------
(* Exhaustive configurations of BBox.tla: sets of centres that a cfg file   *)
(* cannot express.                                                          *)
EXTENDS BBox
AllCentres == [1..D -> -CMax..CMax]
\* the origin and one centre with pairwise different non-zero coordinates (|.| <= CMax = 2)
TwoCentres == {[k \in 1..D |-> 0], [k \in 1..D |-> IF k = 1 THEN 1 ELSE IF k = 2 THEN -1 ELSE 2]}
\* with Eps = 2: degenerate, narrow (width 1), exactly at the threshold (width 2), and wide pairs
SixPairs == {<<0, 0>>, <<-1, 0>>, <<0, 1>>, <<-1, 1>>, <<-1, 2>>, <<-2, 2>>}
ThreePairs == {<<0, 0>>, <<-1, 1>>, <<-1, 2>>}
\* 3-D: degenerate (widened to <<-1, 1>>) and wide asymmetric
TwoPairs == {<<0, 0>>, <<-1, 2>>}
OneCentre == {[k \in 1..D |-> IF k = 1 THEN 1 ELSE IF k = 2 THEN -1 ELSE 2]}
=============================================================================

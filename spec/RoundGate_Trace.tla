--------------------------- MODULE RoundGate_Trace ---------------------------
(***************************************************************************)
(* Trace validation for the RoundGate extension (E: clauses only).          *)
(* A trace is one history of public calls on ONE real object               *)
(*   kind "bo"      elfi.BayesianOptimization (infer(n_evidence) ...)       *)
(*   kind "bolfire" elfi.BOLFIRE              (fit(n_evidence) ...)         *)
(*   kind "bsl"     elfi.BSL                  (sample(n_samples) ...)       *)
(* run through harness.sched_client (scripted / seeded is_ready answers,    *)
(* out-of-order task execution).  Events, in the order they happened:       *)
(*   client:  submit(bi, id)  ready(id, ans)  get(id)  rm(id)               *)
(*   hooks (recording subclass; each override calls super and logs):        *)
(*     new                      the constructor returned                    *)
(*     call(arg)                the public method is about to be called     *)
(*     inits(cur)               BSL._init_state returned                    *)
(*     obj(objb, objr)          set_objective returned                      *)
(*     allow(bi, ans)           _allow_submit(bi) answered                  *)
(*     acq(n, t, pend, seen, pts)  acquisition_method.acquire(n, t)         *)
(*     prep(bi, t, pts, ql)     prepare_new_batch(bi) returned              *)
(*     proc(rows, cur)          _process_simulated entered: `simulated`     *)
(*                              decoded to [batch index, row, theta]        *)
(*     gp(rows, opt, pre)       target_model.update(x, y, optimize)         *)
(*     initr(cur, nsr, nsmp, objr)  _init_round returned                    *)
(*     upd(snapshot)            update(batch, bi) returned                  *)
(*     ret(raised, left, snapshot, digest)  the public method returned / raised *)
(* TLC keeps the abstract state S of RoundGate.tla, recomputes every guard  *)
(* and counter from the logged arguments with RoundGateOps, and compares    *)
(* with what the real object showed.  The first failing E: clause ends the  *)
(* trace (verdict); user-level expectations the code is known not to meet   *)
(* are collected in `drift` (names joined by "|").                          *)
(***************************************************************************)
EXTENDS Naturals, Integers, Sequences, FiniteSets, TLC, Json, IOUtils, RoundGateOps

Traces == JsonDeserialize(IOEnv.TRACE_FILE)

VARIABLES tid, l, S, viol, verdict, drift, done
vars == <<tid, l, S, viol, verdict, drift, done>>

T == Traces[tid]
Mb == T.kind \in {"bolfire", "bsl"}
Bo == T.kind = "bo"
BPA == IF T.bpa = 0 THEN T.maxpar ELSE T.bpa            \* batches_per_acquisition defaults to max_parallel_batches
NI == IF Bo THEN NInitial(T.init, T.npre, T.bs) ELSE T.init
AT(bi) == AcqT(bi, T.bs, NI, T.npre, BPA)
Step1 == IF Bo THEN T.bs ELSE 1                          \* points one surrogate update adds

NoBatch == [bi |-> -1, id |-> -1, pt |-> 0, vals |-> <<>>, t |-> -1]
NoPrep == [set |-> FALSE, pt |-> 0, vals |-> <<>>, t |-> -1]

Start(tr) ==
  [mode |-> "new", call |-> 0, arg |-> 0, next |-> 0, pending |-> <<>>, removed |-> {},
   nCons |-> 0, nSim |-> 0, obj |-> 0, doneB |-> 0,
   round |-> 0, inRound |-> 0, objR |-> 0, point |-> [id |-> 0, val |-> 0], buf |-> <<>>, nSmp |-> 0, nReq |-> 0, nFedPts |-> 0,
   queue |-> <<>>, gpN |-> 0, lastOpt |-> (IF tr.kind = "bo" THEN NInitial(tr.init, tr.npre, tr.bs) ELSE tr.init), optd |-> FALSE, nEv |-> 0,
   lastReady |-> "none", allowed |-> FALSE, prepd |-> NoPrep, cur |-> NoBatch,
   acqSeen |-> FALSE, acqVal |-> 0, procSeen |-> FALSE, initSeen |-> 0, gpSeen |-> 0, roundEnd |-> FALSE, objRAtProc |-> 0]

Init == /\ tid \in 1..Len(Traces) /\ l = 1 /\ S = Start(Traces[tid]) /\ viol = {}
        /\ verdict = "ok" /\ drift = "" /\ done = FALSE

NPend == Len(S.pending)
KnownEv == {"new", "call", "inits", "obj", "allow", "acq", "prep", "submit", "ready", "get", "gp", "proc", "initr", "upd", "rm", "ret"}

\* pts (n values) -> slices of bs values
Slices(pts, bs) == [k \in 1..(Len(pts) \div bs) |-> SubSeq(pts, (k - 1) * bs + 1, k * bs)]
\* the batches of the round being evaluated, oldest first (the batch just consumed was merged at "get")
PreBase == IF Mb THEN MbPreGuard(TRUE, S.next, T.k, T.maxpar, S.obj, S.nCons, NPend) ELSE PreGuard(T.maxpar, S.obj, S.nCons, NPend)

\* ---- snapshot of the real object's scalars against S ------------------------------------------------------------------
Snap(e) ==
  IF e.nb # S.nCons THEN "E:state-n_batches-counts-consumed-batches"
  ELSE IF e.ns # S.nSim THEN "E:state-n_sim-is-n_batches-times-batch_size"
  ELSE IF e.objb # S.obj THEN "E:objective-n_batches"
  ELSE IF e.np # NPend THEN "E:num_pending"
  ELSE IF e.nx # S.next THEN "E:next_index"
  ELSE IF Mb /\ e.rd # S.round THEN "E:state-round-counts-evaluated-rounds"
  ELSE IF Mb /\ e.nsr # S.inRound * T.bs THEN "E:state-n_sim_round-counts-rows-of-the-round"
  ELSE IF Mb /\ e.objr # S.objR THEN "E:objective-round"
  ELSE IF T.kind = "bsl" /\ e.nsmp # S.nSmp THEN "E:state-n_samples"
  ELSE IF T.kind # "bsl" /\ e.nev # S.nEv THEN "E:state-n_evidence"
  ELSE IF T.kind # "bsl" /\ e.last # S.lastOpt THEN "E:state-last_GP_update"
  ELSE IF T.kind # "bsl" /\ e.gpn # S.gpN THEN "E:surrogate-evidence-count"
  ELSE IF Bo /\ e.ql # Len(S.queue) * T.bs THEN "E:state-acquisition-queue"
  ELSE "ok"

\* ---- one clause name (or "ok") per event ----------------------------------------------------------------------------------
Check(e) ==
  CASE e.ev = "new" ->
         IF S.mode # "new" THEN "X:two-constructions"
         ELSE IF T.kind = "bolfire" /\ S.initSeen # 1 THEN "E:bolfire-constructor-initialises-the-first-round"
         ELSE IF T.kind # "bolfire" /\ S.initSeen # 0 THEN "E:no-init_round-at-construction"
         ELSE IF Bo /\ S.gpN # T.npre THEN "E:precomputed-evidence-given-to-the-surrogate"
         ELSE IF T.kind # "bsl" /\ e.last # NI THEN "E:state-last_GP_update"
         ELSE IF T.kind # "bsl" /\ e.nev # S.nEv THEN "E:state-n_evidence"
         ELSE "ok"
    [] e.ev = "call" -> IF S.mode # "idle" THEN "X:call-inside-call" ELSE "ok"
    [] e.ev = "inits" ->
         IF T.kind # "bsl" \/ S.mode # "calling" THEN "E:init_state-only-at-a-sample-call"
         ELSE IF e.nb # 0 \/ e.ns # 0 \/ e.rd # 0 \/ e.nsr # 0 \/ e.nsmp # 0 THEN "E:init_state-resets-the-counters"
         ELSE "ok"
    [] e.ev = "obj" ->
         IF S.mode = "calling"
         THEN \* set_objective of the public call
              LET want == IF Bo THEN BoObjective(S.arg, T.npre, T.bs) ELSE MbObjective(S.arg, T.k) IN
              IF T.kind = "bolfire" /\ S.initSeen # (IF S.round > 0 THEN 1 ELSE 0) THEN "E:infer-reinitialises-the-round-iff-rounds-were-run"
              ELSE IF e.objb # want THEN "E:objective-n_batches"
              ELSE IF Mb /\ e.objr # S.arg THEN "E:objective-round"
              ELSE "ok"
         ELSE IF T.kind = "bsl" /\ S.mode = "update" /\ S.procSeen
         THEN \* BSL._init_round rejected a proposal outside the prior support: one round less, one chain position filled
              IF e.objr # S.objR - 1 THEN "E:objective-round"
              ELSE IF e.objb # MbObjective(S.objR - 1, T.k) THEN "E:objective-n_batches"
              ELSE IF S.nSmp + 1 > S.nReq THEN "E:bsl-rejection-fills-a-chain-position"
              ELSE "ok"
         ELSE "E:set_objective-only-at-a-public-call"
    [] e.ev = "ready" ->
         IF NPend = 0 \/ S.pending[1].id # e.id THEN "E:is_ready-asks-the-oldest-batch" ELSE "ok"
    [] e.ev = "allow" ->
         LET asked == S.lastReady # "none"
             base == PreBase /\ (NPend = 0 \/ S.lastReady = "F")
             gate == BoGate(T.async, AT(S.next), S.queue = <<>>, NPend)
             want == IF Bo THEN base /\ gate ELSE base
         IN IF S.mode # "loop" THEN "E:iterate-only-inside-infer"
            ELSE IF Finished(S.obj, S.nCons) THEN "E:iterate-only-while-not-finished"
            ELSE IF e.bi # S.next THEN "E:allow_submit-asked-for-next-index"
            ELSE IF Mb /\ MbBlocked(TRUE, S.next, T.k, NPend) /\ e.ans THEN "E:round-gate-holds-the-first-batch-of-a-round-until-nothing-is-pending"
            ELSE IF asked # (PreBase /\ NPend > 0) THEN "E:is_ready-asked-exactly-when-the-earlier-guards-hold"
            ELSE IF Bo /\ base /\ ~gate /\ e.ans THEN "E:synchronous-acquisition-waits-for-outstanding-batches"
            ELSE IF Bo /\ base /\ gate /\ ~e.ans THEN "E:acquisition-gate-lets-the-batch-through"
            ELSE IF e.ans # want THEN "E:allow_submit-answer"
            ELSE "ok"
    [] e.ev = "acq" ->
         IF Bo
         THEN IF ~S.allowed \/ S.mode # "loop" THEN "E:acquire-only-for-an-allowed-batch"
              ELSE IF S.queue # <<>> THEN "E:acquire-only-when-the-queue-is-empty"
              ELSE IF e.t # AT(S.next) \/ e.t < 0 THEN "E:acquisition-index"
              ELSE IF e.n # T.bs * BPA \/ Len(e.pts) # e.n THEN "E:acquisition-size"
              ELSE IF e.pend # NPend THEN "E:num_pending"
              ELSE IF e.seen # S.gpN \/ S.gpN # T.npre + S.nCons * T.bs THEN "E:acquisition-sees-exactly-the-consumed-evidence"
              ELSE IF ~T.async /\ e.pend # 0 THEN "E:synchronous-acquisition-with-batches-pending"
              ELSE IF e.pend > T.maxpar - 1 THEN "E:bounded-outstanding"
              ELSE "ok"
         ELSE IF T.kind = "bolfire"
         THEN IF S.nEv < NI THEN "E:bolfire-draws-from-the-prior-during-initial-evidence"
              ELSE IF e.t # S.nEv - NI THEN "E:acquisition-index"
              ELSE IF e.n # 1 \/ Len(e.pts) # 1 THEN "E:acquisition-size"
              ELSE IF e.pend # 0 \/ NPend # 0 THEN "E:acquisition-with-batches-pending"
              ELSE IF e.seen # S.gpN \/ S.gpN # S.round THEN "E:acquisition-sees-exactly-the-consumed-evidence"
              ELSE "ok"
         ELSE "X:acquire-in-bsl"
    [] e.ev = "prep" ->
         IF ~S.allowed \/ S.mode # "loop" THEN "E:prepare-only-for-an-allowed-batch"
         ELSE IF e.bi # S.next THEN "E:prepare-uses-next-index"
         ELSE IF Mb
         THEN IF Len(e.pts) # T.bs \/ \E i \in 1..Len(e.pts) : e.pts[i] # S.point.val THEN "E:batch-prepared-at-the-current-parameter-point"
              ELSE "ok"
         ELSE IF e.t # AT(S.next) THEN "E:acquisition-index"
         ELSE IF e.t < 0 THEN (IF e.pts # <<>> THEN "E:initial-evidence-batch-drawn-from-the-prior" ELSE "ok")
         ELSE IF S.queue = <<>> THEN "E:acquire-fills-the-empty-queue"
         ELSE IF e.pts # S.queue[1] THEN "E:batch-takes-the-next-slice-of-the-acquisition"
         ELSE IF e.ql # (Len(S.queue) - 1) * T.bs THEN "E:state-acquisition-queue"
         ELSE "ok"
    [] e.ev = "submit" ->
         IF ~S.prepd.set THEN "E:submit-follows-prepare"
         ELSE IF e.bi # S.next THEN "E:submit-uses-next-index"
         ELSE IF NPend + 1 > T.maxpar THEN "E:bounded-outstanding"
         ELSE IF Mb /\ StartsRound(e.bi, T.k) /\ NPend > 0 THEN "E:no-batch-of-the-next-round-before-the-round-is-consumed"
         ELSE IF Mb /\ NPend + 1 > T.k THEN "E:no-batch-of-the-next-round-before-the-round-is-consumed"
         ELSE "ok"
    [] e.ev = "get" ->
         IF e.id \in S.removed THEN "E:no-cancelled-result-used"
         ELSE IF S.mode # "loop" THEN "E:wait_next-only-inside-iterate"
         ELSE IF NPend = 0 \/ \A i \in 1..NPend : S.pending[i].id # e.id THEN "E:each-batch-consumed-once"
         ELSE IF S.pending[1].id # e.id THEN "E:consumed-in-index-order"
         ELSE IF S.allowed THEN "E:wait-only-after-allow_submit-refused"
         ELSE "ok"
    [] e.ev = "gp" ->
         IF e.pre
         THEN IF ~Bo \/ S.mode # "new" THEN "X:precomputed-evidence-outside-construction"
              ELSE IF Len(e.rows) # T.npre THEN "E:precomputed-evidence-given-to-the-surrogate"
              ELSE IF e.opt THEN "E:update_interval-gates-optimisation"
              ELSE "ok"
         ELSE IF S.mode # "update" THEN "E:surrogate-updated-only-in-update"
         ELSE IF S.gpSeen # 0 THEN "E:surrogate-fed-once-per-update"
         ELSE IF Bo
         THEN IF Len(e.rows) # T.bs THEN "E:surrogate-fed-the-consumed-batch"
              ELSE IF \E i \in 1..Len(e.rows) : e.rows[i][2] # S.cur.bi \/ e.rows[i][3] # i - 1 THEN "E:surrogate-fed-the-consumed-batch"
              ELSE IF S.cur.t >= 0 /\ Len(S.cur.vals) # T.bs THEN "E:batch-takes-the-next-slice-of-the-acquisition"
              ELSE IF S.cur.t >= 0 /\ \E i \in 1..Len(e.rows) : e.rows[i][1] # S.cur.vals[i] THEN "E:surrogate-fed-the-acquired-points-it-simulated"
              ELSE IF e.opt # ShouldOptimize(S.gpN, T.bs, S.lastOpt, T.upd, NI) THEN "E:update_interval-gates-optimisation"
              ELSE "ok"
         ELSE IF T.kind = "bolfire"
         THEN IF ~S.procSeen THEN "E:surrogate-updated-only-at-a-round-end"
              ELSE IF Len(e.rows) # 1 \/ e.rows[1][1] # S.point.val THEN "E:surrogate-fed-the-round-point"
              ELSE IF e.opt # ShouldOptimize(S.gpN, 1, S.lastOpt, T.upd, NI) THEN "E:update_interval-gates-optimisation"
              ELSE "ok"
         ELSE "X:surrogate-in-bsl"
    [] e.ev = "proc" ->
         IF ~Mb \/ S.mode # "update" THEN "E:process_simulated-only-inside-update"
         ELSE IF S.procSeen THEN "E:process_simulated-once-per-round"
         ELSE IF S.inRound # T.k \/ Len(S.buf) # T.k THEN "E:process_simulated-exactly-at-a-round-end"
         ELSE IF Len(e.rows) # T.k * T.bs THEN "E:round-hands-over-exactly-n_sim_round-rows"
         ELSE IF \E j \in 1..T.k : \E r \in 1..T.bs :
                   LET row == e.rows[(j - 1) * T.bs + r] IN row[1] # S.buf[j].bi \/ row[2] # r - 1
              THEN "E:round-rows-are-its-batches-in-batch-index-order"
         ELSE IF \E j \in 1..T.k : S.buf[j].pt # S.point.id \/ S.buf[j].bi # S.buf[1].bi + j - 1 \/ S.buf[1].bi % T.k # 0
              THEN "E:round-consists-of-its-own-consecutive-batches"
         ELSE IF \E i \in 1..Len(e.rows) : e.rows[i][3] # S.point.val THEN "E:round-simulated-at-the-round-parameter-point"
         ELSE IF e.cur # S.point.val THEN "E:current_params-is-the-round-point"
         ELSE "ok"
    [] e.ev = "initr" ->
         IF ~Mb THEN "X:init_round-in-bo"
         ELSE IF NPend # 0 THEN "E:init_round-with-batches-pending"
         ELSE IF S.mode = "update" /\ ~S.procSeen THEN "E:init_round-only-after-the-round-was-evaluated"
         ELSE IF S.mode \notin {"new", "calling", "update"} THEN "E:init_round-only-between-rounds"
         ELSE IF S.initSeen # 0 THEN "E:init_round-once-between-rounds"
         ELSE IF T.kind = "bolfire"
         THEN IF e.nsr # 0 THEN "E:init_round-resets-n_sim_round"
              ELSE IF S.acqSeen # (S.nEv >= NI) THEN "E:bolfire-acquires-exactly-after-the-initial-evidence"
              ELSE IF S.acqSeen /\ e.cur # S.acqVal THEN "E:round-point-is-the-acquired-point"
              ELSE "ok"
         ELSE IF e.nsmp # S.nSmp \/ e.objr # S.objR THEN "E:bsl-rejections-counted"
              ELSE IF S.nSmp < S.nReq /\ e.nsr # 0 THEN "E:init_round-resets-n_sim_round"
              ELSE "ok"
    [] e.ev = "upd" ->
         IF S.mode # "update" THEN "E:update-follows-wait_next"
         ELSE IF e.bi # S.cur.bi THEN "E:update-receives-the-consumed-batch"
         ELSE IF Mb /\ S.procSeen # S.roundEnd THEN "E:process_simulated-exactly-at-a-round-end"
         ELSE IF Mb /\ S.initSeen # (IF S.roundEnd /\ S.round < S.objRAtProc THEN 1 ELSE 0) THEN "E:init_round-exactly-when-rounds-remain"
         ELSE IF T.kind # "bsl" /\ S.gpSeen # (IF Bo \/ S.roundEnd THEN 1 ELSE 0) THEN "E:surrogate-fed-once-per-update"
         ELSE Snap(e)
    [] e.ev = "rm" -> "E:no-batch-is-ever-cancelled"
    [] e.ev = "ret" ->
         IF e.raised # "" THEN "E:call-returns"
         ELSE IF S.mode # "loop" THEN "E:call-sets-the-objective"
         ELSE IF ~Finished(S.obj, S.nCons) THEN "E:returns-only-when-the-objective-is-reached"
         ELSE IF NPend # 0 \/ e.left # 0 THEN "E:no-task-left-in-client"
         ELSE IF Snap(e) # "ok" THEN Snap(e)
         ELSE IF Bo /\ S.nCons # S.doneB THEN "E:terminates-at-the-objective"
         ELSE IF Bo /\ S.nEv # T.npre + S.nCons * T.bs THEN "E:n_evidence-total-respected"
         ELSE IF Bo /\ S.nCons = S.obj /\ S.nCons > 0 /\ ~(S.nEv >= S.arg /\ S.nEv < S.arg + T.bs) THEN "E:n_evidence-total-respected"
         ELSE IF T.kind = "bolfire" /\ (S.round # S.doneB \/ S.nCons # S.round * T.k \/ S.nEv # S.round) THEN "E:terminates-at-the-objective"
         ELSE IF T.kind = "bsl" /\ (S.round # S.objR \/ S.nSmp # S.nReq \/ S.nCons # S.round * T.k) THEN "E:terminates-at-the-objective"
         \* the whole history gives what the sequential run (native client, one batch at a time) gives
         ELSE IF l = Len(T.events) /\ ~(Bo /\ T.async) /\ e.digest # T.seq THEN "E:result-independent-of-schedule-and-parallelism"
         ELSE "ok"
    [] OTHER -> "X:unknown-event"

\* ---- the abstract step (only evaluated when Check(e) = "ok") -------------------------------------------------------------------
DropId(p, id) == SelectSeq(p, LAMBDA x : x.id # id)
Apply(e) ==
  CASE e.ev = "new" -> [S EXCEPT !.mode = "idle", !.initSeen = 0]
    [] e.ev = "call" -> [S EXCEPT !.mode = "calling", !.call = @ + 1, !.arg = e.arg, !.initSeen = 0]
    [] e.ev = "inits" -> [S EXCEPT !.nCons = 0, !.nSim = 0, !.round = 0, !.inRound = 0, !.nSmp = 0, !.buf = <<>>,
                                  !.point = [id |-> S.point.id + 1, val |-> e.cur]]
    [] e.ev = "obj" ->
         IF S.mode = "calling"
         THEN [S EXCEPT !.mode = "loop", !.obj = e.objb, !.objR = (IF Mb THEN S.arg ELSE 0), !.nReq = S.arg, !.initSeen = 0,
                        !.doneB = Max2(@, IF Bo THEN e.objb ELSE IF T.kind = "bolfire" THEN S.arg ELSE 0)]
         ELSE [S EXCEPT !.objR = @ - 1, !.obj = e.objb, !.nSmp = @ + 1]
    [] e.ev = "ready" -> [S EXCEPT !.lastReady = IF e.ans THEN "T" ELSE "F"]
    [] e.ev = "allow" -> [S EXCEPT !.allowed = e.ans, !.lastReady = "none"]
    [] e.ev = "acq" ->
         IF Bo THEN [S EXCEPT !.queue = Slices(e.pts, T.bs)]
         ELSE [S EXCEPT !.acqSeen = TRUE, !.acqVal = e.pts[1]]
    [] e.ev = "prep" ->
         IF Mb THEN [S EXCEPT !.prepd = [set |-> TRUE, pt |-> S.point.id, vals |-> e.pts, t |-> -1]]
         ELSE IF e.t < 0 THEN [S EXCEPT !.prepd = [set |-> TRUE, pt |-> 0, vals |-> <<>>, t |-> -1]]
         ELSE [S EXCEPT !.prepd = [set |-> TRUE, pt |-> 0, vals |-> e.pts, t |-> e.t], !.queue = Tail(@)]
    [] e.ev = "submit" ->
         [S EXCEPT !.pending = Append(@, [bi |-> e.bi, id |-> e.id, pt |-> S.prepd.pt, vals |-> S.prepd.vals, t |-> S.prepd.t]),
                   !.next = @ + 1, !.allowed = FALSE, !.prepd = NoPrep]
    [] e.ev = "get" ->
         LET h == S.pending[1] IN
         [S EXCEPT !.mode = "update", !.cur = h, !.pending = Tail(@), !.nCons = @ + 1, !.nSim = @ + T.bs,
                   !.nEv = IF Bo THEN @ + T.bs ELSE @,
                   !.buf = IF Mb THEN Append(@, h) ELSE @, !.inRound = IF Mb THEN @ + 1 ELSE @,
                   !.roundEnd = Mb /\ S.inRound + 1 = T.k,
                   !.procSeen = FALSE, !.initSeen = 0, !.gpSeen = 0, !.acqSeen = FALSE, !.objRAtProc = S.objR]
    [] e.ev = "gp" ->
         IF e.pre THEN [S EXCEPT !.gpN = @ + Len(e.rows), !.nEv = @ + Len(e.rows)]
         ELSE [S EXCEPT !.gpN = @ + Step1, !.gpSeen = @ + 1, !.optd = @ \/ e.opt, !.nFedPts = @ + 1,
                        !.lastOpt = IF e.opt THEN S.gpN + Step1 ELSE @]
    [] e.ev = "proc" ->
         [S EXCEPT !.procSeen = TRUE, !.buf = <<>>, !.round = @ + 1, !.objRAtProc = S.objR,
                   !.nEv = IF T.kind = "bolfire" THEN @ + 1 ELSE @, !.nSmp = IF T.kind = "bsl" THEN @ + 1 ELSE @]
    [] e.ev = "initr" ->
         IF T.kind = "bsl" /\ S.nSmp >= S.nReq THEN [S EXCEPT !.initSeen = @ + 1]          \* every remaining position was rejected
         ELSE [S EXCEPT !.initSeen = @ + 1, !.inRound = 0, !.acqSeen = FALSE, !.point = [id |-> S.point.id + 1, val |-> e.cur]]
    [] e.ev = "upd" -> [S EXCEPT !.mode = "loop", !.cur = NoBatch]
    [] e.ev = "ret" -> [S EXCEPT !.mode = "idle"]
    [] OTHER -> S

\* ---- user-level expectations the code does not meet (findings; see RoundGate.tla) -----------------------------------------------
Violated(e) ==
  (IF e.ev = "acq" /\ Bo /\ e.seen < NI THEN {"inv-acquisition-after-initial-evidence"} ELSE {})
  \cup (IF e.ev = "acq" /\ e.seen > 0 /\ ~S.optd THEN {"inv-gp-optimised-before-first-acquisition"} ELSE {})
  \cup (IF e.ev = "ret" /\ l = Len(T.events) /\ Bo /\ e.ql # 0 THEN {"inv-no-acquired-point-left-behind"} ELSE {})
  \cup (IF e.ev = "ret" /\ l = Len(T.events) /\ T.kind = "bolfire" /\ S.point.id # S.nFedPts THEN {"inv-no-acquired-point-left-behind"} ELSE {})

Names == <<"inv-acquisition-after-initial-evidence", "inv-gp-optimised-before-first-acquisition", "inv-no-acquired-point-left-behind">>
RECURSIVE Join(_, _)
Join(v, i) == IF i > Len(Names) THEN ""
              ELSE LET rest == Join(v, i + 1) IN
                   IF Names[i] \in v THEN (IF rest = "" THEN Names[i] ELSE Names[i] \o "|" \o rest) ELSE rest

Step ==
  /\ ~done
  /\ IF l > Len(T.events) THEN done' = TRUE /\ UNCHANGED <<tid, l, S, viol, verdict, drift>>
     ELSE LET e == T.events[l]
              j == IF e.ev \in KnownEv THEN Check(e) ELSE "X:unknown-event"
              v == IF j = "ok" THEN viol \cup Violated(e) ELSE viol
          IN /\ verdict' = j /\ done' = (j # "ok") /\ l' = l + 1 /\ UNCHANGED tid
             /\ S' = IF j = "ok" THEN Apply(e) ELSE S
             /\ viol' = v /\ drift' = Join(v, 1)

Spec == Init /\ [][Step]_vars
Report == done => PrintT(<<"V", tid, l, verdict, drift>>)
=============================================================================

---------------------------- MODULE BolfiPipeline ----------------------------
(***************************************************************************)
(* EXTENSION (no listed property): the PUBLIC CALL PIPELINE of             *)
(* BayesianOptimization / BOLFI (elfi/methods/inference/bolfi.py, on top   *)
(* of ParameterInference.infer / iterate) as a state machine over SEVERAL  *)
(* public calls on ONE object: __init__ (the three forms of                *)
(* initial_evidence), set_objective, iterate, infer, fit,                  *)
(* extract_posterior, extract_result, sample.  What ONE fit does inside    *)
(* its loop (scheduling, points inside bounds, the GP trained on what was  *)
(* run) is BoLoop.tla / C11; what a posterior evaluates to is              *)
(* Surrogate.tla / BolfiPosterior.tla / C10.  Here a batch is atomic       *)
(* (max_parallel_batches = 1) and the GP is a counter.                     *)
(*                                                                         *)
(* Deliberate deviations: update() / prepare_new_batch() are only reached  *)
(* through iterate() (their direct use is documented but not modelled);    *)
(* async_acq, pools and plotting are left out; a threshold is "given" or   *)
(* "none" (the code then takes the minimum of the GP mean over the BOUNDS, *)
(* L-BFGS-B from 10 prior draws of RandomState(0) - not the minimum over   *)
(* the evidence points; the trace spec checks it against a grid oracle);   *)
(* x_min of extract_result is a differential-evolution minimum of the GP   *)
(* mean over the bounds seeded with the object's seed, not an evidence     *)
(* point (trace spec: inside the bounds, mean <= mean at every evidence    *)
(* point); `posts` remembers the last MaxPosts posteriors only.            *)
(*                                                                         *)
(* One pure operator per stage of a public call, transcribed from the      *)
(* code; Stages(c, a) is the order in which the public method a.m runs     *)
(* them ("loop" = `while not self.finished: self.iterate()`, "maybe_fit" = *)
(* `if self.state['n_batches'] == 0: self.fit(n_evidence)` in sample);     *)
(* a stage that raises ends the call and leaves what the earlier stages    *)
(* did.  Run(c, s, a) is the composed effect of one public call (used by   *)
(* the trace spec); the actions below execute it stage by stage and        *)
(* StagewiseEqualsComposed ties the two.                                   *)
(*                                                                         *)
(* Configuration c (fixed by __init__): bs (batch_size), ninit             *)
(* (n_initial_evidence AFTER rounding), npre (n_precomputed_evidence), upd *)
(* (update_interval), bpa (batches_per_acquisition), fix (the set of       *)
(* REPAIRS applied to the transcription; {} is the code).                  *)
(*                                                                         *)
(* The abstract state s (a record):                                        *)
(*   nb nsim nev      state['n_batches'], ['n_sim'], ['n_evidence']        *)
(*   gp               target_model.n_evidence (rows of the GP)             *)
(*   last             state['last_GP_update']                              *)
(*   q qrec           len(state['acquisition']) (points) and the           *)
(*                    acquisition they come from                           *)
(*   objset on osim   objective['n_evidence'], ['n_sim'] (objset: defined) *)
(*   nx               batches.next_index                                   *)
(*   smp              target_model.is_sampling                             *)
(*   nopt             ghost: GP hyperparameter optimisations so far        *)
(*   ev               ghost: one record per consumed batch: index i,       *)
(*                    acquisition index t (-1: drawn from the prior),      *)
(*                    fresh (acquire() ran for this batch), and what the   *)
(*                    GP was when ITS points were acquired: seen (rows),   *)
(*                    opt (optimisations so far), smp (is_sampling)        *)
(*   posts            ghost: the (last MaxPosts) posteriors handed to the  *)
(*                    user by fit / extract_posterior: at = GP rows when   *)
(*                    extracted (its threshold belongs to that GP), sees = *)
(*                    GP rows it evaluates NOW                             *)
(*   out              what the call returned                               *)
(*   raised trail     outcome of / public methods entered by the call      *)
(*                                                                         *)
(* REPAIRS - each one is a finding about the real pipeline: the repaired   *)
(* machine keeps every user-level invariant below, and TLC refutes one of  *)
(* them as soon as any single repair is left out.                          *)
(*   "posterior_snapshot"      extract_posterior hands out a posterior     *)
(*                             over a COPY of the GP (the code hands out   *)
(*                             the live target_model: a later fit changes  *)
(*                             an already extracted posterior, whose       *)
(*                             threshold stays that of the old GP)         *)
(*   "sampling_flag_reset"     sample() resets target_model.is_sampling    *)
(*                             when it raises (the code leaves it True:    *)
(*                             later acquisitions then see the NOISY       *)
(*                             predictive variance - other evidence)       *)
(*   "arguments_checked_first" sample() rejects an unknown algorithm and   *)
(*                             initials of the wrong shape before it fits  *)
(*                             (the code runs the fit that n_evidence=...  *)
(*                             asks for first, then refuses)               *)
(*   "init_scan_checked"       running out of initial points is the        *)
(*                             documented ValueError (the code raises      *)
(*                             IndexError when n_chains > evidence, and    *)
(*                             UnboundLocalError for a rejected user       *)
(*                             initial: `inds` only exists on the default  *)
(*                             path)                                       *)
(*   "empty_result_refused"    extract_result / infer(0) on an object      *)
(*                             without evidence is refused (the code:      *)
(*                             AttributeError, `self._gp.X` of None)       *)
(*   "warmup_zero"             warmup=0 means 0 (the code:                 *)
(*                             `warmup or n_samples // 2`)                 *)
(*   "metropolis_total"        a metropolis chain runs n_samples           *)
(*                             iterations "including warmup" as documented *)
(*                             (the code runs n_samples + warmup and       *)
(*                             discards warmup twice)                      *)
(*   "sample_reports_n_sim"    BolfiSample.n_sim = simulations run (the    *)
(*                             code reports state['n_evidence'], which     *)
(*                             counts precomputed evidence too)            *)
(*   "optimise_at_initial"     the GP hyperparameters are optimised when   *)
(*                             the initial evidence is complete (the code  *)
(*                             starts last_GP_update at n_initial_evidence *)
(*                             although nothing was optimised: the first   *)
(*                             optimisation happens update_interval points *)
(*                             later, every earlier acquisition uses the   *)
(*                             heuristic hyperparameters of the first      *)
(*                             batch)                                      *)
(***************************************************************************)
EXTENDS Naturals, Integers, Sequences, FiniteSets, TLC

AllFixes == {"posterior_snapshot", "sampling_flag_reset", "arguments_checked_first", "init_scan_checked",
             "empty_result_refused", "warmup_zero", "metropolis_total", "sample_reports_n_sim", "optimise_at_initial"}

\* ------------------------------------------------------------------ helpers
Imp(a, b) == ~a \/ b
Max(a, b) == IF a >= b THEN a ELSE b
NoneV == -1                                  \* Python None for an int argument
CeilDiv(a, b) == -((-a) \div b)              \* math.ceil(a / b), b > 0
CeilTo(n, b) == CeilDiv(n, b) * b            \* ceil_to_batch_size
RECURSIVE Pow2(_)
Pow2(d) == IF d = 0 THEN 1 ELSE 2 * Pow2(d - 1)
IsPrefix(p, q) == Len(p) <= Len(q) /\ \A i \in 1..Len(p) : p[i] = q[i]
AllT(n) == [i \in 1..n |-> TRUE]

NoAcq == [t |-> -1, seen |-> 0, opt |-> 0, smp |-> FALSE]
NoOut == [kind |-> "none", rows |-> 0, warm |-> 0, nch |-> 0, iters |-> 0, nsim |-> 0, nbat |-> 0, thr |-> "none"]

\* arguments of a public call (every call carries every field).  n: n_evidence (NoneV = None / not given); thr: "none" |
\* "given"; ns, warm (NoneV = None), nch, alg: arguments of sample; ini: "none" (initials=None) | "ok" | "bad" (the first
\* user initial has logpdf -inf) | "shape"; fin[k]: ENVIRONMENT - the k-th best evidence point has a finite logpdf
A0 == [m |-> "", n |-> NoneV, thr |-> "none", ns |-> 0, warm |-> NoneV, nch |-> 0, alg |-> "nuts", ini |-> "none", fin |-> <<>>]

\* ------------------------------------------------------------------ __init__ / _resolve_initial_evidence
\* ie = [kind |-> "none" | "int" | "dict", n |-> the int / the number of precomputed rows];  reqmin = 10 in elfi
NRequired(reqmin, dim, bs) == CeilTo(Max(reqmin, Pow2(dim) + 1), bs)
InitRefused(ie) == ie.kind = "int" /\ ie.n < 0
NInitial(ie, reqmin, dim, bs) ==
  CASE ie.kind = "none" -> NRequired(reqmin, dim, bs)
    [] ie.kind = "dict" -> ie.n                                            \* never rounded
    [] OTHER -> IF ie.n % bs # 0 THEN CeilTo(ie.n, bs) ELSE ie.n           \* "Rounding it up..."
NPrecomputed(ie) == IF ie.kind = "dict" THEN ie.n ELSE 0
Config(ie, reqmin, dim, bs, upd, bpa, fix) ==
  [bs |-> bs, ninit |-> NInitial(ie, reqmin, dim, bs), npre |-> NPrecomputed(ie), upd |-> upd, bpa |-> bpa, fix |-> fix]

S0(c) ==
  LET early == "optimise_at_initial" \in c.fix IN
  [nb |-> 0, nsim |-> 0, nev |-> c.npre, gp |-> c.npre,
   last |-> (IF early /\ c.npre = 0 THEN c.ninit - c.upd ELSE c.ninit),
   q |-> 0, qrec |-> NoAcq, objset |-> FALSE, on |-> 0, osim |-> 0, nx |-> 0, smp |-> FALSE,
   nopt |-> (IF early /\ c.npre > 0 THEN 1 ELSE 0),        \* the repair optimises the GP built from precomputed evidence
   ev |-> <<>>, posts |-> <<>>, out |-> NoOut, raised |-> "", trail |-> <<>>]

Raise(s, k) == [s EXCEPT !.raised = k, !.out = NoOut]
\* raise kinds that are the documented answer to a call that cannot be served (all ValueError)
Refusals == {"not_fitted", "need_n_evidence", "unknown_sampler", "bad_initials_shape", "not_enough_init", "no_objective",
             "nothing_to_wait_for", "nothing_to_extract"}
PyName(k) == IF k = "" THEN "" ELSE IF k \in Refusals THEN "ValueError" ELSE k
\* the first words of the message of a refusal
PyMsg(k) == CASE k = "not_fitted" -> "Model is not fitted yet"
              [] k = "need_n_evidence" -> "You must specify the nu"
              [] k = "unknown_sampler" -> "Unknown posterior sampl"
              [] k = "bad_initials_shape" -> "The shape of initials m"
              [] k = "not_enough_init" -> "BOLFI.sample: Cannot fi"
              [] k = "no_objective" -> "Objective must define e"
              [] k = "nothing_to_wait_for" -> "Cannot wait for a batch"
              [] OTHER -> ""

\* ------------------------------------------------------------------ stages
\* set_objective(n_evidence=None)
SetObjective(c, s, a) ==
  LET n == IF a.n = NoneV THEN (IF s.objset THEN s.on ELSE s.nev) ELSE a.n
  IN [s EXCEPT !.objset = TRUE, !.on = n, !.osim = n - c.npre]

ObjB(c, s) == CeilDiv(s.osim, c.bs)                           \* _objective_n_batches
Finished(c, s) == ObjB(c, s) <= s.nb
AcqT(c, b) == (c.bs * b - (c.ninit - c.npre)) \div (c.bs * c.bpa)       \* _get_acquisition_index (floor division)

\* iterate() with one batch in flight: prepare_new_batch, submit, wait_next, update
Iterate(c, s) ==
  IF ~s.objset THEN Raise(s, "no_objective")
  ELSE IF Finished(c, s) THEN Raise(s, "nothing_to_wait_for")
  ELSE LET b == s.nx
           t == AcqT(c, b)
           fresh == t >= 0 /\ s.q = 0                          \* acquisition_method.acquire(bs * bpa, t)
           rec == IF fresh THEN [t |-> t, seen |-> s.gp, opt |-> s.nopt, smp |-> s.smp] ELSE s.qrec
           e == IF t < 0 THEN [i |-> b, t |-> -1, fresh |-> FALSE, seen |-> 0, opt |-> 0, smp |-> FALSE]
                ELSE [i |-> b, t |-> rec.t, fresh |-> fresh, seen |-> rec.seen, opt |-> rec.opt, smp |-> rec.smp]
           cur == s.gp + c.bs
           opt == cur >= c.ninit /\ cur >= s.last + c.upd      \* _should_optimize
       IN [s EXCEPT !.nb = s.nb + 1, !.nsim = s.nsim + c.bs, !.nev = s.nev + c.bs, !.gp = cur, !.nx = b + 1,
                    !.q = IF t < 0 THEN s.q ELSE (IF fresh THEN c.bs * c.bpa ELSE s.q) - c.bs,
                    !.qrec = IF t < 0 THEN s.qrec ELSE rec,
                    !.last = IF opt THEN cur ELSE s.last, !.nopt = IF opt THEN s.nopt + 1 ELSE s.nopt,
                    !.ev = Append(s.ev, e),
                    \* the posteriors already handed out hold the live target_model
                    !.posts = IF "posterior_snapshot" \in c.fix THEN s.posts
                              ELSE [k \in 1..Len(s.posts) |-> [s.posts[k] EXCEPT !.sees = cur]],
                    !.out = NoOut]

\* extract_result(): arr2d_to_batch(self.target_model.X, ...) - X is `self._gp.X`
ExtractResult(c, s, a) ==
  IF s.gp = 0 THEN Raise(s, IF "empty_result_refused" \in c.fix THEN "nothing_to_extract" ELSE "AttributeError")
  ELSE [s EXCEPT !.out = [NoOut EXCEPT !.kind = "optres", !.rows = s.gp, !.nsim = s.nsim, !.nbat = s.nb]]

\* extract_posterior(threshold): handed to the user when it is the return value of the call
ExtractPosterior(c, s, a, thr, kept) ==
  IF s.nev = 0 THEN Raise(s, "not_fitted")
  ELSE [s EXCEPT !.out = [NoOut EXCEPT !.kind = "posterior", !.thr = thr],
                 !.posts = IF kept THEN Append(s.posts, [at |-> s.gp, sees |-> s.gp]) ELSE s.posts]

\* sample(): `warmup = warmup or n_samples // 2`
Warmup(c, a) == IF a.warm = NoneV \/ (a.warm = 0 /\ "warmup_zero" \notin c.fix) THEN a.ns \div 2 ELSE a.warm
\* the shape check of user initials; `self.target_model.is_sampling = True`
CheckShape(c, s, a) == IF a.ini = "shape" THEN Raise(s, "bad_initials_shape") ELSE s
Prepare(c, s, a) == [s EXCEPT !.smp = TRUE]
\* the choice of one start point per chain among `initials` (default: the evidence points, best first)
RECURSIVE Scan(_, _, _)
Scan(fin, pos, need) ==
  IF need = 0 THEN "ok"
  ELSE IF pos > Len(fin) THEN "IndexError"                       \* initials[ii_initial] past the end
  ELSE IF fin[pos] THEN Scan(fin, pos + 1, need - 1)
  ELSE IF pos + 1 > Len(fin) THEN "not_enough_init"              \* `if ii_initial == len(inds): raise ValueError`
  ELSE Scan(fin, pos + 1, need)
ScanOutcome(c, s, a) ==
  LET r == CASE a.ini = "bad" -> "UnboundLocalError"             \* `len(inds)`: inds exists on the default path only
             [] a.ini = "ok" -> "ok"
             [] OTHER -> Scan(a.fin, 1, a.nch)
  IN IF r \in {"IndexError", "UnboundLocalError"} /\ "init_scan_checked" \in c.fix THEN "not_enough_init" ELSE r
ScanStage(c, s, a) ==
  LET r == ScanOutcome(c, s, a) IN
  IF r = "ok" THEN s
  ELSE Raise([s EXCEPT !.smp = IF "sampling_flag_reset" \in c.fix THEN FALSE ELSE s.smp], r)
Chains(c, s, a) ==
  LET w == Warmup(c, a) IN
  [s EXCEPT !.smp = FALSE,
            !.out = [kind |-> "sample", rows |-> a.nch * Max(a.ns - w, 0), warm |-> w, nch |-> a.nch,
                     iters |-> IF a.alg = "metropolis" /\ "metropolis_total" \notin c.fix THEN a.ns + w ELSE a.ns,
                     nsim |-> IF "sample_reports_n_sim" \in c.fix THEN s.nsim ELSE s.nev,
                     nbat |-> 0, thr |-> a.thr]]

\* ------------------------------------------------------------------ sequencing
\* public methods (their entry is what `trail` records)
Methods == {"set_objective", "iterate", "infer", "fit", "extract_posterior", "extract_result", "sample"}
InferStages == <<"infer", "set_objective", "loop", "extract_result">>
FitStages(last) == <<"fit">> \o InferStages \o <<last>>
Stages(c, a) ==
  CASE a.m = "infer" -> InferStages
    [] a.m = "fit" -> FitStages("extract_posterior")
    [] a.m = "sample" -> IF "arguments_checked_first" \in c.fix
                         THEN <<"sample", "check_alg", "check_shape", "maybe_fit", "extract_posterior", "prepare", "scan", "chains">>
                         ELSE <<"sample", "maybe_fit", "check_alg", "extract_posterior", "check_shape", "prepare", "scan", "chains">>
    [] OTHER -> <<a.m>>

\* one stage; `rest` is what remains to be done after it.  Returns <<state, remaining stages>>
Do(c, s, a, stage, rest) ==
  LET note(x, nm) == [x EXCEPT !.trail = Append(s.trail, nm)]
      kept == a.m \in {"fit", "extract_posterior"}
  IN CASE stage = "loop" -> IF Finished(c, s) THEN <<s, rest>> ELSE <<note(Iterate(c, s), "iterate"), <<"loop">> \o rest>>
       [] stage = "maybe_fit" -> IF s.nb = 0 THEN <<s, FitStages("extract_posterior_default") \o rest>> ELSE <<s, rest>>
       [] stage = "check_alg" -> <<IF a.alg \notin {"nuts", "metropolis"} THEN Raise(s, "unknown_sampler") ELSE s, rest>>
       [] stage = "check_shape" -> <<CheckShape(c, s, a), rest>>
       [] stage = "prepare" -> <<Prepare(c, s, a), rest>>
       [] stage = "scan" -> <<ScanStage(c, s, a), rest>>
       [] stage = "chains" -> <<Chains(c, s, a), rest>>
       [] stage = "fit" -> <<note(IF a.n = NoneV THEN Raise(s, "need_n_evidence") ELSE s, "fit"), rest>>
       [] stage \in {"infer", "sample"} -> <<note(s, stage), rest>>
       [] stage = "set_objective" -> <<note(SetObjective(c, s, a), stage), rest>>
       [] stage = "iterate" -> <<note(Iterate(c, s), stage), rest>>
       [] stage = "extract_result" -> <<note(ExtractResult(c, s, a), stage), rest>>
       [] stage = "extract_posterior" -> <<note(ExtractPosterior(c, s, a, a.thr, kept), stage), rest>>
       [] stage = "extract_posterior_default" -> <<note(ExtractPosterior(c, s, a, "none", FALSE), "extract_posterior"), rest>>
       [] OTHER -> <<Raise(s, "X:unknown-stage"), rest>>

RECURSIVE RunStages(_, _, _, _)
RunStages(c, s, a, todo) ==
  IF todo = <<>> \/ s.raised # "" THEN s
  ELSE LET r == Do(c, s, a, Head(todo), Tail(todo)) IN RunStages(c, r[1], a, r[2])
Entered(s) == [s EXCEPT !.raised = "", !.trail = <<>>, !.out = NoOut]
Run(c, s, a) == RunStages(c, Entered(s), a, Stages(c, a))

\* ------------------------------------------------------------------ what a user relies on
\* evidence bookkeeping: n_sim = batch_size * consumed batches; the GP holds exactly the precomputed + simulated evidence
InvCounts(c, s) == /\ s.nsim = c.bs * s.nb /\ s.nev = c.npre + s.nsim /\ s.gp = s.nev /\ s.nx = s.nb /\ Len(s.ev) = s.nb
                   /\ \A k \in 1..Len(s.ev) : s.ev[k].i = k - 1
                   /\ s.q >= 0 /\ s.q < c.bs * c.bpa /\ s.q % c.bs = 0
\* every acquisition saw ALL the evidence before it (nothing is acquired ahead of the data, also across calls)
InvAcqSeesAll(c, s) == \A k \in 1..Len(s.ev) : s.ev[k].fresh => s.ev[k].seen = c.npre + c.bs * (k - 1)
\* the evidence is a function of the configuration and the number of batches: the evidence fit(a); ...; fit(b) collects is
\* the evidence fit(b) collects, whatever was called in between
RECURSIVE Canon(_, _, _)
Canon(c, s, k) == IF k = 0 THEN s.ev ELSE Canon(c, Iterate(c, [s EXCEPT !.objset = TRUE, !.osim = c.bs * (s.nb + 1)]), k - 1)
InvSplitIndependent(c, s) == s.ev = Canon(c, S0(c), s.nb)
\* a posterior handed out is a snapshot: it keeps evaluating the GP its threshold was computed for
InvPosteriorSnapshot(c, s) == \A k \in 1..Len(s.posts) : s.posts[k].sees = s.posts[k].at
\* is_sampling is only set while sample() runs
InvNotSamplingOutside(c, s) == ~s.smp
\* an acquisition on a non-empty GP uses hyperparameters that were optimised at least once
InvAcqOnOptimisedGP(c, s) == \A k \in 1..Len(s.ev) : s.ev[k].fresh /\ s.ev[k].seen > 0 => s.ev[k].opt >= 1
\* a call returns or is refused
InvOnlyRefusals(c, s) == s.raised = "" \/ s.raised \in Refusals
\* the sample a successful sample() returns
InvSampleRows(c, s, a) == s.out.kind = "sample" => s.out.rows = a.nch * Max(a.ns - s.out.warm, 0) /\ s.out.nch = a.nch
InvWarmupRespected(c, s, a) ==
  s.out.kind = "sample" => s.out.warm = (IF a.warm = NoneV THEN a.ns \div 2 ELSE a.warm)
InvNSamplesIncludesWarmup(c, s, a) == s.out.kind = "sample" => s.out.iters = a.ns
InvReportedNSim(c, s, a) == s.out.kind \in {"sample", "optres"} => s.out.nsim = c.bs * s.nb
\* what survives a refusal (the objective is the request itself and is remembered)
Core(s) == [s EXCEPT !.raised = "", !.trail = <<>>, !.out = NoOut, !.objset = FALSE, !.on = 0, !.osim = 0]
\* a refused call leaves is_sampling and the posteriors alone, and unless it is sample() finding too few start points after a
\* fit it was itself asked to do (n_evidence=...), it changes nothing at all
InvRefusedChangesNothing(c, s0, s, a) ==
  s.raised \in Refusals =>
     /\ s.smp = s0.smp /\ s.posts = s0.posts
     /\ (Core(s) = Core(s0) \/ (s.raised = "not_enough_init" /\ a.m = "sample" /\ s0.nb = 0 /\ a.n # NoneV))
\* a successful infer / fit reaches the requested evidence, rounded up to whole batches, and never goes back
InvFitReaches(c, s0, s, a) ==
  s.raised = "" /\ a.m \in {"infer", "fit"} /\ a.n # NoneV =>
     /\ s.nev >= a.n /\ s.nev >= s0.nev /\ s.nev < Max(a.n, s0.nev) + c.bs /\ IsPrefix(s0.ev, s.ev)
     /\ (a.n <= s0.nev => s.ev = s0.ev)
\* CONTROL (not a theorem): exactly the requested evidence
ExactlyRequestedOf(c, s0, s, a) ==
  s.raised = "" /\ a.m \in {"infer", "fit"} /\ a.n # NoneV /\ a.n >= s0.nev => s.nev = a.n
\* CONTROL (not a theorem): BolfiSample.n_sim and OptimizationResult n_sim count the same thing
\* (covered by InvReportedNSim)

\* ------------------------------------------------------------------ the machine
CONSTANTS IEKinds, IENs,   \* forms / sizes of initial_evidence
          ReqMin,          \* the 10 of _resolve_initial_evidence (smaller in some configurations to bound the model)
          BSs, Upds, BPAs, \* batch_size, update_interval, batches_per_acquisition
          Ns,              \* values of n_evidence public calls may pass
          NoneToo,         \* BOOLEAN: n_evidence=None is passed too
          MaxEv,           \* bound on the rows of the GP
          Profiles,        \* argument profiles of sample()
          MaxPosts,        \* posteriors remembered
          MaxCalls,        \* bound on the number of public calls (0: unbounded)
          Fix

VARIABLES st, todo, call, st0, env, ncalls
vars == <<st, todo, call, st0, env, ncalls>>

NChoices == Ns \cup (IF NoneToo THEN {NoneV} ELSE {})
IEs == {ie \in [kind : IEKinds, n : IENs] : (ie.kind = "none" => ie.n = 0) /\ (ie.kind = "dict" => ie.n >= 1)}
Configs == {Config(ie, ReqMin, 1, bs, upd, bpa, Fix) : ie \in IEs, bs \in BSs, upd \in Upds, bpa \in BPAs}

\* sample() argument profiles: one argument away from the plain call sample(2, n_chains=1)
Profile(p, fin) ==
  LET base == [A0 EXCEPT !.m = "sample", !.ns = 2, !.nch = 1, !.alg = "nuts", !.fin = fin] IN
  CASE p = "plain" -> base
    [] p = "warmup0" -> [base EXCEPT !.warm = 0]
    [] p = "warmup1" -> [base EXCEPT !.warm = 1, !.ns = 3]
    [] p = "warmup_all" -> [base EXCEPT !.warm = 2]
    [] p = "metropolis" -> [base EXCEPT !.alg = "metropolis", !.thr = "given"]
    [] p = "bogus" -> [base EXCEPT !.alg = "bogus"]
    [] p = "chains3" -> [base EXCEPT !.nch = 3]
    [] p = "initials_ok" -> [base EXCEPT !.ini = "ok", !.nch = 2]
    [] p = "initials_bad" -> [base EXCEPT !.ini = "bad"]
    [] p = "initials_shape" -> [base EXCEPT !.ini = "shape"]
    [] p = "best_is_bad" -> [base EXCEPT !.fin = [k \in 1..Len(fin) |-> k # 1]]
    [] p = "last_is_bad" -> [base EXCEPT !.fin = [k \in 1..Len(fin) |-> k # Len(fin)], !.nch = Len(fin)]
    [] OTHER -> base

Init == /\ env \in Configs /\ st = S0(env) /\ todo = <<>> /\ call = A0 /\ st0 = S0(env) /\ ncalls = 0

Idle == todo = <<>>
Trim(s) == IF Len(s.posts) > MaxPosts THEN [s EXCEPT !.posts = Tail(s.posts)] ELSE s
Begin(a) == /\ (MaxCalls = 0 \/ ncalls < MaxCalls) /\ ncalls' = (IF MaxCalls = 0 THEN 0 ELSE ncalls + 1)
            /\ call' = a /\ todo' = Stages(env, a) \o <<"return">> /\ st' = Entered(st) /\ st0' = st /\ UNCHANGED env
\* the evidence a call may ask for, bounded
NOk(n) == n = NoneV \/ env.npre + env.bs * CeilDiv(n - env.npre, env.bs) <= MaxEv

CallSetObjective == Idle /\ \E n \in NChoices : NOk(n) /\ Begin([A0 EXCEPT !.m = "set_objective", !.n = n])
CallIterate == Idle /\ \E m \in {"iterate"} : Begin([A0 EXCEPT !.m = m])
CallInfer == Idle /\ \E n \in NChoices : NOk(n) /\ Begin([A0 EXCEPT !.m = "infer", !.n = n])
CallFit == Idle /\ \E n \in NChoices, thr \in {"none", "given"} : NOk(n) /\ Begin([A0 EXCEPT !.m = "fit", !.n = n, !.thr = thr])
CallExtractPosterior == Idle /\ \E thr \in {"none", "given"} : Begin([A0 EXCEPT !.m = "extract_posterior", !.thr = thr])
CallExtractResult == Idle /\ \E m \in {"extract_result"} : Begin([A0 EXCEPT !.m = m])
\* (fin is only read after the embedded fit: it is as long as the GP will be then)
CallSample == Idle /\ \E p \in Profiles, n \in NChoices :
                /\ NOk(n) /\ (st.nb > 0 => n = NoneV)
                /\ LET after == IF st.nb = 0 /\ n # NoneV THEN Max(st.gp, env.npre + env.bs * CeilDiv(n - env.npre, env.bs)) ELSE st.gp
                   IN Begin([Profile(p, AllT(after)) EXCEPT !.n = n])

StageAct ==
  /\ Head(todo) # "return"
  /\ LET r == Do(env, st, call, Head(todo), Tail(todo))
     IN st' = r[1] /\ todo' = (IF r[1].raised # "" THEN <<"return">> ELSE r[2])
  /\ UNCHANGED <<call, st0, env, ncalls>>
\* the private and public stages, one action each (coverage shows that each is taken)
IterateStage == todo # <<>> /\ Head(todo) \in {"loop", "iterate"} /\ StageAct
SetObjectiveStage == todo # <<>> /\ Head(todo) = "set_objective" /\ StageAct
ExtractResultStage == todo # <<>> /\ Head(todo) = "extract_result" /\ StageAct
ExtractPosteriorStage == todo # <<>> /\ Head(todo) \in {"extract_posterior", "extract_posterior_default"} /\ StageAct
EmbeddedFitStage == todo # <<>> /\ Head(todo) = "maybe_fit" /\ StageAct
SampleStage == todo # <<>> /\ Head(todo) \in {"check_alg", "check_shape", "prepare", "scan", "chains"} /\ StageAct
EntryStage == todo # <<>> /\ Head(todo) \in {"fit", "infer", "sample"} /\ StageAct
\* the call returns (or its exception reaches the caller)
Return == /\ todo = <<"return">> /\ todo' = <<>> /\ call' = A0 /\ st0' = Trim(Entered(st)) /\ st' = Trim(Entered(st)) /\ UNCHANGED <<env, ncalls>>

Next == \/ CallSetObjective \/ CallIterate \/ CallInfer \/ CallFit \/ CallExtractPosterior \/ CallExtractResult \/ CallSample
        \/ IterateStage \/ SetObjectiveStage \/ ExtractResultStage \/ ExtractPosteriorStage \/ EmbeddedFitStage
        \/ SampleStage \/ EntryStage
        \/ Return
Spec == Init /\ [][Next]_vars

\* ------------------------------------------------------------------ theorems (checked by TLC)
AtReturn == todo = <<"return">>          \* the state the caller sees, with the outcome of the call
Visible == todo = <<>> \/ AtReturn
StagewiseEqualsComposed == AtReturn => st = Run(env, st0, call)
Counts == Visible => InvCounts(env, st)
AcqSeesAll == InvAcqSeesAll(env, st)
SplitIndependent == Visible => InvSplitIndependent(env, st)
PosteriorSnapshot == InvPosteriorSnapshot(env, st)
NotSamplingOutside == Idle => InvNotSamplingOutside(env, st)
AcqOnOptimisedGP == InvAcqOnOptimisedGP(env, st)
OnlyRefusals == AtReturn => InvOnlyRefusals(env, st)
SampleRows == AtReturn => InvSampleRows(env, st, call)
WarmupRespected == AtReturn => InvWarmupRespected(env, st, call)
NSamplesIncludesWarmup == AtReturn => InvNSamplesIncludesWarmup(env, st, call)
ReportedNSim == AtReturn => InvReportedNSim(env, st, call)
RefusedChangesNothing == AtReturn => InvRefusedChangesNothing(env, st0, st, call)
FitReaches == AtReturn => InvFitReaches(env, st0, st, call)
ExactlyRequested == AtReturn => ExactlyRequestedOf(env, st0, st, call)
\* the calls that only read (extract_posterior, extract_result) change nothing but what they hand out
ReadOnlyChangesNothing ==
  AtReturn /\ call.m \in {"extract_posterior", "extract_result"} => [Core(st) EXCEPT !.posts = <<>>] = [Core(st0) EXCEPT !.posts = <<>>]
\* evidence is append-only, over stages and calls alike
EvidenceAppendOnly == [][IsPrefix(st.ev, st'.ev) /\ st'.gp >= st.gp /\ st'.nsim >= st.nsim]_vars
\* what does hold for the code as it is about last_GP_update: it is n_initial_evidence or a row count of the GP reached earlier
LastSane == st.last = env.ninit \/ (st.last <= st.gp /\ st.nopt >= 1)
=============================================================================

---------------------------- MODULE SubSeedOps ----------------------------
(* Pure operators of elfi.utils.get_sub_seed, shared by the design module     *)
(* SubSeed.tla and the trace specification SubSeed_Trace.tla.  Stream values  *)
(* may be any TLA+ values (small integers in the design module, <<hi, lo>>    *)
(* limb pairs in traces): only equality and set membership are used here.     *)
EXTENDS Naturals, Integers, Sequences, FiniteSets

NoCache == [pos |-> 0, seen |-> {}]
Fail == -1

\* ---- the code --------------------------------------------------------------
\* Returns <<pos, seen, last>>; pos = Fail when the modelled stream prefix is exhausted.
RECURSIVE Loop(_, _, _, _, _)
Loop(s, p, seen, req, last) ==
  IF Cardinality(seen) = req THEN <<p, seen, last>>
  ELSE LET n == req - Cardinality(seen) IN
       IF p + n > Len(s) THEN <<Fail, seen, last>>
       ELSE Loop(s, p + n, seen \cup {s[i] : i \in (p + 1)..(p + n)}, req, s[p + n])

\* `if cache and len(cache['seen']) < sub_seed_index + 1` : resume, else start afresh.
\* (an empty dict is falsy; a filled cache always has a non-empty `seen`.)
Resume(c, idx, useCache) == useCache /\ c.seen # {} /\ Cardinality(c.seen) < idx + 1

CallResult(s, c, idx, useCache) ==
  LET r == Resume(c, idx, useCache)
  IN Loop(s, IF r THEN c.pos ELSE 0, IF r THEN c.seen ELSE {}, idx + 1, Fail)

\* ---- the definition the property refers to ----------------------------------
\* value of the draw at which the number of distinct values first reaches idx+1
RECURSIVE PosOf(_, _, _, _)
PosOf(s, p, seen, n) ==
  IF Cardinality(seen) = n THEN p
  ELSE IF p >= Len(s) THEN Fail
  ELSE PosOf(s, p + 1, seen \cup {s[p + 1]}, n)
Ref(s, idx) == LET p == PosOf(s, 0, {}, idx + 1) IN IF p = Fail \/ p = 0 THEN Fail ELSE s[p]

=============================================================================

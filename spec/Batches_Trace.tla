--------------------------- MODULE Batches_Trace ---------------------------
(***************************************************************************)
(* Trace validation for C04 (and the scheduling part of C11).              *)
(* A trace is the log of one real sampler run (Rejection / SMC /           *)
(* BayesianOptimization) executed through harness.sched_client, i.e. every *)
(* client call with the scalars of the inference object at that moment:    *)
(*   nb = state['n_batches'], obj = objective n_batches,                   *)
(*   np = batches.num_pending, nx = batches.next_index                     *)
(* plus, per trace: maxpar, the digest `seq` of the sequential run         *)
(* (native client, max_parallel_batches = 1) and in the final "end" event  *)
(* the digest of this run's result and the size of the client's table.     *)
(*                                                                         *)
(* P:* clauses transcribe C04; M:* clauses bind the code to the actions    *)
(* of Batches.tla (Submit guard, oldest-first, LIFO cancel with rewind).   *)
(***************************************************************************)
EXTENDS Naturals, Integers, Sequences, FiniteSets, TLC, Json, IOUtils

Traces == JsonDeserialize(IOEnv.TRACE_FILE)

VARIABLES tid, l,
          pending,   \* outstanding tasks, submission order: sequence of <<batch index, id>>
          next,      \* the design module's `next`
          nCons,     \* batches consumed so far
          removed,   \* ids cancelled
          verdict, drift, done
vars == <<tid, l, pending, next, nCons, removed, verdict, drift, done>>

T == Traces[tid]
Init == /\ tid \in 1..Len(Traces) /\ l = 1 /\ pending = <<>> /\ next = 0 /\ nCons = 0
        /\ removed = {} /\ verdict = "ok" /\ drift = "" /\ done = FALSE

Has(id) == \E i \in 1..Len(pending) : pending[i][2] = id
IdxOf(id) == CHOOSE i \in 1..Len(pending) : pending[i][2] = id
Drop(i) == SubSeq(pending, 1, i - 1) \o SubSeq(pending, i + 1, Len(pending))

\* ---- property clauses ------------------------------------------------------
JudgeP(e) ==
  CASE e.ev = "submit" ->
         IF Len(pending) + 1 > T.maxpar THEN "P:bounded-outstanding" ELSE "ok"
    [] e.ev = "get" ->
         IF e.id \in removed THEN "P:no-cancelled-result-used"
         ELSE IF ~Has(e.id) THEN "P:each-batch-consumed-once"
         ELSE IF pending[IdxOf(e.id)][1] # nCons THEN "P:consumed-in-index-order"
         ELSE "ok"
    [] e.ev = "end" ->
         IF pending # <<>> \/ e.left # 0 THEN "P:no-task-left-in-client"
         ELSE IF e.digest # T.seq THEN "P:same-result-as-sequential-run"
         ELSE "ok"
    [] OTHER -> "ok"

\* ---- mechanism clauses (Batches.tla) ----------------------------------------
JudgeM(e) ==
  CASE e.ev = "submit" ->
         IF e.bi # next \/ e.nx # next THEN "M:submit-uses-next-index"
         ELSE IF e.np # Len(pending) THEN "M:num-pending"
         ELSE IF ~(e.obj > e.nb + Len(pending)) THEN "M:submit-guard-has-batches-to-submit"
         ELSE IF e.nb # nCons THEN "M:n_batches-counts-consumed"
         ELSE ""
    [] e.ev = "ready" ->
         IF pending = <<>> \/ Head(pending)[2] # e.id THEN "M:is_ready-asks-oldest" ELSE ""
    [] e.ev = "get" ->
         IF Has(e.id) /\ IdxOf(e.id) # 1 THEN "M:wait_next-pops-oldest" ELSE ""
    [] e.ev = "rm" ->
         IF ~Has(e.id) THEN "M:remove-unknown-task"
         ELSE IF IdxOf(e.id) # Len(pending) THEN "M:cancel-newest-first"
         ELSE ""
    [] e.ev = "end" ->
         IF e.nb # nCons THEN "M:n_batches-counts-consumed"
         ELSE IF e.nx # nCons THEN "M:next-index-rewound-to-consumed"
         ELSE ""
    [] OTHER -> ""

Apply(e) ==
  CASE e.ev = "submit" ->
         /\ pending' = Append(pending, <<e.bi, e.id>>) /\ next' = e.bi + 1
         /\ UNCHANGED <<nCons, removed>>
    [] e.ev = "get" ->
         /\ pending' = Drop(IdxOf(e.id)) /\ nCons' = nCons + 1
         /\ UNCHANGED <<next, removed>>
    [] e.ev = "rm" ->
         IF Has(e.id)
         THEN /\ removed' = removed \cup {e.id} /\ next' = pending[IdxOf(e.id)][1]
              /\ pending' = Drop(IdxOf(e.id)) /\ UNCHANGED nCons
         ELSE /\ removed' = removed \cup {e.id} /\ UNCHANGED <<pending, next, nCons>>
    [] OTHER -> UNCHANGED <<pending, next, nCons, removed>>

Step ==
  /\ ~done
  /\ IF l > Len(T.events) THEN done' = TRUE /\ UNCHANGED <<tid, l, pending, next, nCons, removed, verdict, drift>>
     ELSE LET e == T.events[l]
              j == JudgeP(e)
          IN /\ verdict' = j
             /\ drift' = IF drift = "" THEN JudgeM(e) ELSE drift
             /\ done' = (j # "ok")
             /\ l' = l + 1 /\ UNCHANGED tid
             /\ IF j = "ok" THEN Apply(e) ELSE UNCHANGED <<pending, next, nCons, removed>>

Spec == Init /\ [][Step]_vars
Report == done => PrintT(<<"V", tid, l, verdict, drift>>)
=============================================================================

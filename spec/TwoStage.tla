------------------------------ MODULE TwoStage ------------------------------
(***************************************************************************)
(* EXTENSION (no listed property): the two-stage summary-statistics        *)
(* selection of elfi/methods/diagnostics.py (Nunes & Balding 2010).        *)
(*                                                                         *)
(* Candidates are the combinations of the user's statistics up to a        *)
(* maximum cardinality, in itertools.combinations order (or a prepared     *)
(* list).  Stage 1 scans them once and keeps the minimum-entropy one;      *)
(* stage 2 scans them again and keeps the one with minimum MRSSE relative  *)
(* to the "closest" parameters of the stage-1 winner.  Both scans use the  *)
(* same incumbent rule: replace on a strictly smaller value, or on an      *)
(* equal value when the incumbent has MORE statistics.                     *)
(*                                                                         *)
(* Values are abstracted to ranks (order and equality are all the scans    *)
(* use).  One action per loop iteration of TwoStageSelection.run.          *)
(***************************************************************************)
EXTENDS Naturals, Integers, Sequences, FiniteSets, SequencesExt, TLC

\* ---- operators shared with the trace spec ------------------------------
\* strictly increasing index sequences of length k over lo..n, lexicographic (itertools.combinations)
RECURSIVE CombK(_, _, _)
CombK(lo, n, k) ==
  IF k = 0 THEN << <<>> >>
  ELSE IF lo > n THEN <<>>
  ELSE LET with == CombK(lo + 1, n, k - 1)
       IN [j \in 1..Len(with) |-> <<lo>> \o with[j]] \o CombK(lo + 1, n, k)

Min2(a, b) == IF a < b THEN a ELSE b
Combos(n, maxc) == FlattenSeq([k \in 1..Min2(n, maxc) |-> CombK(1, n, k)])

\* the incumbent rule of both loops; inc = 0 means "none yet" (value +inf, no names)
Replaces(vals, sizes, i, inc, strict) ==
  \/ inc = 0
  \/ vals[i] < vals[inc]
  \/ vals[i] = vals[inc] /\ (IF strict THEN sizes[inc] > sizes[i] ELSE sizes[inc] >= sizes[i])

RECURSIVE Scan(_, _, _, _)
Scan(vals, sizes, i, inc) ==
  IF i > Len(vals) THEN inc
  ELSE Scan(vals, sizes, i + 1, IF Replaces(vals, sizes, i, inc, TRUE) THEN i ELSE inc)

\* what the statement of the procedure asks of a winner w
IsMin(vals, w) == \A c \in 1..Len(vals) : vals[w] <= vals[c]
FewestAmongTies(vals, sizes, w) == \A c \in 1..Len(vals) : vals[c] = vals[w] => sizes[w] <= sizes[c]
FirstAmongEqual(vals, sizes, w) == \A c \in 1..(w - 1) : ~(vals[c] = vals[w] /\ sizes[c] = sizes[w])

\* ---- the design ---------------------------------------------------------
CONSTANTS K,            \* number of candidates
          Ranks,        \* value ranks
          Sizes,        \* cardinalities of candidates
          StrictTie,    \* TRUE: the rule of the code; FALSE (control): `>=` in the tie rule
          RefIsWinner   \* TRUE: stage 2 measures against the stage-1 winner; FALSE (control): against the
                        \* candidate the stage-1 loop looked at last (stale loop variable)

VARIABLES E, M, size, phase, i, inc1, inc2
vars == <<E, M, size, phase, i, inc1, inc2>>

Init == /\ E \in [1..K -> Ranks]
        /\ M \in [1..K -> [1..K -> Ranks]]        \* M[ref][c]: MRSSE of c against the closest set of ref
        /\ size \in [1..K -> Sizes]
        /\ phase = "stage1" /\ i = 1 /\ inc1 = 0 /\ inc2 = 0

Ev == [c \in 1..K |-> E[c]]
Sz == [c \in 1..K |-> size[c]]
Ref == IF RefIsWinner THEN inc1 ELSE K
Mv == [c \in 1..K |-> M[Ref][c]]

Stage1Step == /\ phase = "stage1" /\ i <= K
              /\ inc1' = IF Replaces(Ev, Sz, i, inc1, StrictTie) THEN i ELSE inc1
              /\ i' = i + 1 /\ UNCHANGED <<E, M, size, phase, inc2>>
Stage1End == /\ phase = "stage1" /\ i > K
             /\ phase' = "stage2" /\ i' = 1 /\ UNCHANGED <<E, M, size, inc1, inc2>>
Stage2Step == /\ phase = "stage2" /\ i <= K
              /\ inc2' = IF Replaces(Mv, Sz, i, inc2, StrictTie) THEN i ELSE inc2
              /\ i' = i + 1 /\ UNCHANGED <<E, M, size, phase, inc1>>
Stage2End == /\ phase = "stage2" /\ i > K
             /\ phase' = "done" /\ UNCHANGED <<E, M, size, i, inc1, inc2>>

Next == Stage1Step \/ Stage1End \/ Stage2Step \/ Stage2End
Spec == Init /\ [][Next]_vars /\ WF_vars(Next)

MW == [c \in 1..K |-> M[inc1][c]]       \* stage-2 values against the TRUE stage-1 winner
Stage1Right == phase # "stage1" => /\ inc1 \in 1..K /\ IsMin(Ev, inc1)
                                   /\ FewestAmongTies(Ev, Sz, inc1) /\ FirstAmongEqual(Ev, Sz, inc1)
Stage2Right == phase = "done" => /\ inc2 \in 1..K /\ IsMin(MW, inc2)
                                 /\ FewestAmongTies(MW, Sz, inc2)
Stage2First == phase = "done" => FirstAmongEqual(MW, Sz, inc2)
LoopIsScan == phase = "done" => inc1 = Scan(Ev, Sz, 1, 0) /\ (RefIsWinner => inc2 = Scan(Mv, Sz, 1, 0))
Terminates == <>(phase = "done")

\* the enumeration: every non-empty subset up to the cardinality exactly once, smaller sets first
CombosRight(n, maxc) ==
  LET cs == Combos(n, maxc)
      AsSet(s) == {s[j] : j \in 1..Len(s)}
  IN /\ \A a \in 1..Len(cs) : \A j \in 1..(Len(cs[a]) - 1) : cs[a][j] < cs[a][j + 1]
     /\ {AsSet(cs[a]) : a \in 1..Len(cs)} = {S \in SUBSET (1..n) : S # {} /\ Cardinality(S) <= Min2(n, maxc)}
     /\ Cardinality({AsSet(cs[a]) : a \in 1..Len(cs)}) = Len(cs)
     /\ \A a \in 1..(Len(cs) - 1) : Len(cs[a]) <= Len(cs[a + 1])
EnumerationRight == \A n \in 1..4 : \A maxc \in 1..5 : CombosRight(n, maxc)
ASSUME EnumerationRight        \* constant level: evaluated once when TLC loads the module
=============================================================================

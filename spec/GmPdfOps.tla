------------------------------ MODULE GmPdfOps ------------------------------
(***************************************************************************)
(* The density of the shared-covariance Gaussian mixture of C13            *)
(*     elfi.methods.utils.GMDistribution.pdf / logpdf                      *)
(* on the lattice of DESIGN.md T3, in integer arithmetic.                  *)
(*                                                                         *)
(* Lattice: dimension d in 1..3; K components with integer means           *)
(* means[i] = <<m_1..m_d>> and integer weights wts[i] >= 0 (not all zero); *)
(* shared DIAGONAL covariance diag(s_1^2..s_d^2) given by the integer      *)
(* standard deviations sds = <<s_1..s_d>>; evaluation points x with        *)
(* integer coordinates such that s_j divides x_j - m_ij for all i, j.      *)
(* Then the squared Mahalanobis distance of x from component i,            *)
(*     k_i = sum_j ((x_j - m_ij) / s_j)^2,                                 *)
(* is a natural number and the component density is                        *)
(*     N(x; m_i, C) = (2 pi)^(-d/2) exp(-k_i / 2) / (s_1 ... s_d)          *)
(* so that only the numbers Dens(d, k) = (2 pi)^(-d/2) exp(-k/2) occur.    *)
(* DensTab[d][k+1] = Dens(d, k) in units of 10^-8, rounded to nearest      *)
(* (computed with 60 significant digits); Dens(d, k) < 0.5 * 10^-8 for     *)
(* k > 40, so 0 is the correctly rounded entry there.                      *)
(*                                                                         *)
(* The mixture density is  sum_i wts[i] N(x; m_i, C) / sum_i wts[i].       *)
(***************************************************************************)
EXTENDS Naturals, Integers, Sequences

DensTab == <<
 << 39894228, 24197072, 14676266, 8901605, 5399097, 3274718, 1986217, 1204701, 730688, 443185,
    268805, 163039, 98888, 59979, 36379, 22065, 13383, 8117, 4923, 2986, 1811, 1099, 666, 404,
    245, 149, 90, 55, 33, 20, 12, 7, 4, 3, 2, 1, 1, 0, 0, 0, 0 >>,
 << 15915494, 9653235, 5854983, 3551227, 2153928, 1306423, 792386, 480606, 291502, 176805,
    107238, 65043, 39451, 23928, 14513, 8803, 5339, 3238, 1964, 1191, 723, 438, 266, 161, 98,
    59, 36, 22, 13, 8, 5, 3, 2, 1, 1, 0, 0, 0, 0, 0, 0 >>,
 << 6349364, 3851084, 2335800, 1416735, 859293, 521188, 316116, 191734, 116293, 70535, 42782,
    25948, 15738, 9546, 5790, 3512, 2130, 1292, 784, 475, 288, 175, 106, 64, 39, 24, 14, 9, 5,
    3, 2, 1, 1, 0, 0, 0, 0, 0, 0, 0, 0 >> >>
\* (2 pi)^(-d/2) exp(-k/2) in units of 10^-8
Dens(d, k) == IF k <= 40 THEN DensTab[d][k + 1] ELSE 0

Log2PiMicro == 1837877      \* log(2 pi) = 1.83787706640934...
Ln2Micro == 693147          \* log 2     = 0.69314718055994...

RECURSIVE SumTo(_, _)
SumTo(f, n) == IF n = 0 THEN 0 ELSE f[n] + SumTo(f, n - 1)
RECURSIVE ProdTo(_, _)
ProdTo(f, n) == IF n = 0 THEN 1 ELSE f[n] * ProdTo(f, n - 1)

\* on the lattice: every coordinate offset is a multiple of the standard deviation
OnLattice(means, sds, x) ==
  \A i \in 1..Len(means) : \A j \in 1..Len(sds) : (x[j] - means[i][j]) % sds[j] = 0
\* squared Mahalanobis distance of x from component i
Maha(means, sds, x, i) ==
  SumTo([j \in 1..Len(sds) |-> LET q == (x[j] - means[i][j]) \div sds[j] IN q * q], Len(sds))
\* s_1 ... s_d  ( = sqrt(det C) )
SdProd(sds) == ProdTo(sds, Len(sds))
WSum(wts) == SumTo(wts, Len(wts))
\* sum_i wts[i] * Dens(d, k_i)   =  pdf(x) * WSum(wts) * SdProd(sds)   in units of 10^-8
GmWeightedDens(means, wts, sds, x) ==
  SumTo([i \in 1..Len(means) |-> wts[i] * Dens(Len(sds), Maha(means, sds, x, i))], Len(means))

Abs(n) == IF n < 0 THEN -n ELSE n
(* p8 = the code's density logged as round(pdf * 10^8).  Error budget of the relation   *)
(*   | p8 * W * S - sum_i w_i Dens(d, k_i) |  <=  W * S  +  W                           *)
(* 0.5 (rounding of the log) * W * S  +  0.5 (rounding of each table entry) * W, doubled *)
(* to absorb the float error of the code (relative 10^-15).                             *)
(* No density on the lattice exceeds Dens(d, 0) / S; a logged value beyond that (plus   *)
(* the rounding slack) disagrees outright, which also keeps p8 * W * S below 2^31 for   *)
(* W <= 50.                                                                             *)
GmPdfAgrees(means, wts, sds, x, p8) ==
  LET W == WSum(wts)
      S == SdProd(sds)
  IN /\ p8 >= 0
     /\ p8 <= (Dens(Len(sds), 0) \div S) + 2
     /\ Abs(p8 * W * S - GmWeightedDens(means, wts, sds, x)) <= W * S + W

\* all components with positive weight are at the same Mahalanobis distance from x: the
\* mixture density is that of one normal and its logarithm is a closed form
EquiDistant(means, wts, sds, x) ==
  \A i, r \in 1..Len(means) : (wts[i] > 0 /\ wts[r] > 0) => Maha(means, sds, x, i) = Maha(means, sds, x, r)
RECURSIVE Log2Of(_)
Log2Of(n) == IF n <= 1 THEN 0 ELSE 1 + Log2Of(n \div 2)      \* n a power of two
(* 2 * log N(x; m, C) = -k - d log(2 pi) - 2 log(s_1...s_d)  in units of 10^-6;          *)
(* lp6 = the code's log density logged as round(logpdf * 10^6); tolerance 1 (log         *)
(* rounding, doubled) + d * 0.07 + 2 e * 0.19 (table rounding) < 4.                      *)
GmLogPdfAgreesEqui(means, wts, sds, x, lp6) ==
  LET i == CHOOSE r \in 1..Len(means) : wts[r] > 0
      k == Maha(means, sds, x, i)
      d == Len(sds)
      e == Log2Of(SdProd(sds))
  IN Abs(2 * lp6 + k * 1000000 + d * Log2PiMicro + 2 * e * Ln2Micro) <= 4
=============================================================================

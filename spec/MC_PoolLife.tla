---------------------------- MODULE MC_PoolLife ----------------------------
(* constants of PoolLife.tla that a cfg file cannot express (sets of sequences) *)
EXTENDS PoolLife
Outs_ab == {<<>>, <<"a">>, <<"a", "b">>}
Outs_a == {<<>>, <<"a">>}
Outs_ab_only == {<<"a", "b">>}
Outs_a_only == {<<"a">>}
Ns_ab == {<<"a">>, <<"b">>, <<"a", "b">>}
Ns_a == {<<"a">>}
Ns_ab_only == {<<"a", "b">>}
Ns_a_or_ab == {<<"a">>, <<"a", "b">>}
=============================================================================

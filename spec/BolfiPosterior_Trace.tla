------------------------- MODULE BolfiPosterior_Trace -------------------------
(***************************************************************************)
(* Trace validation for C10 (a) (b) (c): queries answered by a REAL        *)
(* elfi.methods.posteriors.BolfiPosterior that was constructed with a stub *)
(* surrogate and a stub prior answering lattice values (BolfiPosteriorOps).*)
(*                                                                         *)
(* A trace: dim, bounds << <<lo, hi>>, .. >>, threshold h, queries.  Every *)
(* query carries its inputs                                                *)
(*   fn    "logpdf" | "pdf" | "grad"                                       *)
(*   kind  "scalar" | "1d" | "2d"   the shape of the array handed in       *)
(*   pts   the lattice points of the query rows (what the stubs answer at  *)
(*         each row: c, mu, var, nvar, gmu, gv, lp, glp)                   *)
(* and what came back                                                      *)
(*   res   "val" | "raise" | "hang"                                        *)
(*   shape shape of the returned value (<<>> for a scalar)                 *)
(*   vals  the returned numbers, row-major, fixed point 10^-6 (FixedPoint  *)
(*         codes for -inf / inf / nan / too big)                           *)
(*   rows  total number of rows the stub surrogate was asked to predict,   *)
(*   nless number of predict calls that asked for the NOISELESS variance   *)
(*                                                                         *)
(* TLC recomputes every expected number from pts with the operators of     *)
(* BolfiPosteriorOps and compares.                                         *)
(*   P:shape    the value has the shape of the table ExpShape              *)
(*   P:outside  rows outside the bounds: log density -inf, density 0       *)
(*   P:def      rows inside: log Phi((h - mu)/sigma) + log prior (+-2);    *)
(*              pdf where no exponential is needed (log prior 0 / -inf)    *)
(*   P:grad     rows inside: the derivative (GradAgrees)                   *)
(*   a query that raises or hangs fails the clause it asks about           *)
(*   M:*        mechanism: gradient 0 + prior gradient outside the bounds, *)
(*              the surrogate is asked only about inside rows, never for   *)
(*              the noiseless variance                                     *)
(*   X:*        the harness left the lattice                               *)
(* Total and deterministic.                                                *)
(***************************************************************************)
EXTENDS Naturals, Integers, Sequences, FiniteSets, TLC, Json, IOUtils, BolfiPosteriorOps

Traces == JsonDeserialize(IOEnv.TRACE_FILE)

VARIABLES tid, l, verdict, drift, done
vars == <<tid, l, verdict, drift, done>>

T == Traces[tid]
Init == tid \in 1..Len(Traces) /\ l = 1 /\ verdict = "ok" /\ drift = "" /\ done = FALSE

Dim == T.dim
In(p) == Inside(p.c, T.bounds)
N(e) == Len(e.pts)
Clause(e) == IF e.fn = "grad" THEN "P:grad" ELSE "P:def"
NInside(e) == Cardinality({k \in 1..N(e) : In(e.pts[k])})

WellFormed(e) ==
  /\ e.fn \in {"logpdf", "pdf", "grad"}
  /\ KindOK(e.kind, Dim, N(e))
  /\ \A k \in 1..N(e) : LET p == e.pts[k] IN
       /\ Len(p.c) = Dim /\ Len(p.gmu) = Dim /\ Len(p.gv) = Dim /\ Len(p.glp) = Dim
       /\ (In(p) => OnLattice(p, T.h))

JudgeP(e) ==
  IF ~WellFormed(e) THEN "X:off-lattice"
  ELSE IF e.res # "val" THEN Clause(e)
  ELSE IF e.shape # ExpShape(e.fn, e.kind, Dim, N(e)) \/ Len(e.vals) # ExpCount(e.fn, Dim, N(e)) THEN "P:shape"
  ELSE IF e.fn = "logpdf" THEN
         (IF \E k \in 1..N(e) : ~In(e.pts[k]) /\ e.vals[k] # FxNInf THEN "P:outside"
          ELSE IF \E k \in 1..N(e) : In(e.pts[k]) /\ ~LogAgrees(e.vals[k], e.pts[k], T.h, T.bounds) THEN "P:def"
          ELSE "ok")
  ELSE IF e.fn = "pdf" THEN
         (IF \E k \in 1..N(e) : ~In(e.pts[k]) /\ e.vals[k] # 0 THEN "P:outside"
          ELSE IF \E k \in 1..N(e) : In(e.pts[k]) /\ PdfDecided(e.pts[k], T.bounds)
                                     /\ ~PdfAgrees(e.vals[k], e.pts[k], T.h, T.bounds) THEN "P:def"
          ELSE "ok")
  ELSE (IF \E k \in 1..N(e) : \E i \in 1..Dim :
             In(e.pts[k]) /\ ~GradAgrees(e.vals[(k - 1) * Dim + i], e.pts[k], T.h, i) THEN "P:grad"
        ELSE "ok")

JudgeM(e) ==
  IF e.res # "val" THEN ""
  ELSE IF e.fn = "grad" /\ \E k \in 1..N(e) : \E i \in 1..Dim :
            ~In(e.pts[k]) /\ ~GradOutsideIsPrior(e.vals[(k - 1) * Dim + i], e.pts[k], i) THEN "M:gradient-outside-is-prior-gradient"
  ELSE IF e.nless # 0 THEN "M:noisy-prediction-requested"
  ELSE IF e.rows # (IF e.fn = "grad" THEN 2 ELSE 1) * NInside(e) THEN "M:surrogate-asked-about-inside-rows-only"
  ELSE ""

Step ==
  /\ ~done
  /\ IF l > Len(T.queries) THEN done' = TRUE /\ UNCHANGED <<tid, l, verdict, drift>>
     ELSE LET e == T.queries[l]
              j == JudgeP(e)
              m == IF drift = "" /\ j = "ok" THEN JudgeM(e) ELSE drift
          IN /\ verdict' = j
             /\ drift' = m
             /\ done' = (j # "ok")
             /\ l' = l + 1
             /\ UNCHANGED tid

Spec == Init /\ [][Step]_vars
Report == done => PrintT(<<"V", tid, l, verdict, drift>>)
=============================================================================

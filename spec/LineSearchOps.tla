--------------------------- MODULE LineSearchOps ---------------------------
(***************************************************************************)
(* elfi.methods.inference.romc.line_search as pure operators, shared by    *)
(* the design module LineSearch.tla and the trace spec LineSearch_Trace.   *)
(*                                                                         *)
(*     th = th_star.copy(); offset = 0                                     *)
(*     for i in range(K):                                                  *)
(*         rep = 0                                                         *)
(*         while f(th) < eps and rep <= rep_lim:                           *)
(*             th += eta * vd; offset += eta; rep += 1                     *)
(*         th -= eta * vd; offset -= eta                                   *)
(*         if rep > rep_lim: break                                         *)
(*         eta = eta / 2                                                   *)
(*     if offset <= 0: offset = eta                                        *)
(*     return offset                                                       *)
(*                                                                         *)
(* Unit of length: eta/2^K (eta = the caller's initial step), so that every*)
(* position the loop can visit is an integer; the initial step is 2^K      *)
(* units and the step after K halvings is 1 unit.  `th` and `offset` move  *)
(* together (th = th_star + offset*vd), so one integer `pos` stands for    *)
(* both.  The objective is an arbitrary predicate: b is a function from a  *)
(* set of positions to BOOLEAN, b[p] = "f(th_star + p*unit*vd) < eps";     *)
(* positions outside DOMAIN b count as not below.                          *)
(***************************************************************************)
EXTENDS Integers, Sequences

RECURSIVE Pow2(_)
Pow2(n) == IF n <= 0 THEN 1 ELSE 2 * Pow2(n - 1)

Bel(b, p) == p \in DOMAIN b /\ b[p]

\* the while loop; python evaluates `f(th) < eps` before `rep <= rep_lim`, so the
\* objective is called at `pos` on every test, including the one that ends the loop.
RECURSIVE While(_, _, _, _, _, _)
While(b, pos, eta, rep, replim, probes) ==
  LET pr == Append(probes, pos) IN
  IF Bel(b, pos) /\ rep <= replim
  THEN While(b, pos + eta, eta, rep + 1, replim, pr)
  ELSE [pos |-> pos, rep |-> rep, probes |-> pr]

\* the for loop; `back` = TRUE is the code (step back after the while loop);
\* `hf` = FALSE is the code (break before eta is halved), TRUE the repair proposed for finding F25
\* (eta = eta / 2 moved above `if rep > rep_lim: break`)
RECURSIVE For(_, _, _, _, _, _, _, _, _)
For(b, i, K, pos, eta, replim, probes, back, hf) ==
  IF i >= K THEN [pos |-> pos, eta |-> eta, probes |-> probes, broke |-> FALSE]
  ELSE LET w == While(b, pos, eta, 0, replim, probes)
           p2 == IF back THEN w.pos - eta ELSE w.pos
       IN IF w.rep > replim
          THEN [pos |-> p2, eta |-> IF hf THEN eta \div 2 ELSE eta, probes |-> w.probes, broke |-> TRUE]
          ELSE For(b, i + 1, K, p2, eta \div 2, replim, w.probes, back, hf)

\* the whole call: returned offset (in units) and the sequence of probed positions
LSRun(b, K, replim, back, hf) ==
  LET o == For(b, 0, K, 0, Pow2(K), replim, <<>>, back, hf)
  IN [off |-> IF o.pos <= 0 THEN o.eta ELSE o.pos, probes |-> o.probes, broke |-> o.broke]

\* ---- the clauses of C19(c) over a result and the probed positions ---------------
\* (positions/offsets may be in any common unit here)
Positive(off) == off > 0
\* at every probed position between the start and the returned offset the objective was below
BelowUpTo(off, probed, IsBelow(_)) == \A p \in probed : (0 <= p /\ p <= off) => IsBelow(p)
=============================================================================

--------------------------- MODULE External_Trace ---------------------------
(***************************************************************************)
(* Trace validation for C18 (c), (d): calls of REAL operations built by    *)
(* elfi.tools.external_operation (echo / printf command templates), called *)
(* directly, through elfi.tools.vectorize, and inside a model run.         *)
(*                                                                         *)
(* Per trace: streams[g] = the draw stream RandomState(key0).randint(2^31) *)
(* of every batch generator label g used (limb pairs <<hi, lo>>, taken     *)
(* from numpy in one chunk by the harness), and the events.                *)
(* Per event, logged INPUTS:                                               *)
(*   tmpl   = [prog, fields, gaps, sep]: the command is prog \o field_1 \o *)
(*            gap_1 \o field_2 ...; fields as in ExternalOps               *)
(*   path   = "dtype": default result handler with the requested type req  *)
(*            ("none" = not given); "args": a recording handler that sees  *)
(*            the CompletedProcess (the command line actually run)         *)
(*   vec, inputs, mask, bs = the call (VectorizeOps inputs when vec)       *)
(*   kw, hasmeta, meta, hasrs, gen = keywords, run metadata, generator     *)
(* logged OUTPUTS: res and per row [hascmd, cmd, hasout, out, outdt, ndim, *)
(*   hasseed, seed, seed_s].                                               *)
(* A value is [s, n]: s = its text as python formats it, n = <<hi, lo,     *)
(* milli>> = (hi*65536 + lo) + milli/1000 (exact: only integers and        *)
(* multiples of 1/8 are used), <<-1,0,0>> for non-numbers.                 *)
(***************************************************************************)
EXTENDS Naturals, Integers, Sequences, FiniteSets, TLC, Json, IOUtils, SubSeedOps, VectorizeOps, ExternalOps

Traces == JsonDeserialize(IOEnv.TRACE_FILE)

VARIABLES tid, l, trips, verdict, drift, done
vars == <<tid, l, trips, verdict, drift, done>>

T == Traces[tid]
Init == /\ tid \in 1..Len(Traces) /\ l = 1 /\ trips = {} /\ verdict = "ok" /\ drift = "" /\ done = FALSE

MaskOf(e) == {e.mask[k] : k \in 1..Len(e.mask)}
IntX(r) == [s |-> ToString(r), n |-> <<0, r, 0>>]
NumOf(x) == x.n[1] * 65536 + x.n[2]                           \* only used for small row indices
NRows(e) == IF e.vec THEN BatchLen(e.inputs, MaskOf(e), e.bs) ELSE 1
ArgsAt(e, r) == IF e.vec THEN RowArgs(e.inputs, MaskOf(e), r) ELSE [j \in 1..Len(e.inputs) |-> e.inputs[j].v]
\* the run metadata of row r: elfi's meta plus (under vectorize) the row index
MetaSeen(e, r) == IF e.vec /\ e.hasmeta THEN ("index_in_batch" :> IntX(r)) @@ e.meta ELSE e.meta
ReqDt(e) == IF e.req = "none" THEN "float64" ELSE e.req
NF(e) == Len(e.tmpl.fields)

SeedX(row) == [s |-> row.seed_s, n |-> <<row.seed[1], row.seed[2], 0>>]
FieldAvail(e, f, r) ==
  CASE f.k = "lit" -> TRUE
    [] f.k = "pos" -> f.i < Len(e.inputs)
    [] OTHER -> Available(f.name, e.kw, e.hasmeta, MetaSeen(e, r), e.hasrs)
AllAvail(e) == \A r \in 0..(NRows(e) - 1) : \A q \in 1..NF(e) : FieldAvail(e, e.tmpl.fields[q], r)
\* value the statement wants in field q of row r
Want(e, q, r, row) ==
  LET f == e.tmpl.fields[q] IN
  CASE f.k = "lit" -> f.v
    [] f.k = "pos" -> ArgsAt(e, r)[f.i + 1]
    [] OTHER -> Wanted(f.name, e.kw, e.hasmeta, MetaSeen(e, r), e.hasrs, SeedX(row))
RECURSIVE CmdFrom(_, _, _, _)
CmdFrom(e, q, r, row) ==
  IF q > NF(e) THEN ""
  ELSE Want(e, q, r, row).s \o (IF q < NF(e) THEN e.tmpl.gaps[q] ELSE "") \o CmdFrom(e, q + 1, r, row)
WantCmd(e, r, row) == e.tmpl.prog \o CmdFrom(e, 1, r, row)

\* the row of the batch this call stands for, as the statement sees it
RowId(e, r) == IF "index_in_batch" \in DOMAIN e.kw THEN NumOf(e.kw["index_in_batch"])
               ELSE IF e.vec THEN r
               ELSE IF e.hasmeta /\ "index_in_batch" \in DOMAIN e.meta THEN NumOf(e.meta["index_in_batch"])
               ELSE 0
\* the index the code hands to get_sub_seed
CodeIdx(e, r) == LET K0 == UnpackMeta(e.kw, e.hasmeta, MetaSeen(e, r), "code")
                 IN IF HasIndex(K0) THEN NumOf(K0["index_in_batch"]) ELSE 0
SeedJudged(e, row) == e.hasrs /\ row.hasseed

\* first failing PROPERTY clause of row r (0-based) given the (gen, row, seed) triples `sn` met so far
RECURSIVE FirstBadField(_, _, _, _)
FirstBadField(e, q, r, row) ==
  IF q > NF(e) THEN "ok"
  ELSE IF row.out[q] # Want(e, q, r, row).n
       THEN (IF e.tmpl.fields[q].k = "lit" THEN "P:parse" ELSE "P:substitution")
       ELSE FirstBadField(e, q + 1, r, row)
JudgeRow(e, r, row, sn) ==
  IF row.hascmd /\ row.cmd # WantCmd(e, r, row) THEN "P:substitution"
  ELSE IF row.hasout /\ (row.outdt # ReqDt(e) \/ row.ndim # 1 \/ Len(row.out) # NF(e)) THEN "P:parse"
  ELSE IF row.hasout /\ FirstBadField(e, 1, r, row) # "ok" THEN FirstBadField(e, 1, r, row)
  ELSE IF ~SeedJudged(e, row) THEN "ok"
  ELSE IF \E p \in sn : p[1] = e.gen /\ p[2] = RowId(e, r) /\ p[3] # row.seed THEN "P:seed-deterministic"
  ELSE IF \E p \in sn : p[1] = e.gen /\ p[2] # RowId(e, r) /\ p[3] = row.seed THEN "P:seed-row-distinct"
  ELSE "ok"

\* fold over the rows of the event: [v |-> verdict, sn |-> triples seen]
RECURSIVE Rows(_, _, _)
Rows(e, r, sn) ==
  IF r >= Len(e.rows) THEN [v |-> "ok", sn |-> sn]
  ELSE LET row == e.rows[r + 1]
           j == JudgeRow(e, r, row, sn)
       IN IF j # "ok" THEN [v |-> j, sn |-> sn]
          ELSE Rows(e, r + 1, IF SeedJudged(e, row) THEN sn \cup {<<e.gen, RowId(e, r), row.seed>>} ELSE sn)

JudgeP(e) ==
  IF NRows(e) = Mismatch THEN [v |-> "X:scenario-with-inconsistent-lengths", sn |-> trips]
  ELSE IF ~AllAvail(e) THEN [v |-> "ok", sn |-> trips]              \* not a template over the available inputs
  ELSE IF e.res # "val" THEN [v |-> "P:substitution", sn |-> trips] \* no command was run / no output returned
  ELSE IF Len(e.rows) # NRows(e) THEN [v |-> "P:substitution", sn |-> trips]
  ELSE Rows(e, 0, trips)

JudgeM(e) ==
  IF NRows(e) = Mismatch THEN ""
  ELSE IF ~AllAvail(e) THEN (IF e.res = "raise" THEN "" ELSE "M:unavailable-field-raises")
  ELSE IF e.res # "val" \/ Len(e.rows) # NRows(e) THEN ""
  ELSE IF \E r \in 0..(Len(e.rows) - 1) :
            LET row == e.rows[r + 1] IN
            /\ SeedJudged(e, row)
            /\ e.gen \notin DOMAIN T.streams
       THEN "X:stream-not-logged"
  ELSE IF \E r \in 0..(Len(e.rows) - 1) :
            /\ SeedJudged(e, e.rows[r + 1])
            /\ PosOf(T.streams[e.gen], 0, {}, CodeIdx(e, r) + 1) \in {Fail, 0}
       THEN "X:stream-too-short"
  ELSE IF \E r \in 0..(Len(e.rows) - 1) :
            /\ SeedJudged(e, e.rows[r + 1])
            /\ T.streams[e.gen][PosOf(T.streams[e.gen], 0, {}, CodeIdx(e, r) + 1)] # e.rows[r + 1].seed
       THEN "M:seed-is-sub-seed-of-generator-state-at-row-index"
  ELSE ""

Step ==
  /\ ~done
  /\ IF l > Len(T.events) THEN done' = TRUE /\ UNCHANGED <<tid, l, trips, verdict, drift>>
     ELSE LET e == T.events[l]
              j == JudgeP(e)
              m == IF drift = "" /\ j.v = "ok" THEN JudgeM(e) ELSE drift
          IN /\ verdict' = j.v /\ drift' = m /\ done' = (j.v # "ok") /\ l' = l + 1 /\ trips' = j.sn
             /\ UNCHANGED tid

Spec == Init /\ [][Step]_vars
Report == done => PrintT(<<"V", tid, l, verdict, drift>>)
=============================================================================

------------------------------ MODULE WQuantile ------------------------------
(***************************************************************************)
(* Design module for the weighted sample quantile of C13                   *)
(*     elfi.methods.utils.weighted_sample_quantile(x, alpha, weights)      *)
(*                                                                         *)
(* One state = one call: sample xs, base weights ws, weight scale k (the   *)
(* call receives k * ws), probability alpha = a / A, and the value q the   *)
(* code's scan (WQuantileOps!WQScan) returns for it.  The actions move to  *)
(* the neighbouring calls the statement relates:                           *)
(*     RaiseAlpha   same sample and weights, next larger alpha             *)
(*     Rescale(k2)  same sample and alpha, all weights multiplied by k2    *)
(* so that "monotone in alpha" and "invariant to rescaling" are action     *)
(* properties and "q satisfies the definition" is a state invariant.       *)
(*                                                                         *)
(* Swapped = TRUE replaces the scan by the variant with `<` and `<=`       *)
(* exchanged (cum[i] <= alpha < cum[i+1]); it is the negative control and  *)
(* must be refuted.                                                        *)
(***************************************************************************)
EXTENDS Naturals, Integers, Sequences, FiniteSets, TLC, WQuantileOps

CONSTANTS MaxN,      \* sample sizes 1..MaxN
          MaxV,      \* sample values 0..MaxV  (ties, unsorted)
          MaxW,      \* weights 0..MaxW, not all zero
          A,         \* alpha ranges over 0/A .. A/A
          Scales,    \* weight rescaling factors (positive integers, 1 = unscaled)
          Swapped    \* negative control

VARIABLES xs, ws, k, a, q
vars == <<xs, ws, k, a, q>>
NoWQ == -1     \* sample values are 0..MaxV

\* ---- the negative-control scan ------------------------------------------------
SwappedScan(x, w, al, AA) ==
  IF al = 0 THEN x[Argsort(x)[1]]
  ELSE LET perm == Argsort(x)
           W == WTotal(w)
           hits == {p \in 1..Len(x) : /\ CumForced(w, perm, p - 1) * AA <= al * W
                                      /\ al * W < CumForced(w, perm, p) * AA}
       IN IF hits = {} THEN NoWQ ELSE x[perm[CHOOSE p \in hits : \A r \in hits : p <= r]]

\* the value of the call, NoWQ (outside the value range) where the code raises IndexError
Scan(x, w, al, AA) == IF Swapped THEN SwappedScan(x, w, al, AA)
                      ELSE IF WQFound(x, w, al, AA) THEN WQScan(x, w, al, AA) ELSE NoWQ

\* ---- behaviour -------------------------------------------------------------------
Init == /\ \E n \in 1..MaxN : /\ xs \in [1..n -> 0..MaxV]
                              /\ ws \in {w \in [1..n -> 0..MaxW] : \E i \in 1..n : w[i] > 0}
        /\ k = 1
        /\ a = 0
        /\ q = Scan(xs, ws, 0, A)

RaiseAlpha == /\ a < A
              /\ a' = a + 1
              /\ q' = Scan(xs, ScaleW(ws, k), a + 1, A)
              /\ UNCHANGED <<xs, ws, k>>

Rescale(k2) == /\ k = 1 /\ k2 # 1
               /\ k' = k2
               /\ q' = Scan(xs, ScaleW(ws, k2), a, A)
               /\ UNCHANGED <<xs, ws, a>>

Next == RaiseAlpha \/ \E k2 \in Scales : Rescale(k2)
Spec == Init /\ [][Next]_vars

\* ---- properties (C13 a, b) ---------------------------------------------------------
\* the scan always finds an index for alpha in [0,1] and weights not all zero
Found == q # NoWQ
\* (a) the returned value satisfies the definition
Def == IsWQ(xs, ScaleW(ws, k), a, A, q)
\* the scan returns the least sample value that satisfies the definition (lower quantile)
Least == Found => /\ q \in WQSet(xs, ScaleW(ws, k), a, A)
                  /\ \A r \in WQSet(xs, ScaleW(ws, k), a, A) : q <= r
\* the value does not depend on how argsort orders tied sample values
TieOrderIrrelevant ==
  \A perm \in [1..Len(xs) -> 1..Len(xs)] :
     IsSortingPerm(xs, perm) => /\ WQFoundUnder(ScaleW(ws, k), a, A, perm)
                                /\ WQScanUnder(xs, ScaleW(ws, k), a, A, perm) = q
\* the element the index version points at carries the value
IdxConsistent == LET i == WQScanIdx(xs, ScaleW(ws, k), a, A) IN i # 0 => (~Swapped => xs[i] = q)
\* (b) monotone in alpha
Monotone == [][(a' > a /\ q # NoWQ /\ q' # NoWQ) => q' >= q]_vars
\* (b) invariant to rescaling the weights
ScaleInvariant == [][k' # k => q' = q]_vars
=============================================================================

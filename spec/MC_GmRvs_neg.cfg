SPECIFICATION Spec
CONSTANTS
  MaxSize = 5
  WarnAt = 3
  LeftBug = TRUE
CHECK_DEADLOCK FALSE
INVARIANT NeverRaises

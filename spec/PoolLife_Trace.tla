--------------------------- MODULE PoolLife_Trace ---------------------------
(***************************************************************************)
(* Trace validation for the EXTENSION PoolLife.tla: histories of public    *)
(* calls on REAL elfi.ArrayPool / elfi.OutputPool objects held in up to     *)
(* three Python variables (handles), in a scratch directory, plus the       *)
(* environment steps "rename / copy the pool folder" and "cd back".  One    *)
(* event per call.  TLC replays the history with the design's Run operator  *)
(* (Fix = {}: the code as transcribed) and compares, after EVERY call, the  *)
(* outcome (exception type / returned batch) and the whole projected state  *)
(* with what Run gives.  All clauses are E: clauses (extension: drift).     *)
(*                                                                         *)
(* verdict = first MECHANISM clause that fails (ends the trace):           *)
(*   E:<op>-raises-as-transcribed        exception type ("" = returned)     *)
(*   E:<op>-returns-the-stored-batch     get_batch: <<node, value>> pairs   *)
(*   E:<op>-working-directory                                               *)
(*   E:<op>-pool-<field>     ex kind name prefix batch_size seed stores     *)
(*                           (= keys of self.stores, in order)              *)
(*   E:<op>-store-<field>    kind count array-length open initialised       *)
(*                           batch-indices content file-location            *)
(*   E:<op>-len-is-largest-store   E:<op>-contains-is-len-gt-i              *)
(*   E:<op>-disk-folder-exists  -disk-pool-pickle  -disk-store-pickles      *)
(*   E:<op>-disk-npy-files (exists, has a header, batch values)             *)
(*   E:<op>-disk-unexpected-entries                                          *)
(* drift = the USER-LEVEL invariants of the design evaluated on the states  *)
(*   the history goes through ("inv-...|inv-...|"): on real histories they  *)
(*   are findings about store.py (PoolLife.tla shows with TLC that the      *)
(*   transcribed machine cannot keep them and which repair would).          *)
(*                                                                         *)
(* Event: call (every field of C0), raised, ret, obs = [cwd_home, pools     *)
(*   (one per handle), disk (one per EXISTING directory, j = its index in   *)
(*   T.dirs; spk / npy one per node of T.nodes)].  Batch values: the integer the    *)
(*   harness encoded into the array (with the node and the row), -1 = rows  *)
(*   missing or not decodable, -2 = reading raised.                         *)
(* A history that leaves the modelled domain (torn, see PoolLifeOps) is     *)
(* accepted up to that call.                                                *)
(***************************************************************************)
EXTENDS Naturals, Integers, Sequences, FiniteSets, TLC, Json, IOUtils

Traces == JsonDeserialize(IOEnv.TRACE_FILE)

TNodes == {"a", "b", "c"}
NodeSeq == <<"a", "b", "c">>
TPrefixes == {"p", "q", "A", "B"}
TNames == {"x", "y"}
TSeeds == {0, 7}
THandles == {1, 2, 3}

O == INSTANCE PoolLifeOps WITH Nodes <- TNodes, Prefixes <- TPrefixes, AbsPrefixes <- {"A", "B"}, Names <- TNames,
                               Seeds <- TSeeds, Handles <- THandles, Fix <- {}

VARIABLES tid, l, cur, gh, verdict, drift, viol, done
vars == <<tid, l, cur, gh, verdict, drift, viol, done>>
T == Traces[tid]

Init == /\ tid \in 1..Len(Traces) /\ l = 1 /\ cur = O!S0 /\ gh = O!G0 /\ verdict = "ok" /\ drift = "" /\ viol = {} /\ done = FALSE

\* ---- projection of a design state, shaped like the harness' observation
RECURSIVE Sorted(_)
Sorted(A) == IF A = {} THEN <<>> ELSE LET m == CHOOSE y \in A : \A z \in A : y <= z IN <<m>> \o Sorted(A \ {m})

ProjStore(S, node, st) ==
  IF st.k = "npy"
  THEN [k |-> "npy", n |-> st.n, al |-> st.al, op |-> st.op, ini |-> st.ini, keys |-> [j \in 1..st.n |-> j - 1],
        vals |-> [j \in 1..st.n |-> IF st.op /\ st.ini THEN O!ReadItem(S, st, node, j - 1) ELSE -2], d |-> st.d]
  ELSE LET ks == Sorted(DOMAIN st.c) IN
       [k |-> st.k, n |-> O!StLen(st), al |-> 0, op |-> FALSE, ini |-> FALSE, keys |-> ks,
        vals |-> [j \in 1..Len(ks) |-> st.c[ks[j]]], d |-> O!NoDir]

\* first difference between the pool the design expects in handle h and the observed one
StoreDiff(S, p, o) ==
  LET bad == {j \in 1..Len(p.order) : ProjStore(S, p.order[j], p.st[p.order[j]]) # o.stores[j]} IN
  IF bad = {} THEN ""
  ELSE LET j == CHOOSE y \in bad : \A z \in bad : y <= z
           a == ProjStore(S, p.order[j], p.st[p.order[j]])
           b == o.stores[j]
       IN IF a.k # b.k THEN "store-kind"
          ELSE IF a.n # b.n THEN "store-count"
          ELSE IF a.al # b.al THEN "store-array-length"
          ELSE IF a.op # b.op THEN "store-open"
          ELSE IF a.ini # b.ini THEN "store-initialised"
          ELSE IF a.keys # b.keys THEN "store-batch-indices"
          ELSE IF a.vals # b.vals THEN "store-content"
          ELSE IF a.d # b.d THEN "store-file-location"
          ELSE "store-projection"

PoolDiff(S, h, o) ==
  LET p == S.pools[h] IN
  IF p.ex # o.ex THEN "pool-exists"
  ELSE IF ~p.ex THEN ""
  ELSE IF p.kind # o.kind THEN "pool-class"
  ELSE IF p.name # o.name THEN "pool-name"
  ELSE IF p.prefix # o.prefix THEN "pool-prefix"
  ELSE IF p.bs # o.bs THEN "pool-batch_size"
  ELSE IF p.seed # o.seed THEN "pool-seed"
  ELSE IF p.order # o.order THEN "pool-stores"
  ELSE IF Len(o.stores) # Len(p.order) THEN "pool-stores"
  ELSE LET sd == StoreDiff(S, p, o) IN
       IF sd # "" THEN sd
       ELSE IF o.len # O!PoolLen(p) THEN "len-is-largest-store"
       ELSE IF o.has # [j \in 1..Len(o.has) |-> O!PoolLen(p) > j - 1] THEN "contains-is-len-gt-i"
       ELSE ""

DirAt(j) == <<T.dirs[j][1], T.dirs[j][2]>>
DirDiff(S, d, o) ==
  LET r == S.disk[d] IN
  IF r.pkl.ex # o.pkl THEN "disk-pool-pickle"
  ELSE IF [j \in 1..Len(NodeSeq) |-> r.spk[NodeSeq[j]].k # "absent"] # o.spk THEN "disk-store-pickles"
  ELSE IF [j \in 1..Len(NodeSeq) |-> [ex |-> r.npy[NodeSeq[j]].ex, ini |-> r.npy[NodeSeq[j]].ini, vals |-> r.npy[NodeSeq[j]].data]] # o.npy
       THEN "disk-npy-files"
  ELSE IF o.extra # 0 THEN "disk-unexpected-entries"
  ELSE ""

RECURSIVE FirstPool(_, _, _)
FirstPool(S, obs, h) == IF h > Len(obs.pools) THEN ""
                        ELSE LET x == PoolDiff(S, h, obs.pools[h]) IN IF x # "" THEN x ELSE FirstPool(S, obs, h + 1)
\* obs.disk lists the folders that exist (j = index into T.dirs)
RECURSIVE FirstDir(_, _, _)
FirstDir(S, obs, k) == IF k > Len(obs.disk) THEN ""
                       ELSE LET x == DirDiff(S, DirAt(obs.disk[k].j), obs.disk[k]) IN
                            IF x # "" THEN x ELSE FirstDir(S, obs, k + 1)
DiskDiff(S, obs) ==
  IF {obs.disk[k].j : k \in 1..Len(obs.disk)} # {j \in 1..Len(T.dirs) : S.disk[DirAt(j)].ex} THEN "disk-folder-exists"
  ELSE FirstDir(S, obs, 1)

Match(r, e) ==
  IF r.raised # e.raised THEN "raises-as-transcribed"
  ELSE IF e.call.op = "get_batch" /\ r.raised = "" /\ r.ret # e.ret THEN "returns-the-stored-batch"
  ELSE IF (r.s.cwd = O!Home) # e.obs.cwd_home THEN "working-directory"
  ELSE LET pd == FirstPool(r.s, e.obs, 1) IN
       IF pd # "" THEN pd
       ELSE IF e.obs.outside # 0 THEN "disk-unexpected-entries"
       ELSE DiskDiff(r.s, e.obs)

\* ---- the call
CallOf(e) == [op |-> e.call.op, h |-> e.call.h, kind |-> e.call.kind, outs |-> e.call.outs, name |-> e.call.name,
              prefix |-> e.call.prefix, bs |-> e.call.bs, seed |-> e.call.seed, i |-> e.call.i, ns |-> e.call.ns, v |-> e.call.v,
              node |-> e.call.node, what |-> e.call.what, d1 |-> <<e.call.d1[1], e.call.d1[2]>>, d2 |-> <<e.call.d2[1], e.call.d2[2]>>]

Ops == {"new", "set_context", "add_batch", "remove_batch", "get_batch", "clear", "flush", "add_store", "remove_store", "save",
        "close", "delete", "open", "drop", "move", "copy", "chdir_home"}
InDirs(d) == d \in O!Dirs
WellFormed(e) ==
  LET c == CallOf(e) IN
  /\ c.op \in Ops
  /\ Len(e.obs.pools) = Cardinality(THandles) /\ \A k \in 1..Len(e.obs.disk) : e.obs.disk[k].j \in 1..Len(T.dirs)
  /\ (c.op \in O!EnvOps \/ c.h \in THandles)
  /\ (c.op \in O!NeedsPool => cur.pools[c.h].ex)                         \* the harness calls methods on objects it holds
  /\ (c.op \in {"new", "open"} => (~cur.pools[c.h].ex /\ c.prefix \in TPrefixes))
  /\ (c.op = "new" => (c.name \in TNames \cup {""} /\ c.kind \in O!Kinds /\ O!SeqSet(c.outs) \subseteq TNodes))
  /\ (c.op = "open" => c.name \in O!AllNames)
  /\ (c.op = "set_context" => c.seed \in TSeeds /\ c.bs > 0)
  /\ (c.op \in {"add_batch", "get_batch"} => O!SeqSet(c.ns) \subseteq TNodes)
  /\ (c.op \in {"add_store", "remove_store"} => c.node \in TNodes)
  /\ (c.op \in {"move", "copy"} => (InDirs(c.d1) /\ InDirs(c.d2) /\ c.d1 # c.d2))
  /\ (cur.cwd # O!Home => c.op = "chdir_home")

\* ---- user-level invariants, on the expected transition S -> r.s
InvNames == <<"inv-close-then-open-gives-the-same-pool", "inv-every-claimed-batch-is-backed-by-data", "inv-a-newly-made-store-is-empty",
              "inv-working-directory-kept", "inv-stores-work-on-files-in-the-pool-folder", "inv-raising-call-changes-nothing",
              "inv-call-changes-nothing-outside-its-folder", "inv-delete-removes-the-folder", "inv-close-keeps-files-and-leaves-pickles",
              "inv-clear-keeps-the-stores", "inv-context-rules", "inv-constructor-refuses-existing-folder">>
Holds(k, S, r, c, g2) ==
  CASE k = 1 -> O!InvRoundTrip(r.s, g2)
    [] k = 2 -> O!InvNoPhantoms(r.s)
    [] k = 3 -> O!InvFreshIsEmpty(r.s)
    [] k = 4 -> O!InvCwdKept(r.s)
    [] k = 5 -> O!InvSelfContained(r.s)
    [] k = 6 -> O!AtomicOK(S, r.s, c, r.raised)
    [] k = 7 -> O!IsolationOK(S, r.s, c)
    [] k = 8 -> O!DeleteOK(S, r.s, c, r.raised)
    [] k = 9 -> O!CloseOK(S, r.s, c, r.raised)
    [] k = 10 -> O!ClearOK(S, r.s, c, r.raised)
    [] k = 11 -> O!ContextOK(S, r.s, c, r.raised)
    [] k = 12 -> O!NewOK(S, r.s, c, r.raised)
RECURSIVE Join(_, _)
Join(A, k) == IF k > Len(InvNames) THEN "" ELSE (IF InvNames[k] \in A THEN InvNames[k] \o "|" ELSE "") \o Join(A, k + 1)

Step ==
  /\ ~done
  /\ IF l > Len(T.events) THEN done' = TRUE /\ UNCHANGED <<tid, l, cur, gh, verdict, drift, viol>>
     ELSE LET e == T.events[l] IN
          IF ~WellFormed(e)
          THEN verdict' = "X:event-not-well-formed" /\ done' = TRUE /\ l' = l + 1 /\ UNCHANGED <<tid, cur, gh, drift, viol>>
          ELSE LET c == CallOf(e)
                   r == O!Run(cur, c)
                   g2 == O!GhostStep(gh, cur, c, r)
               IN IF r.s.torn
                  THEN done' = TRUE /\ l' = l + 1 /\ UNCHANGED <<tid, cur, gh, verdict, drift, viol>>      \* left the modelled domain
                  ELSE LET m == Match(r, e)
                           v == viol \cup {InvNames[k] : k \in {j \in 1..Len(InvNames) : ~Holds(j, cur, r, c, g2)}}
                       IN /\ verdict' = (IF m = "" THEN "ok" ELSE "E:" \o c.op \o "-" \o m)
                          /\ done' = (m # "") /\ l' = l + 1 /\ cur' = r.s /\ gh' = g2 /\ UNCHANGED tid
                          /\ viol' = v /\ drift' = Join(v, 1)

Spec == Init /\ [][Step]_vars
Report == done => PrintT(<<"V", tid, l, verdict, drift>>)
=============================================================================

---------------------------- MODULE SynLik_Trace ----------------------------
(***************************************************************************)
(* Trace validation for clauses (a) and (b) of C20.                        *)
(*                                                                         *)
(* A trace is one data set  c = [x, y, s, d]  (ssx = x/s: n rows of d      *)
(* integers, ssy = y/s) and a sequence of real calls of the likelihood     *)
(* functions of elfi/methods/bsl/pdf_methods.py on it:                     *)
(*   fn = "std"   gaussian_syn_likelihood(ssx, ssy, shrinkage, penalty,    *)
(*                whitening): W/ws the whitening matrix (<<>> = None),     *)
(*                gam = <<gn, gd>> = 1 - penalty (shr = TRUE: 'warton')    *)
(*   fn = "go"    gaussian_syn_likelihood_ghurye_olkin(ssx, ssy)           *)
(*   fn = "mean" / "var"  syn_likelihood_misspec(ssx, ssy, gamma = g,      *)
(*                adjustment)                                              *)
(* res = "val" with out = the returned log-likelihood in 10^-6, or         *)
(* "-inf" | "inf" | "nan" | "big" | "raise" | "hang".                      *)
(* TLC recomputes the value from the logged inputs with SynLikOps (exact   *)
(* integer arithmetic + the logarithm tables) and compares within the      *)
(* table's error bound; with Warton shrinkage the code's guard term        *)
(* (1 - gamma) 1e-5 on the diagonal is covered by an explicit additional   *)
(* tolerance (first-order bound, doubled).                                 *)
(* Not decided: data off the lattice (a determinant that is not            *)
(* {2,3,5,7}-smooth, irrational standard deviations in the mean            *)
(* adjustment) - the harness does not generate them (X: clause).           *)
(***************************************************************************)
EXTENDS Naturals, Integers, Sequences, FiniteSets, TLC, Json, IOUtils, SynLikOps

Traces == JsonDeserialize(IOEnv.TRACE_FILE)

VARIABLES tid, l, verdict, drift, done
vars == <<tid, l, verdict, drift, done>>

T == Traces[tid]
CaseOf == [x |-> T.x, y |-> T.y, s |-> T.s, d |-> T.d]
Init == tid \in 1..Len(Traces) /\ l = 1 /\ verdict = "ok" /\ drift = "" /\ done = FALSE

Expected(e) ==
  CASE e.fn = "std" -> StdLik(CaseOf, e.W, e.ws, IF e.shr THEN e.gam ELSE <<1, 1>>)
    [] e.fn = "go" -> GoLik(CaseOf)
    [] e.fn = "mean" -> MeanAdjLik(CaseOf, e.g)
    [] e.fn = "var" -> VarAdjLik(CaseOf, e.g)
    [] OTHER -> OffLattice

\* additional tolerance (10^-6, on 2 * loglik) for the guard (1 - gamma) * 1e-5 the code adds to the diagonal
\* of the shrunk covariance: |d(2 loglik)| <= 1e-5 (1 - gamma) tr(S^-1) (1 + quad), doubled
WartonExtra(e, r) ==
  IF ~(e.fn = "std" /\ e.shr) THEN 0
  ELSE LET c == Whitened(CaseOf, e.W, e.ws)
           n == Len(c.x)
           K == Shrunk(CMat(c.x, c.d), c.d, e.gam)
           kden == e.gam[2] * n * (n - 1) * c.s * c.s
           tr == IF c.d = 1 THEN 1 ELSE K[1][1] + K[2][2]
           trinv == (tr * kden) \div Det(K, c.d) + 1
           quad == r.q[1] \div r.q[2] + 1
       IN (20 * trinv * (1 + quad) * (e.gam[2] - e.gam[1])) \div e.gam[2] + 2

JudgeX(e, r) ==
  IF ~r.lat THEN "X:off-lattice"
  ELSE IF r.fin /\ ~QSafe(r) THEN "X:unsafe-magnitudes"
  ELSE ""

Clause(e) == CASE e.fn = "std" -> "P:synlik" [] e.fn = "go" -> "P:unbiased" [] OTHER -> "P:misspec"

JudgeP(e, r) ==
  IF e.res \in {"raise", "hang"} THEN "P:valid-input-raised"
  ELSE IF LikMatches(e.res, e.out, r, WartonExtra(e, r)) THEN "ok"
  ELSE Clause(e)

Step ==
  /\ ~done
  /\ IF l > Len(T.events) THEN done' = TRUE /\ UNCHANGED <<tid, l, verdict, drift>>
     ELSE LET e == T.events[l]
              r == Expected(e)
              x == JudgeX(e, r)
              j == IF x = "" THEN JudgeP(e, r) ELSE "ok"
          IN /\ verdict' = j
             /\ drift' = IF drift # "" THEN drift ELSE x
             /\ done' = (j # "ok")
             /\ l' = l + 1
             /\ UNCHANGED tid

Spec == Init /\ [][Step]_vars
Report == done => PrintT(<<"V", tid, l, verdict, drift>>)
=============================================================================

--------------------------- MODULE ChainDiag_Trace ---------------------------
(***************************************************************************)
(* Trace validation for C16, clause (e): the real                          *)
(*     elfi.methods.mcmc.gelman_rubin_statistic   (fn = "rhat")            *)
(*     elfi.methods.mcmc.eff_sample_size          (fn = "ess")             *)
(* called on integer chains and on transformed copies of them.             *)
(*                                                                         *)
(* Trace: chains (M x N integers, the base chains) and events              *)
(*   fn     "rhat" | "ess"                                                 *)
(*   ident  TRUE: the call received the base chains themselves; FALSE: it  *)
(*          received  sgn * 2^k * chains[perm] + c  (an affine map that is *)
(*          exact in floating point, chains reordered by perm); how =      *)
(*          description of the map (informative)                           *)
(*   res    "ok" (a finite non-negative float) | "nonfinite" | "raise" |   *)
(*          "hang"                                                         *)
(*   v      floor(value * 10^9) as a big natural (limbs base 10^4, little  *)
(*          endian, see ChainDiagOps)                                      *)
(* The identity call of a function comes before its transformed calls.     *)
(*                                                                         *)
(* P:rhat            the value on the base chains is sqrt of the textbook  *)
(*                   split-R-hat ratio R2Int (ChainDiag.tla: = BDA3 11.4)  *)
(* P:rhat-invariance the value on a transformed copy equals the value on   *)
(*                   the base chains                                       *)
(* P:ess-invariance  likewise for ESS (all calls return a finite value and *)
(*                   agree), unless a truncation test is exactly 0 on the  *)
(*                   base chains (floats cannot decide it: not judged)     *)
(* M:ess-estimator   the ESS on the base chains is the estimator the code  *)
(*                   documents (EssCleared; ChainDiag.tla: = the code      *)
(*                   transcription)                                        *)
(* Tolerance: Tol units of 10^-9 absolute.  Chains on which the formula is *)
(* undefined (zero within-chain variance, fewer than 4 draws) are not      *)
(* judged.                                                                 *)
(***************************************************************************)
EXTENDS Naturals, Integers, Sequences, FiniteSets, TLC, Json, IOUtils, ChainDiagOps

Traces == JsonDeserialize(IOEnv.TRACE_FILE)
U == 1000000000
Tol == 50

VARIABLES tid, l, R2, EC,   \* R2Int / EssCleared of the trace's base chains, evaluated once (in Init)
          v0r, v0e, verdict, drift, done
vars == <<tid, l, R2, EC, v0r, v0e, verdict, drift, done>>
None == <<>>       \* no base value recorded yet (a logged value has at least one limb)

T == Traces[tid]
WellFormed == IsChains(T.chains)

Init == /\ tid \in 1..Len(Traces) /\ l = 1 /\ v0r = None /\ v0e = None
        /\ R2 = (IF IsChains(Traces[tid].chains) THEN R2Int(Traces[tid].chains) ELSE Undef)
        /\ EC = (IF IsChains(Traces[tid].chains) THEN EssCleared(Traces[tid].chains)
                 ELSE [def |-> FALSE, bnd |-> FALSE, num |-> <<0>>, den |-> <<1>>])
        /\ verdict = "ok" /\ drift = "" /\ done = FALSE

JudgeRhat(e) ==
  IF ~IsDef(R2) THEN "ok"                                   \* W = 0 or halves shorter than 2: no formula
  ELSE IF e.ident THEN
         (IF e.res = "ok" /\ IsBig(e.v) /\ BSqrtAgrees(e.v, R2[1], R2[2], U, Tol) THEN "ok" ELSE "P:rhat")
  ELSE IF v0r = None THEN "X:no-base-call"
  ELSE IF e.res = "ok" /\ IsBig(e.v) /\ BNear(e.v, v0r, Tol) THEN "ok" ELSE "P:rhat-invariance"
\* "equal their textbook formulas": the estimator the function's docstring cites (BDA3 / Stan reference manual 2.14: multi-chain
\* autocorrelation through the variogram with lag-unbiased autocovariances, summed up to the first negative term), transcribed
\* in ChainDiag.tla and evaluated here in exact rational arithmetic.  (Scope decision of DESIGN 5/C16 revised: this was an M:
\* clause; a change that made the value deviate from the cited estimator by up to 8% was then only reported as drift.)
JudgeEss(e) ==
  IF ~EC.def \/ EC.bnd THEN "ok"
  ELSE IF e.ident THEN (IF ~(e.res = "ok" /\ IsBig(e.v)) THEN "P:ess-invariance"
                        ELSE IF ~BFracAgrees(e.v, EC.num, EC.den, U, Tol) THEN "P:ess-is-the-cited-estimator"
                        ELSE "ok")
  ELSE IF v0e = None THEN "X:no-base-call"
  ELSE IF e.res = "ok" /\ IsBig(e.v) /\ BNear(e.v, v0e, Tol) THEN "ok" ELSE "P:ess-invariance"
JudgeP(e) ==
  IF ~WellFormed THEN "X:malformed-scenario"
  ELSE CASE e.fn = "rhat" -> JudgeRhat(e)
         [] e.fn = "ess" -> JudgeEss(e)
         [] OTHER -> "X:unknown-event"
JudgeM(e) ==
  IF ~WellFormed \/ e.fn # "ess" \/ ~e.ident \/ e.res # "ok" \/ ~IsBig(e.v) \/ ~EC.def \/ EC.bnd THEN ""
  ELSE IF BFracAgrees(e.v, EC.num, EC.den, U, Tol) THEN "" ELSE "M:ess-estimator"

Step ==
  /\ ~done
  /\ IF l > Len(T.events) THEN done' = TRUE /\ UNCHANGED <<tid, l, R2, EC, v0r, v0e, verdict, drift>>
     ELSE LET e == T.events[l]
              j == JudgeP(e)
              m == IF drift = "" THEN JudgeM(e) ELSE drift
          IN /\ verdict' = j
             /\ drift' = m
             /\ done' = (j # "ok")
             /\ l' = l + 1
             /\ UNCHANGED <<tid, R2, EC>>
             /\ v0r' = IF j = "ok" /\ e.fn = "rhat" /\ e.ident /\ e.res = "ok" THEN e.v ELSE v0r
             /\ v0e' = IF j = "ok" /\ e.fn = "ess" /\ e.ident /\ e.res = "ok" THEN e.v ELSE v0e

Spec == Init /\ [][Step]_vars
Report == done => PrintT(<<"V", tid, l, verdict, drift>>)
=============================================================================

-------------------------- MODULE RomcPosteriorOps --------------------------
(***************************************************************************)
(* elfi.methods.posteriors.RomcPosterior: the unnormalised density and the *)
(* sample weights as pure operators over exact quantities, shared by the   *)
(* design module RomcPosterior.tla and the trace spec.                     *)
(*                                                                         *)
(* At one point theta the posterior sees: d[k] = funcs[k](theta) (distance *)
(* of accepted problem k), inside[k] = regions[k].contains(theta), and     *)
(* pr = prior.pdf(theta) as a rational <<num, den>>.                       *)
(***************************************************************************)
EXTENDS Integers, Sequences, FiniteSets

\* ---- the code ---------------------------------------------------------------------
\* _sum_over_indicators:  for i in range(len(funcs)): if func(theta) <= eps: nof_inside += 1
RECURSIVE SumInd(_, _, _, _)
SumInd(d, eps, leq, k) ==
  IF k = 0 THEN 0
  ELSE SumInd(d, eps, leq, k - 1) + (IF (IF leq THEN d[k] <= eps ELSE d[k] < eps) THEN 1 ELSE 0)

\* _sum_over_regions_indicators:  if reg.contains(theta) and (func(theta) <= eps): nof_inside += 1
RECURSIVE SumRegInd(_, _, _, _, _)
SumRegInd(inside, d, eps, leq, k) ==
  IF k = 0 THEN 0
  ELSE SumRegInd(inside, d, eps, leq, k - 1)
       + (IF inside[k] /\ (IF leq THEN d[k] <= eps ELSE d[k] < eps) THEN 1 ELSE 0)

\* _pdf_unnorm_single_point:  val = pr * indicator_sum
CodeCount(inside, d, eps, surr, leq) ==
  IF surr THEN SumRegInd(inside, d, eps, leq, Len(d)) ELSE SumInd(d, eps, leq, Len(d))
PdfUnnorm(pr, inside, d, eps, surr, leq) == <<pr[1] * CodeCount(inside, d, eps, surr, leq), pr[2]>>

\* sample / _worker_compute_weight:
\*   q = region.pdf(theta); ind = dist < eps; res = ind * pr / q if q > 0 else 0
\* q is the rational <<contains, volume>>
Weight(pr, q, dist, eps, lt) ==
  IF q[1] > 0
  THEN <<(IF (IF lt THEN dist < eps ELSE dist <= eps) THEN 1 ELSE 0) * pr[1] * q[2], pr[2] * q[1]>>
  ELSE <<0, 1>>

\* ---- the statement ------------------------------------------------------------------
\* number of accepted problems whose distance at the point is within the cut-off (and, when
\* local surrogate objectives are used, whose region contains the point)
CountDef(inside, d, eps, surr) ==
  Cardinality({k \in 1..Len(d) : d[k] <= eps /\ (surr => inside[k])})
\* indicator(distance below cut-off) * prior density / region density (= 1/vol for a drawn sample)
WeightDef(pr, vol, dist, eps) == <<(IF dist < eps THEN 1 ELSE 0) * pr[1] * vol, pr[2]>>

RatEq(a, b) == a[1] * b[2] = b[1] * a[2]
=============================================================================

SPECIFICATION Spec
CONSTANTS
  MaxSize = 5
  WarnAt = 3
  LeftBug = FALSE
INVARIANT ExactCount
INVARIANT AllValid
INVARIANT InOrder
INVARIANT Conservation
INVARIANT NeverRaises
INVARIANT WarnedIff
INVARIANT DrawsWhatIsMissing
PROPERTY WindowDisjoint
PROPERTY Terminates
CHECK_DEADLOCK FALSE

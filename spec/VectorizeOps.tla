--------------------------- MODULE VectorizeOps ---------------------------
(***************************************************************************)
(* Pure operators of elfi.model.tools.run_vectorized, shared by the design *)
(* module Vectorize.tla and by the trace specifications Vectorize_Trace    *)
(* and External_Trace.                                                     *)
(*                                                                         *)
(* An input is a record [arr, rows, v]:                                    *)
(*   arr  = TRUE  for something elfi.utils.is_array accepts (has `shape`   *)
(*          and ndim > 0); then rows = <<row 0, ..., row len-1>>,          *)
(*   arr  = FALSE for everything else (python scalar, 0-d array, list,     *)
(*          str, None, object); rows = <<>>.                               *)
(*   v    = the value as a whole (what a constant is passed as).           *)
(* Values are opaque here: only equality is used.                          *)
(* mask = the `constants` argument as a set of 0-based positions           *)
(* bs   = the `batch_size` keyword, NoBS for None                          *)
(* dt   = "none" | "false" | name of a numpy dtype                         *)
(* Keyword arguments: kw = function name -> value WITHOUT meta;            *)
(* hasMeta / meta = the `meta` keyword (a dict, function key -> value).    *)
(***************************************************************************)
EXTENDS Naturals, Integers, Sequences, FiniteSets, TLC

NoBS == -1
Mismatch == -2

\* =========================================================================
\* The definition the property refers to (declarative).
\* =========================================================================
\* "non-constant input": not in the explicit mask and array-like
IsConst(inputs, mask, j) == (j - 1) \in mask \/ ~inputs[j].arr
Varying(inputs, mask) == {j \in 1..Len(inputs) : ~IsConst(inputs, mask, j)}
\* "the batch length is taken from the inputs or from batch_size" (else 1)
Lengths(inputs, mask, bs) ==
  {Len(inputs[j].rows) : j \in Varying(inputs, mask)} \cup (IF bs = NoBS THEN {} ELSE {bs})
BatchLen(inputs, mask, bs) ==
  LET L == Lengths(inputs, mask, bs)
  IN IF L = {} THEN 1 ELSE IF Cardinality(L) = 1 THEN CHOOSE x \in L : TRUE ELSE Mismatch
\* arguments of the per-row application for row r (0-based)
RowArgs(inputs, mask, r) ==
  [j \in 1..Len(inputs) |-> IF IsConst(inputs, mask, j) THEN inputs[j].v ELSE inputs[j].rows[r + 1]]
\* a meta dict with its row index removed (what must pass through unchanged)
StripIdx(m) == [k \in (DOMAIN m) \ {"index_in_batch"} |-> m[k]]

\* the per-row application as a term
App(op, args, kw, hasMeta, meta) == [op |-> op, args |-> args, kw |-> kw, hasMeta |-> hasMeta, meta |-> meta]

\* =========================================================================
\* The code (imperative transcription of run_vectorized).
\* Variant # "code" are deliberately broken variants used as negative controls.
\* =========================================================================
\* first loop: detect constants and the batch size.  `consts` is the growing list.
RECURSIVE Detect(_, _, _, _, _)
Detect(inputs, i, consts, bs, variant) ==
  IF i > Len(inputs) THEN [ok |-> TRUE, consts |-> consts, bs |-> bs]
  ELSE IF (i - 1) \in consts THEN Detect(inputs, i + 1, consts, bs, variant)          \* continue
  ELSE IF inputs[i].arr THEN
         LET length == Len(inputs[i].rows) IN
         IF bs = NoBS THEN Detect(inputs, i + 1, consts, length, variant)
         ELSE IF bs # length /\ variant # "no-length-check"
              THEN [ok |-> FALSE, consts |-> consts, bs |-> bs]                           \* raise ValueError
              ELSE Detect(inputs, i + 1, consts, bs, variant)
  ELSE Detect(inputs, i + 1, IF variant = "no-auto-detect" THEN consts ELSE consts \cup {i - 1}, bs, variant)

\* `kwargs['meta']['index_in_batch'] = index_in_batch`
MetaAt(hasMeta, meta, r, setIdx) ==
  IF hasMeta /\ setIdx THEN ("index_in_batch" :> r) @@ meta ELSE meta

\* CanIndex: an input that python can index with [r] (arrays with r < len).  A broken variant that
\* indexes something else raises (TypeError / IndexError).
CanIndex(inp, r) == inp.arr /\ r < Len(inp.rows)

Run(op, inputs, mask, bs, dt, kw, hasMeta, meta, idxVal, variant) ==
  LET d == Detect(inputs, 1, mask, bs, variant) IN
  IF ~d.ok THEN [res |-> "raise", cont |-> "", items |-> <<>>]
  ELSE
    LET n == IF d.bs = NoBS THEN 1 ELSE d.bs
        indexed(j) == IF variant = "index-constants" THEN ~((j - 1) \in d.consts /\ ~((j - 1) \in mask))
                                                             \* only auto-detected ones are kept
                      ELSE ~((j - 1) \in d.consts)
        crash == \E r \in 0..(n - 1) : \E j \in 1..Len(inputs) : indexed(j) /\ ~CanIndex(inputs[j], r)
    IN IF crash THEN [res |-> "raise", cont |-> "", items |-> <<>>]
       ELSE [res |-> "val",
             cont |-> IF dt = "false" THEN "object" ELSE dt,      \* dtype decides the container only
             items |-> [r1 \in 1..n |->
                          App(op,
                              [j \in 1..Len(inputs) |-> IF indexed(j) THEN inputs[j].rows[r1] ELSE inputs[j].v],
                              kw, hasMeta, MetaAt(hasMeta, meta, idxVal[r1], variant # "no-index"))]]
=============================================================================

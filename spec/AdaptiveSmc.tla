----------------------------- MODULE AdaptiveSmc -----------------------------
(***************************************************************************)
(* EXTENSION beyond the listed properties: the round structure of the two  *)
(* adaptive SMC samplers of elfi/methods/inference/samplers.py, at the     *)
(* abstraction level of Smc.tla.  The constant Sampler selects the machine.*)
(*                                                                         *)
(* Sampler = "AD"  AdaptiveDistanceSMC (Prangle 2017, algorithm 5) over an *)
(*   elfi.AdaptiveDistance node.                                           *)
(*   set_objective(n, rounds, quantile): N = ceil(n / quantile) = CandN    *)
(*   rows must be accepted per round; the inner Rejection is adaptive.     *)
(*     ADBatch          Rejection.update of one batch (_merge_batch):      *)
(*                      add_data(all rows of the batch); a row is accepted *)
(*                      iff it passes EVERY nested threshold               *)
(*                          [inf] + [pop.threshold for pop in populations] *)
(*                      column by column (column k = the distance function *)
(*                      that was the newest one while population k-1 was    *)
(*                      ranked); the buffer is kept sorted by the newest   *)
(*                      column in force                                    *)
(*     ADEndRound(newd) the inner Rejection has N acceptances:             *)
(*                      extract_result -> _update_distances: the distance  *)
(*                      node appends ONE distance function whose scale is  *)
(*                      estimated from all rows simulated in the round     *)
(*                      (accepted or not), the best N accepted rows are    *)
(*                      re-evaluated (newd = their values under the new    *)
(*                      function - opaque here) and re-ranked;             *)
(*                      _extract_population: population = best n of them,  *)
(*                      threshold = its largest new distance               *)
(*     ADContinue       a further sample(n, rounds, quantile) call on the  *)
(*                      same sampler (continued sampling): the populations, *)
(*                      their thresholds and the node's distance functions  *)
(*                      are kept, Rounds more populations are requested     *)
(*   A row is the sequence of its distances under the functions in force   *)
(*   (1-based: column k = distance function k-1; column 1 = plain          *)
(*   Euclidean, whose threshold is inf).                                   *)
(*   Round 0 of the code runs the inner Rejection with quantile = 1, i.e.  *)
(*   ceil(N / batch_size) batches, all rows accepted - which is "until N   *)
(*   acceptances" with the nested list <<Inf>>.                            *)
(*                                                                         *)
(* Sampler = "AT"  AdaptiveThresholdSMC (Simola et al. 2021).              *)
(*   set_objective(n, max_iter): Rounds = max_iter;                        *)
(*     ATEndRound(k, q)  the inner Rejection of the round finished after k *)
(*                      batches; if round < max_iter - 1 the quantile for  *)
(*                      the next round is estimated (q = max(1/max density *)
(*                      ratio, 0.05) - opaque here, any value of Qs) and   *)
(*                      the next round is started only if q < q_threshold, *)
(*                      with threshold = weighted q-quantile of the        *)
(*                      discrepancies of the population just finished;     *)
(*                      otherwise infer() returns (extract_result appends  *)
(*                      the last population).                              *)
(*                                                                         *)
(* Variant = "code" is the transcription; every other value is a negative  *)
(* control that TLC must refute:                                           *)
(*   "newest_only"    AD acceptance tests only the newest threshold        *)
(*   "accepted_only"  AD adaptation data = the accepted rows only          *)
(*   "no_rerank"      AD population = first n in the OLD order             *)
(*   "reset_functions" AD a continuing call re-initialises the distance node *)
(*   "stale_quantile" AT stop test reads the quantile of the round that    *)
(*                    just finished instead of the new estimate            *)
(***************************************************************************)
EXTENDS Naturals, Integers, Sequences, FiniteSets, TLC

CONSTANTS Sampler,      \* "AD" | "AT"
          Variant,      \* "code" | a negative control
          PopN,         \* n: particles per population
          CandN,        \* AD: N = ceil(n / quantile) accepted rows per round (>= PopN)
          BS,           \* batch size
          Rounds,       \* AD: rounds of one sample() call;  AT: max_iter
          MaxCalls,     \* AD: number of sample() calls on the one sampler
          Vals,         \* AD: distance values (small naturals)
          MaxBatches,   \* bound of the model: batches per round
          Qs,           \* AT: values an estimated quantile may take (per cent)
          QThr          \* AT: q_threshold (per cent)

Inf == 1000             \* np.inf of the nested threshold list (larger than every value of Vals)

VARIABLES round,        \* state['round'] (0-based)
          phase,        \* "round" | "done"
          fns,          \* AD: state['distance_functions'] of the node: <<[rnd, ndata]>>; rnd = -1: the initial Euclidean distance
          pops,         \* self._populations (+ the one appended by extract_result)
          buf,          \* AD: the accepted rows of the running round, sorted by the newest column
          nb,           \* batches consumed in the running round
          qs,           \* AT: self._quantiles (the entries that are not None)
          nsim,         \* state['n_sim']
          target,       \* objective['round'] + 1: the number of populations when the running call returns
          calls         \* sample() calls made
vars == <<round, phase, fns, pops, buf, nb, qs, nsim, target, calls>>

\* ---------------------------------------------------------------- sorting (np.argsort on the newest column)
Last(s) == s[Len(s)]
RECURSIVE LexLeq(_, _, _)
LexLeq(a, b, k) == IF k > Len(a) THEN TRUE ELSE IF a[k] < b[k] THEN TRUE ELSE IF a[k] > b[k] THEN FALSE ELSE LexLeq(a, b, k + 1)
\* order by the newest column; ties by the whole row (a canonical tie order: no invariant below depends on it)
Leq(a, b) == IF Last(a) # Last(b) THEN Last(a) < Last(b) ELSE LexLeq(a, b, 1)
InsertSorted(s, x) == LET k == Cardinality({i \in 1..Len(s) : Leq(s[i], x)})
                      IN SubSeq(s, 1, k) \o <<x>> \o SubSeq(s, k + 1, Len(s))
RECURSIVE InsertAll(_, _, _)
InsertAll(s, xs, i) == IF i > Len(xs) THEN s ELSE InsertAll(InsertSorted(s, xs[i]), xs, i + 1)
SortRows(xs) == InsertAll(<<>>, xs, 1)
MaxOf(S) == CHOOSE m \in S : \A x \in S : x <= m

\* ---------------------------------------------------------------- AdaptiveDistanceSMC
\* current_population_threshold: [np.inf] + [pop.threshold for pop in self._populations]
Nest == <<Inf>> \o [i \in 1..Len(pops) |-> pops[i].thr]
\* _merge_batch: np.all(batch[d] <= thresholds, axis = columns)
TestedCols == IF Variant = "newest_only" THEN {round + 1} ELSE 1..(round + 1)
Accepted(row) == \A k \in TestedCols : row[k] <= Nest[k]

ADInit == /\ round = 0 /\ phase = "round" /\ pops = <<>> /\ buf = <<>> /\ nb = 0 /\ qs = <<>> /\ nsim = 0
          /\ fns = <<[rnd |-> -1, ndata |-> 0]>> /\ target = Rounds /\ calls = 1

ADMerge(rows) ==
  /\ Sampler = "AD" /\ phase = "round" /\ Len(buf) < CandN /\ nb < MaxBatches
  /\ buf' = InsertAll(buf, SelectSeq(rows, Accepted), 1)
  /\ nb' = nb + 1 /\ nsim' = nsim + BS
  /\ UNCHANGED <<round, phase, fns, pops, qs, target, calls>>

ADEndRound(newd) ==
  /\ Sampler = "AD" /\ phase = "round" /\ Len(buf) >= CandN
  /\ LET cands  == SubSeq(buf, 1, CandN)                                   \* extract_result: v[:n_samples]
         ext    == [i \in 1..CandN |-> Append(cands[i], newd[i])]           \* generate(with_values = their summaries)
         ranked == IF Variant = "no_rerank" THEN ext ELSE SortRows(ext)     \* _update_distances: argsort of the newest column
         mem    == SubSeq(ranked, 1, PopN)                                  \* _extract_population: [:population_size]
         pop    == [mem |-> mem,
                    thr |-> MaxOf({Last(mem[i]) : i \in 1..PopN}),          \* max(outputs[discrepancy_name])
                    rest |-> [i \in 1..(CandN - PopN) |-> Last(ranked[PopN + i])],
                    nb |-> nb, nsim |-> nb * BS, nacc |-> Len(buf), src |-> Len(pops)]
     IN /\ pops' = Append(pops, pop)
        /\ fns' = Append(fns, [rnd |-> round, ndata |-> IF Variant = "accepted_only" THEN Len(buf) ELSE nb * BS])
        /\ IF round + 1 < target
           THEN round' = round + 1 /\ buf' = <<>> /\ nb' = 0 /\ phase' = "round"
           ELSE phase' = "done" /\ UNCHANGED <<round, buf, nb>>
  /\ UNCHANGED <<qs, nsim, target, calls>>

\* SMC.set_objective on a sampler that already holds populations: state['round'] = len(self._populations)
ADContinue ==
  /\ Sampler = "AD" /\ phase = "done" /\ calls < MaxCalls
  /\ calls' = calls + 1 /\ target' = Len(pops) + Rounds /\ round' = Len(pops)
  /\ phase' = "round" /\ buf' = <<>> /\ nb' = 0
  /\ fns' = (IF Variant = "reset_functions" THEN <<[rnd |-> -1, ndata |-> 0]>> ELSE fns)
  /\ UNCHANGED <<pops, qs, nsim>>

RowsOf(w) == [1..w -> Vals]
\* one batch of BS rows, each with an arbitrary distance under every function in force
ADBatch == \E rows \in [1..BS -> RowsOf(round + 1)] : ADMerge(rows)

\* ---------------------------------------------------------------- AdaptiveThresholdSMC
ATInit == /\ round = 0 /\ phase = "round" /\ pops = <<>> /\ buf = <<>> /\ nb = 0 /\ nsim = 0 /\ fns = <<>>
          /\ target = Rounds /\ calls = 1
          /\ qs \in {<<q>> : q \in Qs}                                     \* _quantiles[0] = initial_quantile

\* threshold in force in the running round: round 0 = the initial quantile of everything simulated;
\* later _set_threshold: weighted quantile _quantiles[round] of population round - 1
ATThr == IF round = 0 THEN <<"q0", qs[1], 0>> ELSE <<"q", qs[round + 1], round>>
ATPop(k) == [thr |-> ATThr, nb |-> k, nsim |-> k * BS, src |-> Len(pops)]

ATEndRound(k, q) ==
  /\ Sampler = "AT" /\ phase = "round"
  /\ nsim' = nsim + k * BS
  /\ IF round < Rounds - 1
     THEN /\ qs' = Append(qs, q)                                           \* _set_adaptive_quantile
          /\ LET tested == IF Variant = "stale_quantile" THEN qs[round + 1] ELSE q IN
             IF tested < QThr
             THEN /\ pops' = Append(pops, ATPop(k)) /\ round' = round + 1 /\ phase' = "round"
             ELSE /\ pops' = Append(pops, ATPop(k)) /\ phase' = "done" /\ UNCHANGED round     \* extract_result
     ELSE /\ pops' = Append(pops, ATPop(k)) /\ phase' = "done" /\ UNCHANGED <<round, qs>>
  /\ UNCHANGED <<fns, buf, nb, target, calls>>


\* ----------------------------------------------------------------
Init == IF Sampler = "AD" THEN ADInit ELSE ATInit
Next == \/ ADBatch
        \/ (\E newd \in [1..CandN -> Vals] : ADEndRound(newd))
        \/ ADContinue
        \/ (\E k \in 1..MaxBatches, q \in Qs : ATEndRound(k, q))
Spec == Init /\ [][Next]_vars

\* ================================================================ guarantees, both samplers
RECURSIVE SumNsim(_)
SumNsim(i) == IF i = 0 THEN 0 ELSE pops[i].nsim + SumNsim(i - 1)
\* n_sim adds up over the rounds (finished populations + the batches of the running round)
NSimAdds == nsim = SumNsim(Len(pops)) + (IF Sampler = "AD" /\ phase = "round" THEN nb * BS ELSE 0)
PopNSim == \A i \in 1..Len(pops) : pops[i].nsim = BS * pops[i].nb
\* proposals / importance weights of population i come from the population right before it
UsesLatestPopulation == \A i \in 1..Len(pops) : pops[i].src = i - 1
NeverMoreThanRounds == Len(pops) <= target /\ round < target /\ target = calls * Rounds

\* ================================================================ guarantees, AdaptiveDistanceSMC
\* the nested list in force while population i (1-based) was sampled
NestOf(i) == <<Inf>> \o [j \in 1..(i - 1) |-> pops[j].thr]
\* every particle of population i passed EVERY earlier threshold, each under the distance function of its own round
ADNestedAcceptance ==
  \A i \in 1..Len(pops) : \A m \in 1..Len(pops[i].mem) : \A k \in 1..i : pops[i].mem[m][k] <= NestOf(i)[k]
ADPopulationSize == \A i \in 1..Len(pops) : Len(pops[i].mem) = PopN /\ Len(pops[i].rest) = CandN - PopN
\* a particle of population i carries its distance under functions 0..i (i + 1 columns); the newest is the one it is ranked by
ADRowWidth == /\ \A i \in 1..Len(pops) : \A m \in 1..Len(pops[i].mem) : Len(pops[i].mem[m]) = i + 1
              /\ \A j \in 1..Len(buf) : Len(buf[j]) = round + 1
ADThresholdIsMax == \A i \in 1..Len(pops) : /\ \E m \in 1..PopN : Last(pops[i].mem[m]) = pops[i].thr
                                           /\ \A m \in 1..PopN : Last(pops[i].mem[m]) <= pops[i].thr
\* population = the best n of the N candidates under the NEW distance
ADBestUnderNewDistance == \A i \in 1..Len(pops) : \A j \in 1..Len(pops[i].rest) : pops[i].rest[j] >= pops[i].thr
\* the list of distance functions grows by exactly one per finished round
ADOneFunctionPerRound == /\ Len(fns) = Len(pops) + 1
                         /\ \A k \in 1..Len(fns) : fns[k].rnd = k - 2
\* the number of thresholds tested equals the number of distance columns of a row
ADNestMatchesFunctions == phase = "round" => Len(Nest) = Len(fns) /\ Len(Nest) = round + 1
\* adaptation data of a round = all rows simulated in it, accepted or not
ADAdaptationData == \A i \in 1..Len(pops) : fns[i + 1].ndata = pops[i].nsim
\* a round consumes batches until N rows are accepted: at least N in the end, fewer than N before the last batch
ADRoundEndsAtN == \A i \in 1..Len(pops) : pops[i].nacc >= CandN /\ pops[i].nacc < CandN + BS /\ pops[i].nb >= 1
\* every call returns with Rounds more populations; earlier populations, thresholds and functions are kept (history variables
\* pops / fns only grow - ADNestedAcceptance and ADOneFunctionPerRound range over the populations of all calls)
ADAllRounds == phase = "done" => Len(pops) = target

\* ================================================================ guarantees, AdaptiveThresholdSMC
\* the run ends with fewer than max_iter populations only if the last estimated quantile reached q_threshold
ATStopRule == phase = "done" /\ Len(pops) < Rounds => Len(qs) = Len(pops) + 1 /\ qs[Len(qs)] >= QThr
\* a round after the first is started only while the estimated quantile is below q_threshold
ATContinueRule == \A i \in 2..Len(pops) : qs[i] < QThr
\* one quantile estimate per finished round except the last possible one
ATQuantileList == /\ phase = "round" => Len(qs) = round + 1
                  /\ phase = "done" => Len(qs) = (IF Len(pops) < Rounds THEN Len(pops) + 1 ELSE Rounds)
\* threshold of round r = weighted quantile of the PREVIOUS population at the quantile estimated after it
ATQuantileOfPrevious == \A i \in 1..Len(pops) :
                           pops[i].thr = (IF i = 1 THEN <<"q0", qs[1], 0>> ELSE <<"q", qs[i], i - 1>>)
ATDoneHasPopulation == phase = "done" => Len(pops) >= 1
=============================================================================

SPECIFICATION Spec
CONSTANTS
  MaxDepth = 3
  MergeGuard = TRUE
INVARIANT SelectedIsInSliceLeafOrPrevious
INVARIANT NOkCountsSlice
INVARIANT DivergenceIsLast
INVARIANT LeafBound
INVARIANT SubtreeLemma
CHECK_DEADLOCK FALSE

--------------------------- MODULE SubSeed_Trace ---------------------------
(***************************************************************************)
(* Trace validation for C15.  A trace is one master seed and one `high`,   *)
(* the actual numpy draw stream for them (obtained by the harness from     *)
(* numpy directly, in ONE chunk), and a history of get_sub_seed calls that *)
(* share one cache dict (uc = TRUE) or use none (uc = FALSE).              *)
(*                                                                         *)
(* Numbers that may exceed TLC's 32-bit integers are limb pairs <<hi, lo>> *)
(* in base 65536; indices are plain small integers.                        *)
(*                                                                         *)
(* Total and deterministic: Step never blocks; the first failing clause    *)
(* is recorded in `verdict`.  P:* clauses transcribe the property, M:*     *)
(* clauses say "the code follows the design module SubSeed.tla".           *)
(***************************************************************************)
EXTENDS Naturals, Integers, Sequences, FiniteSets, TLC, Json, IOUtils, SubSeedOps

Traces == JsonDeserialize(IOEnv.TRACE_FILE)

VARIABLES tid, l, cache, vals, verdict, drift, done
vars == <<tid, l, cache, vals, verdict, drift, done>>

T == Traces[tid]
Stream == T.stream
LimbLess(a, b) == a[1] < b[1] \/ (a[1] = b[1] /\ a[2] < b[2])
LimbOf(i) == <<i \div 65536, i % 65536>>
NonNeg(a) == a[1] >= 0 /\ a[2] >= 0

Init == /\ tid \in 1..Len(Traces) /\ l = 1 /\ cache = NoCache /\ vals = {}
        /\ verdict = "ok" /\ drift = "" /\ done = FALSE

Servable(e) == e.idx >= 0 /\ LimbLess(LimbOf(e.idx), T.high)
\* first failing clause of the PROPERTY for event e, or "ok"
JudgeP(e) ==
  IF ~Servable(e) THEN (IF e.res = "raise" THEN "ok" ELSE "P:rejects-unservable-index")
  ELSE IF e.res = "raise" THEN "P:servable-index-raised"
  ELSE IF e.res = "hang" THEN "P:servable-index-not-served"
  ELSE IF ~(NonNeg(e.val) /\ LimbLess(e.val, T.high)) THEN "P:in-range"
  ELSE IF \E p \in vals : p[1] = e.idx /\ p[2] # e.val THEN "P:history-independent"
  ELSE IF \E p \in vals : p[1] # e.idx /\ p[2] = e.val THEN "P:distinct"
  ELSE "ok"
\* first clause on which the code leaves the design module SubSeed.tla, or ""
JudgeM(e) ==
  IF ~Servable(e) \/ e.res # "val" THEN ""
  ELSE LET r == CallResult(Stream, cache, e.idx, e.uc)
           p == PosOf(Stream, 0, {}, e.idx + 1)
       IN IF p = Fail \/ r[1] = Fail THEN "X:stream-too-short"
          ELSE IF Stream[p] # e.val THEN "M:value-is-draw-at-which-distinct-count-reaches-idx+1"
          ELSE IF r[3] # e.val THEN "M:resume-from-cache"
          ELSE IF e.uc /\ e.nseen # Cardinality(r[2]) THEN "M:cache-seen-size"
          ELSE ""

Step ==
  /\ ~done
  /\ IF l > Len(T.calls) THEN done' = TRUE /\ UNCHANGED <<tid, l, cache, vals, verdict, drift>>
     ELSE LET e == T.calls[l]
              j == JudgeP(e)
              m == IF drift = "" THEN JudgeM(e) ELSE drift
          IN /\ verdict' = j
             /\ drift' = m
             /\ done' = (j # "ok")
             /\ l' = l + 1
             /\ UNCHANGED tid
             /\ IF j = "ok" /\ e.res = "val"
                THEN /\ vals' = vals \cup {<<e.idx, e.val>>}
                     /\ IF m = "" /\ e.uc
                        THEN LET r == CallResult(Stream, cache, e.idx, e.uc) IN cache' = [pos |-> r[1], seen |-> r[2]]
                        ELSE UNCHANGED cache
                ELSE UNCHANGED <<cache, vals>>

Spec == Init /\ [][Step]_vars
Report == done => PrintT(<<"V", tid, l, verdict, drift>>)
=============================================================================

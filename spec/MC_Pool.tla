------------------------------- MODULE MC_Pool -------------------------------
EXTENDS Pool
\* the stated form: the simulator and/or anything computed from it, optionally with ALL parameters
Stated == {{"sim"}, {"S"}, {"d"}, {"sim", "S"}, {"sim", "d"}, {"S", "d"}, {"sim", "S", "d"},
           {"sim", "t1", "t2"}, {"S", "t1", "t2"}, {"sim", "S", "d", "t1", "t2"}}
StatedSmall == {{"sim"}, {"S", "d"}, {"sim", "S", "d", "t1", "t2"}}
\* outside the stated form: a strict subset of the parameters
Partial == {{"t1"}, {"sim", "t2"}}
=============================================================================

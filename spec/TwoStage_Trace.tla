--------------------------- MODULE TwoStage_Trace ---------------------------
(***************************************************************************)
(* Trace validation for the TwoStage extension: one record per real run of *)
(* TwoStageSelection.run on a recording subclass (entropies, MRSSEs and    *)
(* simulator invocations observed per candidate).  Values enter as dense   *)
(* ranks (exact float order/equality) plus fixed-point oracle fields       *)
(* evaluated by numpy from the definitions.  All clauses are E: clauses    *)
(* (extension beyond the listed properties - reported as drift).           *)
(***************************************************************************)
EXTENDS Naturals, Integers, Sequences, FiniteSets, SequencesExt, TLC, Json, IOUtils

Traces == JsonDeserialize(IOEnv.TRACE_FILE)

\* the design module's operators (its constants are irrelevant for them)
D == INSTANCE TwoStage WITH K <- 1, Ranks <- {1}, Sizes <- {1}, StrictTie <- TRUE, RefIsWinner <- TRUE,
                            E <- <<1>>, M <- <<<<1>>>>, size <- <<1>>, phase <- "done", i <- 1, inc1 <- 1, inc2 <- 1

VARIABLES tid, l, verdict, drift, done
vars == <<tid, l, verdict, drift, done>>
T == Traces[tid]

Init == tid \in 1..Len(Traces) /\ l = 1 /\ verdict = "ok" /\ drift = "" /\ done = FALSE

Abs(x) == IF x < 0 THEN -x ELSE x
Sizes(e) == [c \in 1..Len(e.cands) |-> Len(e.cands[c])]

Judge(e) ==
  IF e.raised # "" THEN "E:run-returns"
  ELSE LET K == Len(e.cands)
           sz == Sizes(e)
           ref == D!Scan(e.Er, sz, 1, 0)
           win == D!Scan(e.Mr, sz, 1, 0)
       IN IF e.n > 0 /\ e.cands # D!Combos(e.n, e.maxc) THEN "E:candidates-are-the-combinations-in-order"
          ELSE IF \E c \in 1..K : ~e.Eok[c] THEN "E:entropy-is-the-stated-formula"
          ELSE IF \E c \in 1..K : Abs(e.Mobs[c] - e.Mo[ref][c]) > e.tol THEN "E:mrsse-is-measured-against-the-minimum-entropy-candidate"
          ELSE IF e.selected # win THEN "E:selected-is-minimum-mrsse-fewest-statistics-first"
          ELSE IF ~(D!IsMin(e.Mr, e.selected) /\ D!FewestAmongTies(e.Mr, sz, e.selected)) THEN "E:selected-is-minimal"
          ELSE IF e.simcalls[1] # e.nb \/ \E c \in 2..K : e.simcalls[c] # 0 THEN "E:simulator-run-once-per-batch-over-all-candidates"
          ELSE IF \E c \in 1..K : e.nacc[c] # e.n_acc THEN "E:each-candidate-keeps-n_acc-draws"
          ELSE "ok"

Step ==
  /\ ~done
  /\ IF l > Len(T.events) THEN done' = TRUE /\ UNCHANGED <<tid, l, verdict, drift>>
     ELSE LET j == Judge(T.events[l])
          IN verdict' = j /\ done' = (j # "ok") /\ l' = l + 1 /\ UNCHANGED <<tid, drift>>

Spec == Init /\ [][Step]_vars
Report == done => PrintT(<<"V", tid, l, verdict, drift>>)
=============================================================================

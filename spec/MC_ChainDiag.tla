----------------------------- MODULE MC_ChainDiag -----------------------------
EXTENDS ChainDiag
\* shapes <<M, N, V>> and negative numbers (cfg files cannot express sets of tuples / negative ints)
ShapesQuick == {<<1, 4, 3>>, <<1, 5, 3>>, <<1, 6, 3>>, <<2, 4, 2>>}
ShapesMid == {<<1, 7, 3>>, <<2, 4, 3>>, <<2, 5, 2>>, <<3, 4, 2>>, <<1, 5, 4>>}
ShapesCov == {<<2, 2, 2>>}      \* tiny: the run with -coverage (action non-vacuity)
ShapesNeg == {<<1, 4, 3>>, <<2, 4, 2>>}
MCShifts == {-3, 5}
MCScales == {-1, 2, 3}
MCScalesQuick == {-1, 2}
=============================================================================

----------------------------- MODULE MC_ChainDiag -----------------------------
EXTENDS ChainDiag
\* shapes <<M, N>> and negative numbers (cfg files cannot express sets of tuples / negative ints)
ShapesQuick == {<<1, 4>>, <<1, 5>>, <<1, 6>>, <<2, 4>>}
ShapesMid == {<<1, 7>>, <<2, 5>>, <<3, 4>>}
ShapesBig == {<<1, 8>>, <<2, 6>>}
ShapesNeg == {<<1, 4>>, <<2, 4>>}
MCShifts == {-3, 5}
MCScales == {-1, 2, 3}
MCVals == {0, 1, 2}
=============================================================================

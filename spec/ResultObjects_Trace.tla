------------------------- MODULE ResultObjects_Trace -------------------------
(***************************************************************************)
(* Trace validation for C16, clauses (a)-(d): real Sample / SmcSample /    *)
(* BolfiSample objects built by the harness from id-valued arrays (T1),    *)
(* taken through a history of attribute reads, Sample.save calls and       *)
(* read-backs of the written files.  TLC recomputes what the object must   *)
(* report from the logged CONSTRUCTOR INPUTS with the operators of         *)
(* ResultObjectsOps / WQuantileOps and compares with what the real object  *)
(* (or the parsed file) showed.                                            *)
(*                                                                         *)
(* Trace header (the constructor call):                                    *)
(*   kind "sample" | "smc" | "bolfi"; names (parameter_names, as passed);  *)
(*   okeys / ovals (the outputs dict in insertion order, values as ids;    *)
(*   empty for bolfi); hasw / ws (integer unnormalised weights);           *)
(*   num (the id -> float table is id * 2^-sh, so means are judged), sh;   *)
(*   chains[c][t][p] / warmup (bolfi); pops (smc: the constructor calls of *)
(*   the population Samples).                                              *)
(* Events:                                                                 *)
(*   init          projection of the object right after construction       *)
(*   attrs         projection of the live object (obj = "live")            *)
(*   save          Sample.save('<file>.<fmt>'): res                        *)
(*   load          csv / json: the parsed file (fkeys, fvals, fnames,      *)
(*                 fhasw, fws, fpops); pkl: projection of the unpickled    *)
(*                 object (same fields as attrs) and its populations       *)
(* Object projection: pnames (parameter_names), skeys / svals / rep (keys, *)
(*   values and Python type of `samples`), n, dim, arr + arres (columns of *)
(*   samples_array), means + mres (round(mean * 10^6)), lo / hi + qres     *)
(*   (ends of sample_means_and_95CIs as ids), ohasw / ows (weights).       *)
(*   id -1 = a value that is not in the scenario's table.                  *)
(*                                                                         *)
(* Total and deterministic.  P:* = clauses of the statement, M:* = the     *)
(* code follows the design module ResultObjects.tla, X:* = harness         *)
(* insufficiency.                                                          *)
(***************************************************************************)
EXTENDS Naturals, Integers, Sequences, FiniteSets, TLC, Json, IOUtils, ResultObjectsOps

FP == INSTANCE FixedPoint
Traces == JsonDeserialize(IOEnv.TRACE_FILE)

VARIABLES tid, l, Exp, Wts,   \* the expected sample / weights of the trace, evaluated once (in Init)
          jsonSaved, pklTainted, verdict, drift, done
vars == <<tid, l, Exp, Wts, jsonSaved, pklTainted, verdict, drift, done>>

T == Traces[tid]
Dim == Len(T.names)
WellFormedT(t) == /\ Len(t.names) >= 1
                  /\ t.kind \in {"sample", "smc", "bolfi"}
                  /\ t.kind # "bolfi" => \A j \in 1..Len(t.names) : HasKey(t.okeys, t.names[j])
                  /\ t.kind = "bolfi" => Len(t.chains) >= 1 /\ t.warmup >= 0
WellFormed == WellFormedT(T)
\* the sample the statement expects the object to hold: one column per parameter name, in order
\* (explicit tuples: cheap to compare with the logged ones)
MatT(f) == f \o <<>>
ExpOf(t) == IF ~WellFormedT(t) THEN <<>>
            ELSE LET c == IF t.kind = "bolfi" THEN BolfiCols(t.chains, t.warmup, Len(t.names)) ELSE ExpCols(t)
                 IN MatT([j \in 1..Len(c) |-> MatT(c[j])])
NExp == NRows(Exp)
Weighted == NExp > 0 /\ WTotal(Wts) > 0
RECURSIVE Pow2(_)
Pow2(k) == IF k = 0 THEN 1 ELSE 2 * Pow2(k - 1)

Init == /\ tid \in 1..Len(Traces) /\ l = 1 /\ jsonSaved = FALSE /\ pklTainted = FALSE
        /\ Exp = ExpOf(Traces[tid])
        /\ Wts = MatT(WeightsOf(Traces[tid], NRows(ExpOf(Traces[tid]))))
        /\ verdict = "ok" /\ drift = "" /\ done = FALSE

SliceClause == IF T.kind = "bolfi" THEN "P:bolfi-slice" ELSE "P:column-order"
RtClause(fmt) == CASE fmt = "csv" -> "P:roundtrip-csv" [] fmt = "json" -> "P:roundtrip-json"
                   [] fmt = "pkl" -> "P:roundtrip-pkl" [] OTHER -> "X:unknown-format"

\* ---- (a), (b), (c) on one object projection ---------------------------------------------
MeansOk(e) ==
  /\ e.mres = "ok" /\ Len(e.means) = Dim
  /\ \A j \in 1..Dim : FP!FxMatches(e.means[j], WM(Exp[j], Wts), V1(Wts) * Pow2(T.sh))
CiOk(e) ==
  /\ e.qres = "ok" /\ Len(e.lo) = Dim /\ Len(e.hi) = Dim
  /\ \A j \in 1..Dim : /\ IsWQ(Exp[j], Wts, 1, 40, e.lo[j])
                       /\ IsWQ(Exp[j], Wts, 39, 40, e.hi[j])
JudgeObj(e, full) ==
  IF e.res # "ok" THEN SliceClause
  ELSE IF e.pnames # T.names \/ e.skeys # T.names THEN "P:column-order"     \* (a) the dict the object exposes
  ELSE IF e.svals # Exp THEN SliceClause                                     \* (c) / "exactly the stored samples"
  ELSE IF ~full THEN "ok"
  ELSE IF NExp > 0 /\ ~(e.arres = "ok" /\ e.arr = Exp) THEN "P:column-order"  \* (a) samples_array
  ELSE IF Weighted /\ T.num /\ ~MeansOk(e) THEN "P:means"                     \* (b)
  ELSE IF Weighted /\ ~CiOk(e) THEN "P:ci"                                    \* (b)
  ELSE "ok"

\* ---- (d) -------------------------------------------------------------------------------------
JudgeLoad(e) ==
  IF e.res # "ok" THEN RtClause(e.fmt)
  ELSE IF e.fmt = "csv" THEN (IF e.fkeys = T.names /\ e.fvals = Exp THEN "ok" ELSE RtClause(e.fmt))
  ELSE IF e.fmt = "json" THEN (IF e.fkeys = T.names /\ e.fvals = Exp /\ e.fnames = T.names THEN "ok" ELSE RtClause(e.fmt))
  ELSE IF e.fmt = "pkl" THEN (IF e.skeys = T.names /\ e.svals = Exp THEN JudgeObj(e, TRUE) ELSE RtClause(e.fmt))
  ELSE "X:unknown-format"

JudgeP(e) ==
  IF ~WellFormed THEN "X:malformed-scenario"
  ELSE CASE e.ev = "init" -> JudgeObj(e, FALSE)
         [] e.ev = "attrs" -> JudgeObj(e, TRUE)
         [] e.ev = "save" -> IF e.res = "ok" THEN "ok" ELSE RtClause(e.fmt)    \* saving a valid sample must not fail
         [] e.ev = "load" -> JudgeLoad(e)
         [] OTHER -> "X:unknown-event"

\* ---- mechanism ---------------------------------------------------------------------------------
PopCols(p) == ExpCols(p)
PopsOk(e) == /\ Len(e.fpops) = Len(T.pops)
             /\ \A k \in 1..Len(T.pops) : /\ e.fpops[k].keys = T.pops[k].names
                                          /\ e.fpops[k].vals = PopCols(T.pops[k])
JudgeM(e) ==
  IF ~WellFormed \/ e.res # "ok" THEN ""
  ELSE IF e.ev \in {"init", "attrs"} THEN
         (IF ~(e.rep = "array" \/ (e.rep = "list" /\ jsonSaved)) THEN "M:only-json-save-changes-representation"
          ELSE IF e.n # NExp \/ e.dim # Dim THEN "M:n-samples-dim"
          ELSE IF e.ohasw # T.hasw \/ (T.hasw /\ e.ows # T.ws) THEN "M:weights-kept"
          ELSE "")
  ELSE IF e.ev = "load" /\ e.fmt = "pkl" THEN
         (IF ~(e.rep = "array" \/ (e.rep = "list" /\ pklTainted)) THEN "M:only-json-save-changes-representation"
          ELSE IF e.ohasw # T.hasw \/ (T.hasw /\ e.ows # T.ws) THEN "M:roundtrip-weights"
          ELSE IF T.kind = "smc" /\ ~PopsOk(e) THEN "M:roundtrip-populations"
          ELSE "")
  ELSE IF e.ev = "load" /\ e.fmt = "json" THEN
         (IF e.fhasw # T.hasw \/ (T.hasw /\ e.fws # T.ws) THEN "M:roundtrip-weights"
          ELSE IF T.kind = "smc" /\ ~PopsOk(e) THEN "M:roundtrip-populations"
          ELSE "")
  ELSE ""

Step ==
  /\ ~done
  /\ IF l > Len(T.events) THEN done' = TRUE /\ UNCHANGED <<tid, l, Exp, Wts, jsonSaved, pklTainted, verdict, drift>>
     ELSE LET e == T.events[l]
              j == JudgeP(e)
              m == IF drift = "" THEN JudgeM(e) ELSE drift
          IN /\ verdict' = j
             /\ drift' = m
             /\ done' = (j # "ok")
             /\ l' = l + 1
             /\ UNCHANGED <<tid, Exp, Wts>>
             /\ jsonSaved' = (jsonSaved \/ (e.ev = "save" /\ e.fmt = "json"))
             /\ pklTainted' = IF e.ev = "save" /\ e.fmt = "pkl" THEN jsonSaved ELSE pklTainted

Spec == Init /\ [][Step]_vars
Report == done => PrintT(<<"V", tid, l, verdict, drift>>)
=============================================================================

-------------------------- MODULE Vectorize_Trace --------------------------
(***************************************************************************)
(* Trace validation for C18 (a), (b): calls of the REAL callable returned  *)
(* by elfi.tools.vectorize, alone and inside a model run.                  *)
(*                                                                         *)
(* A trace is a sequence of events; one event = one call of the vectorised *)
(* callable with a symbolic operation (T1).  Logged INPUTS: the inputs as  *)
(* [arr, rows, v, oid] records (VectorizeOps), the explicit constants      *)
(* mask, batch_size (bs, -1 = None), dtype (dt), the keyword arguments     *)
(* (kw, without meta) and meta (hasmeta, meta).  Logged OUTPUTS: res       *)
(* ("val" / "raise" / "hang"), the returned container out = [cont, ndim,   *)
(* len, items, same] and the symbolic operation's own call log `calls`,    *)
(* each entry [id, args, oids, kw, hasmeta, meta, ret]: what the operation *)
(* received when it produced the value carrying `id`.                      *)
(*                                                                         *)
(* Every value is a record [t, d, s]: type tag, flat integer content,      *)
(* string content (so that TLC only ever compares like with like).  The    *)
(* id carried by a value is d[1].  oid = identity label of a python object *)
(* (0 = not one of the logged input objects).                              *)
(*                                                                         *)
(* The expected values are recomputed here from the logged inputs with the *)
(* declarative operators of VectorizeOps (IsConst, BatchLen, RowArgs); the *)
(* M: clauses compare with the transcription of the code (Run).            *)
(***************************************************************************)
EXTENDS Naturals, Integers, Sequences, FiniteSets, TLC, Json, IOUtils, VectorizeOps

Traces == JsonDeserialize(IOEnv.TRACE_FILE)

VARIABLES tid, l, verdict, drift, done
vars == <<tid, l, verdict, drift, done>>

T == Traces[tid]
Init == tid \in 1..Len(Traces) /\ l = 1 /\ verdict = "ok" /\ drift = "" /\ done = FALSE

MaskOf(e) == {e.mask[k] : k \in 1..Len(e.mask)}
IdOf(v) == IF Len(v.d) > 0 THEN v.d[1] ELSE -1
\* the call of the symbolic operation that produced the value carrying this id
CallsFor(e, id) == {k \in 1..Len(e.calls) : e.calls[k].id = id}
\* the container entry "is" the operation's return value: same integer content (numeric
\* containers may change the number type, never the numbers)
Carries(entry, ret) == entry.d = ret.d /\ ((entry.t = "num" /\ ret.t = "num") => entry.s = ret.s)     \* ("+half": id + 1/2)

\* first failing PROPERTY clause for row r1 (1-based) of event e, or "ok"
JudgeRow(e, r1) ==
  LET mask == MaskOf(e)
      entry == e.out.items[r1]
      cs == CallsFor(e, IdOf(entry))
  IN IF cs = {} THEN "P:per-row"                 \* the entry is not a value the operation returned
     ELSE LET c == e.calls[CHOOSE k \in cs : TRUE]
              want == RowArgs(e.inputs, mask, r1 - 1)
          IN IF Cardinality(cs) # 1 THEN "X:ids-not-unique"
             ELSE IF ~Carries(entry, c.ret) THEN "P:per-row"
             ELSE IF Len(c.args) # Len(e.inputs) THEN "P:per-row"
             ELSE IF \E j \in Varying(e.inputs, mask) : c.args[j] # want[j] THEN "P:per-row"
             ELSE IF \E j \in 1..Len(e.inputs) : IsConst(e.inputs, mask, j) /\ c.args[j] # want[j]
                  THEN "P:constants-untouched"
             ELSE IF c.kw # e.kw \/ c.hasmeta # e.hasmeta \/ StripIdx(c.meta) # StripIdx(e.meta)
                  THEN "P:kwargs-through"
             ELSE IF e.dt = "false" /\ ~(entry = c.ret /\ e.out.same[r1]) THEN "P:dtype-false-object"
             ELSE "ok"

RECURSIVE FirstBad(_, _, _)
FirstBad(e, r1, n) == IF r1 > n THEN "ok"
                      ELSE LET j == JudgeRow(e, r1) IN IF j # "ok" THEN j ELSE FirstBad(e, r1 + 1, n)

JudgeP(e) ==
  LET n == BatchLen(e.inputs, MaskOf(e), e.bs) IN
  IF n = Mismatch THEN (IF e.res = "raise" THEN "ok" ELSE "P:length")   \* no length fits every input
  ELSE IF e.res # "val" THEN "P:per-row"                                \* no array of applications returned
  ELSE IF e.out.len # n \/ Len(e.out.items) # n THEN "P:length"
  ELSE IF e.dt = "false" /\ ~(e.out.cont = "object" /\ e.out.ndim = 1) THEN "P:dtype-false-object"
  ELSE FirstBad(e, 1, n)

\* first clause on which the code leaves the design module (Vectorize.tla / VectorizeOps!Run), or ""
JudgeM(e) ==
  LET mask == MaskOf(e)
      n == BatchLen(e.inputs, mask, e.bs)
      d == Detect(e.inputs, 1, mask, e.bs, "code")
  IN IF d.ok # (n # Mismatch) THEN "X:detect-disagrees-with-definition"
     ELSE IF e.res # "val" \/ n = Mismatch THEN ""
     ELSE IF Len(e.calls) # n THEN "M:one-call-per-row"
     ELSE IF \E r1 \in 1..n : IdOf(e.out.items[r1]) # e.calls[r1].id THEN "M:rows-in-order"
     ELSE IF \E r1 \in 1..n : \E j \in 1..Len(e.inputs) :
               IsConst(e.inputs, mask, j) /\ j <= Len(e.calls[r1].oids) /\ e.calls[r1].oids[j] # e.inputs[j].oid
          THEN "M:constants-are-the-same-objects"
     ELSE IF e.hasmeta /\ \E r1 \in 1..n :
               ~("index_in_batch" \in DOMAIN e.calls[r1].meta /\ e.calls[r1].meta["index_in_batch"].d = <<r1 - 1>>)
          THEN "M:meta-carries-row-index"
     ELSE IF e.dt # "false" /\ e.dt # "none" /\ e.out.cont # e.dt THEN "M:dtype-is-container-dtype"
     ELSE ""

Step ==
  /\ ~done
  /\ IF l > Len(T.events) THEN done' = TRUE /\ UNCHANGED <<tid, l, verdict, drift>>
     ELSE LET e == T.events[l]
              j == JudgeP(e)
              m == IF drift = "" /\ j = "ok" THEN JudgeM(e) ELSE drift
          IN /\ verdict' = j /\ drift' = m /\ done' = (j # "ok") /\ l' = l + 1 /\ UNCHANGED tid

Spec == Init /\ [][Step]_vars
Report == done => PrintT(<<"V", tid, l, verdict, drift>>)
=============================================================================

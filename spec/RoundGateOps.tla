---------------------------- MODULE RoundGateOps ----------------------------
(***************************************************************************)
(* Pure operators shared by RoundGate.tla (design) and RoundGate_Trace.tla *)
(* (conformance): the guards and counters of                               *)
(*   ParameterInference._allow_submit / _has_batches_to_submit / finished  *)
(*   ModelBased._allow_submit / set_objective                              *)
(*   BayesianOptimization._get_acquisition_index / _allow_submit /         *)
(*     _should_optimize / set_objective / _resolve_initial_evidence        *)
(*   BOLFIRE._should_optimize / _init_round                                *)
(* transcribed clause by clause.  Batch indexes and counts of batches are  *)
(* in batches; evidence counts are in POINTS (one point = one simulation). *)
(***************************************************************************)
EXTENDS Naturals, Integers, Sequences

Max2(a, b) == IF a >= b THEN a ELSE b
Min2(a, b) == IF a <= b THEN a ELSE b
\* math.ceil(a / b) for b > 0 and any integer a  (\div is floor division)
CeilDiv(a, b) == 0 - ((0 - a) \div b)
\* elfi.methods.utils.ceil_to_batch_size
CeilTo(n, bs) == CeilDiv(n, bs) * bs

\* ---- ParameterInference -------------------------------------------------------------------------------------
Finished(obj, ncons) == obj <= ncons                                     \* finished
HasToSubmit(obj, ncons, npend) == obj > ncons + npend                    \* _has_batches_to_submit
\* the part of _allow_submit that is evaluated BEFORE has_ready() is asked (python `and` short-circuits)
PreGuard(maxpar, obj, ncons, npend) == maxpar > npend /\ HasToSubmit(obj, ncons, npend)

\* ---- ModelBased ---------------------------------------------------------------------------------------------
\* K = n_sim_round / batch_size;  (batch_index * batch_size) % n_sim_round == 0  <=>  batch_index % K == 0
StartsRound(bi, K) == bi % K = 0
\* ModelBased._allow_submit before has_ready(): refused outright when the batch starts a round and something is pending
MbBlocked(gate, bi, K, npend) == gate /\ StartsRound(bi, K) /\ npend > 0
MbPreGuard(gate, bi, K, maxpar, obj, ncons, npend) == ~MbBlocked(gate, bi, K, npend) /\ PreGuard(maxpar, obj, ncons, npend)
MbObjective(rounds, K) == rounds * K                                     \* set_objective: rounds * int(n_sim_round / batch_size)

\* ---- BayesianOptimization -------------------------------------------------------------------------------------
\* _resolve_initial_evidence: an integer that is not a multiple of batch_size is rounded up; a precomputed dict counts as given
NInitial(init, npre, bs) == IF npre > 0 THEN npre ELSE CeilTo(init, bs)
\* _get_acquisition_index (floor division: negative while the batch still belongs to the initial evidence)
AcqT(bi, bs, ninit, npre, bpa) == (bs * bi - (ninit - npre)) \div (bs * bpa)
\* _allow_submit after the base class said yes
BoGate(async, t, queueEmpty, npend) == async \/ t < 0 \/ ~(queueEmpty /\ npend > 0)
\* _should_optimize, called in update() BEFORE the batch is added to the surrogate (gpn = target_model.n_evidence)
ShouldOptimize(gpn, bs, last, upd, ninit) == LET cur == gpn + bs IN cur >= ninit /\ cur >= last + upd
\* set_objective: objective['n_sim'] = n_evidence - n_precomputed;  _objective_n_batches = ceil(n_sim / batch_size)
BoObjective(nev, npre, bs) == CeilDiv(nev - npre, bs)

\* ---- what a sequence of infer() calls must have consumed on return (schedule free) ------------------------------
\* BO: batches consumed after calls 1..c with n_evidence targets objs[1..c]
RECURSIVE BoDone(_, _, _, _)
BoDone(objs, c, npre, bs) == IF c = 0 THEN 0 ELSE Max2(BoDone(objs, c - 1, npre, bs), BoObjective(objs[c], npre, bs))
\* ModelBased without _init_state (BOLFIRE.fit): rounds finished after calls 1..c with round targets objs[1..c]
RECURSIVE MbDone(_, _)
MbDone(objs, c) == IF c = 0 THEN 0 ELSE Max2(MbDone(objs, c - 1), objs[c])
=============================================================================

------------------------- MODULE RomcPosterior_Trace -------------------------
(***************************************************************************)
(* Trace validation for C19(d,e).  A trace is one real RomcPosterior built *)
(* from N chosen regions (real NDimBoundingBox objects with exact          *)
(* rotations; inputs rot, c, lim in 10^-6), N integer-valued objectives, a *)
(* stub prior with dyadic density values, the cut-off eps (integer) and    *)
(* the surrogate flag.  Observed calls:                                    *)
(*   pdf   : _pdf_unnorm_single_point / pdf_unnorm_batched at a lattice    *)
(*           point x; d[k] = value of objective k at x, pr = prior density *)
(*           at x (both are the harness's own functions, re-evaluated),    *)
(*           val = what the posterior returned                             *)
(*   shape : sample(n2, seed) / _worker_compute_weight returned arrays of  *)
(*           the given shapes                                              *)
(*   w     : one drawn sample theta[i,j] (x = rounded to 10^-6) of region  *)
(*           i with its weight w; dist = objective i at the sample, pr =   *)
(*           prior density at the sample, dout = the returned distance     *)
(*                                                                         *)
(* TLC recomputes containment with BBoxOps (inverse rotation, widened      *)
(* limits), the count with RomcPosteriorOps!CountDef and the weight with   *)
(* WeightDef in exact big-number arithmetic.  A point within 10^-6 of a    *)
(* face of a region is counted either way (not decided).                   *)
(***************************************************************************)
EXTENDS Naturals, Integers, Sequences, FiniteSets, TLC, Json, IOUtils, BBoxOps, RomcPosteriorOps, RomcBig

Traces == JsonDeserialize(IOEnv.TRACE_FILE)

VARIABLES tid, l, verdict, drift, done
vars == <<tid, l, verdict, drift, done>>

T == Traces[tid]
EpsMicro == 1000

Init == /\ tid \in 1..Len(Traces) /\ l = 1
        /\ verdict = "ok" /\ drift = "" /\ done = FALSE

Eff(k) == Secure(T.regs[k].lim, EpsMicro)
MarginIn(k, x) == Margin(Eff(k), ToBody(Inverse(T.regs[k].rot), T.regs[k].c, x))
Widths(lim) == [k \in 1..Len(lim) |-> lim[k][2] - lim[k][1]]
VolNum(k) == BProd(Widths(Eff(k)))            \* volume of region k = VolNum / 10^(6 D)
VolDen == BPow10(<<1>>, 6 * T.D)

InputsOk ==
  /\ Len(T.regs) = T.N
  /\ \A k \in 1..T.N : /\ ValidLimits(T.regs[k].lim) /\ IsSignedPerm(T.regs[k].rot)
                       /\ \A j \in 1..T.D : T.regs[k].lim[j][2] - T.regs[k].lim[j][1] # EpsMicro

JudgeP(e) ==
  IF ~InputsOk THEN "X:inputs"
  ELSE IF e.res # "ok" THEN "P:call-returns"
  ELSE IF e.ev = "pdf" THEN
       LET sure == [k \in 1..T.N |-> MarginIn(k, e.x) >= 1]
           may  == [k \in 1..T.N |-> MarginIn(k, e.x) >= 0]
           cmin == CountDef(sure, e.d, T.eps, T.surr)
           cmax == CountDef(may, e.d, T.eps, T.surr)
       IN IF \E n \in cmin..cmax : ApproxEq(e.val, BMulSmall(BFromNat(e.pr[1]), n), BFromNat(e.pr[2]))
          THEN "ok" ELSE "P:density-count"
  ELSE IF e.ev = "shape" THEN
       (IF e.tshape = <<T.N, e.n2, T.D>> /\ e.wshape = <<T.N, e.n2>> THEN "ok" ELSE "P:sample-shape")
  ELSE IF e.ev = "w" THEN
       IF e.i \notin 1..T.N THEN "X:region-index"
       ELSE LET m == MarginIn(e.i, e.x)
                wd == WeightDef(e.pr, 1, e.dist, T.eps)          \* times VolNum / VolDen below
                okF == ApproxEq(e.w, BMul(BFromNat(wd[1]), VolNum(e.i)), BMul(BFromNat(wd[2]), VolDen))
                ok0 == IsSci(e.w) /\ e.w[1] = 0
            IN IF m <= -2 THEN "P:sample-in-region"
               ELSE IF m >= 2 THEN (IF okF THEN "ok" ELSE "P:weight-formula")
               ELSE (IF okF \/ ok0 THEN "ok" ELSE "P:weight-formula")
  ELSE "X:unknown-event"

JudgeM(e) ==
  IF e.res = "ok" /\ e.ev = "w" /\ e.dout # e.dist THEN "M:returned-distance-is-the-objective-value" ELSE ""

Step ==
  /\ ~done
  /\ IF l > Len(T.events) THEN done' = TRUE /\ UNCHANGED <<tid, l, verdict, drift>>
     ELSE LET e == T.events[l]
              j == JudgeP(e)
              m == IF drift = "" THEN JudgeM(e) ELSE drift
          IN /\ verdict' = j
             /\ drift' = m
             /\ done' = (j # "ok")
             /\ l' = l + 1
             /\ UNCHANGED tid

Spec == Init /\ [][Step]_vars
Report == done => PrintT(<<"V", tid, l, verdict, drift>>)
=============================================================================

SPECIFICATION Spec
CONSTANTS
  MaxN = 4
  MaxV = 3
  MaxW = 2
  A = 8
  Scales = {1, 2, 3}
  Swapped = FALSE
INVARIANT Found
INVARIANT Def
INVARIANT Least
INVARIANT IdxConsistent
PROPERTY Monotone
PROPERTY ScaleInvariant
CHECK_DEADLOCK FALSE

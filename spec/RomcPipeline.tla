---------------------------- MODULE RomcPipeline ----------------------------
(***************************************************************************)
(* EXTENSION (no listed property): the inference PIPELINE of class ROMC    *)
(* (elfi/methods/inference/romc.py) as a state machine over its            *)
(* `inference_state` flags, its per-problem status lists and the objects   *)
(* the stages hand to each other (optimisation problems, posterior,        *)
(* samples, result).  Region geometry / line search / posterior arithmetic *)
(* are property C19 and are opaque here.                                   *)
(*                                                                         *)
(* One pure operator per PRIVATE stage, transcribed from the code:         *)
(*   DefineObjectives _define_objectives  SolveGradients _solve_gradients  *)
(*   SolveBo          _solve_bo           Filter         _filter_solutions *)
(*   BuildBoxes       _build_boxes        FitModels      _fit_models       *)
(*   DefinePosterior  _define_posterior   ComputeEps     compute_eps       *)
(*   "check_solved"   the assert at the top of estimate_regions            *)
(* and one per PUBLIC single-stage method (Sample, ComputeExpectation,     *)
(* ComputeEss, EvalUnnorm, EvalPosterior, ExtractResult).  Stages(a) is    *)
(* the order in which the public method a.m calls them; a stage that       *)
(* raises ends the call and leaves what the earlier stages did.  A call    *)
(* whose `assert self.inference_state[...]` precondition fails is REFUSED  *)
(* (raised = "refused") and changes nothing.  Run(c, s, a) is the composed *)
(* effect of one public call (used by the trace spec); the actions below   *)
(* execute it stage by stage and StagewiseEqualsComposed ties the two.     *)
(*                                                                         *)
(* The abstract state s (a record):                                        *)
(*   gen def sol sur fil loc reg post smp   the nine _has_* flags in the   *)
(*        order of the dict: gen_nuisance, defined_problems,               *)
(*        solved_problems, fitted_surrogate_model, filtered_solutions,     *)
(*        fitted_local_models, estimated_regions, defined_posterior,       *)
(*        drawn_samples                                                    *)
(*   n1              inference_args["N1"] (0: never set)                   *)
(*   att sld acc bb  the lists attempted / solved / accepted / computed_BB *)
(*                   (<<>> stands for None; n1 >= 1 is assumed)            *)
(*   probs[i]        optim_problems[i]: state["solved"], state["region"],  *)
(*                   local_surrogates is not None, surrogate is not None   *)
(*   pst             self.posterior: set (not None), cur (built from the   *)
(*                   CURRENT problem set), boxes (the indices, in their    *)
(*                   own problem set, of the problems whose region it      *)
(*                   holds), obj (the objective it evaluates: "actual" |   *)
(*                   "surrogate" | "local"), nocall (an objective is None) *)
(*   smps            self.samples: set, cur (drawn from the CURRENT        *)
(*                   posterior object), rows (= regions sampled), n2       *)
(*   res             self.result: set, cur (built from the current         *)
(*                   samples), rows, n2                                    *)
(*   raised trail    outcome of / stages entered by the running call       *)
(*   nsolve nest     ghosts: runs of _define_objectives /                  *)
(*                   _filter_solutions so far, saturating at 2             *)
(*                                                                         *)
(* The environment c: fix (the set of REPAIRS applied to the               *)
(* transcription; {} is the code), par (parallelize), np2 (numpy >= 2:     *)
(* float() of a 1-element array raises TypeError), scalar (the             *)
(* discrepancy node yields a 0-d value for batch_size 1; the standard      *)
(* elfi.Distance node does not, and _det_generator's float() raises        *)
(* under np2 on the first objective evaluation).                           *)
(*                                                                         *)
(* REPAIRS - each one is a finding about the real sequencing: the          *)
(* repaired machine keeps every user-level invariant below, and TLC        *)
(* refutes one of them as soon as any single repair is left out.           *)
(*   "bb_init_empty"      _build_boxes starts computed_bb empty instead    *)
(*                        of [False] * n1 before APPENDING n1 entries      *)
(*   "resolve_resets"     _define_objectives (a second solve_problems)     *)
(*                        resets every later-stage flag, list and object   *)
(*   "reestimate_resets"  estimate_regions forgets the regions, local      *)
(*                        models, posterior and samples of an earlier call *)
(*   "parallel_attempted" parallelize=True marks the problems attempted    *)
(*   "empty_sample_ok"    sample() without any region builds an empty      *)
(*                        result instead of setting _has_drawn_samples     *)
(*                        and then raising IndexError in extract_result    *)
(*   "eps_nothing_solved" compute_eps / fit_posterior(eps_filter="auto")   *)
(*                        refuse when no problem was solved instead of     *)
(*                        handing np.quantile an empty list (IndexError)   *)
(***************************************************************************)
EXTENDS Naturals, Integers, Sequences, FiniteSets, TLC

AllFixes == {"bb_init_empty", "resolve_resets", "reestimate_resets", "parallel_attempted", "empty_sample_ok",
             "eps_nothing_solved"}

\* ------------------------------------------------------------------ helpers
Imp(a, b) == ~a \/ b
At(q, i) == IF i \in 1..Len(q) THEN q[i] ELSE FALSE
AllB(n, b) == [i \in 1..n |-> b]
MinOf(S) == CHOOSE m \in S : \A x \in S : m <= x
Sat(k) == IF k >= 2 THEN 2 ELSE k + 1
Idx(n) == [i \in 1..n |-> i]

NoPost == [set |-> FALSE, cur |-> FALSE, boxes |-> <<>>, obj |-> "none", nocall |-> FALSE]
NoSmp == [set |-> FALSE, cur |-> FALSE, rows |-> 0, n2 |-> 0]
FreshProblem == [solved |-> FALSE, region |-> FALSE, local |-> FALSE, sur |-> FALSE]
S0 == [gen |-> FALSE, def |-> FALSE, sol |-> FALSE, sur |-> FALSE, fil |-> FALSE, loc |-> FALSE, reg |-> FALSE,
       post |-> FALSE, smp |-> FALSE, n1 |-> 0, att |-> <<>>, sld |-> <<>>, acc |-> <<>>, bb |-> <<>>, probs |-> <<>>,
       pst |-> NoPost, smps |-> NoSmp, res |-> NoSmp, raised |-> "", trail |-> <<>>, nsolve |-> 0, nest |-> 0]

\* arguments of a public call (every call carries every field)
A0 == [m |-> "", n |-> 0, bo |-> FALSE, slv |-> <<>>, below |-> <<>>, us |-> "F", fit |-> FALSE, auto |-> FALSE,
       n2 |-> 0, hit |-> FALSE]

Raise(s, k) == [s EXCEPT !.raised = k]
\* raise kinds that are the documented answer to a call made too early / without what it asks for
Refusals == {"refused", "no_surrogate", "nothing_to_extract", "nothing_solved"}
\* the Python exception type of a raise kind
PyName(k) == CASE k = "" -> ""
               [] k \in {"refused", "no_surrogate", "nothing_solved"} -> "AssertionError"
               [] k = "nothing_to_extract" -> "ValueError"
               [] OTHER -> k

\* ------------------------------------------------------------------ private stages
\* _define_objectives(n1, seed): n1 fresh problems replace self.optim_problems; NOTHING else is touched
DefineObjectives(c, s, a) ==
  LET r == IF "resolve_resets" \in c.fix
           THEN [s EXCEPT !.sol = FALSE, !.sur = FALSE, !.fil = FALSE, !.loc = FALSE, !.reg = FALSE, !.post = FALSE,
                          !.smp = FALSE, !.att = <<>>, !.sld = <<>>, !.acc = <<>>, !.bb = <<>>,
                          !.pst = NoPost, !.smps = NoSmp, !.res = NoSmp]
           ELSE [s EXCEPT !.pst.cur = FALSE]      \* ghost: the problems the posterior was built from are gone
  IN [r EXCEPT !.gen = TRUE, !.n1 = a.n, !.probs = AllB(a.n, FreshProblem), !.def = TRUE, !.nsolve = Sat(s.nsolve)]

\* the objective of every problem is float(model.generate(...)[discrepancy]) ** 2
ObjectiveBroken(c) == c.np2 /\ ~c.scalar

\* _solve_gradients: a.slv[i] = what optim_problems[i].solve_gradients returned
SolveGradients(c, s, a) ==
  IF ~s.def THEN Raise(s, "refused")
  ELSE IF ObjectiveBroken(c) THEN Raise(s, "TypeError")          \* first objective evaluation; only ValueError is caught
  ELSE [s EXCEPT !.sld = [i \in 1..s.n1 |-> At(a.slv, i)],
                 !.att = AllB(s.n1, ~c.par \/ "parallel_attempted" \in c.fix),      \* the parallel branch never fills it
                 !.sol = TRUE,
                 !.probs = [i \in 1..Len(s.probs) |-> [s.probs[i] EXCEPT !.solved = At(a.slv, i)]]]

\* _solve_bo: solve_bo returns True or raises
SolveBo(c, s, a) ==
  IF ~s.def THEN Raise(s, "refused")
  ELSE IF ObjectiveBroken(c) THEN Raise(s, "TypeError")
  ELSE [s EXCEPT !.att = AllB(s.n1, TRUE), !.sld = AllB(s.n1, TRUE), !.sol = TRUE, !.sur = TRUE,
                 !.probs = [i \in 1..Len(s.probs) |-> [s.probs[i] EXCEPT !.solved = TRUE, !.sur = TRUE]]]

\* compute_eps(quantile): np.quantile over the f_min of the solved problems
ComputeEps(c, s, a) ==
  IF ~s.sol THEN Raise(s, "refused")
  ELSE IF \A i \in 1..Len(s.probs) : ~s.probs[i].solved
       THEN Raise(s, IF "eps_nothing_solved" \in c.fix THEN "nothing_solved" ELSE "IndexError")      \* np.quantile([])
  ELSE s

\* _filter_solutions(eps_filter): a.below[i] = (f_min of problem i < eps_filter).  (The repair "reestimate_resets" belongs to
\* the top of estimate_regions; _filter_solutions is its first stage and is called from nowhere else.)
Filter(c, s, a) ==
  IF ~s.sol THEN Raise(s, "refused")
  ELSE LET r == IF "reestimate_resets" \in c.fix
                THEN [s EXCEPT !.loc = FALSE, !.reg = FALSE, !.post = FALSE, !.smp = FALSE, !.bb = <<>>,
                               !.pst = NoPost, !.smps = NoSmp, !.res = NoSmp,
                               !.probs = [i \in 1..Len(s.probs) |-> [s.probs[i] EXCEPT !.region = FALSE, !.local = FALSE]]]
                ELSE s
       IN [r EXCEPT !.acc = [i \in 1..s.n1 |-> At(s.sld, i) /\ At(a.below, i)], !.fil = TRUE, !.nest = Sat(s.nest)]

\* _build_boxes(use_surrogate=..): build_region for the accepted problems, in order; a.us = "T" | "F" | "A" (None: auto)
BuildBoxes(c, s, a) ==
  LET us == IF a.us = "A" THEN s.sur ELSE a.us = "T"
      accIdx == {i \in 1..Len(s.probs) : At(s.acc, i)}
      bad == {i \in accIdx : us /\ ~s.probs[i].sur}           \* assert self.surrogate is not None
      built(upto) == [i \in 1..Len(s.probs) |-> IF i \in accIdx /\ i < upto THEN [s.probs[i] EXCEPT !.region = TRUE]
                                                 ELSE s.probs[i]]
  IN IF bad # {}
     THEN Raise([s EXCEPT !.probs = IF c.par THEN s.probs ELSE built(MinOf(bad))], "no_surrogate")
     ELSE [s EXCEPT !.probs = built(Len(s.probs) + 1),
                    !.bb = (IF c.par \/ "bb_init_empty" \in c.fix THEN <<>> ELSE AllB(s.n1, FALSE))
                           \o [i \in 1..s.n1 |-> At(s.acc, i)],
                    !.reg = TRUE]

\* _fit_models: fit_local_surrogate for the accepted problems
FitModels(c, s, a) ==
  [s EXCEPT !.probs = [i \in 1..Len(s.probs) |-> IF At(s.acc, i) THEN [s.probs[i] EXCEPT !.local = TRUE] ELSE s.probs[i]],
            !.loc = TRUE]

\* _define_posterior: collects the region of EVERY problem whose state["region"] is set; which objective the posterior
\* evaluates is decided by the two FLAGS (local before surrogate before actual), not by what this call fitted
DefinePosterior(c, s, a) ==
  LET boxes == SelectSeq(Idx(Len(s.probs)), LAMBDA i : s.probs[i].region)
      obj == IF s.loc THEN "local" ELSE IF s.sur THEN "surrogate" ELSE "actual"
  IN IF s.loc /\ \E k \in 1..Len(boxes) : ~s.probs[boxes[k]].local
     THEN Raise(s, "TypeError")                            \* prob.local_surrogates[jj] with local_surrogates = None
     ELSE [s EXCEPT !.pst = [set |-> TRUE, cur |-> TRUE, boxes |-> boxes, obj |-> obj,
                             nocall |-> obj = "surrogate" /\ \E k \in 1..Len(boxes) : ~s.probs[boxes[k]].sur],
                    !.post = TRUE, !.smps.cur = FALSE]

\* ------------------------------------------------------------------ public single-stage methods
\* an objective of the posterior cannot be evaluated: local surrogates are float(model.predict(..)) (1-element array),
\* a missing BO surrogate is None
PosteriorBroken(c, s) == (s.pst.obj = "local" /\ c.np2) \/ s.pst.nocall

Sample(c, s, a) ==
  IF ~s.post THEN Raise(s, "refused")
  ELSE LET rows == Len(s.pst.boxes) IN
       IF rows = 0
       THEN IF "empty_sample_ok" \in c.fix
            THEN [s EXCEPT !.smps = [set |-> TRUE, cur |-> TRUE, rows |-> 0, n2 |-> a.n2],
                           !.res = [set |-> TRUE, cur |-> TRUE, rows |-> 0, n2 |-> a.n2], !.smp = TRUE]
            \* samples = np.array([]) and the flag are set, THEN extract_result indexes samples[:, :, i]
            ELSE Raise([s EXCEPT !.smps = [set |-> TRUE, cur |-> TRUE, rows |-> 0, n2 |-> 0], !.smp = TRUE,
                                 !.res.cur = FALSE], "IndexError")
       ELSE IF PosteriorBroken(c, s) THEN Raise(s, "TypeError")
       ELSE [s EXCEPT !.smps = [set |-> TRUE, cur |-> TRUE, rows |-> rows, n2 |-> a.n2],
                      !.res = [set |-> TRUE, cur |-> TRUE, rows |-> rows, n2 |-> a.n2], !.smp = TRUE]

ComputeExpectation(c, s, a) == IF ~s.smp THEN Raise(s, "refused") ELSE s
ComputeEss(c, s, a) == IF ~s.smp THEN Raise(s, "refused")
                       ELSE IF ~s.res.set THEN Raise(s, "AttributeError")        \* self.result is None
                       ELSE s
\* a.hit: the query point lies in a region of the posterior (an objective is evaluated only then when a surrogate is used)
EvalUnnorm(c, s, a) == IF ~s.post THEN Raise(s, "refused")
                       ELSE IF a.hit /\ PosteriorBroken(c, s) THEN Raise(s, "TypeError")
                       ELSE s
\* the partition function is approximated on a grid: a.hit = some grid point or the query point lies in a region
EvalPosterior(c, s, a) == EvalUnnorm(c, s, a)
ExtractResult(c, s, a) == IF ~s.smps.set THEN Raise(s, "nothing_to_extract")
                          ELSE IF s.smps.rows = 0 /\ "empty_sample_ok" \notin c.fix THEN Raise(s, "IndexError")
                          ELSE s

\* ------------------------------------------------------------------ sequencing
PrivateStages == {"define_objectives", "solve_gradients", "solve_bo", "filter_solutions", "build_boxes", "fit_models",
                  "define_posterior"}
SolveStages(a) == <<"define_objectives", IF a.bo THEN "solve_bo" ELSE "solve_gradients">>
\* estimate_regions asserts _has_solved_problems before anything else ("check_solved"); so does _filter_solutions again
EstimateStages(a) == <<"check_solved", "filter_solutions", "build_boxes">> \o (IF a.fit THEN <<"fit_models">> ELSE <<>>) \o <<"define_posterior">>
Stages(a) ==
  CASE a.m = "solve_problems" -> SolveStages(a)
    [] a.m = "estimate_regions" -> EstimateStages(a)
    [] a.m = "fit_posterior" -> SolveStages(a) \o (IF a.auto THEN <<"compute_eps">> ELSE <<>>) \o EstimateStages(a)
    [] OTHER -> <<a.m>>

Apply(c, s, a, stage) ==
  LET r == CASE stage = "define_objectives" -> DefineObjectives(c, s, a)
             [] stage = "solve_gradients" -> SolveGradients(c, s, a)
             [] stage = "solve_bo" -> SolveBo(c, s, a)
             [] stage = "compute_eps" -> ComputeEps(c, s, a)
             [] stage = "check_solved" -> (IF ~s.sol THEN Raise(s, "refused") ELSE s)
             [] stage = "filter_solutions" -> Filter(c, s, a)
             [] stage = "build_boxes" -> BuildBoxes(c, s, a)
             [] stage = "fit_models" -> FitModels(c, s, a)
             [] stage = "define_posterior" -> DefinePosterior(c, s, a)
             [] stage = "sample" -> Sample(c, s, a)
             [] stage = "compute_expectation" -> ComputeExpectation(c, s, a)
             [] stage = "compute_ess" -> ComputeEss(c, s, a)
             [] stage = "eval_unnorm_posterior" -> EvalUnnorm(c, s, a)
             [] stage = "eval_posterior" -> EvalPosterior(c, s, a)
             [] stage = "extract_result" -> ExtractResult(c, s, a)
             [] OTHER -> Raise(s, "X:unknown-stage")
  IN [r EXCEPT !.trail = Append(s.trail, stage)]

RECURSIVE RunStages(_, _, _, _)
RunStages(c, s, a, todo) ==
  IF todo = <<>> \/ s.raised # "" THEN s ELSE RunStages(c, Apply(c, s, a, Head(todo)), a, Tail(todo))
Entered(s) == [s EXCEPT !.raised = "", !.trail = <<>>]
Run(c, s, a) == RunStages(c, Entered(s), a, Stages(a))

\* ------------------------------------------------------------------ what a user relies on (over a state record)
InvFlagChain(s) ==
  /\ Imp(s.def, s.gen) /\ Imp(s.sol, s.def) /\ Imp(s.sur, s.sol) /\ Imp(s.fil, s.sol) /\ Imp(s.reg, s.fil)
  /\ Imp(s.loc, s.reg) /\ Imp(s.post, s.reg) /\ Imp(s.smp, s.post)
ListOk(q, n) == q = <<>> \/ Len(q) = n
\* attempted / solved / accepted are None or have the length n1 of the LAST solve, and exist once their flag is set
InvListLengths(s) ==
  /\ Len(s.probs) = s.n1 /\ ListOk(s.att, s.n1) /\ ListOk(s.sld, s.n1) /\ ListOk(s.acc, s.n1)
  /\ Imp(s.sol, Len(s.att) = s.n1 /\ Len(s.sld) = s.n1) /\ Imp(s.fil, Len(s.acc) = s.n1)
InvAccSolAtt(s) == \A i \in 1..s.n1 : Imp(At(s.acc, i), At(s.sld, i)) /\ Imp(At(s.sld, i), At(s.att, i))
\* after estimate_regions a box exists exactly for the accepted problems ...
InvBoxIffAccepted(s) == Imp(s.reg, \A i \in 1..Len(s.probs) : s.probs[i].region <=> At(s.acc, i))
\* ... and computed_BB says so, problem by problem
InvComputedBB(s) == Imp(s.reg, s.bb = [i \in 1..s.n1 |-> At(s.acc, i)])
AccIdx(s) == SelectSeq(Idx(s.n1), LAMBDA i : At(s.acc, i))
\* "posterior defined" means: of the CURRENT problems, over exactly the accepted ones, with objectives that exist
InvPosteriorCurrent(s) == Imp(s.post, s.pst.set /\ s.pst.cur /\ s.pst.boxes = AccIdx(s))
InvPosteriorCallable(s) == Imp(s.post, ~s.pst.nocall)
\* "samples drawn" means: from the current posterior, one row per box, and the result object is built from them
InvSamplesCurrent(s) ==
  Imp(s.smp, /\ s.smps.set /\ s.smps.cur /\ s.smps.rows = Len(s.pst.boxes)
             /\ s.res.set /\ s.res.cur /\ s.res.rows = s.smps.rows /\ s.res.n2 = s.smps.n2)
\* a call either returns or is refused; it does not crash half-way
InvOnlyRefusals(s) == s.raised = "" \/ s.raised \in Refusals

\* what does hold for the code as it is (fix = {})
CodeLists(c, s) ==
  /\ Imp(s.sol, Len(s.att) = s.n1 /\ Len(s.sld) = s.n1 /\ Len(s.probs) = s.n1)
  /\ Imp(s.fil, s.acc # <<>>)
  /\ Imp(s.reg, s.bb # <<>> /\ (c.par \/ Len(s.bb) % 2 = 0))
  /\ Imp(~c.par, \A i \in 1..Len(s.sld) : Imp(s.sld[i], At(s.att, i)))
\* one solve_problems, one estimate_regions, any number of the other calls: everything a user relies on except the
\* shape of computed_BB, samples without any accepted problem, and the numpy-2 TypeErrors
StraightPath(s) ==
  s.nsolve <= 1 /\ s.nest <= 1 =>
     /\ InvListLengths(s) /\ InvBoxIffAccepted(s) /\ InvPosteriorCurrent(s) /\ InvPosteriorCallable(s)
     /\ Imp(s.pst.set /\ Len(s.pst.boxes) > 0, InvSamplesCurrent(s))

\* ------------------------------------------------------------------ the machine
CONSTANTS N1s,          \* values of n1 solve_problems may pass
          FitN1s,       \* values of n1 fit_posterior may pass
          N2s,          \* values of n2
          Fix,          \* repairs applied ({} = the code)
          Pars,         \* values of parallelize
          Scalars,      \* values of `scalar`
          Np2,          \* BOOLEAN
          Bos,          \* values of use_bo
          Uss,          \* values of use_surrogate: "F", "T", "A" (None: decided by the _has_fitted_surrogate_model flag)
          MaxMut        \* bound on the number of state-changing public calls (0: unbounded; the read-only methods are free)

VARIABLES st, todo, call, st0, env, mut
vars == <<st, todo, call, st0, env, mut>>

Init == /\ st = S0 /\ todo = <<>> /\ call = A0 /\ st0 = S0 /\ mut = 0
        /\ env \in {[fix |-> Fix, par |-> p, np2 |-> Np2, scalar |-> sc] : p \in Pars, sc \in Scalars}

Idle == todo = <<>>
Mutating == {"solve_problems", "estimate_regions", "fit_posterior", "sample"}
Begin(a) == /\ call' = a /\ todo' = Stages(a) \o <<"return">> /\ st' = Entered(st) /\ st0' = st /\ UNCHANGED env
            /\ IF MaxMut > 0 /\ a.m \in Mutating THEN mut < MaxMut /\ mut' = mut + 1 ELSE UNCHANGED mut
StageAct(name) ==
  /\ todo # <<>> /\ Head(todo) = name
  /\ LET s1 == Apply(env, st, call, name)
     IN st' = s1 /\ todo' = (IF s1.raised # "" THEN <<"return">> ELSE Tail(todo))
  /\ UNCHANGED <<call, st0, env, mut>>
\* the call returns (or its exception reaches the caller); the ghosts of the call are forgotten
Return == /\ todo = <<"return">> /\ todo' = <<>> /\ call' = A0 /\ st0' = S0 /\ st' = Entered(st) /\ UNCHANGED <<env, mut>>

\* public methods
SolveProblems == Idle /\ \E n \in N1s, bo \in Bos : \E slv \in (IF bo THEN {AllB(n, TRUE)} ELSE [1..n -> BOOLEAN]) :
                    Begin([A0 EXCEPT !.m = "solve_problems", !.n = n, !.bo = bo, !.slv = slv])
\* (below matters only for solved problems: acc[i] = sld[i] /\ below[i]; the other values are not enumerated)
EstimateRegions == Idle /\ \E below \in {b \in [1..st.n1 -> BOOLEAN] : \A i \in 1..st.n1 : b[i] => At(st.sld, i)},
                              us \in Uss, fit \in BOOLEAN :
                    Begin([A0 EXCEPT !.m = "estimate_regions", !.below = below, !.us = us, !.fit = fit])
FitPosterior == Idle /\ \E n \in FitN1s, bo \in Bos, fit \in BOOLEAN, auto \in BOOLEAN :
                  \E slv \in (IF bo THEN {AllB(n, TRUE)} ELSE [1..n -> BOOLEAN]) :
                  \E below \in {b \in [1..n -> BOOLEAN] : \A i \in 1..n : b[i] => slv[i]} :
                    Begin([A0 EXCEPT !.m = "fit_posterior", !.n = n, !.bo = bo, !.slv = slv, !.below = below,
                                     !.us = (IF bo THEN "T" ELSE "F"), !.fit = fit, !.auto = auto])
CallSample == Idle /\ \E n2 \in N2s : Begin([A0 EXCEPT !.m = "sample", !.n2 = n2])
CallReadOnly == Idle /\ \E m \in {"compute_expectation", "compute_ess", "compute_eps", "extract_result"} : Begin([A0 EXCEPT !.m = m])
CallEval == Idle /\ \E m \in {"eval_unnorm_posterior", "eval_posterior"}, hit \in BOOLEAN : Begin([A0 EXCEPT !.m = m, !.hit = hit])

\* private stages and single-stage methods, one action each
DefineObjectivesStage == ~Idle /\ StageAct("define_objectives")
SolveGradientsStage == ~Idle /\ StageAct("solve_gradients")
SolveBoStage == ~Idle /\ StageAct("solve_bo")
ComputeEpsStage == ~Idle /\ StageAct("compute_eps")
CheckSolvedStage == ~Idle /\ StageAct("check_solved")
FilterStage == ~Idle /\ StageAct("filter_solutions")
BuildBoxesStage == ~Idle /\ StageAct("build_boxes")
FitModelsStage == ~Idle /\ StageAct("fit_models")
DefinePosteriorStage == ~Idle /\ StageAct("define_posterior")
SampleStage == ~Idle /\ StageAct("sample")
OtherStage == ~Idle /\ \E m \in {"compute_expectation", "compute_ess", "eval_unnorm_posterior", "eval_posterior", "extract_result"} : StageAct(m)

Next == \/ SolveProblems \/ EstimateRegions \/ FitPosterior \/ CallSample \/ CallReadOnly \/ CallEval
        \/ DefineObjectivesStage \/ SolveGradientsStage \/ SolveBoStage \/ ComputeEpsStage \/ CheckSolvedStage \/ FilterStage \/ BuildBoxesStage
        \/ FitModelsStage \/ DefinePosteriorStage \/ SampleStage \/ OtherStage \/ Return
Spec == Init /\ [][Next]_vars

\* ------------------------------------------------------------------ theorems (checked by TLC)
AtReturn == todo = <<"return">>         \* the state the caller sees, with the outcome of the call
Visible == todo = <<>> \/ AtReturn
StagewiseEqualsComposed == AtReturn => st = Run(env, st0, call)
\* a refused call changes nothing
RefusedChangesNothing == AtReturn /\ st.raised = "refused" => [st EXCEPT !.raised = "", !.trail = <<>>] = Entered(st0)
\* the read-only methods change nothing, whatever their outcome
ReadOnlyChangesNothing ==
  AtReturn /\ call.m \notin {"solve_problems", "estimate_regions", "fit_posterior", "sample"} => Entered(st) = Entered(st0)

FlagChain == Visible => InvFlagChain(st)
ListLengths == Visible => InvListLengths(st)
AccSolAtt == Visible => InvAccSolAtt(st)
BoxIffAccepted == Visible => InvBoxIffAccepted(st)
ComputedBB == Visible => InvComputedBB(st)
PosteriorCurrent == Visible => InvPosteriorCurrent(st)
PosteriorCallable == Visible => InvPosteriorCallable(st)
SamplesCurrent == Visible => InvSamplesCurrent(st)
OnlyRefusals == AtReturn => InvOnlyRefusals(st)
CodeListsHold == Visible => CodeLists(env, st)
StraightPathHolds == Visible => StraightPath(st)
\* flags are never taken back by the code as it is (so nothing ever says "stale")
FlagsMonotone == [][\A f \in {"gen", "def", "sol", "sur", "fil", "loc", "reg", "post", "smp"} : st[f] => st'[f]]_vars
=============================================================================

---------------------------- MODULE ChainDiagOps ----------------------------
(***************************************************************************)
(* Pure operators for the MCMC chain diagnostics of C16 (e)                *)
(*     elfi.methods.mcmc.gelman_rubin_statistic(chains)   (split R-hat)    *)
(*     elfi.methods.mcmc.eff_sample_size(chains)          (ESS)            *)
(* over INTEGER chains, in exact arithmetic.                               *)
(*                                                                         *)
(*   chains        sequence of M chains, each a sequence of N integers     *)
(*   rationals     pairs <<num, den>> of WeightedStatsOps (Undef = <<0,0>>)*)
(*   big naturals  sequences of limbs, little-endian, base 10^4 (TLC       *)
(*                 integers are 32 bit; products of two ints need more)    *)
(*                                                                         *)
(* Three layers, related by theorems that ChainDiag.tla checks with TLC:   *)
(*  1. TEXTBOOK  RhatSqTextbook: BDA3 (3rd ed.) section 11.4, the formulas  *)
(*     for B, W, var+ and Rhat on the split chains, over rationals.        *)
(*  2. CODE      RhatSqCode / EssCodeRat: gelman_rubin_statistic and       *)
(*     eff_sample_size statement by statement over rationals (the FFT      *)
(*     autocovariance is, in exact arithmetic, the plain lagged product    *)
(*     sum divided by N - t).                                              *)
(*  3. CLEARED   R2Int / EssCleared: the same two values written with      *)
(*     integer sums only, in manifestly shift-invariant form; these are    *)
(*     what the trace spec ChainDiag_Trace evaluates on larger chains.     *)
(* Callers keep N <= 16, M <= 4 and |values| <= 16 so that every plain     *)
(* integer stays below 2^31; TLC stops with an overflow error otherwise    *)
(* (machinery failure, never a verdict).                                   *)
(***************************************************************************)
EXTENDS Naturals, Integers, Sequences, FiniteSets, WeightedStatsOps

\* ------------------------------------------------------------------ big naturals
BBase == 10000
Limb(a, k) == IF k <= Len(a) THEN a[k] ELSE 0
\* n >= 0, n < 2^31 < 10^12: at most three limbs
BOfInt(n) == IF n < BBase THEN <<n>>
             ELSE IF n < BBase * BBase THEN <<n % BBase, n \div BBase>>
             ELSE <<n % BBase, (n \div BBase) % BBase, n \div (BBase * BBase)>>
RECURSIVE BCarry(_, _, _)
\* normalise "wide" limbs (each < 2^31 - carry) to limbs < BBase
BCarry(wide, i, c) ==
  IF i > Len(wide) THEN (IF c = 0 THEN <<>> ELSE <<c % BBase>> \o BCarry(wide, i, c \div BBase))
  ELSE LET t == wide[i] + c IN <<t % BBase>> \o BCarry(wide, i + 1, t \div BBase)
BMax(x, y) == IF x >= y THEN x ELSE y
BMin(x, y) == IF x <= y THEN x ELSE y
BAdd(a, b) == BCarry([k \in 1..BMax(Len(a), Len(b)) |-> Limb(a, k) + Limb(b, k)], 1, 0)
RECURSIVE BConv(_, _, _, _)
\* sum over i = lo..hi of a[i] * b[k + 1 - i]
BConv(a, b, k, i) == IF i = 0 THEN 0
                     ELSE (IF k + 1 - i >= 1 /\ k + 1 - i <= Len(b) THEN a[i] * b[k + 1 - i] ELSE 0)
                          + BConv(a, b, k, i - 1)
\* at most 21 limbs per factor: a wide limb is < 21 * 10^8 < 2^31
BMul(a, b) == BCarry([k \in 1..(Len(a) + Len(b) - 1) |-> BConv(a, b, k, BMin(k, Len(a)))], 1, 0)
RECURSIVE BCmpFrom(_, _, _)
BCmpFrom(a, b, k) == IF k = 0 THEN 0
                     ELSE IF Limb(a, k) < Limb(b, k) THEN -1
                     ELSE IF Limb(a, k) > Limb(b, k) THEN 1
                     ELSE BCmpFrom(a, b, k - 1)
BCmp(a, b) == BCmpFrom(a, b, BMax(Len(a), Len(b)))
BLe(a, b) == BCmp(a, b) <= 0
BEq(a, b) == BCmp(a, b) = 0
RECURSIVE BSubFrom(_, _, _, _)
BSubFrom(a, b, i, borrow) ==
  IF i > Len(a) THEN <<>>
  ELSE LET t == a[i] - Limb(b, i) - borrow
       IN IF t < 0 THEN <<t + BBase>> \o BSubFrom(a, b, i + 1, 1) ELSE <<t>> \o BSubFrom(a, b, i + 1, 0)
\* monus: a - b, or 0 when b > a
BSub(a, b) == IF BCmp(a, b) <= 0 THEN <<0>> ELSE BSubFrom(a, b, 1, 0)
BMulInt(a, n) == BMul(a, BOfInt(n))
\* well-formed logged big natural
IsBig(a) == Len(a) >= 1 /\ Len(a) <= 8 /\ \A k \in 1..Len(a) : a[k] >= 0 /\ a[k] < BBase
\* |a - b| <= tol
BNear(a, b, tol) == BLe(a, BAdd(b, BOfInt(tol))) /\ BLe(b, BAdd(a, BOfInt(tol)))

(* A float x >= 0 is logged as v = floor(x * U) (big natural).  x agrees with the rational      *)
(* Nn / Dn (big naturals, Dn > 0) up to tol units:  (v - tol) Dn <= Nn U <= (v + 1 + tol) Dn.   *)
BFracAgrees(v, Nn, Dn, U, tol) ==
  LET rhs == BMulInt(Nn, U)
  IN /\ BLe(BMul(BSub(v, BOfInt(tol)), Dn), rhs)
     /\ BLe(rhs, BMul(BAdd(v, BOfInt(tol + 1)), Dn))
(* ... and with the square root of N / D (plain ints):  (v - tol)^2 D <= N U^2 <= (v+1+tol)^2 D *)
BSqrtAgrees(v, N, D, U, tol) ==
  LET lo == BSub(v, BOfInt(tol))
      hi == BAdd(v, BOfInt(tol + 1))
      rhs == BMulInt(BMulInt(BOfInt(N), U), U)
  IN /\ BLe(BMulInt(BMul(lo, lo), D), rhs)
     /\ BLe(rhs, BMulInt(BMul(hi, hi), D))

\* ------------------------------------------------------------------ chains
NChains(ch) == Len(ch)
NSamp(ch) == Len(ch[1])
IsChains(ch) == Len(ch) >= 1 /\ Len(ch[1]) >= 1 /\ \A j \in 1..Len(ch) : Len(ch[j]) = Len(ch[1])
\* the transformations of the statement
ShiftChains(ch, c) == [j \in 1..Len(ch) |-> [i \in 1..Len(ch[j]) |-> ch[j][i] + c]]
ScaleChains(ch, k) == [j \in 1..Len(ch) |-> [i \in 1..Len(ch[j]) |-> k * ch[j][i]]]
PermChains(ch, perm) == [j \in 1..Len(ch) |-> ch[perm[j]]]
IsPerm(perm, n) == /\ perm \in [1..n -> 1..n]
                   /\ \A p, r \in 1..n : p # r => perm[p] # perm[r]

(* `chains[:, :2 * n].reshape((2 * M, n))` with n = N // 2 ("drop 1 if odd"): row 2j-1 is the   *)
(* first half of chain j, row 2j its second half.  nosplit = TRUE is a negative control.        *)
SplitChains(ch, nosplit) ==
  IF nosplit THEN ch
  ELSE LET n == NSamp(ch) \div 2
       IN [r \in 1..(2 * Len(ch)) |->
             LET c == ch[(r + 1) \div 2]
                 off == IF r % 2 = 1 THEN 0 ELSE n
             IN [i \in 1..n |-> c[off + i]]]

\* ------------------------------------------------------------------ rational helpers
\* TLC re-evaluates the body of [i \in S |-> e] at every application; Mat(f) turns f into an
\* explicit tuple once (values bound by LET and operator arguments are evaluated once)
Mat(f) == f \o <<>>
RMeanSeq(rs) == RDiv(RSumTo(rs, Len(rs)), RInt(Len(rs)))
\* np.var(rs, ddof): sum (r - mean)^2 / (n - ddof)
RVarSeq(rs, ddof) ==
  LET mu == RMeanSeq(rs)
      sq == [i \in 1..Len(rs) |-> LET d == RSub(rs[i], mu) IN RMul(d, d)]
  IN RDiv(RSumTo(sq, Len(rs)), RInt(Len(rs) - ddof))
RSeqOfInts(c) == [i \in 1..Len(c) |-> RInt(c[i])]
RNonNeg(r) == r[1] >= 0       \* defined rationals have a positive denominator

(***************************************************************************)
(* 1. TEXTBOOK split R-hat (BDA3 11.4).  psi_ij: i = 1..n within chain     *)
(*    j = 1..m, AFTER splitting.                                           *)
(*      psibar_j = 1/n sum_i psi_ij,   psibar = 1/m sum_j psibar_j         *)
(*      B      = n / (m - 1) * sum_j (psibar_j - psibar)^2                 *)
(*      s_j^2  = 1 / (n - 1) * sum_i (psi_ij - psibar_j)^2                 *)
(*      W      = 1 / m * sum_j s_j^2                                       *)
(*      var+   = (n - 1) / n * W + 1 / n * B                               *)
(*      Rhat   = sqrt(var+ / W)                                            *)
(*    The operator returns Rhat^2 (Undef when W = 0 or n < 2).             *)
(***************************************************************************)
RhatSqTextbook(ch) ==
  LET psi == SplitChains(ch, FALSE)
      m == Len(psi)
      n == Len(psi[1])
  IN IF n < 2 THEN Undef
     ELSE LET psibarj == Mat([j \in 1..m |-> RDiv(RInt(ISum(psi[j])), RInt(n))])
              psibar == RDiv(RSumTo(psibarj, m), RInt(m))
              B == RMul(<<n, m - 1>>,
                        RSumTo([j \in 1..m |-> LET d == RSub(psibarj[j], psibar) IN RMul(d, d)], m))
              s2 == [j \in 1..m |->
                       RMul(<<1, n - 1>>,
                            RSumTo([i \in 1..n |-> LET d == RSub(RInt(psi[j][i]), psibarj[j]) IN RMul(d, d)], n))]
              W == RMul(<<1, m>>, RSumTo(s2, m))
              varplus == RAdd(RMul(<<n - 1, n>>, W), RMul(<<1, n>>, B))
          IN RDiv(varplus, W)

(***************************************************************************)
(* 2a. CODE gelman_rubin_statistic, statement by statement over rationals  *)
(*   n_chains *= 2; n_samples //= 2; chains = chains[:, :2*n_samples].reshape(..) *)
(*   means = np.mean(chains, axis=1); variances = np.var(chains, ddof=1, axis=1) *)
(*   var_between = n_samples * np.var(means, ddof=1)                       *)
(*   var_within = np.mean(variances)                                       *)
(*   var_pooled = ((n_samples - 1.) * var_within + var_between) / n_samples *)
(*   psrf = np.sqrt(var_pooled / var_within)                               *)
(* Returns psrf^2.  nosplit = TRUE and ddofB = 0 are negative controls.    *)
(***************************************************************************)
RhatSqGen(ch, nosplit, ddofB) ==
  LET sp == SplitChains(ch, nosplit)
      m == Len(sp)
      n == Len(sp[1])
      means == Mat([j \in 1..m |-> RMeanSeq(RSeqOfInts(sp[j]))])
      variances == [j \in 1..m |-> RVarSeq(RSeqOfInts(sp[j]), 1)]
      varBetween == RMul(RInt(n), RVarSeq(means, ddofB))
      varWithin == RMeanSeq(variances)
      varPooled == RDiv(RAdd(RMul(RInt(n - 1), varWithin), varBetween), RInt(n))
  IN IF n < 1 THEN Undef ELSE RDiv(varPooled, varWithin)
RhatSqCode(ch) == RhatSqGen(ch, FALSE, 1)

(***************************************************************************)
(* 3. CLEARED split R-hat.  With S_j = sum_i psi_ij,                       *)
(*      Q = sum_j (n sum_i psi_ij^2 - S_j^2) = sum_j sum_{i<k} (psi_ij - psi_kj)^2, *)
(*      T = m sum_j S_j^2 - (sum_j S_j)^2   = sum_{j<k} (S_j - S_k)^2,     *)
(*    Rhat^2 = (n-1) ((m-1) Q + T) / (n (m-1) Q).                          *)
(***************************************************************************)
PairSqSum(c) == ISum([i \in 1..Len(c) |-> ISum([k \in 1..Len(c) |-> IF i < k THEN (c[i] - c[k]) * (c[i] - c[k]) ELSE 0])])
SumsOf(chs) == [j \in 1..Len(chs) |-> ISum(chs[j])]
QOf(chs) == ISum([j \in 1..Len(chs) |-> PairSqSum(chs[j])])
TOf(chs) == PairSqSum(SumsOf(chs))
R2Int(ch) ==
  LET sp == SplitChains(ch, FALSE)
      m == Len(sp)
      n == Len(sp[1])
      Q == QOf(sp)
  IN IF n < 2 \/ Q = 0 THEN Undef
     ELSE <<(n - 1) * ((m - 1) * Q + TOf(sp)), n * (m - 1) * Q>>

(***************************************************************************)
(* 2b. CODE eff_sample_size, statement by statement over rationals.        *)
(*   means = np.mean(chains, axis=1); variances = np.var(chains, ddof=1, axis=1) *)
(*   var_between = 0 if n_chains == 1 else n_samples * np.var(means, ddof=1)     *)
(*   var_within = np.mean(variances)                                       *)
(*   var_pooled = ((n_samples - 1.) * var_within + var_between) / n_samples *)
(*   autocov[j, t] = sum_{i=1}^{N-t} y_ji y_j(i+t) / (N - t),  y = chains - means *)
(*       (irfft(|rfft(y, n_padded)|^2) with n_padded >= 2N is the linear   *)
(*        autocorrelation sum; `/ np.arange(n_samples, 0, -1)` the N - t)  *)
(*   lag = 1; while lag < n_samples:                                       *)
(*       temp = 1. - (var_within - np.mean(autocov[:, lag])) / var_pooled  *)
(*       if temp >= 0: estimator_sum += temp; lag += 1  else: break        *)
(*   ess = n_chains * n_samples / (1. + 2. * estimator_sum)                *)
(* The result is a record [val, bnd]: val the rational ESS (Undef when     *)
(* var_pooled is 0 or undefined: the float code then compares nan), bnd =  *)
(* some truncation test `temp >= 0` evaluated by the loop was exactly 0    *)
(* (floating point cannot decide it; such chains are excluded from every   *)
(* ESS clause).                                                            *)
(* centered = FALSE (autocovariance of the raw chains) is a negative       *)
(* control; firstOnly = TRUE (autocov[0, lag] instead of the mean over     *)
(* chains) another.                                                        *)
(***************************************************************************)
AutoCovAt(y, t) ==
  LET k == Len(y) - t IN RDiv(RSumTo([i \in 1..k |-> RMul(y[i], y[i + t])], k), RInt(k))
RECURSIVE EssLoop(_, _, _, _, _, _, _)
EssLoop(ys, W, V, lag, acc, bnd, firstOnly) ==
  IF lag >= Len(ys[1]) THEN [sum |-> acc, bnd |-> bnd]
  ELSE LET ac == IF firstOnly THEN AutoCovAt(ys[1], lag)
                 ELSE RMeanSeq([j \in 1..Len(ys) |-> AutoCovAt(ys[j], lag)])
           temp == RSub(RInt(1), RDiv(RSub(W, ac), V))
       IN IF temp[1] >= 0 THEN EssLoop(ys, W, V, lag + 1, RAdd(acc, temp), bnd \/ temp[1] = 0, firstOnly)
          ELSE [sum |-> acc, bnd |-> bnd]
EssGen(ch, centered, firstOnly) ==
  LET M == Len(ch)
      N == NSamp(ch)
      means == Mat([j \in 1..M |-> RMeanSeq(RSeqOfInts(ch[j]))])
      variances == [j \in 1..M |-> RVarSeq(RSeqOfInts(ch[j]), 1)]
      varBetween == IF M = 1 THEN RInt(0) ELSE RMul(RInt(N), RVarSeq(means, 1))
      varWithin == RMeanSeq(variances)
      varPooled == RDiv(RAdd(RMul(RInt(N - 1), varWithin), varBetween), RInt(N))
      ys == Mat([j \in 1..M |-> Mat([i \in 1..N |-> RSub(RInt(ch[j][i]), IF centered THEN means[j] ELSE RInt(0))])])
  IN IF ~IsDef(varPooled) \/ varPooled[1] = 0 THEN [val |-> Undef, bnd |-> FALSE]
     ELSE LET r == EssLoop(ys, varWithin, varPooled, 1, RInt(0), FALSE, firstOnly)
          IN [val |-> RDiv(RInt(M * N), RAdd(RInt(1), RMul(RInt(2), r.sum))), bnd |-> r.bnd]
EssCodeRat(ch) == EssGen(ch, TRUE, FALSE)

(***************************************************************************)
(* 3. CLEARED ESS.  z_ji = N x_ji - S_j (integers, shift invariant),       *)
(*    P_t = sum_j sum_i z_ji z_j(i+t),  Q = P_0 / N = sum_j (N sum x^2 - S_j^2), *)
(*    T = sum_{j<k} (S_j - S_k)^2 (0 for one chain), D1 = max(M - 1, 1),   *)
(*    G = D1 Q + T  ( = D1 M N^2 var_pooled ).  Then                        *)
(*      temp_t = num_t / den_t,                                            *)
(*      num_t  = - D1 (N-t) Q + T (N-1)(N-t) + D1 (N-1) P_t,               *)
(*      den_t  = (N-1)(N-t) G > 0,                                         *)
(*    and with L = lcm(1..N-1) and tau = the first lag with num_t < 0,     *)
(*      ESS = M N (N-1) G L / ( (N-1) G L + 2 sum_{t<tau} num_t L/(N-t) ). *)
(*    Only non-negative terms are ever added, so big NATURALS suffice.     *)
(*    EssCleared(ch) = [def, bnd, num, den]: def = the value is defined    *)
(*    (N >= 2 and var_pooled > 0), bnd = some evaluated num_t is 0, and    *)
(*    num / den the ESS as big naturals.                                   *)
(***************************************************************************)
LagSum(z, t) == ISum([j \in 1..Len(z) |-> ISum([i \in 1..(Len(z[j]) - t) |-> z[j][i] * z[j][i + t]])])
Lcm(a, b) == (a \div Gcd(a, b)) * b
RECURSIVE LcmUpTo(_)
LcmUpTo(n) == IF n <= 1 THEN 1 ELSE Lcm(LcmUpTo(n - 1), n)
RECURSIVE EssTermsFrom(_, _, _, _, _, _)
\* over the lags t, t+1, .. up to the first negative one: the sum of num_t * L / (N - t)
\* (big natural) and whether some num_t was 0
EssTermsFrom(z, Q, T, D1, L, t) ==
  LET N == Len(z[1]) IN
  IF t >= N THEN [terms |-> <<0>>, bnd |-> FALSE]
  ELSE LET num == T * (N - 1) * (N - t) + D1 * ((N - 1) * LagSum(z, t) - (N - t) * Q)
       IN IF num < 0 THEN [terms |-> <<0>>, bnd |-> FALSE]
          ELSE LET rest == EssTermsFrom(z, Q, T, D1, L, t + 1)
               IN [terms |-> BAdd(BMul(BOfInt(num), BOfInt(L \div (N - t))), rest.terms),
                   bnd |-> (num = 0) \/ rest.bnd]
EssCleared(ch) ==
  LET M == Len(ch)
      N == NSamp(ch)
      z == Mat([j \in 1..M |-> LET S == ISum(ch[j]) IN Mat([i \in 1..N |-> N * ch[j][i] - S])])
      Q == LagSum(z, 0) \div N
      T == TOf(ch)
      D1 == IF M > 1 THEN M - 1 ELSE 1
      G == D1 * Q + T
  IN IF N < 2 \/ G = 0 THEN [def |-> FALSE, bnd |-> FALSE, num |-> <<0>>, den |-> <<1>>]
     ELSE LET L == LcmUpTo(N - 1)
              common == BMul(BOfInt((N - 1) * L), BOfInt(G))
              r == EssTermsFrom(z, Q, T, D1, L, 1)
          IN [def |-> TRUE, bnd |-> r.bnd,
              num |-> BMulInt(common, M * N),
              den |-> BAdd(common, BMulInt(r.terms, 2))]
\* the big-natural fraction num/den equals the rational r = <<p, q>> (p >= 0)
FracEqRat(num, den, r) == BEq(BMulInt(num, r[2]), BMulInt(den, r[1]))
=============================================================================

------------------------------ MODULE RomcBig ------------------------------
(***************************************************************************)
(* Natural numbers beyond TLC's 32-bit integers, for the C19 trace specs:  *)
(* volumes and weights are products of several lengths given in 10^-6.     *)
(* A number is the sequence of its base-1000 digits, least significant     *)
(* first, without leading zeros (<<>> = 0).                                *)
(*                                                                         *)
(* Floats computed by the code are logged as  <<s, m, e>>  meaning         *)
(* s * m * 10^e  with s in {-1, 0, 1} (2 = nan/inf), 10^6 <= m < 10^7      *)
(* (seven significant digits, relative rounding error <= 5e-7).  ApproxEq  *)
(* compares such a value with an exact rational num/den of big naturals    *)
(* within the relative tolerance 2e-6, cleared of denominators.            *)
(***************************************************************************)
EXTENDS Integers, Sequences

Base == 1000

RECURSIVE BFromNat(_)
BFromNat(n) == IF n <= 0 THEN <<>> ELSE <<n % Base>> \o BFromNat(n \div Base)

\* s * k + carry   for a small factor 0 < k <= 2 000 000 (999 * k + carry stays below 2^31)
RECURSIVE BMulC(_, _, _)
BMulC(s, k, carry) ==
  IF s = <<>> THEN BFromNat(carry)
  ELSE LET t == s[1] * k + carry IN <<t % Base>> \o BMulC(Tail(s), k, t \div Base)
BMulSmall(s, k) == IF k = 0 \/ s = <<>> THEN <<>> ELSE BMulC(s, k, 0)

BShift(s) == IF s = <<>> THEN <<>> ELSE <<0>> \o s          \* * 1000

RECURSIVE BAddC(_, _, _)
BAddC(a, b, carry) ==
  IF a = <<>> /\ b = <<>> THEN BFromNat(carry)
  ELSE LET x == IF a = <<>> THEN 0 ELSE a[1]
           y == IF b = <<>> THEN 0 ELSE b[1]
           t == x + y + carry
       IN <<t % Base>> \o BAddC(IF a = <<>> THEN <<>> ELSE Tail(a), IF b = <<>> THEN <<>> ELSE Tail(b), t \div Base)
BAdd(a, b) == BAddC(a, b, 0)

RECURSIVE BMul(_, _)
BMul(a, b) == IF a = <<>> \/ b = <<>> THEN <<>>
              ELSE BAdd(BMulSmall(a, b[1]), BShift(BMul(a, Tail(b))))

RECURSIVE BPow10(_, _)                                     \* s * 10^e, e >= 0
BPow10(s, e) == IF e <= 0 THEN s ELSE IF e >= 3 THEN BPow10(BShift(s), e - 3) ELSE BPow10(BMulSmall(s, 10), e - 1)

RECURSIVE BCmpFrom(_, _, _)
BCmpFrom(a, b, n) == IF n = 0 THEN 0 ELSE IF a[n] < b[n] THEN -1 ELSE IF a[n] > b[n] THEN 1 ELSE BCmpFrom(a, b, n - 1)
BCmp(a, b) == IF Len(a) # Len(b) THEN (IF Len(a) < Len(b) THEN -1 ELSE 1) ELSE BCmpFrom(a, b, Len(a))
BLeq(a, b) == BCmp(a, b) <= 0

\* product of a sequence of non-negative 32-bit integers
RECURSIVE BProdFrom(_, _)
BProdFrom(xs, k) == IF k = 0 THEN <<1>> ELSE BMul(BProdFrom(xs, k - 1), BFromNat(xs[k]))
BProd(xs) == BProdFrom(xs, Len(xs))

IsSci(y) == Len(y) = 3 /\ y[1] \in {-1, 0, 1} /\ y[2] >= 0 /\ (y[1] = 0 <=> y[2] = 0)

\* |y - num/den| <= 2e-6 * num/den   (num, den big naturals, den > 0);  y = 0 iff num = 0
ApproxEq(y, num, den) ==
  /\ IsSci(y)
  /\ IF num = <<>> THEN y[1] = 0
     ELSE /\ y[1] = 1
          /\ LET L == BPow10(BMul(BFromNat(y[2]), den), IF y[3] > 0 THEN y[3] ELSE 0)
                 R == BPow10(num, IF y[3] < 0 THEN -y[3] ELSE 0)
             IN /\ BLeq(BMulSmall(L, 1000000), BMulSmall(R, 1000002))
                /\ BLeq(BMulSmall(R, 999998), BMulSmall(L, 1000000))
=============================================================================

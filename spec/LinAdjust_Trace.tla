-------------------------- MODULE LinAdjust_Trace --------------------------
(***************************************************************************)
(* Trace validation for C17, regression adjustment.                        *)
(*                                                                         *)
(* A trace is one sample (integer summaries S, parameters TH with inf/nan  *)
(* codes), the observed summaries obs of a real ElfiModel, and a sequence  *)
(* of real calls adjust_posterior(sample, model, summary_names,            *)
(* parameter_names, LinearAdjustment()):                                   *)
(*   ev = "adjust" : the call on the sample as it is                       *)
(*   ev = "affine" : the call after re-expressing the summaries (sample    *)
(*                   AND observed) by s -> M s + v, M an integer matrix    *)
(* Every event carries the inputs handed to the code (S, obs; TH is the    *)
(* same for all events) and what came back: res ("ok" | "raise" | "hang"), *)
(* out[j] = adjusted values of parameter j, coef[j] = regression_models[j] *)
(* .coef_ (hascoef = FALSE when the call was made with adjustment='linear' *)
(* and the fitted models are not observable), both in fixed point (unit    *)
(* 10^-6), warn = a warning was issued.                                    *)
(*                                                                         *)
(* TLC recomputes masks, normal equations, slopes and adjusted values      *)
(* from the logged inputs with the operators of LinAdjustOps (exact        *)
(* integers / rationals) and compares.  Total and deterministic.           *)
(*                                                                         *)
(* Decided domain (stated, not silently assumed):                          *)
(*  - Safe: magnitudes keep every intermediate below 2^31 (harness keeps   *)
(*    base events inside; X: clause otherwise)                             *)
(*  - Decidable(j): Safe, the least-squares slope is unique (Det # 0) and  *)
(*    tr(A)^2 <= 10^4 Det (condition number of the centred Gram matrix     *)
(*    <= 10^4, float error << 10^-6).  Only there P:normal-equations,      *)
(*    P:adjusted and P:affine-invariant compare values; P:finite-mask and  *)
(*    P:fixed-point-row are judged always.                                 *)
(*  - no finite row at all for some parameter: any result accepted.        *)
(***************************************************************************)
EXTENDS Naturals, Integers, Sequences, FiniteSets, TLC, Json, IOUtils, LinAdjustOps

Traces == JsonDeserialize(IOEnv.TRACE_FILE)

VARIABLES tid, l, verdict, drift, done
vars == <<tid, l, verdict, drift, done>>

T == Traces[tid]
Init == tid \in 1..Len(Traces) /\ l = 1 /\ verdict = "ok" /\ drift = "" /\ done = FALSE

K == Len(T.obs)
NP == Len(T.TH)
N == Len(T.S)

\* ---- magnitudes ---------------------------------------------------------------
MaxOf(S) == IF S = {} THEN 1 ELSE CHOOSE x \in S : \A y \in S : y <= x
Bx(e) == MaxOf({Abs(e.S[i][a] - e.obs[a]) : i \in {r \in 1..N : \A c \in 1..K : IsFin(e.S[r][c])}, a \in 1..K} \cup {1})
Bt == MaxOf(({Abs(T.TH[j][i]) : i \in 1..N, j \in 1..NP} \cap (0..(PINF - 1))) \cup {1})
Safe(e) ==
  LET p1 == N * N * Bx(e) * Bx(e) IN
  /\ N <= 12 /\ Bx(e) <= 100 /\ Bt <= 1000
  /\ p1 <= 46340 /\ p1 * p1 <= 2147483647 \div (10 * Bt)

\* ---- expectations (computed once per event and parameter) ------------------------------------
\* F = finite mask, rows = F in row order, ne = normal equations, b = slope,
\* dec = in the decided domain for value comparison, exp = adjusted values as rationals
Info(e) ==
  [j \in 1..NP |->
     LET f == Mask(e.S, T.TH[j])
         ne == NormalEq(e.S, e.obs, T.TH[j], f, TRUE)
         b == SlopeOf(ne, K)
         safe == Safe(e)
     IN [F |-> f,
         rows |-> SortedSeq(f),
         det |-> IF safe /\ f # {} THEN Det(ne, K) ELSE 0,
         b |-> IF safe /\ f # {} THEN b ELSE [num |-> [a \in 1..K |-> 0], den |-> 1, unique |-> FALSE],
         dec |-> safe /\ f # {} /\ Det(ne, K) # 0 /\ (K = 1 \/ (Trace2(ne) * Trace2(ne)) \div Det(ne, K) <= 10000),
         exp |-> IF safe /\ f # {} THEN AdjustWith(e.S, e.obs, T.TH[j], f, b) ELSE <<>>]]

ValueOk(v, r) == IF FxRepresentable(r[1], r[2]) THEN FxMatches(v, r[1], r[2])
                 ELSE v = FxBig \/ (FxFinite(v) /\ Abs(v) >= 2000 * Unit)
CoefOkJ(e, I, j) == \A a \in 1..K : ValueOk(e.coef[j][a], <<I.b.num[a], I.b.den>>)
OutOkJ(e, I, j) == \A q \in 1..Len(e.out[j]) : ValueOk(e.out[j][q], I.exp[q])

Base == T.events[1]

\* first failing clause of the PROPERTY for event e, or "ok"
JudgeP(e) ==
  LET info == Info(e)
      binfo == Info(Base)
  IN
  IF \E j \in 1..NP : info[j].F = {} THEN "ok"                      \* nothing to regress on: not decided
  ELSE IF e.res # "ok" THEN "P:valid-input-raised"
  ELSE IF Len(e.out) # NP \/ \E j \in 1..NP : Len(e.out[j]) # Cardinality(info[j].F) THEN "P:finite-mask"
  ELSE IF \E j \in 1..NP : \E q \in 1..Len(e.out[j]) :
            IsObservedRow(e.S, e.obs, info[j].rows[q]) /\ e.out[j][q] # T.TH[j][info[j].rows[q]] * Unit
       THEN "P:fixed-point-row"
  ELSE IF e.hascoef /\ \E j \in 1..NP : info[j].dec /\ ~CoefOkJ(e, info[j], j) THEN "P:normal-equations"
  ELSE IF \E j \in 1..NP : info[j].dec /\ ~OutOkJ(e, info[j], j) THEN "P:adjusted"
  ELSE IF e.ev = "affine" /\ Base.res = "ok" /\ Len(Base.out) = NP /\
          \E j \in 1..NP : \/ Len(e.out[j]) # Len(Base.out[j])
                           \/ binfo[j].dec /\ \E q \in 1..Len(e.out[j]) :
                                 ~FxFinite(e.out[j][q]) \/ ~FxFinite(Base.out[j][q]) \/ Abs(e.out[j][q] - Base.out[j][q]) > 1
       THEN "P:affine-invariant"
  ELSE "ok"

\* harness-side consistency: the log must be sufficient and inside the magnitudes TLC can compute
JudgeX(e) ==
  IF l = 1 /\ (e.ev # "adjust" \/ e.S # T.S \/ e.obs # T.obs) THEN "X:first-event-is-the-base-call"
  ELSE IF l = 1 /\ ~Safe(e) THEN "X:unsafe-magnitudes"
  ELSE IF e.ev = "affine" /\ (DetM(e.M) = 0 \/ e.S # MapRows(e.M, e.v, T.S) \/ e.obs # MapVec(e.M, e.v, T.obs))
       THEN "X:affine-inputs"
  ELSE ""
\* mechanism clauses: the code follows the design module LinAdjust.tla
JudgeM(e) ==
  LET info == Info(e) IN
  IF e.res # "ok" THEN
       (IF \E j \in 1..NP : info[j].F = {} THEN "" ELSE "M:raises-only-without-finite-rows")
  ELSE IF \E j \in 1..NP : info[j].F = {} THEN "M:raises-only-without-finite-rows"
  ELSE IF Len(e.out) # NP \/ \E j \in 1..NP : Len(e.out[j]) # Cardinality(info[j].F) THEN ""
  ELSE IF Safe(e) /\ \E j \in 1..NP : info[j].det = 0 /\ ~((e.hascoef => CoefOkJ(e, info[j], j)) /\ OutOkJ(e, info[j], j))
       THEN "M:minimum-norm-slope-when-rank-deficient"
  ELSE IF e.warn # (\E i \in 1..N : (\E a \in 1..K : ~IsFin(e.S[i][a])) \/ (\E j \in 1..NP : ~IsFin(T.TH[j][i])))
       THEN "M:warns-iff-non-finite"
  ELSE IF ~e.names THEN "M:result-names"
  ELSE ""

Step ==
  /\ ~done
  /\ IF l > Len(T.events) THEN done' = TRUE /\ UNCHANGED <<tid, l, verdict, drift>>
     ELSE LET e == T.events[l]
              x == JudgeX(e)
              j == IF x = "" THEN JudgeP(e) ELSE "ok"
              m == IF drift # "" THEN drift ELSE IF x # "" THEN x ELSE JudgeM(e)
          IN /\ verdict' = j
             /\ drift' = m
             /\ done' = (j # "ok")
             /\ l' = l + 1
             /\ UNCHANGED tid

Spec == Init /\ [][Step]_vars
Report == done => PrintT(<<"V", tid, l, verdict, drift>>)
=============================================================================

SPECIFICATION Spec
CONSTANTS
  MaxN = 2
  MaxW = 1
  GuardInf = TRUE
  GuardNaN = TRUE
  SliceFrom = 1
  StartClass = "nan"
INVARIANT OutputsFinite
CHECK_DEADLOCK FALSE

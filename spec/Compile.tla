------------------------------- MODULE Compile -------------------------------
(***************************************************************************)
(* Design theorem for C03: for EVERY small model graph, every set of       *)
(* requested outputs and every with_values set,                            *)
(*    Execute(Load(Compile(G, outs), wv))  =  Meaning(G)|outs              *)
(* the operations that run are exactly those the meaning needs, and the    *)
(* graph is rejected when evaluating the requested outputs would evaluate  *)
(* observed data that depends on a stochastic node.                        *)
(* The state is one graph; Pick chooses it (so that TLC's workers share    *)
(* the evaluation).                                                        *)
(***************************************************************************)
EXTENDS Naturals, Sequences, FiniteSets, TLC, CompileOps

CONSTANTS Names,        \* sequence of node names; a node may only have parents earlier in it
          MaxFanIn,     \* bound on positional parents
          WithNamed,    \* BOOLEAN: explore one named ("ka") parent per node
          WithWV,       \* BOOLEAN: explore with_values sets
          WithMeta,     \* BOOLEAN: explore uses_meta flags
          TwinOutputs   \* BOOLEAN: also request observed twins as outputs

VARIABLES g, outs, wv, phase
vars == <<g, outs, wv, phase>>

NodeSet == {Names[i] : i \in 1..Len(Names)}
Rank(x) == CHOOSE i \in 1..Len(Names) : Names[i] = x
Earlier(x) == {y \in NodeSet : Rank(y) < Rank(x)}
Kinds == {"const", "op", "prior", "sim", "sum", "disc"}

\* sequences of distinct elements of S with length <= MaxFanIn
RECURSIVE DSeqs(_, _)
DSeqs(S, n) == IF n = 0 THEN {<<>>}
               ELSE DSeqs(S, n - 1) \cup {Append(s, x) : s \in {t \in DSeqs(S, n - 1) : Len(t) = n - 1}, x \in S}
DistinctSeqs(S) == {s \in DSeqs(S, MaxFanIn) : \A i, j \in 1..Len(s) : i # j => s[i] # s[j]}

Init == /\ g = [nodes |-> NodeSet, kind |-> [x \in NodeSet |-> "const"], pos |-> [x \in NodeSet |-> <<>>],
                named |-> [x \in NodeSet |-> {}], obs |-> {}, meta |-> {}]
        /\ outs = {} /\ wv = {} /\ phase = 0

PosChoices(k, x) == {s \in DistinctSeqs(Earlier(x)) :
                       /\ (k = "const" => s = <<>>)
                       /\ (k \in {"sum", "disc"} => s # <<>>)}
NamedChoices(k, x, s) ==
  IF ~WithNamed \/ k \notin {"op", "sim", "sum"} THEN {{}}     \* see DESIGN C03: named parents of priors / discrepancies excluded
  ELSE {{}} \cup {{<<"ka", p>>} : p \in Earlier(x) \ {s[i] : i \in 1..Len(s)}}

Pick ==
  /\ phase = 0 /\ phase' = 1
  /\ \E kind \in [NodeSet -> Kinds] :
     \E pos \in [NodeSet -> UNION {PosChoices(k, x) : k \in Kinds, x \in NodeSet}] :
       /\ \A x \in NodeSet : pos[x] \in PosChoices(kind[x], x)
       /\ \E named \in [NodeSet -> SUBSET ({"ka"} \X NodeSet)] :
            /\ \A x \in NodeSet : named[x] \in NamedChoices(kind[x], x, pos[x])
            /\ \E obs \in SUBSET {x \in NodeSet : Observable(kind[x])} :
               \E meta \in (IF WithMeta THEN SUBSET {x \in NodeSet : kind[x] \in {"op", "sim", "sum"}} ELSE {{}}) :
                 g' = [nodes |-> NodeSet, kind |-> kind, pos |-> pos, named |-> named, obs |-> obs, meta |-> meta]
  /\ outs' \in (SUBSET ({U(x) : x \in NodeSet} \cup
                       (IF TwinOutputs THEN {Tw(x) : x \in {y \in NodeSet : Observable(g'.kind[y]) \/ UsesObs(g'.kind[y])}} ELSE {}))) \ {{}}
  /\ wv' \in (IF WithWV THEN SUBSET NodeSet ELSE {{}})          \* any node can be given, constants included

Next == Pick
Spec == Init /\ [][Next]_vars

Pre == ObservedCompile(g, OutputCompile(g))
CodeRejects == Rejects(g, Pre, outs)
Run == LET net == Load(g, Reduce(Instr(g, Pre), outs), wv) IN Execute(net, outs)

\* (e) rejection: required when the meaning requires it, allowed only on rejectable graphs
RejectWhenRequired == phase = 1 => (MeaningRejectsStrict(g, wv, outs) => CodeRejects)
RejectOnlyRejectable == phase = 1 => (CodeRejects => MeaningRejectsLoose(g))
\* (a)-(d) values
ValuesConform == (phase = 1 /\ ~CodeRejects) => \A o \in outs : Run.res[o] = MeaningOf(g, wv, o)
\* (f) exactly the operations the meaning needs run, each once (`ran` is a set of net nodes; a net node
\*     runs at most once by construction of the execution order), supplied / constant nodes never
RunsExactlyNeeded == (phase = 1 /\ ~CodeRejects) => Run.ran = MeaningRuns(g, wv, outs)
\* negative control: without the guard, stochastic observed data would be evaluated
NeverNeedsGuard == phase = 1 => ~MeaningRejectsStrict(g, wv, outs)
=============================================================================

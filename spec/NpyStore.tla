------------------------------ MODULE NpyStore ------------------------------
(***************************************************************************)
(* elfi.store.NpyArray / NpyStore as a state machine with a process kill.  *)
(* See NpyStoreOps.tla for the modelling of the file and Python's buffer.  *)
(*                                                                         *)
(* The store starts initialised, flushed and holding InitRows.  A public   *)
(* call (the Begin actions) installs its program; Micro executes one        *)
(* low-level operation; OSWrite lets Python hand bytes to the OS early;    *)
(* Crash kills the process anywhere (also in the middle of a call).        *)
(***************************************************************************)
EXTENDS Naturals, Integers, Sequences, FiniteSets, TLC, NpyStoreOps

CONSTANTS Vals,             \* batch values
          MaxLen,           \* bound on the number of batches
          MaxCalls,         \* bound on the number of public calls
          TruncHeaderFirst, \* TRUE = repaired truncate (header before cut); FALSE = original (F6)
          MmapSyncsHeader,  \* TRUE = creating the memmap first writes a prepared header (candidate repair of F7)
          AllowDirtyOverwrite, \* TRUE = overwriting an old batch while an append is unflushed is allowed (F7)
          InitRows          \* content at the start (flushed)

VARIABLES rows,       \* logical content: what len() / [] report (sequence of batch values)
          hdr, data,  \* what the OS has
          wbuf,       \* Python's buffered writes, FIFO
          hdrPrep,    \* _header_bytes_to_write: prepared length, or None
          memValid,   \* self._memmap is not None
          isOpen,
          prog,       \* remaining micro-operations of the current public call
          pend,       \* logical content the current call will commit
          sinceFlush, \* logical contents since the last completed flush (incl. a call in progress)
          ncalls, crashed
vars == <<rows, hdr, data, wbuf, hdrPrep, memValid, isOpen, prog, pend, sinceFlush, ncalls, crashed>>

Init == /\ rows = InitRows /\ hdr = Len(InitRows) /\ data = InitRows /\ wbuf = <<>> /\ hdrPrep = None
        /\ memValid = FALSE /\ isOpen = TRUE /\ prog = <<>> /\ pend = InitRows
        /\ sinceFlush = {InitRows} /\ ncalls = 0 /\ crashed = FALSE

Idle == ~crashed /\ prog = <<>> /\ isOpen /\ ncalls < MaxCalls

Begin(p, newRows) ==
  /\ prog' = p /\ pend' = newRows /\ ncalls' = ncalls + 1
  /\ sinceFlush' = sinceFlush \cup {newRows}
  /\ UNCHANGED <<rows, hdr, data, wbuf, hdrPrep, memValid, isOpen, crashed>>

BeginAppend(v) == Idle /\ Len(rows) < MaxLen /\ Begin(ProgAppend(rows, v), Append(rows, v))
BeginOverwrite(i, v) ==
  /\ Idle /\ i \in 1..Len(rows) /\ (AllowDirtyOverwrite \/ hdrPrep = None)
  /\ Begin(ProgOverwrite(i, v, hdrPrep, memValid, MmapSyncsHeader), [rows EXCEPT ![i] = v])
BeginTruncate(n) == Idle /\ n \in 0..(Len(rows) - 1) /\ Begin(ProgTruncate(n, TruncHeaderFirst), SubSeq(rows, 1, n))
BeginRead == Idle /\ rows # <<>> /\ Begin(ProgRead(hdrPrep, memValid, MmapSyncsHeader), rows)
BeginFlush == Idle /\ Begin(ProgFlush(hdrPrep), rows)
BeginCloseReopen == Idle /\ Begin(ProgCloseReopen(hdrPrep), rows)
BeginPickle == Idle /\ Begin(ProgPickle(hdrPrep), rows)

Drained == Drain(wbuf, hdr, data)

Micro ==
  /\ ~crashed /\ prog # <<>>
  /\ prog' = Tail(prog)
  /\ LET o == Head(prog) IN
     CASE o.k \in {"seek", "fflush"} ->
            /\ hdr' = Drained[1] /\ data' = Drained[2] /\ wbuf' = <<>>
            /\ UNCHANGED <<rows, hdrPrep, memValid, isOpen, sinceFlush>>
       [] o.k = "wdata" ->
            /\ wbuf' = Append(wbuf, [k |-> "data", pos |-> o.a, v |-> o.b, n |-> 0])
            /\ UNCHANGED <<rows, hdr, data, hdrPrep, memValid, isOpen, sinceFlush>>
       [] o.k = "whdr" ->
            /\ wbuf' = Append(wbuf, [k |-> "hdr", pos |-> 0, v |-> 0, n |-> hdrPrep]) /\ hdrPrep' = None
            /\ UNCHANGED <<rows, hdr, data, memValid, isOpen, sinceFlush>>
       [] o.k = "prep" ->
            /\ hdrPrep' = o.a
            /\ UNCHANGED <<rows, hdr, data, wbuf, memValid, isOpen, sinceFlush>>
       [] o.k = "ftrunc" ->
            /\ hdr' = Drained[1] /\ data' = Prefix(Drained[2], o.a) /\ wbuf' = <<>>
            /\ UNCHANGED <<rows, hdrPrep, memValid, isOpen, sinceFlush>>
       [] o.k = "mmap" ->     \* np.memmap(fs) seeks to EOF when the memmap has to be created
            /\ IF memValid THEN UNCHANGED <<hdr, data, wbuf>>
               ELSE hdr' = Drained[1] /\ data' = Drained[2] /\ wbuf' = <<>>
            /\ memValid' = TRUE
            /\ UNCHANGED <<rows, hdrPrep, isOpen, sinceFlush>>
       [] o.k = "mwrite" ->
            /\ data' = [j \in 1..Len(data) |-> IF j = o.a THEN o.b ELSE data[j]]
            /\ UNCHANGED <<rows, hdr, wbuf, hdrPrep, memValid, isOpen, sinceFlush>>
       [] o.k = "inval" ->
            /\ memValid' = FALSE
            /\ UNCHANGED <<rows, hdr, data, wbuf, hdrPrep, isOpen, sinceFlush>>
       [] o.k = "commit" ->
            /\ rows' = pend
            /\ UNCHANGED <<hdr, data, wbuf, hdrPrep, memValid, isOpen, sinceFlush>>
       [] o.k = "flushed" ->
            /\ sinceFlush' = {rows}
            /\ UNCHANGED <<rows, hdr, data, wbuf, hdrPrep, memValid, isOpen>>
       [] o.k = "close" ->
            /\ hdr' = Drained[1] /\ data' = Drained[2] /\ wbuf' = <<>> /\ memValid' = FALSE /\ isOpen' = FALSE
            /\ UNCHANGED <<rows, hdrPrep, sinceFlush>>
       [] o.k = "reopen" ->   \* _init_from_file_header: the new instance believes the header
            /\ isOpen' = TRUE /\ rows' = OnDisk(hdr, data) /\ memValid' = FALSE /\ hdrPrep' = None
            /\ UNCHANGED <<hdr, data, wbuf, sinceFlush>>
  /\ UNCHANGED <<pend, ncalls, crashed>>

\* Python hands the oldest buffered write to the OS (buffer full, large write, ...)
OSWrite ==
  /\ ~crashed /\ wbuf # <<>>
  /\ LET r == ApplyOS(Head(wbuf), hdr, data) IN hdr' = r[1] /\ data' = r[2]
  /\ wbuf' = Tail(wbuf)
  /\ UNCHANGED <<rows, hdrPrep, memValid, isOpen, prog, pend, sinceFlush, ncalls, crashed>>

\* os._exit / SIGKILL: Python's buffer is gone, the OS keeps what it has
Crash ==
  /\ ~crashed /\ crashed' = TRUE /\ wbuf' = <<>>
  /\ UNCHANGED <<rows, hdr, data, hdrPrep, memValid, isOpen, prog, pend, sinceFlush, ncalls>>

Next == \/ \E v \in Vals : BeginAppend(v)
        \/ \E i \in 1..MaxLen, v \in Vals : BeginOverwrite(i, v)
        \/ \E n \in 0..MaxLen : BeginTruncate(n)
        \/ BeginRead \/ BeginFlush \/ BeginCloseReopen \/ BeginPickle
        \/ Micro \/ OSWrite \/ Crash
Spec == Init /\ [][Next]_vars

\* ---- properties (C06) ---------------------------------------------------------
\* (a) a reopened store reports the logical content (checked at the reopen step through `rows`):
\*     the content never changes except by commit of the call's intended effect
Refines == [][(rows' # rows) => (rows' = pend)]_vars
\* (b) after every completed flush / close the file is a loadable .npy with exactly the content
FlushExact == (prog = <<>> /\ ~crashed /\ sinceFlush = {rows} /\ hdrPrep = None /\ wbuf = <<>>)
                 => (Loadable(hdr, data) /\ OnDisk(hdr, data) = rows)
\* (c) killed anywhere: loads, and equals a logical content since the last completed flush
CrashSafe == crashed => (Loadable(hdr, data) /\ OnDisk(hdr, data) \in sinceFlush)
\* the two halves separately (for diagnosis)
CrashLoads == crashed => Loadable(hdr, data)
=============================================================================

------------------------- MODULE ClientContract_Trace -------------------------
(* Trace validation of real client objects (elfi.clients.native / multiprocessing) against
   ClientContract.tla.  Events: apply(x) -> id | ready(id) -> ans | get(id) -> val | rm(id) |
   sync(x) -> val | left (size of the client's table).  The computation is x |-> 3x + 1.       *)
EXTENDS Naturals, Integers, Sequences, FiniteSets, TLC, Json, IOUtils
Traces == JsonDeserialize(IOEnv.TRACE_FILE)
VARIABLES tid, l, held, given, wasReady, verdict, drift, done
vars == <<tid, l, held, given, wasReady, verdict, drift, done>>
T == Traces[tid]
Init == /\ tid \in 1..Len(Traces) /\ l = 1 /\ held = <<>> /\ given = {} /\ wasReady = {}
        /\ verdict = "ok" /\ drift = "" /\ done = FALSE
F(x) == 3 * x + 1
Judge(e) ==
  IF e.raised # "" THEN "E:client-call-raised"
  ELSE CASE e.ev = "apply" -> IF e.id \in given THEN "E:task-ids-are-fresh" ELSE "ok"
    [] e.ev = "ready" -> IF e.id \in wasReady /\ ~e.ans THEN "E:ready-task-stays-ready" ELSE "ok"
    [] e.ev = "get" -> IF e.id \notin DOMAIN held THEN "X:harness-asked-unknown-id"
                       ELSE IF e.val # F(held[e.id]) THEN "E:result-is-the-computation-of-that-task" ELSE "ok"
    [] e.ev = "sync" -> IF e.val # F(e.x) THEN "E:apply_sync-returns-the-value" ELSE "ok"
    [] e.ev = "left" -> IF e.n # Cardinality(DOMAIN held) THEN "E:client-holds-exactly-the-outstanding-tasks" ELSE "ok"
    [] OTHER -> "ok"
Step == /\ ~done
        /\ IF l > Len(T.events) THEN done' = TRUE /\ UNCHANGED <<tid, l, held, given, wasReady, verdict, drift>>
           ELSE LET e == T.events[l] j == Judge(e) IN
                /\ verdict' = j /\ done' = (j # "ok") /\ l' = l + 1 /\ UNCHANGED <<tid, drift>>
                /\ held' = CASE e.ev = "apply" -> [i \in DOMAIN held \cup {e.id} |-> IF i = e.id THEN e.x ELSE held[i]]
                             [] e.ev \in {"get", "rm"} -> [i \in DOMAIN held \ {e.id} |-> held[i]]
                             [] OTHER -> held
                /\ given' = IF e.ev = "apply" THEN given \cup {e.id} ELSE given
                /\ wasReady' = IF e.ev = "ready" /\ e.ans THEN wasReady \cup {e.id} ELSE wasReady
Spec == Init /\ [][Step]_vars
Report == done => PrintT(<<"V", tid, l, verdict, drift>>)
=============================================================================

---------------------------- MODULE MC_TopoSort ----------------------------
EXTENDS TopoSort
\* "a", "c", "d"  : no name is a prefix of another one
KeysPlain == <<<<97>>, <<99>>, <<100>>>>
\* "a", "a_b", "c": prefix related, next character in the range of the hex suffix
KeysPrefix == <<<<97>>, <<97, 95, 98>>, <<99>>>>
E0 == {}
E1 == {<<1, 3>>}
E2 == {<<1, 2>>, <<1, 3>>}
HexSmall == {48, 57, 97, 102}     \* '0' '9' 'a' 'f'
=============================================================================

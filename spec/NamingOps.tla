----------------------------- MODULE NamingOps -----------------------------
(***************************************************************************)
(* EXTENSION (no listed property): node NAMING, the DEFAULT MODEL and      *)
(* NODE-REFERENCE bookkeeping of elfi/model/elfi_model.py (+ add_node /    *)
(* remove_node / update_node of graphical_model.py), and the bookkeeping   *)
(* of ComputationContext / BatchHandler (second half of this module).      *)
(* Graph STRUCTURE under edits is property C14 (ElfiGraph*.tla); this      *)
(* module covers what that leaves out: which model a new node lands in,    *)
(* which name it gets, what a reference object points at.                  *)
(*                                                                         *)
(* Pure operators on a world record W:                                     *)
(*   models   sequence (creation order; handle = index) of                 *)
(*              [mname, nodes, obs]; nodes = sequence in node-insertion    *)
(*              order (= model.nodes) of [name, cls, param, priv, par]:    *)
(*              cls = name of state['_class'], param = '_parameter' in     *)
(*              state, priv = the name starts with '_' (what remove_node's *)
(*              clean-up looks at), par = get_parents(name); obs = keys of *)
(*              model.observed                                             *)
(*   default  handle of elfi_model._default_model (0 = None)               *)
(*   refs     the NodeReference objects the user holds, in order of        *)
(*              appearance: [h, name, cls] = (.model, .name, type(ref)),   *)
(*              + ghosts sync (the reference was made / refreshed since    *)
(*              its node last changed class) and dead (its node was        *)
(*              removed while the reference pointed at it)                 *)
(*   lastset  ghost: the model last made the default                       *)
(*   rest want again raised cur   the call in flight: unconsumed           *)
(*              random_name() draws, "a draw is needed", "the stage loops" *)
(*              (while True in _new_name), exception type, scratch         *)
(*                                                                         *)
(* One operator per public call; a node constructor is a sequence of       *)
(* STAGES transcribed from NodeReference.__init__:                         *)
(*   require  Summary / Discrepancy / Distance refuse an empty parent list *)
(*   model    _determine_model: model= kwarg, else the first node parent's *)
(*            model, else get_default_model() (created lazily: one draw);  *)
(*            parents of another model: ValueError                         *)
(*   name     _give_name: explicit name; 'base*' -> base_<draw> retried    *)
(*            while taken; None -> the assignment target _inspect_name     *)
(*            reads off the source line (Inspect), unless taken or not     *)
(*            found: _<class>_<draw>                                       *)
(*   add      GraphicalModel.add_node: duplicate name -> ValueError        *)
(*   parent   _add_parents, once per parent: a non-node parent becomes a   *)
(*            Constant named _<child>_<draw>; add_edge refuses a parent    *)
(*            name the model does not have                                 *)
(*   finish   Prior sets '_parameter'; observed= sets model.observed[name] *)
(* random_name() is uuid4().hex[:4]; the draws are INPUTS here (the        *)
(* harness scripts uuid4, the design module lets the environment choose).  *)
(* Run(F, W, a, draws) is the composed call used by the trace spec.        *)
(*                                                                         *)
(* REPAIRS F (each is a finding about the real code; the design module     *)
(* shows that the user-level invariants hold with all of them and that     *)
(* TLC refutes one as soon as any single repair is left out; F = {} is     *)
(* the code):                                                              *)
(*   become_class           become() reads '_class' from state (the        *)
(*                          networkx node dict {'attr_dict': ...}), never  *)
(*                          finds it, and so never updates type(self)      *)
(*   become_atomic          become() with a reference whose node is gone   *)
(*                          (or with the node itself) raises AFTER         *)
(*                          removing self's node / popping observed data   *)
(*   create_atomic          a constructor given a reference to a removed   *)
(*                          node raises ValueError from add_edge AFTER the *)
(*                          new node (and earlier constants) were added    *)
(*   setter_atomic          parameter_names = [..unknown..] raises         *)
(*                          ValueError AFTER rewriting every flag          *)
(*   invalid_model_raises   _determine_model RETURNS the ValueError: the    *)
(*                          caller sees AttributeError                     *)
(*   empty_name_refused     name='' -> IndexError from name[-1]            *)
(*   size_reads_attr_dict   RandomVariable.size reads self['size'] from    *)
(*                          the node dict: KeyError for every node         *)
(*   cascade_constants_only remove_node's clean-up of "private" parents    *)
(*                          goes by the leading underscore, which every    *)
(*                          auto-named node has (_prior_1a2b): removing a  *)
(*                          child silently removes an auto-named Prior     *)
(***************************************************************************)
EXTENDS Naturals, Integers, Sequences, FiniteSets, TLC

AllFixes == {"become_class", "become_atomic", "create_atomic", "setter_atomic", "invalid_model_raises",
             "empty_name_refused", "size_reads_attr_dict", "cascade_constants_only"}

\* ------------------------------------------------------------------ tables
Lower == [Constant |-> "constant", Operation |-> "operation", Prior |-> "prior", RandomVariable |-> "randomvariable",
          Simulator |-> "simulator", Summary |-> "summary", Discrepancy |-> "discrepancy", Distance |-> "distance",
          AdaptiveDistance |-> "adaptivedistance", LogPrior |-> "logprior", DirPrior |-> "dirprior"]
ClassNames == DOMAIN Lower
NeedsParent(cls) == cls \in {"Summary", "Discrepancy", "Distance", "AdaptiveDistance"}
IsParamClass(cls) == cls \in {"Prior", "LogPrior", "DirPrior"}
Observable(cls) == cls \in {"Simulator", "Summary"}
HasSize(cls) == cls \in {"Prior", "LogPrior", "DirPrior", "RandomVariable"}

\* _inspect_name: the source line of the frame that called the constructor (super() lines skipped) is matched against
\*    \s*([^\W_][\w]*)\s*=\s*\w?[\w\.]*<ClassName>\(
\* `form` names the shape of that line (the harness renders each form into a real source file and executes it), `target`
\* the identifier the line starts with.  Forms that match:
InferForms == {"simple",          \* x = elfi.Prior(...)
               "bare",            \* x = Prior(...)
               "nospace",         \* x=elfi.Prior(...)
               "spaces",          \* x   =   elfi.Prior(...)
               "indented",        \* inside an if-block
               "multiline",       \* x = elfi.Prior(   continued on the next lines
               "comment",         \* trailing comment
               "deep_alias",      \* x = elfi.model.elfi_model.Prior(...)
               "sub_super",       \* x = Sub(...), Sub.__init__ calling super().__init__
               "helper_local",    \* def mk(): x = elfi.Prior(...); return x     (the name of the helper's local variable)
               "semicolon_second",\* x = elfi.Prior(...); y = elfi.Prior(...)     the SECOND call also reads `x` off the line
               "nested_suffix"}   \* x = LogPrior(.., elfi.Prior(..)): the INNER call matches because its class name ends the outer one
\* forms that do not match (target ignored)
NoInferForms == {"underscore",    \* _x = elfi.Prior(...)   names with a leading underscore are not accepted
                 "chained",       \* y = x = elfi.Prior(...)
                 "attr",          \* o.x = elfi.Prior(...)
                 "subscript",     \* d['x'] = elfi.Prior(...)
                 "expr",          \* elfi.Prior(...)
                 "tuple",         \* x, y = elfi.Prior(...), 1
                 "annot",         \* x: object = elfi.Prior(...)
                 "paren",         \* x = (elfi.Prior(...))
                 "call_space",    \* x = elfi.Prior (...)
                 "continued",     \* x = \   newline   elfi.Prior(...)
                 "helper_return", \* def mk(): return elfi.Prior(...)
                 "lambda",        \* x = (lambda: elfi.Prior(...))()
                 "sub_direct",    \* x = Sub(...), Sub.__init__ calling elfi.Prior.__init__(self, ...)
                 "nested_inner"}  \* x = elfi.Operation(f, elfi.Prior(...)): the inner call
Forms == InferForms \cup NoInferForms
Inspect(form, target) == IF form \in InferForms THEN target ELSE ""

\* ------------------------------------------------------------------ helpers
SeqSet(s) == {s[i] : i \in 1..Len(s)}
NamesOf(m) == {m.nodes[i].name : i \in 1..Len(m.nodes)}
Has(m, x) == x \in NamesOf(m)
NodeAt(m, x) == m.nodes[CHOOSE i \in 1..Len(m.nodes) : m.nodes[i].name = x]
ChildrenOf(m, x) == {m.nodes[i].name : i \in {j \in 1..Len(m.nodes) : x \in SeqSet(m.nodes[j].par)}}
Degree(m, x) == Len(NodeAt(m, x).par) + Cardinality(ChildrenOf(m, x))
RECURSIVE Desc(_, _, _)
Desc(m, front, acc) == LET new == UNION {ChildrenOf(m, c) : c \in front} \ acc IN
                       IF new = {} THEN acc ELSE Desc(m, new, acc \cup new)
Descendants(m, x) == Desc(m, {x}, {})
NoDup(s) == \A i, j \in 1..Len(s) : i # j => s[i] # s[j]

Cur0 == [h |-> 0, name |-> "", priv |-> FALSE, auto |-> FALSE, k |-> 1]
W0 == [models |-> <<>>, default |-> 0, refs |-> <<>>, lastset |-> 0,
       rest |-> <<>>, want |-> FALSE, again |-> FALSE, raised |-> "", cur |-> Cur0]
\* arguments of a call (every call carries every field)
A0 == [op |-> "", cls |-> "Operation", marg |-> 0, nk |-> "none", nm |-> "", und |-> FALSE, form |-> "expr", target |-> "",
       parents |-> <<>>, obs |-> FALSE, keep |-> TRUE, h |-> 0, x |-> "", r1 |-> 0, r2 |-> 0, P |-> <<>>, named |-> FALSE,
       setdef |-> FALSE]
Lit == [kind |-> "lit", id |-> 0]
RefP(i) == [kind |-> "ref", id |-> i]

Raise(W, k) == [W EXCEPT !.raised = k]
NeedDraw(W) == [W EXCEPT !.want = TRUE]
TakeDraw(W) == [W EXCEPT !.rest = Tail(@)]
ValidRef(W, r) == r.h \in 1..Len(W.models) /\ Has(W.models[r.h], r.name)
NewRef(h, name, cls) == [h |-> h, name |-> name, cls |-> cls, sync |-> TRUE, dead |-> FALSE]
AddModel(W, mname) == [W EXCEPT !.models = Append(@, [mname |-> mname, nodes |-> <<>>, obs |-> {}])]

\* ---- GraphicalModel.remove_node through ElfiModel.remove_node (dynamic dispatch: observed data of every removed node go)
RECURSIVE RemoveNode(_, _, _), RemoveSeq(_, _, _)
RemoveNode(F, m, x) ==
  LET ps == NodeAt(m, x).par                       \* get_parents(name), before the node goes
      kept == SelectSeq(m.nodes, LAMBDA n : n.name # x)
      m2 == [m EXCEPT !.nodes = [i \in 1..Len(kept) |-> [kept[i] EXCEPT !.par = SelectSeq(@, LAMBDA p : p # x)]],
                      !.obs = @ \ {x}]
  IN RemoveSeq(F, m2, ps)
\* "Remove sole private parents": p[0] == '_' and degree(p) == 0
RemoveSeq(F, m, ps) ==
  IF ps = <<>> THEN m
  ELSE LET p == Head(ps)
           goes == /\ Has(m, p) /\ NodeAt(m, p).priv /\ Degree(m, p) = 0
                   /\ ("cascade_constants_only" \in F => NodeAt(m, p).cls = "Constant")
       IN RemoveSeq(F, IF goes THEN RemoveNode(F, m, p) ELSE m, Tail(ps))

\* ------------------------------------------------------------------ stages of a node constructor
StRequire(F, W, a) == IF NeedsParent(a.cls) /\ a.parents = <<>> THEN Raise(W, "ValueError") ELSE W

StModel(F, W, a) ==
  IF a.marg = -1        \* model= something that is no ElfiModel: `return ValueError(...)` - the exception object IS the model now
  THEN (IF "invalid_model_raises" \in F THEN Raise(W, "ValueError") ELSE [W EXCEPT !.cur.h = -1])
  ELSE LET refPar == SelectSeq(a.parents, LAMBDA p : p.kind = "ref")
           hs == [i \in 1..Len(refPar) |-> W.refs[refPar[i].id].h]
           h1 == IF a.marg # 0 THEN a.marg ELSE IF Len(hs) > 0 THEN hs[1] ELSE 0
           clash == \E i \in 1..Len(hs) : hs[i] # h1
           dangling == \E i \in 1..Len(refPar) : ~ValidRef(W, W.refs[refPar[i].id])
       IN IF clash THEN Raise(W, "ValueError")                      \* 'Parents are from different models!'
          ELSE IF "create_atomic" \in F /\ dangling THEN Raise(W, "ValueError")
          ELSE IF h1 # 0 THEN [W EXCEPT !.cur.h = h1]
          ELSE IF W.default # 0 THEN [W EXCEPT !.cur.h = W.default]
          ELSE IF W.rest = <<>> THEN NeedDraw(W)                    \* get_default_model() creates ElfiModel(): model_<draw>
          ELSE LET W2 == AddModel(TakeDraw(W), "model_" \o Head(W.rest))
                   k == Len(W2.models)
               IN [W2 EXCEPT !.default = k, !.lastset = k, !.cur.h = k]

AutoBase(a) == "_" \o Lower[a.cls]
\* one iteration of `while True: name = base_<random_name()>; if not model.has_node(name): break`
NameLoop(W, names, base, priv) ==
  IF W.rest = <<>> THEN NeedDraw(W)
  ELSE LET cand == base \o "_" \o Head(W.rest)
           W1 == TakeDraw(W)
       IN IF W.cur.h = -1 THEN Raise(W1, "AttributeError")          \* <ValueError object>.has_node
          ELSE IF cand \in names THEN [W1 EXCEPT !.again = TRUE]
          ELSE [W1 EXCEPT !.cur.name = cand, !.cur.priv = priv, !.cur.auto = TRUE]

StName(F, W, a) ==
  LET h == W.cur.h
      names == IF h = -1 THEN {} ELSE NamesOf(W.models[h])
      inf == Inspect(a.form, a.target)
  IN CASE a.nk = "plain" -> [W EXCEPT !.cur.name = a.nm, !.cur.priv = a.und, !.cur.auto = FALSE]
       [] a.nk = "empty" -> Raise(W, IF "empty_name_refused" \in F THEN "ValueError" ELSE "IndexError")      \* name[-1]
       [] a.nk = "star" -> IF a.nm = "" THEN NameLoop(W, names, AutoBase(a), TRUE) ELSE NameLoop(W, names, a.nm, a.und)
       [] a.nk = "none" -> IF inf # "" /\ h = -1 THEN Raise(W, "AttributeError")
                           ELSE IF inf # "" /\ inf \notin names
                                THEN [W EXCEPT !.cur.name = inf, !.cur.priv = FALSE, !.cur.auto = FALSE]
                                ELSE NameLoop(W, names, AutoBase(a), TRUE)

StAdd(F, W, a) ==
  LET h == W.cur.h IN
  IF h = -1 THEN Raise(W, "AttributeError")                         \* <ValueError object>.add_node
  ELSE IF Has(W.models[h], W.cur.name) THEN Raise(W, "ValueError")   \* 'Node x already exists'
  ELSE [W EXCEPT !.models[h].nodes = Append(@, [name |-> W.cur.name, cls |-> a.cls, param |-> FALSE, priv |-> W.cur.priv,
                                                par |-> <<>>])]

WithParent(nodes, me, pn) == [i \in 1..Len(nodes) |-> IF nodes[i].name = me THEN [nodes[i] EXCEPT !.par = Append(@, pn)] ELSE nodes[i]]

StParent(F, W, a) ==
  LET h == W.cur.h
      me == W.cur.name
      p == a.parents[W.cur.k]
      m == W.models[h]
  IN IF p.kind = "lit"
     THEN \* parent_name = self._new_name('_' + self.name); Constant(parent, name=parent_name, model=self.model); add_edge
          LET r == NameLoop(W, NamesOf(m), "_" \o me, TRUE) IN
          IF r.want \/ r.again \/ r.raised # "" THEN r
          ELSE LET pn == r.cur.name
                   nodes1 == Append(m.nodes, [name |-> pn, cls |-> "Constant", param |-> FALSE, priv |-> TRUE, par |-> <<>>])
               IN [r EXCEPT !.models[h].nodes = WithParent(nodes1, me, pn),
                            !.cur = [W.cur EXCEPT !.k = @ + 1]]
     ELSE LET pn == W.refs[p.id].name IN
          IF ~Has(m, pn) THEN Raise(W, "ValueError")                 \* add_edge: 'Parent x does not exist' - the node stays
          ELSE [W EXCEPT !.models[h].nodes = WithParent(m.nodes, me, pn), !.cur.k = @ + 1]

StFinish(F, W, a) ==
  LET h == W.cur.h
      me == W.cur.name
      m == W.models[h]
      nodes1 == [i \in 1..Len(m.nodes) |-> IF m.nodes[i].name = me THEN [m.nodes[i] EXCEPT !.param = IsParamClass(a.cls)] ELSE m.nodes[i]]
      W1 == [W EXCEPT !.models[h].nodes = nodes1, !.models[h].obs = IF a.obs /\ Observable(a.cls) THEN @ \cup {me} ELSE @]
  IN IF a.keep THEN [W1 EXCEPT !.refs = Append(@, NewRef(h, me, a.cls))] ELSE W1

\* ------------------------------------------------------------------ the other public calls (single stage)
\* model[name] / model.get_reference(name)
Lookup(F, W, a) ==
  LET m == W.models[a.h] IN
  IF ~Has(m, a.x) THEN Raise(W, "KeyError")
  ELSE [W EXCEPT !.refs = Append(@, NewRef(a.h, a.x, NodeAt(m, a.x).cls))]

\* ref.parents: [self.model[p] for p in self.model.get_parents(self.name)]
ParentsOf(F, W, a) ==
  LET r == W.refs[a.r1] IN
  IF ~ValidRef(W, r) THEN Raise(W, "NetworkXError")
  ELSE LET m == W.models[r.h]
           ps == NodeAt(m, r.name).par
       IN [W EXCEPT !.refs = @ \o [i \in 1..Len(ps) |-> NewRef(r.h, ps[i], NodeAt(m, ps[i]).cls)]]

\* model.remove_node(name)
Remove(F, W, a) ==
  LET m == W.models[a.h] IN
  IF ~Has(m, a.x) THEN Raise(W, "NetworkXError")
  ELSE [W EXCEPT !.models[a.h] = RemoveNode(F, m, a.x)]

\* ref1.become(ref2) -> ElfiModel.update_node(ref1.name, ref2.name) -> GraphicalModel.update_node.
\* Domain: ref2's node has no children and is no descendant of ref1's node (anything else is known finding F14 of C14).
Become(F, W, a) ==
  LET s == W.refs[a.r1]
      o == W.refs[a.r2]
      h == s.h
      x == s.name
      y == o.name
      m == W.models[h]
  IN IF o.h # s.h THEN Raise(W, "ValueError")                        \* 'The other node belongs to a different model'
     ELSE IF "become_atomic" \in F /\ (~Has(m, x) \/ ~Has(m, y) \/ x = y) THEN Raise(W, "ValueError")
     \* observed.pop(updating_name) comes first; then edges(node) of a missing node raises
     ELSE IF ~Has(m, x) THEN Raise([W EXCEPT !.models[h].obs = @ \ {y}], "NetworkXError")
     \* remove_node(node) is done before nodes[updating_node] raises KeyError
     ELSE IF ~Has(m, y) \/ x = y THEN Raise([W EXCEPT !.models[h] = RemoveNode(F, [m EXCEPT !.obs = @ \ {y}], x)], "KeyError")
     ELSE LET yobs == y \in m.obs
              yn == NodeAt(m, y)
              xn == NodeAt(m, x)
              kids == ChildrenOf(m, x)
              m1 == RemoveNode(F, [m EXCEPT !.obs = @ \ {y}], x)        \* x, its observed data, its sole private parents
              \* add_node(x, attr_dict = y's) at the END of the node order; out-edges of x back; in-edges of y copied to x
              nodes2 == [i \in 1..Len(m1.nodes) |-> IF m1.nodes[i].name \in kids THEN [m1.nodes[i] EXCEPT !.par = NodeAt(m, m1.nodes[i].name).par]
                                                     ELSE m1.nodes[i]]
              m3 == [m1 EXCEPT !.nodes = Append(nodes2, [name |-> x, cls |-> yn.cls, param |-> yn.param, priv |-> xn.priv, par |-> yn.par])]
              m4 == RemoveNode(F, m3, y)
              m5 == [m4 EXCEPT !.obs = IF yobs THEN @ \cup {x} ELSE @]
              newcls == IF "become_class" \in F THEN yn.cls ELSE s.cls
              refs2 == [i \in 1..Len(W.refs) |->
                          IF i = a.r1 THEN [W.refs[i] EXCEPT !.cls = newcls, !.sync = TRUE]
                          ELSE IF i = a.r2 THEN [W.refs[i] EXCEPT !.name = x, !.sync = TRUE]
                          ELSE IF W.refs[i].h = h /\ W.refs[i].name = x THEN [W.refs[i] EXCEPT !.sync = FALSE]
                          ELSE W.refs[i]]
          IN [W EXCEPT !.models[h] = m5, !.refs = refs2]

\* model.parameter_names = P
SetParams(F, W, a) ==
  LET m == W.models[a.h]
      P == SeqSet(a.P)
      flagged == [i \in 1..Len(m.nodes) |-> [m.nodes[i] EXCEPT !.param = (m.nodes[i].name \in P)]]
  IN IF P \subseteq NamesOf(m) THEN [W EXCEPT !.models[a.h].nodes = flagged]
     ELSE Raise(IF "setter_atomic" \in F THEN W ELSE [W EXCEPT !.models[a.h].nodes = flagged], "ValueError")

\* set_default_model(model): marg 0 = None (a new ElfiModel()), -1 = not an ElfiModel
SetDefault(F, W, a) ==
  IF a.marg = -1 THEN Raise(W, "ValueError")
  ELSE IF a.marg # 0 THEN [W EXCEPT !.default = a.marg, !.lastset = a.marg]
  ELSE IF W.rest = <<>> THEN NeedDraw(W)
  ELSE LET W2 == AddModel(TakeDraw(W), "model_" \o Head(W.rest)) IN [W2 EXCEPT !.default = Len(W2.models), !.lastset = Len(W2.models)]

\* new_model(name, set_default) and ElfiModel(name) (setdef = FALSE); name None or '' -> model_<draw>
NewModel(F, W, a) ==
  IF ~a.named /\ W.rest = <<>> THEN NeedDraw(W)
  ELSE LET W1 == IF a.named THEN AddModel(W, a.nm) ELSE AddModel(TakeDraw(W), "model_" \o Head(W.rest))
           k == Len(W1.models)
       IN IF a.setdef THEN [W1 EXCEPT !.default = k, !.lastset = k] ELSE W1

\* get_default_model()
GetDefault(F, W, a) ==
  IF W.default # 0 THEN W
  ELSE IF W.rest = <<>> THEN NeedDraw(W)
  ELSE LET W2 == AddModel(TakeDraw(W), "model_" \o Head(W.rest)) IN [W2 EXCEPT !.default = Len(W2.models), !.lastset = Len(W2.models)]

\* ref.size (RandomVariable / Prior): self['size'] = self.state['size'], state being the networkx node dict
Size(F, W, a) ==
  IF ~ValidRef(W, W.refs[a.r1]) THEN Raise(W, "KeyError")
  ELSE IF "size_reads_attr_dict" \in F THEN W ELSE Raise(W, "KeyError")

\* ------------------------------------------------------------------ sequencing
Stages(a) == IF a.op = "create" THEN <<"require", "model", "name", "add">> \o [i \in 1..Len(a.parents) |-> "parent"] \o <<"finish">>
             ELSE <<a.op>>
Apply(F, W, a, stage) ==
  CASE stage = "require" -> StRequire(F, W, a)
    [] stage = "model" -> StModel(F, W, a)
    [] stage = "name" -> StName(F, W, a)
    [] stage = "add" -> StAdd(F, W, a)
    [] stage = "parent" -> StParent(F, W, a)
    [] stage = "finish" -> StFinish(F, W, a)
    [] stage = "lookup" -> Lookup(F, W, a)
    [] stage = "parents" -> ParentsOf(F, W, a)
    [] stage = "remove" -> Remove(F, W, a)
    [] stage = "become" -> Become(F, W, a)
    [] stage = "setparams" -> SetParams(F, W, a)
    [] stage = "setdefault" -> SetDefault(F, W, a)
    [] stage = "newmodel" -> NewModel(F, W, a)
    [] stage = "getdefault" -> GetDefault(F, W, a)
    [] stage = "size" -> Size(F, W, a)
    [] OTHER -> Raise(W, "X:unknown-stage")

\* ghosts, when the call is over: a reference whose node disappeared under it is dead (and out of sync for good)
MarkRefs(Wb, Wa) ==
  [Wa EXCEPT !.refs = [i \in 1..Len(Wa.refs) |->
      IF i <= Len(Wb.refs) /\ ValidRef(Wb, Wb.refs[i]) /\ ~ValidRef(Wa, Wa.refs[i])
      THEN [Wa.refs[i] EXCEPT !.dead = TRUE, !.sync = FALSE] ELSE Wa.refs[i]]]

Entered(W) == [W EXCEPT !.raised = "", !.want = FALSE, !.again = FALSE, !.rest = <<>>, !.cur = Cur0]
\* runs the stages of the call until it is over, raises, or needs a draw it does not have; .todo = the stages still to run
RECURSIVE Advance(_, _, _, _)
Advance(F, W, a, todo) ==
  IF todo = <<>> \/ W.raised # "" THEN [w |-> W, todo |-> <<>>]
  ELSE LET r == Apply(F, W, a, Head(todo)) IN
       IF r.want THEN [w |-> r, todo |-> todo]
       ELSE IF r.again THEN Advance(F, [r EXCEPT !.again = FALSE], a, todo)
       ELSE Advance(F, r, a, Tail(todo))
\* the composed call: every draw the call will make is given up front; afterwards .want = "it asked for one more",
\* .rest = the draws it did not ask for
Run(F, W, a, draws) == MarkRefs(W, Advance(F, [Entered(W) EXCEPT !.rest = draws], a, Stages(a)).w)

\* ------------------------------------------------------------------ what a user relies on (over a world record)
Live(W) == 1..Len(W.models)
\* names are unique per model
InvNamesUnique(W) == \A h \in Live(W) : NoDup([i \in 1..Len(W.models[h].nodes) |-> W.models[h].nodes[i].name])
\* parents and observed data refer to nodes of the same model
InvClosed(W) == \A h \in Live(W) : LET m == W.models[h] IN
                   /\ \A i \in 1..Len(m.nodes) : SeqSet(m.nodes[i].par) \subseteq NamesOf(m)
                   /\ m.obs \subseteq NamesOf(m)
\* a reference that is in sync with its node round-trips: model[name] has the same model, name and class
InvRoundTrip(W) == \A i \in 1..Len(W.refs) : LET r == W.refs[i] IN
                     (r.sync /\ ValidRef(W, r)) => NodeAt(W.models[r.h], r.name).cls = r.cls
\* a reference whose node was removed stays dangling (NOT kept by name-based references: control)
InvStaleNeverRevives(W) == \A i \in 1..Len(W.refs) : W.refs[i].dead => ~ValidRef(W, W.refs[i])
\* the default model is the one last set / newly created as the default
InvDefaultIsLast(W) == W.default = W.lastset /\ W.default \in 0..Len(W.models)
\* model names are unique (NOT kept: ElfiModel() never checks its random name - control)
InvModelNamesUnique(W) == \A h, k \in Live(W) : h # k => W.models[h].mname # W.models[k].mname
\* only Prior-class nodes are flagged unless the user says so with the setter: checked as an action property in the design module
DocumentedRaises == {"", "ValueError", "KeyError", "NetworkXError"}
InvDocumentedRaise(W) == W.raised \in DocumentedRaises
\* a call that raises has changed no model (a default model created on the way stays: it is empty)
SameModels(Wb, Wa) == /\ Len(Wa.models) >= Len(Wb.models)
                      /\ \A h \in 1..Len(Wb.models) : Wa.models[h] = Wb.models[h]
                      /\ \A h \in (Len(Wb.models) + 1)..Len(Wa.models) : Wa.models[h].nodes = <<>>
RefusedChangesNothing(Wb, Wa) == Wa.raised # "" => SameModels(Wb, Wa)
\* no call on one model changes another one
TargetOf(W, a) == CASE a.op = "create" -> W.cur.h
                    [] a.op \in {"lookup", "remove", "setparams"} -> a.h
                    [] a.op \in {"become", "parents", "size"} -> W.refs[a.r1].h
                    [] OTHER -> 0
OthersUnchanged(Wb, Wa, a) == \A h \in 1..Len(Wb.models) : h # TargetOf(Wa, a) => Wa.models[h] = Wb.models[h]
\* a successful constructor adds exactly its node (last but for its constants) to exactly one model; an auto-generated name is new
CreateLands(Wb, Wa, a) ==
  (a.op = "create" /\ Wa.raised = "") =>
     LET h == Wa.cur.h
         before == IF h <= Len(Wb.models) THEN NamesOf(Wb.models[h]) ELSE {}
         nlit == Cardinality({i \in 1..Len(a.parents) : a.parents[i].kind = "lit"})
         m == Wa.models[h]
         added == NamesOf(m) \ before
     IN /\ Wa.cur.name \notin before /\ Wa.cur.name \in added
        /\ Cardinality(added) = 1 + nlit /\ Len(m.nodes) = Cardinality(before) + 1 + nlit
        /\ \A x \in added \ {Wa.cur.name} : NodeAt(m, x).cls = "Constant" /\ NodeAt(m, x).priv /\ x \in SeqSet(NodeAt(m, Wa.cur.name).par)
        /\ NodeAt(m, Wa.cur.name).param = IsParamClass(a.cls)
        /\ (a.nk = "plain" => Wa.cur.name = a.nm)
        /\ (a.nk = "none" /\ Inspect(a.form, a.target) # "" /\ Inspect(a.form, a.target) \notin before => Wa.cur.name = a.target)
\* remove_node(x) removes x and, of other nodes, only Constants
RemoveOnlyConstants(Wb, Wa, a) ==
  (a.op = "remove" /\ Wa.raised = "") =>
     LET mb == Wb.models[a.h] IN
     \A n \in NamesOf(mb) \ NamesOf(Wa.models[a.h]) : n = a.x \/ NodeAt(mb, n).cls = "Constant"
\* after a.become(b) both references are a's node: same model, same name, the class model[name] has
BecomeRefsAgree(Wa, a) ==
  (a.op = "become" /\ Wa.raised = "") =>
     LET s == Wa.refs[a.r1]  o == Wa.refs[a.r2] IN
     /\ s.h = o.h /\ s.name = o.name /\ ValidRef(Wa, s)
     /\ NodeAt(Wa.models[s.h], s.name).cls = s.cls /\ o.cls = s.cls

\* ------------------------------------------------------------------ projection (what the harness can see of a world)
ProjRef(r) == [h |-> r.h, name |-> r.name, cls |-> r.cls]
Proj(W) == [models |-> W.models, default |-> W.default, refs |-> [i \in 1..Len(W.refs) |-> ProjRef(W.refs[i])]]

\* ========================================================================================================
\* ComputationContext / BatchHandler bookkeeping (elfi_model.ComputationContext, client.BatchHandler.submit / wait_next /
\* cancel_pending / reset / compute, loader.AdditionalNodesLoader: the `meta` dict a node with uses_meta = True receives).
\* A context world C:
\*   ctxs      sequence of [bs, seed, pool, nsub]: batch_size, seed (-2 = 'global'), pool id (0 = None), num_submissions
\*   pools     sequence of [bs, seed]: the pool's batch_size / seed (-1 = None); has_context = both are set
\*   hds       sequence of [ctx, next, pend]: BatchHandler.context, _next_batch_index, _pending_batches as a sequence of
\*             [bi, si] (batch index, the submission_index loaded into its meta dict)
\*   ret       what the last call returned: [bi, si, ms] (the batch index wait_next returns / compute was given, and the
\*             submission_index / master_seed the uses_meta node saw), <<>> if nothing
\* Arguments -1 = None, -2 = 'global'.
\* ========================================================================================================
C0 == [ctxs |-> <<>>, pools |-> <<>>, hds |-> <<>>, ret |-> <<>>, raised |-> ""]
B0 == [op |-> "", bs |-> -1, seed |-> -1, pool |-> 0, rs |-> 0, ctx |-> 0, hd |-> 0, bi |-> 0]
PoolHasContext(p) == p.seed # -1 /\ p.bs # -1
CRaise(C, k) == [C EXCEPT !.raised = k]

\* ComputationContext(batch_size, seed, pool); b.rs = what random_seed() returns if it is asked
NewCtx(C, b) ==
  LET hasP == b.pool # 0
      p == IF hasP THEN C.pools[b.pool] ELSE [bs |-> -1, seed |-> -1]
      inherit == hasP /\ PoolHasContext(p)
      bs1 == IF inherit /\ b.bs = -1 THEN p.bs ELSE b.bs
      seed1 == IF inherit /\ b.seed = -1 THEN p.seed ELSE b.seed
      bs2 == IF bs1 = -1 \/ bs1 = 0 THEN 1 ELSE bs1                 \* batch_size or 1
      seed2 == IF seed1 = -1 THEN b.rs ELSE seed1                   \* random_seed() if seed is None (0 is a seed)
      C1 == [C EXCEPT !.ctxs = Append(@, [bs |-> bs2, seed |-> seed2, pool |-> b.pool, nsub |-> 0])]
  IN IF inherit /\ b.bs # -1 /\ b.bs # p.bs THEN CRaise(C, "ValueError")
     ELSE IF inherit /\ b.seed # -1 /\ b.seed # p.seed THEN CRaise(C, "ValueError")
     ELSE IF hasP /\ ~PoolHasContext(p) THEN [C1 EXCEPT !.pools[b.pool] = [bs |-> bs2, seed |-> seed2]]       \* pool.set_context
     ELSE C1
NewPool(C, b) == [C EXCEPT !.pools = Append(@, [bs |-> -1, seed |-> -1])]
NewHandler(C, b) == [C EXCEPT !.hds = Append(@, [ctx |-> b.ctx, next |-> 0, pend |-> <<>>])]
Submit(C, b) ==
  LET hd == C.hds[b.hd]  cx == C.ctxs[hd.ctx] IN
  [C EXCEPT !.hds[b.hd].pend = Append(@, [bi |-> hd.next, si |-> cx.nsub]), !.hds[b.hd].next = @ + 1,
            !.ctxs[hd.ctx].nsub = @ + 1]
WaitNext(C, b) ==
  LET hd == C.hds[b.hd] IN
  IF hd.pend = <<>> THEN CRaise(C, "ValueError")
  ELSE [C EXCEPT !.hds[b.hd].pend = Tail(@), !.ret = <<Head(hd.pend).bi, Head(hd.pend).si, C.ctxs[hd.ctx].seed>>]
CancelPending(C, b) ==
  LET hd == C.hds[b.hd] IN
  IF hd.pend = <<>> THEN C ELSE [C EXCEPT !.hds[b.hd].pend = <<>>, !.hds[b.hd].next = Head(hd.pend).bi]
Reset(C, b) == [CancelPending(C, b) EXCEPT !.hds[b.hd].next = 0]
Compute(C, b) == LET hd == C.hds[b.hd] IN [C EXCEPT !.ret = <<b.bi, C.ctxs[hd.ctx].nsub, C.ctxs[hd.ctx].seed>>]
\* model.generate(batch_size, outputs, seed=): a fresh context every time (seed None -> 'global'), batch index 0
Generate(C, b) == [C EXCEPT !.ret = <<0, 0, IF b.seed = -1 THEN -2 ELSE b.seed>>]

CEntered(C) == [C EXCEPT !.raised = "", !.ret = <<>>]
CRun(C, b) ==
  LET E == CEntered(C) IN
  CASE b.op = "newctx" -> NewCtx(E, b)
    [] b.op = "newpool" -> NewPool(E, b)
    [] b.op = "handler" -> NewHandler(E, b)
    [] b.op = "submit" -> Submit(E, b)
    [] b.op = "wait" -> WaitNext(E, b)
    [] b.op = "cancel" -> CancelPending(E, b)
    [] b.op = "reset" -> Reset(E, b)
    [] b.op = "compute" -> Compute(E, b)
    [] b.op = "generate" -> Generate(E, b)
    [] OTHER -> CRaise(E, "X:unknown-op")
=============================================================================

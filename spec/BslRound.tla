------------------------------ MODULE BslRound ------------------------------
(***************************************************************************)
(* Design module for clause (e) of C20 and for the round structure that    *)
(* clauses (a), (d) rest on: elfi's ModelBased / BSL round machine         *)
(* (parameter_inference.py: ModelBased.update / _merge_batch /             *)
(* _allow_submit / set_objective;  bsl.py: BSL._init_round /               *)
(* _process_simulated / current_params) on top of the scheduling loop of   *)
(* Batches.tla (iterate(): submit while allowed; wait_next(); update()),   *)
(* against an adversarial client (every is_ready answer is a free choice). *)
(*                                                                         *)
(* Values are ids: every proposal gets a fresh id; chain[n] is the id      *)
(* stored in state['params'][n].  A batch carries the id that              *)
(* current_params = state['params'][state['n_samples']] had when           *)
(* prepare_new_batch was called, i.e. at SUBMISSION time.                  *)
(*                                                                         *)
(* Code -> action map                                                      *)
(*   iterate(): while _allow_submit(): submit(prepare_new_batch())  Submit *)
(*       ModelBased._allow_submit: a batch that starts a new round is not  *)
(*       submitted while batches are pending (Gate)                        *)
(*   iterate(): leaving the while loop                              GoWait *)
(*   iterate(): wait_next(); update():                              Consume*)
(*       _merge_batch; when n_sim_round rows are there:                    *)
(*       _process_simulated (likelihood on the rows; accept / reject);     *)
(*       round += 1; if round < objective['round']: _init_round():         *)
(*         loop: propose; if the prior density is 0 there: copy the        *)
(*         previous state, n_samples += 1, objective['round'] -= 1, go on  *)
(*         WITHOUT simulating; else store the proposal and leave the loop  *)
(*   infer(): loop exit                                             Finish *)
(*                                                                         *)
(* Theorems                                                                *)
(*   NoSimForRejected  no batch is ever simulated at a proposal that lies  *)
(*                     outside the prior support                           *)
(*   ChainLength       on return the chain has exactly N entries, every    *)
(*                     one either its step's proposal or a copy of its     *)
(*                     predecessor, and the counters agree:                *)
(*                     rounds = N - rejected-without-simulation            *)
(*   RoundsAligned     every likelihood evaluation sees exactly NB batches *)
(*                     all simulated at the proposal of that step          *)
(*   PosteriorOfCurrent the posterior that enters the "current" side of    *)
(*                     every MH ratio is likelihood + prior OF THE CURRENT *)
(*                     CHAIN STATE.  state['logprior'] (lp) is a slot      *)
(*                     array like params; with a misspecification-adjusted *)
(*                     likelihood every pass of the _init_round loop       *)
(*                     recomputes logposterior[n-1] = ll + logprior[n-1],  *)
(*                     so a slot filled by a rejection must carry the      *)
(*                     previous slot's log-prior (CopyLp).                 *)
(* Negative controls: CopyLp = FALSE with Misspec = TRUE refutes           *)
(* PosteriorOfCurrent;  Gate = FALSE refutes RoundsAligned (a batch of the   *)
(* next round is prepared from the previous proposal); TestFirst = FALSE   *)
(* (simulate, then let the zero prior reject) refutes NoSimForRejected.    *)
(***************************************************************************)
EXTENDS Naturals, Sequences, FiniteSets, TLC

CONSTANTS N,           \* requested chain length (n_samples, burn-in included)
          NB,          \* batches per round = n_sim_round / batch_size
          MaxPar,      \* max_parallel_batches
          Gate,        \* TRUE: ModelBased._allow_submit as coded
          TestFirst,   \* TRUE: _init_round tests the prior before simulating (as coded)
          Misspec,     \* TRUE: robust likelihood: the loop recomputes logposterior[n-1] from logprior[n-1]
          CopyLp       \* TRUE: the rejecting branch copies logprior[n-1] to slot n (as coded)

VARIABLES pc,          \* "submit" | "wait" | "done"
          next,        \* BatchHandler._next_batch_index
          pending,     \* submitted, not yet consumed: sequence of [index, val]
          nCons,       \* state['n_batches']
          round,       \* state['round']
          objRound,    \* objective['round']
          nS,          \* state['n_samples']
          rows,        \* ids of the batches merged in the current round (state['n_sim_round'] / batch_size of them)
          chain,       \* 0..N-1 -> id stored in state['params'] (0 = the initial zeros)
          prop,        \* history: 0..N-1 -> id proposed for that position (0 = none yet)
          oos,         \* history: ids of proposals outside the prior support
          simAt,       \* history: ids some batch was simulated at
          liks,        \* history: likelihood evaluations [n, rows]
          lp,          \* 0..N-1 -> id whose prior density is stored in state['logprior'] (0 = the initial zeros)
          pp,          \* 0..N-1 -> id whose prior density is inside state['logposterior'] (0 = none)
          used,        \* history: per MH ratio [n, prior (id inside the current side's posterior), cur (id of chain[n-1])]
          nextId
vars == <<pc, next, pending, nCons, round, objRound, nS, rows, chain, prop, oos, simAt, liks, lp, pp, used, nextId>>

Obj == objRound * NB                          \* set_objective: n_batches = rounds * (n_sim_round / batch_size)
Finished == Obj <= nCons
HasToSubmit == Obj > nCons + Len(pending)
StartsRound == next % NB = 0                  \* (batch_index * batch_size) % n_sim_round = 0
Allowed == /\ MaxPar > Len(pending) /\ HasToSubmit
           /\ (Gate => ~(StartsRound /\ pending # <<>>))

\* _init_state: params[0] = params0 (id 1, inside the support: checked by _init_state)
Init == /\ pc = "submit" /\ next = 0 /\ pending = <<>> /\ nCons = 0 /\ round = 0 /\ objRound = N
        /\ nS = 0 /\ rows = <<>>
        /\ chain = [i \in 0..(N - 1) |-> IF i = 0 THEN 1 ELSE 0]
        /\ prop = [i \in 0..(N - 1) |-> IF i = 0 THEN 1 ELSE 0]
        /\ lp = [i \in 0..(N - 1) |-> IF i = 0 THEN 1 ELSE 0]
        /\ pp = [i \in 0..(N - 1) |-> 0] /\ used = <<>>
        /\ oos = {} /\ simAt = {} /\ liks = <<>> /\ nextId = 2

Submit ==
  /\ pc = "submit" /\ ~Finished /\ Allowed /\ nS < N
  /\ pending' = Append(pending, [index |-> next, val |-> chain[nS]])
  /\ next' = next + 1
  /\ UNCHANGED <<pc, nCons, round, objRound, nS, rows, chain, prop, oos, simAt, liks, lp, pp, used, nextId>>

GoWait ==
  /\ pc = "submit" /\ ~Finished /\ pending # <<>>
  /\ pc' = "wait"
  /\ UNCHANGED <<next, pending, nCons, round, objRound, nS, rows, chain, prop, oos, simAt, liks, lp, pp, used, nextId>>

\* k out-of-support proposals in a row, starting at position m with first fresh id f
RECURSIVE CopyDown(_, _, _)
CopyDown(ch, m, k) == IF k = 0 THEN ch ELSE CopyDown([ch EXCEPT ![m] = ch[m - 1]], m + 1, k - 1)
RECURSIVE PropIds(_, _, _, _)
PropIds(pr, m, f, k) == IF k = 0 THEN pr ELSE PropIds([pr EXCEPT ![m] = f], m + 1, f + 1, k - 1)

\* one pass of the _init_round loop for position m, in a robust run: logposterior[m-1] = ll + logprior[m-1]
Recompute(po, lpr, m) == IF Misspec THEN [po EXCEPT ![m - 1] = lpr[m - 1]] ELSE po
\* k rejecting passes starting at position m: each recomputes slot m-1, then copies params / logposterior
\* (and, when CopyLp, logprior) from slot m-1 to slot m
RECURSIVE RejectLp(_, _, _)
RejectLp(lpr, m, k) == IF k = 0 THEN lpr
                       ELSE RejectLp(IF CopyLp THEN [lpr EXCEPT ![m] = lpr[m - 1]] ELSE lpr, m + 1, k - 1)
RECURSIVE RejectPp(_, _, _, _)
RejectPp(po, lpr, m, k) ==
  IF k = 0 THEN po
  ELSE LET p1 == Recompute(po, lpr, m)
           l1 == IF CopyLp THEN [lpr EXCEPT ![m] = lpr[m - 1]] ELSE lpr
       IN RejectPp([p1 EXCEPT ![m] = p1[m - 1]], l1, m + 1, k - 1)

\* the state after _process_simulated at position m decided `acc`, then round += 1 and (maybe) _init_round
AfterRound(acc, m, k, bad) ==
  LET ch1 == IF acc THEN chain ELSE [chain EXCEPT ![m] = chain[m - 1]]
      \* _process_simulated: logposterior[m] = loglik + logprior[m]; on rejection all three slots are copied
      pp0 == [pp EXCEPT ![m] = lp[m]]
      lp1 == IF acc THEN lp ELSE [lp EXCEPT ![m] = lp[m - 1]]
      pp1 == IF acc THEN pp0 ELSE [pp0 EXCEPT ![m] = pp0[m - 1]]
      m1 == m + 1
      r1 == round + 1
      enter == r1 < objRound                   \* update(): if state['round'] < objective['round']: _init_round()
      kk == IF enter THEN k ELSE 0
      more == enter /\ m1 + kk < N             \* the loop ends with an in-support proposal
      ch2 == CopyDown(ch1, m1, kk)
      pr2 == PropIds(prop, m1, nextId, kk)
      idp == nextId + kk
      lp2 == RejectLp(lp1, m1, kk)
      pp2 == RejectPp(pp1, lp1, m1, kk)
      \* the accepting pass: recompute slot m1+kk-1, then logprior[m1+kk] = prior of the proposal
      pp3 == IF more THEN Recompute(pp2, lp2, m1 + kk) ELSE pp2
  IN /\ chain' = IF more THEN [ch2 EXCEPT ![m1 + kk] = idp] ELSE ch2
     /\ prop' = IF more THEN [pr2 EXCEPT ![m1 + kk] = idp] ELSE pr2
     /\ lp' = IF more THEN [lp2 EXCEPT ![m1 + kk] = idp] ELSE lp2
     /\ pp' = pp3
     /\ oos' = oos \cup (nextId..(nextId + kk - 1)) \cup (IF more /\ bad THEN {idp} ELSE {})
     /\ nextId' = IF more THEN idp + 1 ELSE idp
     /\ nS' = m1 + kk
     /\ objRound' = objRound - kk
     /\ round' = r1

Consume ==
  /\ pc = "wait"
  /\ LET h == Head(pending)
         rs == Append(rows, h.val)
     IN /\ pending' = Tail(pending)
        /\ nCons' = nCons + 1
        /\ simAt' = simAt \cup {h.val}
        /\ IF Len(rs) < NB
           THEN /\ rows' = rs
                /\ UNCHANGED <<round, objRound, nS, chain, prop, oos, liks, lp, pp, used, nextId>>
           ELSE /\ rows' = <<>>
                /\ liks' = Append(liks, [n |-> nS, rows |-> rs])
                \* _get_mh_ratio reads logposterior[n-1]
                /\ used' = IF nS = 0 THEN used ELSE Append(used, [n |-> nS, prior |-> pp[nS - 1], cur |-> chain[nS - 1]])
                /\ \E acc \in BOOLEAN : \E k \in 0..(N - nS - 1) : \E bad \in BOOLEAN :
                      \* position 0 is always accepted; a proposal outside the support (only simulated
                      \* when TestFirst = FALSE) has posterior 0 and is always rejected
                      /\ (nS = 0 => acc)
                      /\ (chain[nS] \in oos => ~acc)
                      /\ (TestFirst => ~bad) /\ (~TestFirst => k = 0)
                      /\ AfterRound(acc, nS, k, bad)
  /\ pc' = "submit"
  /\ UNCHANGED next

Finish ==
  /\ pc = "submit" /\ Finished
  /\ pc' = "done"
  /\ UNCHANGED <<next, pending, nCons, round, objRound, nS, rows, chain, prop, oos, simAt, liks, lp, pp, used, nextId>>

Next == Submit \/ GoWait \/ Consume \/ Finish
Spec == Init /\ [][Next]_vars /\ WF_vars(Next)

\* ---- theorems -------------------------------------------------------------------------------------
NoSimForRejected == /\ simAt \cap oos = {}
                    /\ \A i \in 1..Len(pending) : pending[i].val \notin oos
RoundsAligned == \A i \in 1..Len(liks) :
                   /\ Len(liks[i].rows) = NB
                   /\ \A r \in 1..NB : liks[i].rows[r] = prop[liks[i].n]
ChainStep == \A m \in 1..(N - 1) : m < nS => (chain[m] = prop[m] \/ chain[m] = chain[m - 1])
RejectedKeepState == \A m \in 1..(N - 1) : (m < nS /\ prop[m] \in oos) => chain[m] = chain[m - 1]
ChainLength ==
  pc = "done" => /\ nS = N /\ \A m \in 0..(N - 1) : chain[m] # 0 /\ prop[m] # 0
                 /\ round = objRound /\ Len(liks) = round /\ nCons = round * NB /\ next = nCons
                 /\ round = N - Cardinality({m \in 0..(N - 1) : prop[m] \in oos /\ prop[m] \notin simAt})
                 /\ pending = <<>>
\* the current side of every MH ratio is the posterior of the current chain state
PosteriorOfCurrent == \A i \in 1..Len(used) : used[i].prior = used[i].cur
\* every decided slot stores the log-prior of its own parameters
StoredPriorOfSlot == \A m \in 0..(N - 1) : m < nS => lp[m] = chain[m]
\* one likelihood evaluation per simulated position, in chain order
OneEvalPerPosition == \A i \in 1..Len(liks) : \A j \in 1..Len(liks) : i < j => liks[i].n < liks[j].n
\* prepare_new_batch never reads past the end of state['params']
CurrentParamsDefined == (pc = "submit" /\ ~Finished /\ Allowed) => nS < N
NeverWaitsOnNothing == pc = "wait" => pending # <<>>
Terminates == <>(pc = "done")
=============================================================================

---------------------------- MODULE Moments_Trace ----------------------------
(***************************************************************************)
(* C09, clause e ("on standard targets reproduce the target's moments").    *)
(* A trace is one long seeded run of a kernel on a standard target with     *)
(* known moments; the harness logs, per statistic (a mean of a function of  *)
(* the state), the chain average, the exact value and a batch-means         *)
(* standard error (T4 oracle fields, fixed point 1e-6).  TLC judges the     *)
(* relation |average - exact| <= 6 standard errors + 0.002: a run of a      *)
(* correct kernel fails it with probability < 1e-5 (Student t, 19 degrees   *)
(* of freedom), a kernel that does not leave the target invariant fails it  *)
(* once the run is long enough.  This is a statistical relation checked on  *)
(* deterministic (seeded) runs, not a state-space argument; see DESIGN 8.   *)
(***************************************************************************)
EXTENDS Naturals, Integers, Sequences, TLC, Json, IOUtils

Traces == JsonDeserialize(IOEnv.TRACE_FILE)
VARIABLES tid, l, verdict, drift, done
vars == <<tid, l, verdict, drift, done>>
T == Traces[tid]
Abs(x) == IF x < 0 THEN -x ELSE x

Init == tid \in 1..Len(Traces) /\ l = 1 /\ verdict = "ok" /\ drift = "" /\ done = FALSE

Judge ==
  IF T.res # "ok" THEN "P:returns-the-requested-number-of-states"
  ELSE IF T.nonfinite THEN "P:finite-output"
  ELSE IF \E i \in 1..Len(T.stats) : Abs(T.stats[i].est - T.stats[i].exact) > 6 * T.stats[i].se + 2000
       THEN "P:reproduces-the-moments-of-a-standard-target"
  ELSE "ok"

Step == /\ ~done
        /\ IF l > 1 THEN done' = TRUE /\ UNCHANGED <<tid, l, verdict, drift>>
           ELSE verdict' = Judge /\ done' = (Judge # "ok") /\ l' = l + 1 /\ UNCHANGED <<tid, drift>>
Spec == Init /\ [][Step]_vars
Report == done => PrintT(<<"V", tid, l, verdict, drift>>)
=============================================================================

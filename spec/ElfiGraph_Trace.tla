-------------------------- MODULE ElfiGraph_Trace --------------------------
(***************************************************************************)
(* Trace validation for C14.  A trace is an edit history on real           *)
(* ElfiModels (handles "m", "k", ...), each action followed by the         *)
(* projection of EVERY live model as the public API shows it:              *)
(*   nodes [name, kind, op id], edges [parent, child, param], observed     *)
(*   [name, value id], params (nodes flagged as parameters), pnames (what  *)
(*   parameter_names returns, in order), priv (private constants), and     *)
(*   the digest of a seeded generate() (dg).                               *)
(* P: clauses are stated on the observed projections before / after the    *)
(* action; M: clauses compare them with the store of ElfiGraphOps.tla.     *)
(***************************************************************************)
EXTENDS Naturals, Integers, Sequences, FiniteSets, TLC, Json, IOUtils, ElfiGraphOps

Traces == JsonDeserialize(IOEnv.TRACE_FILE)
VARIABLES tid, l, st, prevObs, verdict, drift, done
vars == <<tid, l, st, prevObs, verdict, drift, done>>
T == Traces[tid]

SeqSet(s) == {s[i] : i \in 1..Len(s)}
Rank == [a |-> 1, b |-> 2, c |-> 3, d |-> 4, e |-> 5, f |-> 6, g |-> 7, h |-> 8]
\* observed projection (JSON) -> the record shape of ElfiGraphOps!Proj
OProj(o) == [nodes |-> {<<t[1], t[2], t[3]>> : t \in SeqSet(o.nodes)},
             edges |-> {<<t[1], t[2], t[3]>> : t \in SeqSet(o.edges)},
             observed |-> {<<t[1], t[2]>> : t \in SeqSet(o.observed)},
             params |-> SeqSet(o.params), priv |-> SeqSet(o.priv)]
ObsAll(e) == [h \in DOMAIN e.obs |-> OProj(e.obs[h])]

Init == /\ tid \in 1..Len(Traces) /\ l = 1
        /\ st = [models |-> ("m" :> [nodes |-> {}, edges |-> {}, cell |-> <<>>, obs |-> 0, priv |-> {}]),
                 heap |-> <<>>, oheap |-> (0 :> {}), next |-> 1]
        /\ prevObs = ("m" :> [nodes |-> {}, edges |-> {}, observed |-> {}, params |-> {}, priv |-> {}])
        /\ verdict = "ok" /\ drift = "" /\ done = FALSE

Apply(S, e) ==
  CASE e.a = "add" -> DoAdd(S, e.h, e.x, e.kind, e.op, e.parents, SeqSet(e.privs), e.kind = "prior")
    [] e.a = "addedge" -> DoAddEdge(S, e.h, e.y, e.x, e.v)
    [] e.a = "become" -> DoBecome(S, e.h, e.x, e.y)
    [] e.a = "remove" -> DoRemove(S, e.h, e.x)
    [] e.a = "setparams" -> DoSetParams(S, e.h, SeqSet(e.P))
    [] e.a = "setobs" -> DoSetObs(S, e.h, e.x, e.v)
    [] e.a = "copy" -> DoCopy(S, e.h, e.h2, FALSE)
    [] e.a = "saveload" -> DoSaveLoad(S, e.h, e.h2)

NodeOf(p, x) == CHOOSE t \in p.nodes : t[1] = x
HasNode(p, x) == \E t \in p.nodes : t[1] = x
ObsOf(p, x) == {o[2] : o \in {q \in p.observed : q[1] = x}}
NamesOf(p) == {t[1] : t \in p.nodes}
SortedByRank(s) == \A i \in 1..(Len(s) - 1) : Rank[s[i]] < Rank[s[i + 1]]

BecomeOK(b, a, x, y) ==
  /\ ~HasNode(a, y) /\ HasNode(a, x)
  /\ NodeOf(a, x)[2] = NodeOf(b, y)[2] /\ NodeOf(a, x)[3] = NodeOf(b, y)[3]
  /\ {e \in a.edges : e[1] = x} = {e \in b.edges : e[1] = x /\ e[2] # y}
  /\ {<<e[1], e[3]>> : e \in {f \in a.edges : f[2] = x}} = {<<e[1], e[3]>> : e \in {f \in b.edges : f[2] = y /\ f[1] # x}}
  /\ ObsOf(a, x) = ObsOf(b, y)
  /\ \A t \in b.nodes : (t[1] \notin {x, y} /\ t[1] \notin b.priv) => t \in a.nodes
RemoveOK(b, a, x) ==
  LET aN == NamesOf(a)
      solePriv == {p \in b.priv : \A e \in b.edges : (e[1] = p \/ e[2] = p) => (e[1] = p /\ e[2] = x /\ e[3] \in Nat)}
  IN /\ x \notin aN /\ ObsOf(a, x) = {}
     /\ aN = NamesOf(b) \ ({x} \cup {p \in solePriv : \E e \in b.edges : e[1] = p /\ e[2] = x})
     /\ a.edges = {e \in b.edges : e[1] \in aN /\ e[2] \in aN}
     /\ a.observed = {o \in b.observed : o[1] # x}

JudgeP(e) ==
  LET now == ObsAll(e)
      b == prevObs[e.h]
      a == now[e.h]
  IN IF e.raised # "" THEN "P:edit-raised"
     ELSE IF \E h \in DOMAIN now : ~Consistent(now[h]) THEN "P:consistent-acyclic-graph"
     ELSE IF \E h \in DOMAIN now : SeqSet(e.obs[h].pnames) # now[h].params \/ Len(e.obs[h].pnames) # Cardinality(now[h].params)
             \/ ~SortedByRank(e.obs[h].pnames) THEN "P:parameter-names-exact-and-sorted"
     \* get_parents(x) = the positional parents of x in position order (positions are 1-based in the projection)
     ELSE IF \E h \in DOMAIN now : \E g \in SeqSet(e.obs[h].gp) :
               LET pos == {ed \in now[h].edges : ed[2] = g[1] /\ ed[3] >= 1}
               IN \/ Len(g[2]) # Cardinality(pos)
                  \/ \E i \in 1..Len(g[2]) : \E j \in 1..Len(g[2]) :
                        i < j /\ (\E ea, eb \in pos : ea[1] = g[2][i] /\ eb[1] = g[2][j] /\ ea[3] > eb[3])
                  \/ \E i \in 1..Len(g[2]) : ~\E ea \in pos : ea[1] = g[2][i]
          THEN "P:get_parents-lists-the-positional-parents-in-position-order"
     ELSE IF \E h \in DOMAIN prevObs : h # e.h /\ now[h] # prevObs[h] THEN "P:other-models-unchanged"
     ELSE IF e.a = "become" /\ ~BecomeOK(b, a, e.x, e.y) THEN "P:become-contract"
     ELSE IF e.a = "remove" /\ ~RemoveOK(b, a, e.x) THEN "P:remove-contract"
     ELSE IF e.a = "addedge" /\ ~(a.edges = b.edges \cup {<<e.y, e.x, e.v>>} /\ a.nodes = b.nodes) THEN "P:added-edge-fills-the-given-slot"
     ELSE IF e.a \in {"copy", "saveload"} /\ now[e.h2] # now[e.h] THEN "P:copy-has-same-structure"
     ELSE IF e.a = "copy" /\ e.obs[e.h2].dg # e.obs[e.h].dg THEN "P:copy-generates-same-seeded-outputs"
     ELSE IF e.a = "saveload" /\ e.obs[e.h2].dg # e.obs[e.h].dg THEN "P:saved-and-loaded-generates-same-seeded-outputs"
     ELSE IF e.a = "setparams" /\ a.params # SeqSet(e.P) THEN "P:parameter-flags-set"
     ELSE IF e.a = "setobs" /\ ObsOf(a, e.x) # {e.v} THEN "P:observed-data-set"
     ELSE "ok"

JudgeM(e, S2) ==
  IF DOMAIN S2.models # DOMAIN e.obs THEN "M:handles"
  ELSE IF \E h \in DOMAIN e.obs : Proj(S2, h) # OProj(e.obs[h]) THEN "M:projection-equals-design-store"
  ELSE ""

Step ==
  /\ ~done
  /\ IF l > Len(T.acts) THEN done' = TRUE /\ UNCHANGED <<tid, l, st, prevObs, verdict, drift>>
     ELSE LET e == T.acts[l]
              j == JudgeP(e)
              S2 == IF drift = "" /\ e.raised = "" THEN Apply(st, e) ELSE st
          IN /\ verdict' = j /\ done' = (j # "ok") /\ l' = l + 1 /\ UNCHANGED tid
             /\ drift' = IF drift # "" THEN drift ELSE IF e.raised # "" THEN "" ELSE JudgeM(e, S2)
             /\ st' = S2
             /\ prevObs' = IF e.raised = "" THEN ObsAll(e) ELSE prevObs
Spec == Init /\ [][Step]_vars
Report == done => PrintT(<<"V", tid, l, verdict, drift>>)
=============================================================================

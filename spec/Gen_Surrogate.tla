---------------------------- MODULE Gen_Surrogate ----------------------------
(* Behaviour emitter for Surrogate.tla (spec -> code).  The view drops the history, so TLC   *)
(* (one worker, breadth first) keeps ONE shortest history per distinct abstract transition   *)
(* <<state before, state after, answer>>; each is printed as <<"BEH", kdef, hist>> and       *)
(* replayed by the driver into a real GPyRegression.                                         *)
EXTENDS Surrogate
VARIABLE prev
GenInit == Init /\ prev = <<>>
GenNext == Next /\ prev' = state
GenSpec == GenInit /\ [][GenNext]_<<vars, prev>>
GenView == <<prev, state, last>>
Emit == hist # <<>> => PrintT(<<"BEH", kdef, hist>>)
=============================================================================

----------------------------- MODULE Vectorize -----------------------------
(***************************************************************************)
(* The callable returned by elfi.tools.vectorize(operation, constants,      *)
(* dtype), called with positional inputs, batch_size and keyword arguments *)
(* (= elfi.model.tools.run_vectorized).                                    *)
(*                                                                         *)
(* One public call is one action.  The call (arity, which inputs are       *)
(* arrays and of which length, the explicit constants mask, batch_size,    *)
(* dtype, keyword arguments, meta) is chosen freely in Init; values are    *)
(* their own provenance (T1): row r of input j is <<j, r>>, input j as a   *)
(* whole is <<j, -1>>.  The operation is symbolic: its result is the term  *)
(* App(op, args, kw, hasMeta, meta) recording what it was called with.     *)
(*                                                                         *)
(* The code is the operator VectorizeOps!Run (two loops of run_vectorized);*)
(* the property C18(a,b) is stated below against the declarative           *)
(* definitions IsConst / BatchLen / RowArgs.                               *)
(***************************************************************************)
EXTENDS Naturals, Integers, Sequences, FiniteSets, TLC, VectorizeOps

CONSTANTS MaxArity,    \* arities 0..MaxArity
          MaxLen,      \* array lengths 0..MaxLen, batch_size in {None} \cup 0..MaxLen
          Variant      \* "code" or a deliberately broken variant (negative controls)

VARIABLES call, out, pc
vars == <<call, out, pc>>

Scalar(j) == [arr |-> FALSE, rows |-> <<>>, v |-> <<j, -1>>]
Array(j, n) == [arr |-> TRUE, rows |-> [r1 \in 1..n |-> <<j, r1 - 1>>], v |-> <<j, -1>>]
InputsOf(a) == {f \in [1..a -> {-1} \cup 0..MaxLen] : TRUE}      \* -1: scalar, n >= 0: array of length n
Mk(f) == [j \in DOMAIN f |-> IF f[j] = -1 THEN Scalar(j) ELSE Array(j, f[j])]

Metas == {<<"absent", [batch_index |-> 3]>>,                     \* no meta keyword
          <<"fresh", [batch_index |-> 3]>>,                      \* as elfi's loader provides it
          <<"stale", [batch_index |-> 3, index_in_batch |-> 7]>>} \* left over from an earlier vectorised node
KwOf(k) == CASE k = "none" -> <<>>                               \* <<>> is the empty function
             [] k = "rs" -> [random_state |-> 99]
             [] OTHER -> [random_state |-> 99, user |-> 5]

Init ==
  /\ \E a \in 0..MaxArity : \E f \in InputsOf(a) : \E mask \in SUBSET (0..(MaxArity - 1)) :
     \E bs \in {NoBS} \cup 0..MaxLen : \E dt \in {"none", "false", "some"} : \E m \in Metas : \E kw \in {"none", "rs", "rs+user"} :
       call = [inputs |-> Mk(f), mask |-> mask, bs |-> bs, dt |-> dt, kw |-> KwOf(kw),
               hasMeta |-> m[1] # "absent", meta |-> m[2]]
  /\ out = [res |-> "none", cont |-> "", items |-> <<>>]
  /\ pc = "call"

Result == Run("op", call.inputs, call.mask, call.bs, call.dt, call.kw, call.hasMeta, call.meta,
              [r1 \in 1..(MaxLen + 1) |-> r1 - 1], Variant)

CallReturns == /\ pc = "call" /\ Result.res = "val" /\ out' = Result /\ pc' = "done" /\ UNCHANGED call
CallRaises  == /\ pc = "call" /\ Result.res = "raise" /\ out' = Result /\ pc' = "done" /\ UNCHANGED call
Next == CallReturns \/ CallRaises
Spec == Init /\ [][Next]_vars

\* ---- the property (C18 a, b) ---------------------------------------------------
I == call.inputs
N == BatchLen(I, call.mask, call.bs)
Returned == pc = "done" /\ out.res = "val"

\* (b) length from the inputs or from batch_size (else 1); inconsistent lengths are refused
Length == pc = "done" => IF N = Mismatch THEN out.res = "raise" ELSE out.res = "val" /\ Len(out.items) = N
\* (a) i-th entry = operation applied to the i-th row of every non-constant input ...
PerRow == Returned => \A r1 \in 1..Len(out.items) : \A j \in Varying(I, call.mask) :
                        out.items[r1].op = "op" /\ out.items[r1].args[j] = I[j].rows[r1]
\* ... with constants ...
ConstantsUntouched == Returned => \A r1 \in 1..Len(out.items) : \A j \in 1..Len(I) :
                        IsConst(I, call.mask, j) => out.items[r1].args[j] = I[j].v
Arity == Returned => \A r1 \in 1..Len(out.items) : DOMAIN out.items[r1].args = 1..Len(I)
\* ... and keyword arguments passed through unchanged (meta: everything but the row index)
KwargsThrough == Returned => \A r1 \in 1..Len(out.items) :
                        /\ out.items[r1].kw = call.kw
                        /\ out.items[r1].hasMeta = call.hasMeta
                        /\ StripIdx(out.items[r1].meta) = StripIdx(call.meta)
\* the row index travels through meta (needed by External.tla for per-row seeds)
MetaRowIndex == Returned /\ call.hasMeta => \A r1 \in 1..Len(out.items) :
                        "index_in_batch" \in DOMAIN out.items[r1].meta /\ out.items[r1].meta["index_in_batch"] = r1 - 1
NoMetaInvented == Returned /\ ~call.hasMeta => \A r1 \in 1..Len(out.items) : out.items[r1].meta = call.meta
\* dtype decides the container only: the items do not depend on it, dtype=False gives an object container
DtypeFalseObject == Returned /\ call.dt = "false" => out.cont = "object"
ContainerOnly == Returned =>
  out.items = Run("op", I, call.mask, call.bs, "none", call.kw, call.hasMeta, call.meta,
                  [r1 \in 1..(MaxLen + 1) |-> r1 - 1], Variant).items
\* the whole result at once, as the statement phrases it
Statement == Returned =>
  out.items = [r1 \in 1..N |-> App("op", RowArgs(I, call.mask, r1 - 1), call.kw, call.hasMeta,
                                   IF call.hasMeta THEN ("index_in_batch" :> (r1 - 1)) @@ call.meta ELSE call.meta)]
=============================================================================

------------------------------- MODULE BslMh -------------------------------
(***************************************************************************)
(* Design module for clauses (c) and (d) of C20: one Metropolis-Hastings   *)
(* step of elfi's BSL sampler in the transformed parameter space, on the   *)
(* exact lattice of BslMhOps.tla.                                          *)
(*                                                                         *)
(* Code -> action map (elfi/methods/inference/bsl.py)                      *)
(*   _propagate_state(): tt' ~ N(transform(t), sigma);                     *)
(*                       t' = back_transform(tt')               Propose    *)
(*   _process_simulated(): logposterior[n] = loglik + logprior;            *)
(*       l_ratio = _get_mh_ratio(); u < min(1, l_ratio)         Accept     *)
(*       else copy the previous state                           Reject     *)
(*                                                                         *)
(* The chain state is the vector of transformed points (one rational       *)
(* E = e^tt per parameter) and the (unnormalised, rational) posterior      *)
(* value at the corresponding parameter.  Posterior values are a free      *)
(* choice of Init / Propose: the module is about the acceptance rule, not  *)
(* about the likelihood.                                                   *)
(*                                                                         *)
(* Theorems (checked exhaustively by TLC over the lattice):                *)
(*   Inverse              transform(back_transform(tt)) = tt, and the      *)
(*                        back-transformed point lies inside the bounds    *)
(*   JacobianIsDerivative J = dt/dtt: for the Moebius maps t(E) of all     *)
(*                        bounded types  J(E1) J(E2) = E1 E2 (chord)^2     *)
(*                        with chord = (t(E2) - t(E1))/(E2 - E1)           *)
(*                        (exact finite-difference characterisation)       *)
(*   Reciprocal           R(x -> y) R(y -> x) = 1                          *)
(*   DetailedBalance      target(x) a(x -> y) = target(y) a(y -> x) with   *)
(*                        target = post * J, a = min(1, R): the stated     *)
(*                        acceptance probability makes the chain           *)
(*                        reversible w.r.t. the transformed posterior      *)
(* Negative controls: UpperNeg = FALSE (log J = +tt for an upper bound only,  *)
(* the pre-F17 code) refutes JacobianIsDerivative; UseJac = FALSE (ratio   *)
(* without the Jacobian term) refutes DetailedBalance.                     *)
(***************************************************************************)
EXTENDS Naturals, Integers, Sequences, FiniteSets, TLC, BslMhOps

CONSTANTS Params,      \* set of parameter vectors (sequences of [ty, a, b])
          Points,      \* lattice of E = e^tt (rationals) for bounded types
          IntPoints,   \* lattice of tt for the unbounded type (rationals <<k, 1>>)
          Posts,       \* posterior values (rationals > 0)
          UpperNeg,    \* TRUE: J = 1/E for type 1 (the derivative);  FALSE: J = E (negative control)
          UseJac       \* TRUE: ratio includes the Jacobian term;  FALSE: negative control

VARIABLES ps,          \* the parameter vector of this chain
          x, px,       \* current transformed point (sequence of rationals) and posterior value
          y, py,       \* proposed transformed point and posterior value (pc = "proposed")
          pc,          \* "at" | "proposed"
          moves        \* number of steps taken (bounded)
vars == <<ps, x, px, y, py, pc, moves>>
UpperSign == IF UpperNeg THEN -1 ELSE 1

PointsOf(p) == IF p.ty = 3 THEN IntPoints ELSE Points
Vectors(pv) == {v \in [1..Len(pv) -> Points \cup IntPoints] : \A i \in 1..Len(pv) : v[i] \in PointsOf(pv[i])}

RECURSIVE ProdJacS(_, _, _)
ProdJacS(pv, Es, k) == IF k = 0 THEN Q(1) ELSE QMul(ProdJacS(pv, Es, k - 1), JacQS(pv[k], Es[k], UpperSign))
JacAt(v) == IF UseJac THEN ProdJacS(ps, v, Len(ps)) ELSE Q(1)
\* the ratio _get_mh_ratio computes for the move v -> w
Ratio(v, pv, w, pw) == QMul(QDiv(JacAt(w), JacAt(v)), QDiv(pw, pv))
Alpha(v, pv, w, pw) == QMin(Q(1), Ratio(v, pv, w, pw))
\* density of the chain's target in the transformed space
Target(v, pv) == QMul(pv, ProdJacS(ps, v, Len(ps)))

Init == /\ ps \in Params /\ x \in Vectors(ps) /\ px \in Posts
        /\ y = x /\ py = px /\ pc = "at" /\ moves = 0

Propose == /\ pc = "at" /\ moves < 1
           /\ y' \in Vectors(ps) /\ py' \in Posts /\ pc' = "proposed"
           /\ UNCHANGED <<ps, x, px, moves>>
\* u < min(1, ratio) for some u in [0, 1): possible iff ratio > 0 (always here)
Accept == /\ pc = "proposed"
          /\ x' = y /\ px' = py /\ pc' = "at" /\ moves' = moves + 1
          /\ UNCHANGED <<ps, y, py>>
\* u >= min(1, ratio) for some u in [0, 1): possible iff ratio < 1
Reject == /\ pc = "proposed" /\ QLess(Ratio(x, px, y, py), Q(1))
          /\ y' = x /\ py' = px /\ pc' = "at" /\ moves' = moves + 1
          /\ UNCHANGED <<ps, x, px>>
Next == Propose \/ Accept \/ Reject
Spec == Init /\ [][Next]_vars

\* ---- theorems -------------------------------------------------------------------------------------
Inverse == \A i \in 1..Len(ps) :
             LET t == BackQ(ps[i], x[i]) IN InSupport(ps[i], t) /\ FwdQ(ps[i], t) = x[i]
\* chord identity between the current and the proposed point, per parameter
Chord(p, E1, E2) == QDiv(QSub(BackQ(p, E2), BackQ(p, E1)), QSub(E2, E1))
JacobianIsDerivative ==
  pc = "proposed" =>
    \A i \in 1..Len(ps) :
      (ps[i].ty # 3 /\ x[i] # y[i]) =>
         LET c == Chord(ps[i], x[i], y[i])
         IN QMul(JacQS(ps[i], x[i], UpperSign), JacQS(ps[i], y[i], UpperSign)) = QMul(QMul(x[i], y[i]), QMul(c, c))
Reciprocal == pc = "proposed" => QMul(Ratio(x, px, y, py), Ratio(y, py, x, px)) = Q(1)
DetailedBalance ==
  pc = "proposed" => QMul(Target(x, px), Alpha(x, px, y, py)) = QMul(Target(y, py), Alpha(y, py, x, px))
\* the ratio is the stated one (ties the design to the operator the trace spec uses)
RatioIsStated == (pc = "proposed" /\ UseJac /\ UpperSign < 0) => Ratio(x, px, y, py) = MhRatioQ(ps, x, y, px, py)
=============================================================================

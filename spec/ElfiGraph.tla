------------------------------ MODULE ElfiGraph ------------------------------
(***************************************************************************)
(* Edit histories over ElfiModels: add / become / remove / parameter flags  *)
(* / observed data / copy / save+load, on the store of ElfiGraphOps.tla.    *)
(***************************************************************************)
EXTENDS Naturals, Integers, Sequences, FiniteSets, TLC, ElfiGraphOps

CONSTANTS Names,       \* user node names
          Privs,       \* names available for private constants
          Handles,     \* model handles; the first history element creates Handles[1]
          MaxEdits,
          CopyShares,  \* TRUE = copy() shares node state dicts and the observed dict (original code, F13)
          FreshOnly    \* TRUE = become() only with a replacement that has no children and is no descendant

VARIABLES st, n, last
vars == <<st, n, last>>

Kinds == {"op", "prior", "sim", "sum"}
H1 == Handles[1]
Live == DOMAIN st.models

Init == /\ st = [models |-> (H1 :> [nodes |-> {}, edges |-> {}, cell |-> <<>>, obs |-> 0, priv |-> {}]),
                 heap |-> <<>>, oheap |-> (0 :> {}), next |-> 1]
        /\ n = 0 /\ last = [act |-> "init", h |-> H1, h2 |-> H1, x |-> "", y |-> "", before |-> <<>>]

Before == [h \in Live |-> Proj(st, h)]
Rec(act, h, h2, x, y) == last' = [act |-> act, h |-> h, h2 |-> h2, x |-> x, y |-> y, before |-> Before]

ParentSeqs(h, x) ==
  LET cand == (Model(st, h).nodes \ Model(st, h).priv) \cup (Privs \ Model(st, h).nodes)
  IN {<<>>} \cup {<<a>> : a \in cand} \cup {s \in cand \X cand : s[1] # s[2]}

Add(h) == \E x \in Names \ Model(st, h).nodes, k \in Kinds : \E ps \in ParentSeqs(h, x) :
  /\ (k = "sum" => ps # <<>>)
  /\ st' = DoAdd(st, h, x, k, n + 1, ps, {ps[i] : i \in 1..Len(ps)} \cap Privs, k = "prior")
  /\ Rec("add", h, h, x, "")
UserNodes(h) == Model(st, h).nodes \ Model(st, h).priv
\* a keyword parent added after construction (model.add_edge); keeps the graph simple and acyclic
AddEdge(h) == \E x, p \in UserNodes(h) :
  /\ x # p /\ p \notin Parents(Model(st, h).edges, x) /\ p \notin Descendants(Model(st, h).edges, x)
  /\ ~\E e \in Model(st, h).edges : e[2] = x /\ e[3] = -1
  /\ st' = DoAddEdge(st, h, p, x, -1) /\ Rec("addedge", h, h, x, p)
Become(h) == \E x, y \in UserNodes(h) :
  /\ x # y
  /\ FreshOnly => (Children(Model(st, h).edges, y) = {} /\ y \notin Descendants(Model(st, h).edges, x))
  /\ st' = DoBecome(st, h, x, y) /\ Rec("become", h, h, x, y)
Remove(h) == \E x \in UserNodes(h) : st' = DoRemove(st, h, x) /\ Rec("remove", h, h, x, "")
SetParams(h) == \E P \in SUBSET UserNodes(h) : st' = DoSetParams(st, h, P) /\ Rec("setparams", h, h, "", "")
SetObs(h) == \E x \in {y \in UserNodes(h) : st.heap[Model(st, h).cell[y]].kind \in {"sim", "sum"}} :
  st' = DoSetObs(st, h, x, n + 1) /\ Rec("setobs", h, h, x, "")
Copy(h) == \E i \in 1..Len(Handles) :
  /\ Handles[i] \notin Live /\ \A j \in 1..(i - 1) : Handles[j] \in Live
  /\ \/ st' = DoCopy(st, h, Handles[i], CopyShares) /\ Rec("copy", h, Handles[i], "", "")
     \/ st' = DoSaveLoad(st, h, Handles[i]) /\ Rec("saveload", h, Handles[i], "", "")

Next == /\ n < MaxEdits /\ n' = n + 1
        /\ \E h \in Live : Add(h) \/ AddEdge(h) \/ Become(h) \/ Remove(h) \/ SetParams(h) \/ SetObs(h) \/ Copy(h)
Spec == Init /\ [][Next]_vars

\* ---- properties (C14) ---------------------------------------------------------
\* (a) every model stays a consistent acyclic graph
AllConsistent == \A h \in Live : Consistent(Proj(st, h))
\* (f) editing one model never changes another one (incl. the copy just made being equal, not changed)
CopyIndependent ==
  \A h \in DOMAIN last.before : (h # last.h) => Proj(st, h) = last.before[h]
\* (e, structural part) a copy / a saved-and-loaded model shows the same structure as its source
CopySame == last.act \in {"copy", "saveload"} => Proj(st, last.h2) = Proj(st, last.h)
\* (b) become: x keeps its children, takes over y's state, parents and observed data; y disappears
NodeOf(p, x) == CHOOSE t \in p.nodes : t[1] = x
ObsOf(p, x) == {o[2] : o \in {q \in p.observed : q[1] = x}}
BecomeContract ==
  last.act = "become" =>
    LET b == last.before[last.h]
        a == Proj(st, last.h)
        x == last.x
        y == last.y
        bN == {t[1] : t \in b.nodes}
        aN == {t[1] : t \in a.nodes}
    IN /\ y \notin aN /\ x \in aN
       /\ NodeOf(a, x)[2] = NodeOf(b, y)[2] /\ NodeOf(a, x)[3] = NodeOf(b, y)[3]
       /\ {e \in a.edges : e[1] = x} = {e \in b.edges : e[1] = x /\ e[2] # y}
       /\ {<<e[1], e[3]>> : e \in {f \in a.edges : f[2] = x}} = {<<e[1], e[3]>> : e \in {f \in b.edges : f[2] = y /\ f[1] # x}}
       /\ ObsOf(a, x) = ObsOf(b, y)
       /\ \A t \in b.nodes : (t[1] \notin {x, y} /\ t[1] \notin b.priv) => t \in a.nodes
\* (c) remove: the node, its observed data and its sole private constants disappear, nothing else
RemoveContract ==
  last.act = "remove" =>
    LET b == last.before[last.h]
        a == Proj(st, last.h)
        x == last.x
        aN == {t[1] : t \in a.nodes}
        solePriv == {p \in b.priv : \A e \in b.edges : (e[1] = p \/ e[2] = p) => (e[1] = p /\ e[2] = x /\ e[3] \in Nat)}
    IN /\ x \notin aN /\ ObsOf(a, x) = {}
       /\ aN = {t[1] : t \in b.nodes} \ ({x} \cup {p \in solePriv : \E e \in b.edges : e[1] = p /\ e[2] = x})
       /\ a.edges = {e \in b.edges : e[1] \in aN /\ e[2] \in aN}
       /\ a.observed = {o \in b.observed : o[1] # x}
=============================================================================

---------------------------- MODULE BolfiPosterior ----------------------------
(***************************************************************************)
(* C10 (a) (b) (c), design level.  BolfiPosterior is a pure function of    *)
(* what the surrogate and the prior answer at the query rows; the module   *)
(* is a query machine: every step evaluates one query (a function name, a  *)
(* shape kind, a list of lattice points) with the operators of             *)
(* BolfiPosteriorOps - the same operators the trace spec applies to the    *)
(* real class - and TLC checks over ALL queries of the configured lattice  *)
(* that these operators have the properties the statement asks for:        *)
(*                                                                         *)
(*  OutsideIsNegInf   outside the bounds the log density is -inf, the      *)
(*                    density 0; inside (finite prior) it is finite        *)
(*  BoundsInclusive   a point ON a bound is inside                         *)
(*  MonotoneInH       raising the threshold never lowers the log density   *)
(*  ShapeCount        the shape table has one value per point (and per     *)
(*                    coordinate for the gradient)                         *)
(*  TablesCoherent    Phi(z) + Phi(-z) = 1, log Phi <= Phi - 1, and Mills  *)
(*                    (the derivative of log Phi) is bracketed by the      *)
(*                    secant slopes of the concave log Phi:                *)
(*                    LogPhi(z+1) - LogPhi(z) <= Mills(z) <= LogPhi(z) -   *)
(*                    LogPhi(z-1)   (all within the table rounding)        *)
(*  ChainRule         on two surrogate families whose z is LINEAR in x     *)
(*                    (A: mean linear, sigma constant; B: sigma(x) = x,    *)
(*                    mean = h - z(x) x, which exercises the variance      *)
(*                    term) the code's factor GradNum/GradDen equals the   *)
(*                    slope of z EXACTLY                                   *)
(*  GradientBrackets  hence, by concavity, the gradient operator lies      *)
(*                    between the forward and backward differences of the  *)
(*                    log density operator on family A (unit steps)        *)
(*                                                                         *)
(* Variant # "code" replaces the gradient factor by a plausible wrong one  *)
(* (negative controls: ChainRule / GradientBrackets must be refuted).      *)
(***************************************************************************)
EXTENDS BolfiPosteriorOps, TLC

CONSTANTS Dims,        \* input dimensions, subset of 1..2
          Lo, Hi,      \* bounds lo..hi in every dimension (integers)
          Sds,         \* sigma values, subset of 1..4
          Slopes,      \* slope of z per unit step of a coordinate
          LpVals,      \* integer log-prior values at the centre (may contain NINF)
          PriorSlopes, \* integer slope of the log prior
          Variant      \* "code" | "signflip" | "nohalf" | "sigmasq"

VARIABLES q            \* the current query, or the record [fn |-> "none"]
vars == <<q>>

Coords == (Lo - 1)..(Hi + 1)
BoundsOf(d) == [i \in 1..d |-> <<Lo, Hi>>]
RECURSIVE SumSeq(_)
SumSeq(s) == IF s = <<>> THEN 0 ELSE s[1] + SumSeq(Tail(s))
Dot(a, x) == SumSeq([i \in 1..Len(a) |-> a[i] * x[i]])

\* ---- family A: z(x) = z0 + a . x, sigma = s constant, threshold H -----------------------------
H == 1
ZA(sur, x) == sur.z0 + Dot(sur.a, x)
PointA(sur, x) ==
  [c |-> [i \in 1..Len(x) |-> 4 * x[i]],
   mu |-> H - sur.s * ZA(sur, x), var |-> sur.s * sur.s, nvar |-> 1,
   gmu |-> [i \in 1..Len(x) |-> -sur.s * sur.a[i]], gv |-> [i \in 1..Len(x) |-> 0],
   lp |-> IF sur.lp0 = NINF THEN NINF ELSE sur.lp0 + Dot(sur.b, x), glp |-> sur.b]
\* ---- family B (one coordinate): sigma(x) = x in 1..4, z(x) = z0 + a (x - x0) ------------------
\* mu(x) = H - z(x) x, var = x^2:  dmu/dx = -z(x) - a x,  dvar/dx = 2 x
PointB(z, a, s) ==
  [c |-> <<4 * s>>, mu |-> H - z * s, var |-> s * s, nvar |-> 1,
   gmu |-> <<-z - a * s>>, gv |-> <<2 * s>>, lp |-> 0, glp |-> <<0>>]

\* ---- the gradient factor under test -----------------------------------------------------------
GradNumV(p, h, i) ==
  LET s == SdOf(p.var) IN
  CASE Variant = "code" -> GradNum(p, h, i)
    [] Variant = "signflip" -> 2 * s * s * p.gmu[i] - (h - p.mu) * p.gv[i]
    [] Variant = "nohalf" -> -2 * s * s * p.gmu[i] - 2 * (h - p.mu) * p.gv[i]
    [] Variant = "sigmasq" -> -2 * s * s * s * p.gmu[i] - (h - p.mu) * p.gv[i]   \* var instead of sqrt(var)
LikGradV(p, h, i) == (GradNumV(p, h, i) * MillsMicro(ZOf(p, h))) \div GradDen(p)

Surs(d) == [s : Sds, a : [1..d -> Slopes], z0 : -1..1, lp0 : LpVals, b : [1..d -> PriorSlopes]]

Init == q = [fn |-> "none"]
QueryA == q.fn = "none" /\ \E d \in Dims : \E sur \in Surs(d) : \E x \in [1..d -> Coords] :
            \E fn \in {"logpdf", "pdf", "grad"} : \E kind \in {"scalar", "1d", "2d"} :
              /\ KindOK(kind, d, 1)
              /\ ZA(sur, x) \in (ZMin + 1)..(ZMax - 1)
              /\ \A i \in 1..d : Abs(sur.a[i]) <= 1
              /\ q' = [fn |-> fn, fam |-> "A", kind |-> kind, dim |-> d, sur |-> sur, x |-> x, p |-> PointA(sur, x)]
QueryB == q.fn = "none" /\ \E s \in Sds : \E z \in (ZMin + 1)..(ZMax - 1) : \E a \in Slopes :
            q' = [fn |-> "grad", fam |-> "B", kind |-> "1d", dim |-> 1, z |-> z, a |-> a, p |-> PointB(z, a, s)]
\* one query per behaviour (every query is reachable from Init in one step)
Next == QueryA \/ QueryB
Spec == Init /\ [][Next]_vars

Live == q.fn # "none"
B == BoundsOf(q.dim)

OutsideIsNegInf ==
  Live /\ q.fam = "A" =>
    /\ (~Inside(q.p.c, B) => LogPdfMicro(q.p, H, B) = FxNInf /\ PdfMicro(q.p, H, B) = 0)
    \* (Phi(z) < 5e-7 rounds to 0 in units of 10^-6 for z <= -5: positivity is visible only above that)
    /\ (Inside(q.p.c, B) /\ q.p.lp # NINF => FxFinite(LogPdfMicro(q.p, H, B)) /\ PdfMicro(q.p, H, B) >= 0
                                             /\ (ZA(q.sur, q.x) >= -4 => PdfMicro(q.p, H, B) > 0))
    /\ (Inside(q.p.c, B) /\ q.p.lp # NINF => LogPdfMicro(q.p, H, B) = LogPhiMicro(ZA(q.sur, q.x)) + q.p.lp * Unit)
BoundsInclusive ==
  Live /\ q.fam = "A" =>
    ((\A i \in 1..q.dim : q.x[i] \in {Lo, Hi}) => Inside(q.p.c, B) /\ OnBoundary(q.p.c, B))
MonotoneInH ==
  Live /\ q.fam = "A" /\ Inside(q.p.c, B) /\ q.p.lp # NINF /\ OnLattice(q.p, H + SdOf(q.p.var)) =>
    LogPdfMicro(q.p, H + SdOf(q.p.var), B) >= LogPdfMicro(q.p, H, B)
ShapeCount ==
  Live => \A n \in 1..3 : KindOK(q.kind, q.dim, n) =>
            ProdSeq(ExpShape(q.fn, q.kind, q.dim, n)) = ExpCount(q.fn, q.dim, n)
TablesCoherent ==
  Live => \A z \in ZMin..ZMax :
    /\ (z >= -ZMax => Abs(PhiMicro(z) + PhiMicro(-z) - Unit) <= 1)
    /\ LogPhiMicro(z) <= PhiMicro(z) - Unit + 1                      \* log x <= x - 1
    /\ (z < ZMax => LogPhiMicro(z + 1) - LogPhiMicro(z) <= MillsMicro(z) + 2)
    /\ (z > ZMin => MillsMicro(z) - 2 <= LogPhiMicro(z) - LogPhiMicro(z - 1))
    /\ (z < ZMax => MillsMicro(z + 1) < MillsMicro(z) /\ LogPhiMicro(z) < LogPhiMicro(z + 1) /\ LogPhiMicro(z + 1) < 0)
ChainRule ==
  Live /\ q.fn = "grad" /\ OnLattice(q.p, H) =>
    \A i \in 1..q.dim :
      GradNumV(q.p, H, i) = (IF q.fam = "A" THEN q.sur.a[i] ELSE q.a) * GradDen(q.p)
\* forward difference <= derivative <= backward difference (log Phi(z0 + a.x) is concave in x)
GradientBrackets ==
  Live /\ q.fn = "grad" /\ q.fam = "A" /\ q.p.lp # NINF =>
    \A i \in 1..q.dim :
      LET up == [q.x EXCEPT ![i] = @ + 1]
          dn == [q.x EXCEPT ![i] = @ - 1]
          wide == [k \in 1..q.dim |-> <<Lo - 3, Hi + 3>>]
          f(x) == LogPdfMicro(PointA(q.sur, x), H, wide)
          g == LikGradV(q.p, H, i) + q.p.glp[i] * Unit
      IN /\ f(up) - f(q.x) <= g + 4
         /\ g - 4 <= f(q.x) - f(dn)
=============================================================================

--------------------------- MODULE Gen_ModelPrior ---------------------------
(* Behaviour emitter (spec -> code): prints every prior DAG / requested order  *)
(* that ModelPrior.tla explores in phase 1, as JSON; the driver instantiates   *)
(* each with exact fake distributions / scipy uniforms and runs the real elfi. *)
EXTENDS ModelPrior, Json
N2 == <<"a", "b">>
N3 == <<"a", "b", "c">>
N4 == <<"a", "b", "c", "d">>
GXq == {0}
GHq == {1}
Emit == (phase = 1 /\ attr = "pdf") => PrintT(<<"G", ToJson([args |-> args, names |-> names])>>)
=============================================================================

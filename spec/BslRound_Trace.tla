--------------------------- MODULE BslRound_Trace ---------------------------
(***************************************************************************)
(* Trace validation for clauses (d), (e) of C20 on real BSL.sample runs.   *)
(*                                                                         *)
(* The model handed to BSL consists of harness operations that log what    *)
(* they are asked (values are ids: index vectors into per-parameter        *)
(* lattices, 0 = not a lattice point):                                     *)
(*   "q"    the prior was asked for the density at i; fin = it is positive *)
(*          (the proposal lies inside the prior support), pr = its value   *)
(*   "sim"  the simulator ran batch `bat` with the parameter vector i      *)
(*   "lik"  the likelihood callable was evaluated on `rows` (per row: the  *)
(*          batch it was simulated in and that batch's parameter vector);  *)
(*          it returned log lk (lz: -inf)                                  *)
(*   "prop" (scripted runs) sampler.random_state.multivariate_normal was   *)
(*          called with `mean` and answered with the transformed lattice   *)
(*          point i                                                        *)
(*   "u"    (scripted runs) random_state.uniform() answered u              *)
(*   "gam"  (robust runs) the gamma slice sampler returned the current     *)
(*          state's log-likelihood val for the fresh gamma; the code then  *)
(*          recomputes logposterior[n-1] = val + logprior[n-1]             *)
(*   "mh"   (seeded runs, recorded by a subclass around _get_mh_ratio) the *)
(*          two log-posteriors that enter the ratio: pc = logposterior[n], *)
(*          pp = logposterior[n-1], with oracle fields prc / prp = the     *)
(*          prior log density of params[n] / params[n-1] evaluated         *)
(*          directly with scipy (trusted base).  "q" carries lpr = the log *)
(*          density scipy returned, "lik" carries val = the returned       *)
(*          log-likelihood.  All in 10^-6; 2147000000 = non-finite / too   *)
(*          large (such steps are not decided).                            *)
(*          P: each side of the ratio is likelihood + prior log density OF *)
(*          THAT STATE: the candidate's = val of its likelihood evaluation *)
(*          + prc; the current state's = (robust) val of the last "gam" +  *)
(*          prp, (standard) the posterior it was accepted with.            *)
(*   "end"  the call returned (res = "ok": nsim, nout = number of returned *)
(*          samples, nbat) or raised                                       *)
(* Trace constants: n (n_samples), nsr (n_sim_round), bs, burn, tb         *)
(* (transform used), ps (bounds), lat[k][j].E (lattice of parameter k in   *)
(* the transformed space; the value itself when tb = FALSE or type 3),     *)
(* chain = the returned chain (burn-in included) as index vectors.         *)
(*                                                                         *)
(* mode = "scripted": every proposal and uniform draw is on the lattice,   *)
(* prior and likelihood values are rationals: TLC recomputes the stated    *)
(* acceptance ratio (BslMhOps!MhRatioQ) and decides accept / reject for    *)
(* every step (P:accept-iff; u exactly equal to the ratio is accepted      *)
(* either way).  mode = "seeded": elfi's own generator and the real        *)
(* Gaussian synthetic likelihood; only the round structure is decided.     *)
(***************************************************************************)
EXTENDS Naturals, Integers, Sequences, FiniteSets, TLC, Json, IOUtils, BslMhOps

Traces == JsonDeserialize(IOEnv.TRACE_FILE)

VARIABLES tid, l,
          pos,        \* number of chain positions decided so far (= state['n_samples'])
          ch,         \* the chain so far (index vectors), Len(ch) = pos
          cur,        \* the proposal being simulated (index vector) or <<>>
          curpr,      \* its prior value
          postPrev,   \* posterior value (rational) of the current state ch[pos]
          postCur,    \* posterior value of the proposal once its likelihood is known
          phase,      \* "init" | "sims" | "u" | "prop" | "q" | "end"
          bats,       \* batches simulated since `cur` was proposed
          oos,        \* index vectors known to lie outside the prior support
          scr,        \* scripted runs: the lattice point random_state answered with, or <<>>
          nlik,       \* likelihood evaluations so far
          fxs,        \* fixed-point bookkeeping of seeded runs: [lik, gam, cur, lpr] =
                      \*   last likelihood value, last gamma-sampler value, log-posterior the current
                      \*   state was accepted with, prior log density of the outstanding proposal
          verdict, drift, done
vars == <<tid, l, pos, ch, cur, curpr, postPrev, postCur, phase, bats, oos, scr, nlik, fxs, verdict, drift, done>>

T == Traces[tid]
Scripted == T.mode = "scripted"
Near(a, b, tol) == a - b <= tol /\ b - a <= tol
NoFx == 2147000000
IsFx(v) == v > -1000000000 /\ v < 1000000000      \* (sums must stay inside 32 bits)
AddFx(a, b) == IF IsFx(a) /\ IsFx(b) /\ IsFx(a + b) THEN a + b ELSE NoFx
\* logged value v equals the expected sum w (both fixed point) - decided only when both are finite
SameFx(v, w) == ~IsFx(v) \/ ~IsFx(w) \/ Near(v, w, 3)
Init == /\ tid \in 1..Len(Traces) /\ l = 1 /\ pos = 0 /\ ch = <<>> /\ cur = <<>> /\ curpr = <<1, 1>>
        /\ postPrev = <<1, 1>> /\ postCur = <<1, 1>> /\ phase = "init" /\ bats = {} /\ oos = {} /\ scr = <<>>
        /\ nlik = 0 /\ fxs = [lik |-> NoFx, gam |-> NoFx, cur |-> NoFx, lpr |-> NoFx] /\ verdict = "ok" /\ drift = "" /\ done = FALSE

OnLattice(iv) == Len(iv) = T.p /\ \A k \in 1..T.p : iv[k] >= 1 /\ iv[k] <= Len(T.lat[k])
EVec(iv) == [k \in 1..T.p |-> T.lat[k][iv[k]].E]
HaveChain(k) == k <= Len(T.chain)
\* the next undecided position is pos (0-based) = T.chain[pos + 1]
Actual == T.chain[pos + 1]
Last == ch[pos]

\* the stated acceptance ratio for  Last -> cur
Ratio == IF postCur[1] = 0 THEN <<0, 1>>
         ELSE IF T.tb THEN MhRatioQ(T.ps, EVec(Last), EVec(cur), postPrev, postCur)
         ELSE QDiv(postCur, postPrev)

\* ---- judgement of one event: <<P verdict, M drift, next phase>>; state updates in Step ----------------
Unexpected(e) == <<"ok", "M:event-order">>

JudgeInit(e) ==
  IF e.ev = "q" THEN (IF e.fin THEN <<"ok", "">>
                      \* the prior was evaluated as zero at a start the scenario KNOWS to be inside the support (e.g. on permuted
                      \* coordinates): the code's mistake, not the harness's
                      ELSE IF T.start_ok THEN <<"P:prior-of-the-given-start-is-positive", "">>
                      ELSE <<"ok", "X:start-outside-support">>)
  ELSE IF e.ev = "end" /\ e.res # "ok" THEN <<"P:sample-raised", "">>
  ELSE Unexpected(e)

JudgeSim(e) ==
  IF e.i \in oos THEN <<"P:no-sim-for-rejected", "">>
  ELSE IF phase # "sims" THEN <<"ok", "M:simulation-outside-a-round">>
  ELSE IF e.i # cur THEN <<"ok", "M:batch-at-current-params">>
  ELSE <<"ok", "">>

JudgeLik(e) ==
  IF \E r \in 1..Len(e.rows) : e.rows[r].i \in oos THEN <<"P:no-sim-for-rejected", "">>
  ELSE IF phase # "sims" THEN Unexpected(e)
  ELSE IF Len(e.rows) = 0 \/ \E r \in 1..Len(e.rows) : e.rows[r].i # cur \/ e.rows[r].bat \notin bats
       THEN <<"P:likelihood-from-proposal-sims", "">>
  ELSE IF pos = 0 /\ HaveChain(1) /\ Actual # cur THEN <<"P:first-sample-is-start", "">>
  ELSE IF Len(e.rows) # T.nsr THEN <<"ok", "M:n-sim-round-rows">>
  ELSE <<"ok", "">>

JudgeU(e) ==
  IF phase # "u" THEN Unexpected(e)
  ELSE IF ~HaveChain(pos + 1) THEN <<"ok", "">>
  ELSE IF Actual # cur /\ Actual # Last THEN <<"P:chain-step", "">>
  ELSE IF ~Scripted \/ cur = Last THEN <<"ok", "">>
  ELSE LET r == Ratio
           a == QMin(<<1, 1>>, r)
           either == (QEq(e.u, a) /\ QLess(a, <<1, 1>>)) \/ (r[1] = 0 /\ e.u[1] = 0)
           acc == QLess(e.u, a)
       IN IF either THEN <<"ok", "">>
          ELSE IF acc /\ Actual # cur THEN <<"P:accept-iff", "">>
          ELSE IF ~acc /\ Actual # Last THEN <<"P:accept-iff", "">>
          ELSE <<"ok", "">>

\* seeded runs have no "u" event: the step is judged when the next proposal (or the end) arrives
JudgePendingStep ==
  IF phase = "u" /\ ~Scripted /\ HaveChain(pos + 1) /\ Actual # cur /\ Actual # Last THEN "P:chain-step" ELSE "ok"

\* the two posteriors that enter the ratio (seeded runs)
JudgeMh(e) ==
  IF Scripted THEN <<"ok", "">>
  ELSE IF phase # "u" THEN Unexpected(e)
  ELSE IF ~SameFx(e.pc, AddFx(fxs.lik, e.prc)) THEN <<"P:candidate-posterior-is-likelihood-plus-prior", "">>
  ELSE IF ~SameFx(e.pp, IF T.robust THEN AddFx(fxs.gam, e.prp) ELSE fxs.cur)
       THEN <<"P:current-posterior-is-likelihood-plus-prior-of-current-state", "">>
  ELSE <<"ok", "">>

JudgeProp(e) ==
  IF phase # "prop" \/ ~Scripted THEN Unexpected(e)
  ELSE IF ~OnLattice(e.i) \/ Len(e.mean) # T.p THEN <<"ok", "X:script">>
  ELSE IF \E k \in 1..T.p :
            LET E == T.lat[k][Last[k]].E
            IN IF T.tb /\ T.ps[k].ty # 3 THEN ~Near(e.mean[k], LogQMicro(E), 1 + LogQErr(E))
               ELSE ~FxMatches(e.mean[k], E[1], E[2]) /\ ~FxMatches(e.mean[k] + 1, E[1], E[2])
       THEN <<"ok", "M:proposal-centered-at-current">>
  ELSE <<"ok", "">>

\* seeded runs: a "q" in phase "u" first decides the pending step from the actual chain
StepFirst == phase = "u" /\ ~Scripted
EffPos == IF StepFirst THEN pos + 1 ELSE pos
EffCh == IF StepFirst THEN Append(ch, IF HaveChain(pos + 1) THEN Actual ELSE cur) ELSE ch
JudgeQ(e) ==
  LET ph == IF StepFirst THEN "prop" ELSE phase
      pend == JudgePendingStep
  IN IF pend # "ok" THEN <<pend, "">>
     ELSE IF ph = "sims" /\ bats = {} /\ e.i = cur THEN <<"ok", "">>          \* the same point asked again
     ELSE IF (Scripted /\ ph # "q") \/ (~Scripted /\ ph # "prop") THEN Unexpected(e)
     ELSE IF Scripted /\ e.i # scr THEN <<"P:proposal-is-back-transform", "">>
     ELSE IF ~e.fin /\ HaveChain(EffPos + 1) /\ T.chain[EffPos + 1] # EffCh[EffPos] THEN <<"P:rejected-keeps-state", "">>
     ELSE <<"ok", "">>

JudgeEnd(e) ==
  LET pend == JudgePendingStep
      npos == IF phase = "u" /\ ~Scripted THEN pos + 1 ELSE pos
  IN IF e.res # "ok" THEN <<"P:sample-raised", "">>
     ELSE IF pend # "ok" THEN <<pend, "">>
     ELSE IF Len(T.chain) # T.n \/ npos # T.n \/ e.nout # T.n - T.burn THEN <<"P:chain-length", "">>
     ELSE IF Len(e.slp) # T.n \/ Len(e.opr) # T.n \/ \E k \in 1..T.n : ~SameFx(e.slp[k], e.opr[k])
          THEN <<"ok", "M:stored-logprior-is-prior-of-slot">>
     ELSE IF e.nsim # T.nsr * nlik THEN <<"ok", "M:n-sim-counts-simulated-rounds">>
     ELSE IF e.nbat * T.bs # e.nsim THEN <<"ok", "M:n-batches">>
     ELSE <<"ok", "">>

Judge(e) ==
  CASE phase = "init" -> JudgeInit(e)
    [] e.ev = "sim" -> JudgeSim(e)
    [] e.ev = "lik" -> JudgeLik(e)
    [] e.ev = "u" -> JudgeU(e)
    [] e.ev = "prop" -> JudgeProp(e)
    [] e.ev = "q" -> JudgeQ(e)
    [] e.ev = "mh" -> JudgeMh(e)
    [] e.ev = "gam" -> <<"ok", "">>
    [] e.ev = "end" -> JudgeEnd(e)
    [] OTHER -> <<"ok", "X:unknown-event">>

\* ---- state update for an accepted event ------------------------------------------------------------
Keep == UNCHANGED <<pos, ch, cur, curpr, postPrev, postCur, phase, bats, oos, scr, nlik>>
\* position pos is decided: the chain continues with its actual value (when the log has it)
Decide(accepted) ==
  /\ ch' = Append(ch, IF HaveChain(pos + 1) THEN Actual ELSE (IF accepted THEN cur ELSE Last))
  /\ pos' = pos + 1
  /\ postPrev' = IF (IF HaveChain(pos + 1) THEN Actual = cur ELSE accepted) THEN postCur ELSE postPrev

Apply(e, m) ==
  IF m = "M:event-order" \/ m = "M:simulation-outside-a-round" \/ m = "X:unknown-event" \/ m = "X:script" THEN Keep
  ELSE CASE phase = "init" /\ e.ev = "q" ->
         /\ cur' = e.i /\ curpr' = e.pr /\ phase' = "sims" /\ bats' = {}
         /\ UNCHANGED <<pos, ch, postPrev, postCur, oos, scr, nlik>>
    [] e.ev = "sim" ->
         /\ bats' = bats \cup {e.bat}
         /\ UNCHANGED <<pos, ch, cur, curpr, postPrev, postCur, phase, oos, scr, nlik>>
    [] e.ev = "lik" ->
         LET pc == IF e.lz THEN <<0, 1>> ELSE QMul(e.lk, curpr)
         IN /\ nlik' = nlik + 1
            /\ IF pos = 0
               THEN /\ ch' = <<cur>> /\ pos' = 1 /\ postPrev' = pc /\ postCur' = pc /\ phase' = "prop"
                    /\ UNCHANGED <<cur, curpr, bats, oos, scr>>
               ELSE /\ postCur' = pc /\ phase' = "u"
                    /\ UNCHANGED <<pos, ch, cur, curpr, postPrev, bats, oos, scr>>
    [] e.ev = "u" ->
         /\ Decide(TRUE) /\ phase' = "prop"
         /\ UNCHANGED <<cur, curpr, postCur, bats, oos, scr, nlik>>
    [] e.ev = "prop" ->
         /\ scr' = e.i /\ phase' = "q"
         /\ UNCHANGED <<pos, ch, cur, curpr, postPrev, postCur, bats, oos, nlik>>
    [] e.ev = "q" ->
         IF phase = "sims" /\ bats = {} /\ e.i = cur THEN Keep
         ELSE LET p1 == EffPos
                  c1 == EffCh
                  pp == IF StepFirst /\ HaveChain(pos + 1) /\ Actual = cur THEN postCur ELSE postPrev
              IN IF e.fin
                 THEN /\ cur' = e.i /\ curpr' = e.pr /\ phase' = "sims" /\ bats' = {} /\ scr' = <<>>
                      /\ pos' = p1 /\ ch' = c1 /\ postPrev' = pp
                      /\ UNCHANGED <<postCur, oos, nlik>>
                 ELSE \* rejected without simulating: the previous state is copied
                      /\ oos' = oos \cup {e.i} /\ scr' = <<>>
                      /\ ch' = Append(c1, c1[p1]) /\ pos' = p1 + 1
                      /\ phase' = "prop" /\ postPrev' = pp
                      /\ UNCHANGED <<cur, curpr, postCur, bats, nlik>>
    [] OTHER -> Keep

\* fixed-point bookkeeping (seeded runs); independent of Apply
NextFxs(e) ==
  CASE e.ev = "lik" -> [fxs EXCEPT !.lik = e.val, !.cur = IF pos = 0 THEN AddFx(e.val, fxs.lpr) ELSE fxs.cur]
    [] e.ev = "gam" -> [fxs EXCEPT !.gam = e.val]
    [] e.ev = "q" ->
         LET accepted == StepFirst /\ HaveChain(pos + 1) /\ Actual = cur
         IN [fxs EXCEPT !.cur = IF accepted THEN AddFx(fxs.lik, fxs.lpr) ELSE fxs.cur,
                        !.lpr = IF e.fin THEN e.lpr ELSE fxs.lpr]
    [] OTHER -> fxs

Step ==
  /\ ~done
  /\ IF l > Len(T.events) THEN done' = TRUE /\ UNCHANGED <<tid, l, verdict, drift, fxs>> /\ Keep
     ELSE LET e == T.events[l]
              jm == Judge(e)
          IN /\ verdict' = jm[1]
             /\ drift' = IF drift # "" THEN drift ELSE jm[2]
             /\ done' = (jm[1] # "ok")
             /\ l' = l + 1 /\ UNCHANGED tid
             /\ IF jm[1] = "ok" THEN Apply(e, jm[2]) ELSE Keep
             /\ fxs' = IF jm[1] = "ok" /\ ~Scripted THEN NextFxs(e) ELSE fxs

Spec == Init /\ [][Step]_vars
Report == done => PrintT(<<"V", tid, l, verdict, drift>>)
=============================================================================

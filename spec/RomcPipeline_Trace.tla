------------------------- MODULE RomcPipeline_Trace -------------------------
(***************************************************************************)
(* Trace validation for the EXTENSION RomcPipeline.tla: histories of       *)
(* public method calls on REAL elfi.ROMC objects (a recording subclass     *)
(* whose overrides of the private stages only note that they were          *)
(* entered).  One event per call.  TLC replays the history on the design   *)
(* module's state record with the design's Run operator (fix = {}: the     *)
(* code as transcribed) and compares everything observable after every     *)
(* call.  All clauses are E: clauses (extension: reported as drift).       *)
(*                                                                         *)
(* verdict: first MECHANISM clause that fails ("the code does what the     *)
(*   design's stages do"); ends the trace:                                 *)
(*   E:<method>-private-stages-in-order                                    *)
(*   E:<method>-refused-exactly-when-precondition-fails                    *)
(*   E:<method>-returns-or-raises-as-the-stages-do                         *)
(*   E:<method>-refused-call-changes-nothing                               *)
(*   E:<method>-flag-<flag>  -N1  -list-<name>  -problem-states            *)
(*   E:<method>-posterior  -samples  -result                               *)
(* drift: the USER-LEVEL invariants of the design module evaluated on the  *)
(*   OBSERVED state after every call; every violated one is collected      *)
(*   ("inv-...|inv-...|").  The design module shows with TLC which of them *)
(*   the real sequencing cannot keep (its REPAIRS); on real histories they *)
(*   are findings about elfi, not about the binding.                       *)
(*                                                                         *)
(* Event fields.  Inputs: m, n (n1), bo, us ("F" | "T" | "A"), fit, auto,  *)
(*   n2, eps (1e-6; the eps_filter used), hit (ORACLE: the query point of  *)
(*   eval_unnorm_posterior lies in a region of the posterior).             *)
(*   Environment, read off the problem objects after the call: slv[i]      *)
(*   (optim_problems[i].state["solved"]), fmin[i] (result.f_min, 1e-6).    *)
(*   Outcome: raised (exception type, "" = returned), stages (private      *)
(*   stages entered, in order).  Observed state: flags (the nine _has_*    *)
(*   in dict order), n1, att, sld, acc, bb (None = <<>>), probs[i] =       *)
(*   [solved, region, local, sur], post = [set, cur, boxes, obj, nocall],  *)
(*   smps = [set, cur, rows, n2], res = [set, cur, n].                     *)
(*                                                                         *)
(* Allowed both ways (no verdict): f_min within 2e-6 of eps_filter; every  *)
(* TypeError that only numpy >= 2 raises (float() of a 1-element array:    *)
(* standard Distance node in _det_generator, local surrogate models) -     *)
(* the history must match the design with np2 = TRUE or with np2 = FALSE;  *)
(* whether eval_posterior's grid meets a region.                           *)
(***************************************************************************)
EXTENDS Naturals, Integers, Sequences, FiniteSets, TLC, Json, IOUtils

Traces == JsonDeserialize(IOEnv.TRACE_FILE)

D == INSTANCE RomcPipeline WITH N1s <- {1}, FitN1s <- {1}, N2s <- {1}, Fix <- {}, Pars <- {FALSE}, Scalars <- {TRUE},
                                Np2 <- TRUE, Bos <- {FALSE}, Uss <- {"F"}, MaxMut <- 0,
                                st <- 0, todo <- <<>>, call <- 0, st0 <- 0, env <- 0, mut <- 0

VARIABLES tid, l, cur, verdict, drift, viol, done
vars == <<tid, l, cur, verdict, drift, viol, done>>
T == Traces[tid]
TOL == 2

Init == /\ tid \in 1..Len(Traces) /\ l = 1 /\ cur = D!S0 /\ verdict = "ok" /\ drift = "" /\ viol = {} /\ done = FALSE

FlagNames == <<"gen", "def", "sol", "sur", "fil", "loc", "reg", "post", "smp">>
PyFlag == [gen |-> "_has_gen_nuisance", def |-> "_has_defined_problems", sol |-> "_has_solved_problems",
           sur |-> "_has_fitted_surrogate_model", fil |-> "_has_filtered_solutions", loc |-> "_has_fitted_local_models",
           reg |-> "_has_estimated_regions", post |-> "_has_defined_posterior", smp |-> "_has_drawn_samples"]

\* ---- the call, from the logged inputs
Below(e) == [i \in 1..Len(e.fmin) |-> IF e.fmin[i] + TOL < e.eps THEN TRUE
                                      ELSE IF e.fmin[i] - TOL >= e.eps THEN FALSE
                                      ELSE D!At(e.acc, i)]            \* boundary: either way
CallOf(e) == [m |-> e.m, n |-> e.n, bo |-> e.bo, slv |-> e.slv, below |-> Below(e), us |-> e.us, fit |-> e.fit,
              auto |-> e.auto, n2 |-> e.n2, hit |-> e.hit]
Env(np2) == [fix |-> {}, par |-> T.par, np2 |-> np2, scalar |-> T.scalar]

\* ---- the observed state as a design state record
ObsState(e) ==
  [gen |-> e.flags[1], def |-> e.flags[2], sol |-> e.flags[3], sur |-> e.flags[4], fil |-> e.flags[5], loc |-> e.flags[6],
   reg |-> e.flags[7], post |-> e.flags[8], smp |-> e.flags[9], n1 |-> e.n1, att |-> e.att, sld |-> e.sld, acc |-> e.acc,
   bb |-> e.bb, probs |-> e.probs, pst |-> e.post, smps |-> e.smps,
   res |-> [set |-> e.res.set, cur |-> e.res.cur,
            rows |-> IF e.res.n = e.smps.rows * e.smps.n2 THEN e.smps.rows ELSE -1,
            n2 |-> IF e.res.n = e.smps.rows * e.smps.n2 THEN e.smps.n2 ELSE -1],
   raised |-> (IF e.raised = "" THEN ""
               ELSE IF e.raised = "AssertionError" THEN "refused"
               ELSE IF e.raised = "ValueError" /\ e.m = "extract_result" THEN "nothing_to_extract"
               ELSE e.raised),
   trail |-> <<>>, nsolve |-> 0, nest |-> 0]

\* ---- mechanism: first difference between what the design's stages give (x) and what was observed (e)
RECURSIVE FirstFlag(_, _, _)
FirstFlag(x, o, k) == IF k > Len(FlagNames) THEN ""
                      ELSE IF x[FlagNames[k]] # o[FlagNames[k]] THEN PyFlag[FlagNames[k]] ELSE FirstFlag(x, o, k + 1)

StateDiff(x, e) ==
  LET o == ObsState(e)
      f == FirstFlag(x, o, 1)
  IN IF f # "" THEN "flag-" \o f
     ELSE IF x.n1 # o.n1 THEN "N1"
     ELSE IF x.att # o.att THEN "list-attempted"
     ELSE IF x.sld # o.sld THEN "list-solved"
     ELSE IF x.acc # o.acc THEN "list-accepted"
     ELSE IF x.bb # o.bb THEN "list-computed_BB"
     ELSE IF x.probs # o.probs THEN "problem-states"
     ELSE IF x.pst # o.pst THEN "posterior"
     ELSE IF x.smps # o.smps THEN "samples"
     ELSE IF ~(x.res.set = e.res.set /\ x.res.cur = e.res.cur /\ x.res.rows * x.res.n2 = e.res.n) THEN "result"
     ELSE ""

Match(x, e) ==
  LET private == SelectSeq(x.trail, LAMBDA g : g \in D!PrivateStages)
      want == D!PyName(x.raised)
      \* np.quantile of an empty list raises only under newer numpy
      sameOutcome == want = e.raised \/ (e.m = "compute_eps" /\ x.raised = "IndexError" /\ e.raised = "")
      diff == StateDiff(x, e)
  IN IF e.stages # private THEN "private-stages-in-order"
     ELSE IF ~sameOutcome
          THEN (IF x.raised = "refused" \/ (e.raised = "AssertionError" /\ want # "AssertionError")
                THEN "refused-exactly-when-precondition-fails" ELSE "returns-or-raises-as-the-stages-do")
     ELSE IF diff # "" THEN (IF x.raised = "refused" THEN "refused-call-changes-nothing" ELSE diff)
     ELSE "ok"

Hits(e) == IF e.m = "eval_posterior" THEN BOOLEAN ELSE {e.hit}
Cands(e) == {D!Run(Env(b), cur, [CallOf(e) EXCEPT !.hit = h]) : b \in BOOLEAN, h \in Hits(e)}
Primary(e) == D!Run(Env(TRUE), cur, CallOf(e))

WellFormed(e) == /\ Len(e.flags) = 9 /\ Len(e.slv) = Len(e.probs) /\ Len(e.fmin) = Len(e.probs)
                 /\ e.us \in {"F", "T", "A"}

\* ---- user-level invariants on the observed state
InvNames == <<"inv-later-flag-implies-earlier-flags", "inv-status-lists-have-length-n1-of-last-solve",
              "inv-accepted-implies-solved-implies-attempted", "inv-box-exactly-for-accepted-problems",
              "inv-computed_BB-says-per-problem-whether-it-has-a-box", "inv-posterior-is-of-current-problems-and-accepted-set",
              "inv-posterior-objectives-exist", "inv-samples-and-result-are-of-current-posterior",
              "inv-call-returns-or-is-refused">>
Holds(k, o) == CASE k = 1 -> D!InvFlagChain(o)
                 [] k = 2 -> D!InvListLengths(o)
                 [] k = 3 -> D!InvAccSolAtt(o)
                 [] k = 4 -> D!InvBoxIffAccepted(o)
                 [] k = 5 -> D!InvComputedBB(o)
                 [] k = 6 -> D!InvPosteriorCurrent(o)
                 [] k = 7 -> D!InvPosteriorCallable(o)
                 [] k = 8 -> D!InvSamplesCurrent(o)
                 [] k = 9 -> D!InvOnlyRefusals(o)
Violated(e) == LET o == ObsState(e) IN {InvNames[k] : k \in {j \in 1..Len(InvNames) : ~Holds(j, o)}}
RECURSIVE Join(_, _)
Join(S, k) == IF k > Len(InvNames) THEN "" ELSE (IF InvNames[k] \in S THEN InvNames[k] \o "|" ELSE "") \o Join(S, k + 1)

Step ==
  /\ ~done
  /\ IF l > Len(T.events) THEN done' = TRUE /\ UNCHANGED <<tid, l, cur, verdict, drift, viol>>
     ELSE LET e == T.events[l] IN
          IF ~WellFormed(e)
          THEN verdict' = "X:event-not-well-formed" /\ done' = TRUE /\ l' = l + 1 /\ UNCHANGED <<tid, cur, drift, viol>>
          ELSE LET good == {x \in Cands(e) : Match(x, e) = "ok"}
                   j == IF good # {} THEN "ok" ELSE "E:" \o e.m \o "-" \o Match(Primary(e), e)
                   v == viol \cup Violated(e)
               IN /\ verdict' = j /\ done' = (j # "ok") /\ l' = l + 1 /\ UNCHANGED tid
                  /\ cur' = (IF good # {} THEN CHOOSE x \in good : TRUE ELSE cur)
                  /\ viol' = v /\ drift' = Join(v, 1)

Spec == Init /\ [][Step]_vars
Report == done => PrintT(<<"V", tid, l, verdict, drift>>)
=============================================================================

--------------------------- MODULE ModelPriorOps ---------------------------
(***************************************************************************)
(* C08 - the joint model prior (elfi/model/extensions.py ModelPrior,        *)
(* elfi/model/augmenter.py).  Pure operators, shared by the design module   *)
(* ModelPrior.tla and the trace spec ModelPrior_Trace.tla.                   *)
(*                                                                         *)
(* A PRIOR DAG is a record                                                  *)
(*   D.params   sequence of parameter names (alphabetical order, as         *)
(*              ElfiModel.parameter_names returns them)                      *)
(*   D.args     name -> sequence of the arguments of the parameter's        *)
(*              distribution, each [t |-> "p", p |-> other parameter, c |-> 0]*)
(*              or [t |-> "c", p |-> "", c |-> constant value]               *)
(*   D.dist     name -> distribution record (numeric side only, see below)   *)
(* Assumption (finding F20 of C03 otherwise): no parameter occurs twice      *)
(* among the arguments of one distribution.                                 *)
(*                                                                         *)
(* OPERATIONAL side (what the code does):                                   *)
(*   BaseGraph      the ElfiModel as a CompileOps graph                      *)
(*   AddPdfNodes    augmenter.add_pdf_nodes / _add_distribution_nodes /      *)
(*                  add_reduce_node                                          *)
(*   Evaluate       ModelPrior.__init__ (two augmentations, compile for the  *)
(*                  joint node) + _evaluate_pdf (load, override, execute)    *)
(*   CodeShape ...  the reshape / [0] bookkeeping of _evaluate_pdf,          *)
(*                  gradient_logpdf, rvs                                     *)
(* compile / load / execute are CompileOps (bound to the code by C03).       *)
(* DENOTATIONAL side (the statement): ExpectedTerm, JointZero, JointVal,    *)
(* JointLogMicro, Derivative, SpecShape.                                    *)
(***************************************************************************)
EXTENDS Naturals, Integers, Sequences, FiniteSets, CompileOps

SeqSet(s) == {s[i] : i \in 1..Len(s)}
IndexIn(s, x) == CHOOSE i \in 1..Len(s) : s[i] = x

\* ------------------------------------------------------------------ node names
P(n) == <<"par", n>>            \* the parameter node n
K(n, i) == <<"con", n, i>>      \* the Constant node wrapping the i-th argument of n
A(attr, n) == <<attr, n>>       \* '_<n>_pdf' / '_<n>_logpdf'
J(attr) == <<"joint", attr>>    \* '_joint_pdf*' / '_joint_logpdf*'

ParamArgs(D, n) == {D.args[n][i].p : i \in {j \in 1..Len(D.args[n]) : D.args[n][j].t = "p"}}
ArgNode(D, n, i) == IF D.args[n][i].t = "p" THEN P(D.args[n][i].p) ELSE K(n, i)

\* the user's model: Prior nodes with positional parents (parameters or implicit Constants)
BaseGraph(D) ==
  LET ps == SeqSet(D.params)
      cs == UNION {{K(n, i) : i \in {j \in 1..Len(D.args[n]) : D.args[n][j].t = "c"}} : n \in ps}
      N == {P(n) : n \in ps} \cup cs
  IN [nodes |-> N,
      kind |-> [x \in N |-> IF x[1] = "par" THEN "prior" ELSE "const"],
      pos |-> [x \in N |-> IF x[1] = "par" THEN [i \in 1..Len(D.args[x[2]]) |-> ArgNode(D, x[2], i)] ELSE <<>>],
      named |-> [x \in N |-> {}], obs |-> {}, meta |-> {}]

\* augmenter.add_pdf_nodes(model, joint=True, log=(attr = "logpdf"), nodes=nodeseq):
\*   for n in nodes: Operation(getattr(model[n].distribution, attr), *([node] + node.parents), name='_n_attr')
\*   joint: Operation(compose(partial(reduce, mul|add), args_to_tuple), *pdfs, name='_joint_attr*')
AddPdfNodes(g, nodeseq, attr) ==
  LET new == {A(attr, nodeseq[i]) : i \in 1..Len(nodeseq)} \cup {J(attr)}
      N2 == g.nodes \cup new
  IN [nodes |-> N2,
      kind |-> [x \in N2 |-> IF x \in g.nodes THEN g.kind[x] ELSE "op"],
      pos |-> [x \in N2 |-> IF x \in g.nodes THEN g.pos[x]
                            ELSE IF x = J(attr) THEN [i \in 1..Len(nodeseq) |-> A(attr, nodeseq[i])]
                            ELSE <<P(x[2])>> \o g.pos[P(x[2])]],
      named |-> [x \in N2 |-> {}], obs |-> {}, meta |-> {}]

\* ModelPrior.__init__: which nodes get a pdf node.  The repaired code passes nodes=self.parameter_names;
\* the code before the repair of F8 passed nothing, i.e. ALL parameters of the model (alphabetical).
PdfNodesFor(D, names, fixed) == IF fixed THEN names ELSE D.params

Augmented(D, names, fixed) ==
  AddPdfNodes(AddPdfNodes(BaseGraph(D), PdfNodesFor(D, names, fixed), "pdf"), PdfNodesFor(D, names, fixed), "logpdf")

\* _evaluate_pdf: client.load_data(compiled net for the joint node), then for every requested parameter
\* set its output to the query column and delete its operation (= what Load does for with_values), compute
Evaluate(D, names, attr, fixed) ==
  LET g == Augmented(D, names, fixed)
      out == U(J(attr))
      net == Load(g, Compile(g, {out}), {P(names[i]) : i \in 1..Len(names)})
      run == Execute(net, {out})
  IN [val |-> run.res[out], ran |-> run.ran]

\* ------------------------------------------------------------------ the statement, as a term
NoNamed == [i \in 1..Len(Keys) |-> Absent]
ArgTerm(D, n, i) == IF D.args[n][i].t = "p" THEN <<"wv", P(D.args[n][i].p)>> ELSE <<"c", K(n, i)>>
\* pdf_n(x_n | x_parents(n)): the distribution's pdf applied to the query column of n, then the arguments
CondTerm(D, n, attr) ==
  <<"app", A(attr, n), <<<<"wv", P(n)>>>> \o [i \in 1..Len(D.args[n]) |-> ArgTerm(D, n, i)], NoNamed>>
\* the product (sum of logs) over the requested names, folded in the requested order
ExpectedTerm(D, names, attr) ==
  <<"app", J(attr), [i \in 1..Len(names) |-> CondTerm(D, names[i], attr)], NoNamed>>
ExpectedRan(names, attr) == {U(A(attr, names[i])) : i \in 1..Len(names)} \cup {U(J(attr))}
Closed(D, names) == \A i \in 1..Len(names) : ParamArgs(D, names[i]) \subseteq SeqSet(names)

\* ------------------------------------------------------------------ shapes
\* input: ndim in 0..2; `cnt` = number of scalars in it; dim = number of requested parameters.
\* A shape is a sequence of naturals; Bad = the call raises.
Bad == <<0, 0, 0>>
\* x.reshape((-1, dim)): number of rows
RowsOf(cnt, dim) == IF cnt % dim = 0 THEN cnt \div dim ELSE 0
\* _evaluate_pdf: val = compute(...)[node] has one entry per row; val[0] if ndim == 0 or (ndim == 1 and dim > 1)
CodeShapeEval(ndim, cnt, dim) ==
  IF RowsOf(cnt, dim) = 0 THEN Bad
  ELSE IF ndim = 0 \/ (ndim = 1 /\ dim > 1) THEN <<>> ELSE <<RowsOf(cnt, dim)>>
\* gradient_logpdf: grads = zeros_like(x.reshape((-1, dim))); grads[0] under the same condition
CodeShapeGrad(ndim, cnt, dim) ==
  IF RowsOf(cnt, dim) = 0 THEN Bad
  ELSE IF ndim = 0 \/ (ndim = 1 /\ dim > 1) THEN <<dim>> ELSE <<RowsOf(cnt, dim), dim>>
\* rvs(size): column_stack -> (size or 1, dim); dim == 1: reshape(size or 1); size is None: [0]
CodeShapeRvs(size, dim) ==
  LET n == IF size = 0 THEN 1 ELSE size
      full == IF dim = 1 THEN <<n>> ELSE <<n, dim>>
  IN IF size = 0 THEN Tail(full) ELSE full
\* the statement: a BARE POINT (a scalar when dim = 1, a length-dim vector when dim > 1) gets a bare
\* number / a gradient vector; n points (a length-n vector when dim = 1, an n x dim matrix) get n of them
BarePoint(ndim, cnt, dim) == (ndim = 0 /\ dim = 1) \/ (ndim = 1 /\ dim > 1 /\ cnt = dim)
WellFormed(ndim, cnt, dim) == BarePoint(ndim, cnt, dim) \/ (ndim = 1 /\ dim = 1) \/ (ndim = 2 /\ cnt % dim = 0 /\ cnt > 0)
NPoints(ndim, cnt, dim) == IF BarePoint(ndim, cnt, dim) THEN 1 ELSE cnt \div dim
SpecShapeEval(ndim, cnt, dim) == IF BarePoint(ndim, cnt, dim) THEN <<>> ELSE <<NPoints(ndim, cnt, dim)>>
SpecShapeGrad(ndim, cnt, dim) == IF BarePoint(ndim, cnt, dim) THEN <<dim>> ELSE <<NPoints(ndim, cnt, dim), dim>>
\* draws come in the form pdf takes points in: size None = a bare point, size n = n points
SpecShapeRvs(size, dim) ==
  IF size = 0 THEN (IF dim = 1 THEN <<>> ELSE <<dim>>) ELSE (IF dim = 1 THEN <<size>> ELSE <<size, dim>>)

\* ------------------------------------------------------------------ numbers
\* Coordinates and constants are integers in 1/u (u = 4: the quarter lattice; u = 10^6 for float draws).
\* Distribution records (every record carries every field):
\*  kind = "fake": exact fake distribution, arguments a = <<x, p1, p2>> (missing = 0), B = 4
\*     zero    iff (x + z[1]*p1 + z[2]*p2) mod zm = zr
\*     pdf     =  w0 + |x| + B*|p1| + B*B*|p2|     (decided at integer arguments of magnitude <= 5)
\*     logpdf  = (l0 + l[1]*x + l[2]*p1 + l[3]*p2 + k*|dd[1]*x + dd[2]*p1 + dd[3]*p2 - m|) / 2
\*  kind = "unif": scipy.stats.uniform, a = <<x, loc (default 0), scale (default 1)>>
\*     undefined iff scale <= 0;  zero iff not loc <= x <= loc + scale;  pdf = 1/scale
B == 4
Abs(x) == IF x < 0 THEN -x ELSE x
Arg(a, i) == IF i <= Len(a) THEN a[i] ELSE 0
RECURSIVE GCD(_, _)
GCD(a, b) == IF b = 0 THEN a ELSE GCD(b, a % b)
Reduced(q) == LET g == GCD(Abs(q[1]), q[2]) IN IF g = 0 THEN q ELSE <<q[1] \div g, q[2] \div g>>

ZeroSum(d, a) == Arg(a, 1) + d.z[1] * Arg(a, 2) + d.z[2] * Arg(a, 3)
FakeZero(d, a, u) == ZeroSum(d, a) % (u * d.zm) = u * d.zr
AllInt(a, u) == \A i \in 1..Len(a) : a[i] % u = 0 /\ Abs(a[i]) <= 5 * u
FakePdf(d, a, u) == d.w0 + (Abs(Arg(a, 1)) \div u) + B * (Abs(Arg(a, 2)) \div u) + B * B * (Abs(Arg(a, 3)) \div u)
KinkArg(d, a, u) == d.dd[1] * Arg(a, 1) + d.dd[2] * Arg(a, 2) + d.dd[3] * Arg(a, 3) - u * d.m
\* logpdf * 2u
FakeLogN(d, a, u) == u * d.l0 + d.l[1] * Arg(a, 1) + d.l[2] * Arg(a, 2) + d.l[3] * Arg(a, 3) + d.k * Abs(KinkArg(d, a, u))

UnifLoc(a) == Arg(a, 2)
UnifScale(a, u) == IF Len(a) >= 3 THEN a[3] ELSE u
UnifIn(a, u, tol) == UnifLoc(a) - tol <= a[1] /\ a[1] <= UnifLoc(a) + UnifScale(a, u) + tol
\* scale = 2^(j-2) for j in 0..5  (1/4 .. 8)
Pow2J(s, u) == IF \E j \in 0..5 : s * 4 = u * (2 ^ j) THEN CHOOSE j \in 0..5 : s * 4 = u * (2 ^ j) ELSE -1
Ln2Micro == 693147

\* the values the distribution of n sees at `row` (columns in the order of `names`)
ArgVals(D, names, n, row) ==
  <<row[IndexIn(names, n)]>> \o
  [i \in 1..Len(D.args[n]) |-> IF D.args[n][i].t = "p" THEN row[IndexIn(names, D.args[n][i].p)] ELSE D.args[n][i].c]

\* the conditional density of n at row is defined / zero / exactly representable
CondDefined(D, names, n, row, u) ==
  /\ ParamArgs(D, n) \subseteq SeqSet(names)
  /\ D.dist[n].kind = "unif" => UnifScale(ArgVals(D, names, n, row), u) > 0
CondZero(D, names, n, row, u, tol) ==
  LET a == ArgVals(D, names, n, row) IN
  IF D.dist[n].kind = "fake" THEN FakeZero(D.dist[n], a, u) ELSE ~UnifIn(a, u, tol)
CondExact(D, names, n, row, u) ==
  LET a == ArgVals(D, names, n, row) IN
  IF D.dist[n].kind = "fake" THEN AllInt(a, u) ELSE Pow2J(UnifScale(a, u), u) >= 0
\* density as a reduced fraction (for exact, non-zero nodes)
CondVal(D, names, n, row, u) ==
  LET a == ArgVals(D, names, n, row) IN
  IF D.dist[n].kind = "fake" THEN <<FakePdf(D.dist[n], a, u), 1>> ELSE Reduced(<<u, UnifScale(a, u)>>)
\* log density in 10^-6 (u must divide 500000); exact for fake nodes, within 1 for unif nodes
CondLogMicro(D, names, n, row, u) ==
  LET a == ArgVals(D, names, n, row) IN
  IF D.dist[n].kind = "fake" THEN FakeLogN(D.dist[n], a, u) * (500000 \div u)
  ELSE (2 - Pow2J(UnifScale(a, u), u)) * Ln2Micro

JointDefined(D, names, row, u) == \A i \in 1..Len(names) : CondDefined(D, names, names[i], row, u)
JointZero(D, names, row, u) == \E i \in 1..Len(names) : CondZero(D, names, names[i], row, u, 0)
JointExact(D, names, row, u) == \A i \in 1..Len(names) : CondExact(D, names, names[i], row, u)
RECURSIVE ProdQ(_, _, _, _, _)
ProdQ(D, names, row, u, i) ==
  IF i = 0 THEN <<1, 1>>
  ELSE LET r == ProdQ(D, names, row, u, i - 1)
           f == CondVal(D, names, names[i], row, u)
       IN Reduced(<<r[1] * f[1], r[2] * f[2]>>)
JointVal(D, names, row, u) == ProdQ(D, names, row, u, Len(names))
RECURSIVE SumLog(_, _, _, _, _)
SumLog(D, names, row, u, i) ==
  IF i = 0 THEN 0 ELSE SumLog(D, names, row, u, i - 1) + CondLogMicro(D, names, names[i], row, u)
JointLogMicro(D, names, row, u) == SumLog(D, names, row, u, Len(names))
NUnif(D, names) == Cardinality({i \in 1..Len(names) : D.dist[names[i]].kind = "unif"})
\* every conditional density positive, membership in a uniform support taken with tolerance
JointPositiveTol(D, names, row, u, tol) ==
  \A i \in 1..Len(names) :
     LET n == names[i]
         a == ArgVals(D, names, n, row)
     IN IF D.dist[n].kind = "fake" THEN (AllInt(a, u) => ~FakeZero(D.dist[n], a, u))
        ELSE UnifScale(a, u) > 0 /\ UnifIn(a, u, tol)

\* ------------------------------------------------------------------ gradient of the log density
Sgn(x) == IF x > 0 THEN 1 ELSE IF x < 0 THEN -1 ELSE 0
\* position of coordinate c (a parameter name) among the values the distribution of n sees, or 0
PosOfCoord(D, n, c) ==
  IF n = c THEN 1
  ELSE IF \E i \in 1..Len(D.args[n]) : D.args[n][i].t = "p" /\ D.args[n][i].p = c
       THEN 1 + (CHOOSE i \in 1..Len(D.args[n]) : D.args[n][i].t = "p" /\ D.args[n][i].p = c)
       ELSE 0
\* d logpdf_n / d x_c * 2 at row, taking the kink's sign s (fake nodes; unif nodes are flat inside)
CondSlope2(D, names, n, c, row, u, s) ==
  LET p == PosOfCoord(D, n, c) IN
  IF p = 0 \/ D.dist[n].kind = "unif" THEN 0
  ELSE D.dist[n].l[p] + D.dist[n].k * s * D.dist[n].dd[p]
RECURSIVE SumSlope(_, _, _, _, _, _)
SumSlope(D, names, c, row, u, i) ==
  IF i = 0 THEN 0
  ELSE LET n == names[i] IN
       SumSlope(D, names, c, row, u, i - 1)
       + CondSlope2(D, names, n, c, row, u, Sgn(KinkArg(D.dist[n], ArgVals(D, names, n, row), u)))
\* the derivative of the joint log density w.r.t. coordinate c, in 10^-6
DerivativeMicro(D, names, c, row, u) == SumSlope(D, names, c, row, u, Len(names)) * 500000
Shift(row, j, h) == [row EXCEPT ![j] = @ + h]
\* the log density is differentiable at row in direction j and the central difference with step hu / u
\* (hu = 0: a step far below the lattice spacing) sees one linear piece only:
\*  - the density is defined and positive on the stencil,
\*  - no fake node's kink lies strictly inside the stencil (hu = 0: not at the point),
\*  - coordinate j is not the scale of a uniform node (log scale is not piecewise linear),
\*  - hu = 0: strictly inside every uniform support
Smooth(D, names, j, row, u, hu) ==
  LET c == names[j]
      lo == Shift(row, j, -hu)
      hi == Shift(row, j, hu)
      okAt(r) == JointDefined(D, names, r, u) /\ ~JointZero(D, names, r, u)
  IN /\ okAt(row)
     \* numgrad returns all zeros when ANY of its 3*dim evaluations is -inf: the whole stencil must be inside
     /\ \A q \in 1..Len(names) : okAt(Shift(row, q, -hu)) /\ okAt(Shift(row, q, hu))
     /\ \A i \in 1..Len(names) :
          LET n == names[i]
              dn == D.dist[n]
          IN IF dn.kind = "fake"
             THEN \/ dn.k = 0 \/ PosOfCoord(D, n, c) = 0
                  \/ IF hu = 0 THEN KinkArg(dn, ArgVals(D, names, n, row), u) # 0
                     ELSE Sgn(KinkArg(dn, ArgVals(D, names, n, lo), u)) * Sgn(KinkArg(dn, ArgVals(D, names, n, hi), u)) >= 0
             ELSE /\ PosOfCoord(D, n, c) # 3
                  /\ hu = 0 => LET a == ArgVals(D, names, n, row) IN
                               UnifLoc(a) < a[1] /\ a[1] < UnifLoc(a) + UnifScale(a, u)
\* utils.numgrad transcribed on the lattice: central difference of the joint log density (in 10^-6),
\* all zeros when any of the 3*dim evaluations is -inf.  Requires hu > 0 and 2*hu | u... stated as a
\* fraction <<num, den>> in 10^-6 to avoid division: (L(hi) - L(lo)) * u / (2 * hu)
CentralDiffMicroQ(D, names, j, row, u, hu) ==
  <<(JointLogMicro(D, names, Shift(row, j, hu), u) - JointLogMicro(D, names, Shift(row, j, -hu), u)) * u, 2 * hu>>
=============================================================================

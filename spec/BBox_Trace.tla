----------------------------- MODULE BBox_Trace -----------------------------
(***************************************************************************)
(* Trace validation for C19(a,b).  A trace is one real NDimBoundingBox:    *)
(* inputs D, rotation (kind "exact": a signed permutation matrix, integer  *)
(* entries; kind "ortho": a random orthonormal matrix, not logged), centre *)
(* c and raw limits lim in 10^-6 (integers), then the observed calls:      *)
(*   new  : construction; lims = the object's limits (10^-6, rounded),     *)
(*          vol = its volume                                               *)
(*   pt   : contains(x)/pdf(x) at a world lattice point x (exact kind)     *)
(*   bpt  : contains/pdf at x = c + R u for a body-frame lattice point u   *)
(*          (the harness applies the forward map; any kind)                *)
(*   smpn : sample(n, seed) returned an array of shape (ngot, dgot)        *)
(*   smp  : one drawn point fed back into contains/pdf; x rounded to 10^-6 *)
(*          (exact kind) or mg = the harness's own margin estimate in      *)
(*          10^-6 (ortho kind; used only to leave out points within        *)
(*          5e-7 of a face)                                                *)
(* Floats (vol, pdf) are logged as <<s, m, e>> (RomcBig).                  *)
(*                                                                         *)
(* TLC recomputes everything from the inputs with BBoxOps: the widened     *)
(* limits, the volume (exact big-number product), the body coordinates of  *)
(* each point through the inverse rotation, and on which side of the faces *)
(* it lies.  Points exactly on a face are not decided by P: clauses        *)
(* (measure zero; floats), nor is the widening of a width that equals the  *)
(* threshold exactly (either outcome is accepted, then used consistently). *)
(***************************************************************************)
EXTENDS Naturals, Integers, Sequences, FiniteSets, TLC, Json, IOUtils, BBoxOps, RomcBig

Traces == JsonDeserialize(IOEnv.TRACE_FILE)

VARIABLES tid, l, eff, verdict, drift, done
vars == <<tid, l, eff, verdict, drift, done>>

T == Traces[tid]
EpsMicro == 1000                              \* _secure_limits: eps = .001
Dyadic(v) == v % 15625 = 0                    \* multiples of 1/64 are exact in binary and in 10^-6

Init == /\ tid \in 1..Len(Traces) /\ l = 1 /\ eff = [lim |-> <<>>, vn |-> <<>>]
        /\ verdict = "ok" /\ drift = "" /\ done = FALSE

Near(a, b) == a - b \in -1..1
PairNear(p, r) == Near(p[1], r[1]) /\ Near(p[2], r[2])
AtThreshold(k) == T.lim[k][2] - T.lim[k][1] = EpsMicro
\* the limits the region is judged against
EffOf(e) == [k \in 1..T.D |->
               IF AtThreshold(k)
               THEN (IF PairNear(e.lims[k], Widen(T.lim[k], EpsMicro)) THEN Widen(T.lim[k], EpsMicro) ELSE T.lim[k])
               ELSE Secure(T.lim, EpsMicro)[k]]
Widths(lim) == [k \in 1..Len(lim) |-> lim[k][2] - lim[k][1]]
VolNum(lim) == BProd(Widths(lim))             \* volume = VolNum / 10^(6 D)
VolDen == BPow10(<<1>>, 6 * T.D)

\* density value consistent with the reported containment
PdfIs(e, ins) == IF ins THEN ApproxEq(e.pdf, VolDen, eff.vn) ELSE (IsSci(e.pdf) /\ e.pdf[1] = 0)

BodyOf(e) == IF e.ev = "bpt" THEN e.u ELSE ToBody(Inverse(T.rot), T.c, e.x)

JudgeP(e) ==
  IF e.ev = "new" THEN
       IF ~ValidLimits(T.lim) THEN "X:invalid-raw-limits"
       ELSE IF e.res # "ok" THEN "P:box-constructs"
       ELSE IF Len(e.lims) # T.D THEN "P:box-dimension"
       ELSE IF ~ApproxEq(e.vol, VolNum(EffOf(e)), VolDen) THEN "P:volume"
       ELSE "ok"
  ELSE IF e.res # "ok" THEN "P:call-returns"
  ELSE IF e.ev = "smpn" THEN (IF e.ngot = e.nreq /\ e.dgot = T.D THEN "ok" ELSE "P:sample-shape")
  ELSE IF e.ev \in {"pt", "bpt"} THEN
       IF e.ev = "pt" /\ T.kind # "exact" THEN "X:world-lattice-point-needs-exact-rotation"
       ELSE LET m == Margin(eff.lim, BodyOf(e)) IN
            IF m >= 1 /\ ~(e.inside /\ PdfIs(e, TRUE)) THEN "P:density-inside"
            ELSE IF m <= -1 /\ ~(~e.inside /\ PdfIs(e, FALSE)) THEN "P:density-outside"
            ELSE IF ~PdfIs(e, e.inside) THEN "P:density-value"
            ELSE "ok"
  ELSE IF e.ev = "smp" THEN
       IF T.kind = "exact"
       THEN LET m == Margin(eff.lim, BodyOf(e)) IN
            IF m <= -2 THEN "P:sample-in-region"
            ELSE IF m >= 2 /\ ~e.inside THEN "P:sample-contained"
            ELSE IF ~PdfIs(e, e.inside) THEN "P:density-value"
            ELSE "ok"
       ELSE IF e.mg # 0 /\ ~e.inside THEN "P:sample-contained"
            ELSE IF ~PdfIs(e, e.inside) THEN "P:density-value"
            ELSE "ok"
  ELSE "X:unknown-event"

\* a point on a face whose comparison is exact in floats: dyadic point, centre and (unwidened) limits
OnExactFace(e, u) ==
  /\ T.kind = "exact" /\ e.ev = "pt"
  /\ Margin(eff.lim, u) = 0
  /\ \A k \in 1..T.D : Dyadic(e.x[k]) /\ Dyadic(T.c[k])
  /\ \A k \in 1..T.D : (u[k] = eff.lim[k][1] \/ u[k] = eff.lim[k][2]) =>
                          (eff.lim[k] = T.lim[k] /\ Dyadic(T.lim[k][1]) /\ Dyadic(T.lim[k][2]))

JudgeM(e) ==
  IF e.ev = "new" THEN
       IF e.res # "ok" THEN ""
       ELSE IF \E k \in 1..T.D : ~PairNear(e.lims[k], Secure(T.lim, EpsMicro)[k]) THEN "M:secure-limits"
       ELSE ""
  ELSE IF e.res = "ok" /\ e.ev = "pt" /\ OnExactFace(e, BodyOf(e)) /\ ~e.inside THEN "M:faces-belong-to-the-box"
  ELSE ""

Step ==
  /\ ~done
  /\ IF l > Len(T.events) THEN done' = TRUE /\ UNCHANGED <<tid, l, eff, verdict, drift>>
     ELSE LET e == T.events[l]
              j == JudgeP(e)
              m == IF drift = "" THEN JudgeM(e) ELSE drift
          IN /\ verdict' = j
             /\ drift' = m
             /\ done' = (j # "ok")
             /\ l' = l + 1
             /\ UNCHANGED tid
             /\ eff' = IF e.ev = "new" /\ j = "ok" THEN [lim |-> EffOf(e), vn |-> VolNum(EffOf(e))] ELSE eff

Spec == Init /\ [][Step]_vars
Report == done => PrintT(<<"V", tid, l, verdict, drift>>)
=============================================================================

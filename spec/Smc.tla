-------------------------------- MODULE Smc --------------------------------
(***************************************************************************)
(* samplers.SMC: the round structure over populations, incl. continued     *)
(* sampling on an existing sampler.                                        *)
(*   set_objective(n, thresholds | quantiles)              SetObjective     *)
(*   the inner Rejection of a round finishes (update())    EndRound         *)
(*   infer() returns: extract_result()                     Extract          *)
(* A population is [thr, src, nb]: the threshold in force, the index of the *)
(* population its proposals / importance weights were computed from (0 =    *)
(* prior, weights 1) and the batches it consumed.  A threshold is either a  *)
(* user value <<"u", v>> or <<"q", alpha, k>> = the alpha-quantile of the    *)
(* discrepancies of population k (round 0 in quantile mode: <<"q0", alpha>>).*)
(***************************************************************************)
EXTENDS Naturals, Integers, Sequences, FiniteSets, TLC

CONSTANTS Vals,        \* user threshold values / quantile ids
          MaxLen,      \* max length of a threshold / quantile list
          MaxCalls,    \* number of sample() calls on one sampler
          ClearStaleQuantiles   \* TRUE = set_objective(thresholds=...) resets _quantiles (repair of F22)

None == <<"n", 0>>      \* a padded (None) list entry
NoQ == <<>>             \* self._quantiles is None
VARIABLES pops, round, objRound, thrs, qs, phase, calls, nbTotal, raised
vars == <<pops, round, objRound, thrs, qs, phase, calls, nbTotal, raised>>

Init == /\ pops = <<>> /\ round = 0 /\ objRound = 0 /\ thrs = <<>> /\ qs = NoQ
        /\ phase = "idle" /\ calls = 0 /\ nbTotal = 0 /\ raised = FALSE

Lists == UNION {[1..n -> Vals] : n \in 1..MaxLen}
Pad(k, s) == [i \in 1..(k + Len(s)) |-> IF i <= k THEN None ELSE <<"v", s[i - k]>>]

\* the threshold in force when a round starts (_init_new_round)
\* returns <<ok, thr>>; ok = FALSE models the IndexError of a stale _quantiles array
ThrInForce(r, thrs2, qs2) ==
  IF r = 0 /\ qs2 # NoQ THEN <<TRUE, <<"q0", qs2[1][2]>>>>
  ELSE IF qs2 # NoQ
       THEN IF r + 1 > Len(qs2) THEN <<FALSE, None>>
            ELSE <<TRUE, <<"q", qs2[r + 1][2], r>>>>        \* _set_threshold: quantile of population r (1-based: the previous one)
       ELSE <<TRUE, <<"u", thrs2[r + 1][2]>>>>

SetObjective(kind, lst) ==
  /\ phase = "idle" /\ calls < MaxCalls /\ ~raised
  /\ LET k == Len(pops)
         qs2 == IF kind = "q" THEN Pad(k, lst) ELSE IF ClearStaleQuantiles THEN NoQ ELSE qs
         thrs2 == IF kind = "q" THEN [i \in 1..(k + Len(lst)) |-> None] ELSE Pad(k, lst)
         t == ThrInForce(k, thrs2, qs2)
     IN /\ round' = k /\ objRound' = k + Len(lst) - 1
        /\ qs' = qs2 /\ thrs' = thrs2
        /\ IF t[1] THEN phase' = "round" /\ raised' = FALSE ELSE phase' = "idle" /\ raised' = TRUE
  /\ calls' = calls + 1 /\ UNCHANGED <<pops, nbTotal>>

CurThr == ThrInForce(round, thrs, qs)[2]
NewPop(nb) == [thr |-> CurThr, src |-> Len(pops), nb |-> nb]

\* inner rejection finished in a non-final round: population appended, next round initialised
EndRound(nb) ==
  /\ phase = "round" /\ round < objRound
  /\ pops' = Append(pops, NewPop(nb)) /\ round' = round + 1 /\ nbTotal' = nbTotal + nb
  /\ LET t == ThrInForce(round + 1, thrs, qs) IN
       IF t[1] THEN phase' = "round" /\ raised' = FALSE ELSE phase' = "idle" /\ raised' = TRUE
  /\ UNCHANGED <<objRound, thrs, qs, calls>>
\* final round finished: infer() returns, extract_result() appends the last population
Extract(nb) ==
  /\ phase = "round" /\ round = objRound
  /\ pops' = Append(pops, NewPop(nb)) /\ nbTotal' = nbTotal + nb /\ phase' = "idle"
  /\ UNCHANGED <<round, objRound, thrs, qs, calls, raised>>

Next == (\E kind \in {"u", "q"}, lst \in Lists : SetObjective(kind, lst))
        \/ (\E nb \in 1..2 : EndRound(nb) \/ Extract(nb))
Spec == Init /\ [][Next]_vars

\* ---- properties (C07, structural part) -----------------------------------------
NeverRaises == ~raised
\* every population's proposals / weights come from the population right before it
UsesLatestPopulation == \A i \in 1..Len(pops) : pops[i].src = i - 1
\* a quantile threshold is the quantile of the PREVIOUS population
QuantileOfPrevious == \A i \in 1..Len(pops) : pops[i].thr[1] = "q" => pops[i].thr[3] = i - 1
\* the threshold in force is the one the user gave for that round of that call (checked through the padding)
NSimAdds == nbTotal = (IF pops = <<>> THEN 0 ELSE LET f[i \in 0..Len(pops)] == IF i = 0 THEN 0 ELSE f[i - 1] + pops[i].nb IN f[Len(pops)])
OneRoundPerListEntry == phase = "idle" /\ ~raised => Len(pops) = objRound + (IF calls = 0 THEN 0 ELSE 1)
=============================================================================

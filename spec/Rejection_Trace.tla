-------------------------- MODULE Rejection_Trace --------------------------
(***************************************************************************)
(* Trace validation for C01.  A trace is one real Rejection run:           *)
(*   T.bs, T.n, T.mode in {"thr","nsim","quantile"}, T.thr (code, -1 none), *)
(*   T.nsim, T.qn/T.qd (quantile as a rational), T.initb                   *)
(*   events "update": the batch handed to update() as rows <<idS,idT,d>>   *)
(*          (idS decoded from the summary column, idT from the parameter   *)
(*          column, d the discrepancy code) and the projected sampler      *)
(*          state after the call (buffer rows, state threshold, objective, *)
(*          finished flag, n_sim)                                          *)
(*   event  "result": the rows of the returned Sample, its threshold,      *)
(*          n_sim and n_batches.                                           *)
(* Discrepancy codes: small integers, INF = 999, NAN = 1000.               *)
(***************************************************************************)
EXTENDS Naturals, Integers, Sequences, FiniteSets, TLC, Json, IOUtils, RejectionOps

Traces == JsonDeserialize(IOEnv.TRACE_FILE)

VARIABLES tid, l, buf, consumed, nCons, objB, verdict, drift, done
vars == <<tid, l, buf, consumed, nCons, objB, verdict, drift, done>>

T == Traces[tid]
Thr == IF T.mode = "thr" THEN T.thr ELSE NoThr
Budget == IF T.mode = "nsim" THEN T.nsim
          ELSE IF T.mode = "quantile" THEN Ceil(T.n * T.qd, T.qn)     \* ceil(n_samples / quantile)
          ELSE 0

Init == /\ tid \in 1..Len(Traces) /\ l = 1
        /\ buf = [i \in 1..(T.n + T.bs) |-> Filler]
        /\ consumed = {} /\ nCons = 0
        /\ objB = IF Budget > 0 THEN Ceil(Budget, T.bs) ELSE T.initb
        /\ verdict = "ok" /\ drift = "" /\ done = FALSE

Row(r) == [id |-> r[1], d |-> r[3]]
Rows(rs) == [i \in 1..Len(rs) |-> Row(rs[i])]
DOf(id) == (CHOOSE c \in consumed : c.id = id).d
Known(id) == \E c \in consumed : c.id = id

\* ---- property clauses ------------------------------------------------------
JudgeUpdateP(e) ==
  \* every row of a consumed batch is one simulated draw: all its columns carry the same id
  IF \E i \in 1..Len(e.rows) : e.rows[i][1] # e.rows[i][2] \/ e.rows[i][1] < 0 THEN "P:row-consistent-batch"
  ELSE IF Len(e.rows) # T.bs THEN "P:batch-has-batch_size-rows"
  ELSE "ok"

JudgeResultP(e) ==
  LET R == e.rows
      elig == Eligible(consumed, Thr)
  IN IF e.nsim < 0 THEN "P:sampler-returns-a-result"      \* it raised or did not return
     ELSE IF Len(R) # T.n THEN "P:n_samples-rows"
     ELSE IF \E i \in 1..T.n : ~Known(R[i][1]) THEN "P:is-consumed-draw"
     ELSE IF \E i \in 1..T.n : R[i][1] # R[i][2] \/ R[i][3] # DOf(R[i][1]) THEN "P:row-consistent"
     ELSE IF \E i, j \in 1..T.n : i # j /\ R[i][1] = R[j][1] THEN "P:no-draw-returned-twice"
     ELSE IF \E i \in 1..T.n : ~Accepts(R[i][3], Thr) THEN "P:within-threshold"
     ELSE IF ~SortedByD(Rows(R)) THEN "P:ascending-order"
     ELSE IF [i \in 1..T.n |-> R[i][3]] # SmallestDs(elig, T.n) THEN "P:best-n"
     ELSE IF e.thr # R[T.n][3] THEN "P:threshold-is-largest-returned"
     ELSE IF e.nsim # T.bs * nCons THEN "P:n_sim"
     ELSE IF Budget > 0 /\ nCons # Ceil(Budget, T.bs) THEN "P:budget-batches"
     ELSE "ok"

\* ---- mechanism clauses (Rejection.tla) ---------------------------------------
ObsRows(rs) == [i \in 1..Len(rs) |-> [id |-> rs[i][1], d |-> rs[i][3]]]
JudgeUpdateM(e) ==
  LET batch == Rows(e.rows)
      b == ObsRows(e.obs.buf)
  IN IF objB <= nCons THEN "M:update-after-finished"
     ELSE IF Len(b) # T.n + T.bs THEN "M:buffer-length"
     ELSE IF ~IsMergeResult(b, buf, batch, Thr) THEN "M:buffer-is-merge-result"
     ELSE IF e.obs.thr # b[T.n].d THEN "M:state-threshold"
     ELSE IF e.obs.objb \notin ObjAfterAlt(objB, b, Thr, T.n, T.bs, (nCons + 1) * T.bs) THEN "M:objective-n_batches"
     ELSE IF e.obs.nsim # (nCons + 1) * T.bs THEN "M:state-n_sim"
     ELSE IF e.obs.fin # (e.obs.objb <= nCons + 1) THEN "M:finished-flag"
     ELSE ""
JudgeResultM(e) ==
  IF objB > nCons THEN "M:result-before-finished"
  ELSE IF [i \in 1..Len(e.rows) |-> [id |-> e.rows[i][1], d |-> e.rows[i][3]]] # SubSeq(buf, 1, T.n) THEN "M:result-is-buffer-head"
  ELSE IF e.nbatches # nCons THEN "M:n_batches"
  ELSE ""

Step ==
  /\ ~done
  /\ IF l > Len(T.events) THEN done' = TRUE /\ UNCHANGED <<tid, l, buf, consumed, nCons, objB, verdict, drift>>
     ELSE LET e == T.events[l]
              j == IF e.ev = "update" THEN JudgeUpdateP(e) ELSE JudgeResultP(e)
              m == IF drift # "" THEN drift
                   ELSE IF e.ev = "update" THEN JudgeUpdateM(e) ELSE JudgeResultM(e)
          IN /\ verdict' = j /\ drift' = m /\ done' = (j # "ok") /\ l' = l + 1 /\ UNCHANGED tid
             /\ IF j = "ok" /\ e.ev = "update"
                THEN /\ consumed' = consumed \cup {Row(e.rows[i]) : i \in 1..Len(e.rows)}
                     /\ nCons' = nCons + 1
                     \* follow the observed state (so that later M: clauses compare step by step)
                     /\ buf' = IF m = "" THEN ObsRows(e.obs.buf) ELSE buf
                     /\ objB' = IF m = "" THEN e.obs.objb ELSE objB
                ELSE UNCHANGED <<buf, consumed, nCons, objB>>

Spec == Init /\ [][Step]_vars
Report == done => PrintT(<<"V", tid, l, verdict, drift>>)
=============================================================================

--------------------------- MODULE Gen_LineSearch ---------------------------
(* Behaviour emitter for LineSearch.tla (spec -> code): every terminal state  *)
(* of the design module, i.e. every distinguishable way the loop can run, is  *)
(* printed as <<"BEH", K, replim, passed, failed, off>>; the driver replays   *)
(* each one into the real line_search (unprobed positions filled freely).     *)
(* Run with one worker.                                                       *)
EXTENDS LineSearch
Emit == Done => PrintT(<<"BEH", K, replim, passed, failed, off>>)
=============================================================================

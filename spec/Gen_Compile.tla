---------------------------- MODULE Gen_Compile ----------------------------
(* Behaviour emitter (spec -> code): prints every graph / request that       *)
(* Compile.tla explores, as JSON, to be built and executed on the real elfi.  *)
EXTENDS Compile, Json
N2 == <<"a", "b">>
N3 == <<"a", "b", "c">>
N4 == <<"a", "b", "c", "d">>
Emit == phase = 1 => PrintT(<<"G", ToJson([nodes |-> Names, kind |-> g.kind, pos |-> g.pos, named |-> g.named,
                                            obs |-> g.obs, meta |-> g.meta, outs |-> outs, wv |-> wv])>>)
=============================================================================

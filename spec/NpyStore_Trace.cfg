SPECIFICATION TSpec
CONSTANTS
  Vals = {0}
  MaxLen = 0
  MaxCalls = 0
  TruncHeaderFirst = TRUE
  MmapSyncsHeader = TRUE
  AllowDirtyOverwrite = TRUE
  InitRows = 0
INVARIANT Report
CHECK_DEADLOCK FALSE

------------------------------ MODULE RoundGate ------------------------------
(***************************************************************************)
(* EXTENSION (no listed property): batch / round gating of the non-sampler *)
(* inference engines, on top of ParameterInference.infer / iterate and      *)
(* elfi.client.BatchHandler (the scheduling core of Batches.tla), against   *)
(* an ADVERSARIAL client (every is_ready answer is a free choice):          *)
(*                                                                         *)
(*  kind "bo"       bolfi.BayesianOptimization: _get_acquisition_index,     *)
(*                  _allow_submit (async_acq or not), prepare_new_batch     *)
(*                  (acquisition queue), update (_should_optimize,          *)
(*                  update_interval, last_GP_update), set_objective         *)
(*                  (n_evidence incl. precomputed evidence)                 *)
(*  kind "bolfire"  parameter_inference.ModelBased as BOLFIRE uses it:      *)
(*                  __init__ ends with _init_round(); _init_round draws     *)
(*                  from the prior while n_evidence < n_initial_evidence,   *)
(*                  else acquires 1 point with t = n_evidence - n_initial;  *)
(*                  _process_simulated feeds (point, value) to the          *)
(*                  surrogate with BOLFIRE._should_optimize; fit(n) may be  *)
(*                  called again (ModelBased.infer re-initialises a round)  *)
(*  kind "bsl"      ModelBased as BSL uses it: sample() = _init_state       *)
(*                  (counters to 0) + infer; _init_round may reject `rej`   *)
(*                  proposals outside the prior support WITHOUT simulating  *)
(*                  and lowers objective['round'] by one for each           *)
(*                                                                         *)
(* Code -> action map                                                      *)
(*   infer()/fit()/sample(): set_objective (+ _init_state/_init_round)      *)
(*                                           CallBo / CallBolfire / CallBsl *)
(*   iterate(): while _allow_submit(): submit(prepare_new_batch())          *)
(*                                           SubmitBo / SubmitMb            *)
(*   iterate(): leaving the while loop       GoWait                         *)
(*   iterate(): wait_next(); update()        ConsumeBo / ConsumeMb          *)
(*       ModelBased.update: _merge_batch; at n_sim_round rows:              *)
(*       _process_simulated; round += 1; if round < objective: _init_round  *)
(*   infer(): loop exit; cancel_pending()    Finish                         *)
(*                                                                         *)
(* The configuration P (kind, max_parallel_batches, batch_size, ...) is     *)
(* chosen in Init from the constant sets and never changes: one TLC run     *)
(* sweeps every configuration.  Counts of evidence are in points, batch     *)
(* indexes in batches.  A batch carries `src`: what prepare_new_batch gave  *)
(* it (prior draw: t = -1; slice k of acquisition t, with `seen` = points   *)
(* in the surrogate when acquire() ran, `pend` = batches outstanding then,  *)
(* `opt` = the GP hyperparameters had been optimised at least once).        *)
(***************************************************************************)
EXTENDS Naturals, Integers, Sequences, FiniteSets, TLC, RoundGateOps

CONSTANTS Kinds, MaxPars, BSs,
          Ks,                       \* ModelBased: batches per round  n_sim_round / batch_size
          NInits, NPres, BPAs, Upds, Asyncs,
          BoO1s, BoO2s,             \* n_evidence of the first / second infer() call (0 = no second call)
          MbO1s, MbO2s,             \* rounds (bolfire: n_evidence, bsl: n_samples) of the first / second call
          Gates,                    \* {TRUE} = ModelBased._allow_submit as coded; FALSE: without the round gate (control)
          ReInits                   \* {TRUE} = ModelBased.infer re-initialises the round as coded; FALSE: control

VARIABLES P,
          pc,          \* "idle" (between public calls) | "submit" (in iterate's while loop) | "wait" | "done"
          call,        \* number of public calls made
          next,        \* BatchHandler._next_batch_index
          pending,     \* OrderedDict, oldest first: [index, id, pt, src]
          tasks, nextId, removed,
          nCons,       \* state['n_batches']
          nSim,        \* state['n_sim']
          obj,         \* _objective_n_batches
          round,       \* state['round']
          inRound,     \* state['n_sim_round'] / batch_size
          objR,        \* objective['round']
          point,       \* current_params: [id, src]
          nPts,        \* points set so far
          buf,         \* batches merged into `simulated` in the current round
          procs,       \* history: _process_simulated calls [round, pt, idx, pts]
          nSmp,        \* BSL state['n_samples']
          queue,       \* BO state['acquisition'] in slices of one batch
          acqs,        \* history: acquire() calls [t, seen, pend, first, opt]
          gpN,         \* target_model.n_evidence
          lastOpt,     \* state['last_GP_update']
          opts,        \* history: gpN right after each hyperparameter optimisation
          nEv,         \* state['n_evidence']
          fed          \* history: what the surrogate was updated with, in order
vars == <<P, pc, call, next, pending, tasks, nextId, removed, nCons, nSim, obj, round, inRound, objR, point, nPts, buf, procs, nSmp,
          queue, acqs, gpN, lastOpt, opts, nEv, fed>>
sched == <<next, pending, tasks, nextId, removed>>
mbv == <<round, inRound, objR, point, nPts, buf, procs, nSmp>>
bov == <<queue, gpN, lastOpt, opts, nEv, fed>>

Mb == P.kind \in {"bolfire", "bsl"}
Objs == IF P.o2 = 0 THEN <<P.o1>> ELSE <<P.o1, P.o2>>
NoSrc == [t |-> -1, k |-> 0, seen |-> 0, pend |-> 0, opt |-> FALSE]
T(bi) == AcqT(bi, P.bs, P.ninit, P.npre, P.bpa)
OffB == (P.ninit - P.npre) \div P.bs           \* batches drawn from the prior (a multiple: see NInitial)

\* BOLFIRE._init_round: prior draw while n_evidence < n_initial_evidence, else acquire(1, t = n_evidence - n_initial_evidence)
Acquires(nev) == nev >= P.ninit
NewSrc(nev, gpn, optd) == IF Acquires(nev) THEN [t |-> nev - P.ninit, k |-> 1, seen |-> gpn, pend |-> 0, opt |-> optd] ELSE NoSrc
AcqRec(s, first) == [t |-> s.t, seen |-> s.seen, pend |-> s.pend, first |-> first, opt |-> s.opt]

\* a field that the kind does not use takes ONE canonical value of its set
Canon(X) == CHOOSE x \in X : TRUE
Configs ==
  {p \in [kind : Kinds, maxpar : MaxPars, bs : BSs, k : Ks, ninit : NInits, npre : NPres, bpa : BPAs, upd : Upds, async : Asyncs,
          o1 : BoO1s \cup MbO1s, o2 : BoO2s \cup MbO2s, gate : Gates, reinit : ReInits] :
     /\ p.kind = "bo" => /\ p.k = Canon(Ks) /\ p.gate = Canon(Gates) /\ p.reinit = Canon(ReInits) /\ p.o1 \in BoO1s /\ p.o2 \in BoO2s
                         /\ (p.npre > 0 => p.ninit = p.npre)                  \* a precomputed dict IS the initial evidence
                         /\ (p.npre = 0 => p.ninit % p.bs = 0)                 \* an integer is rounded up to a multiple of batch_size
     /\ p.kind # "bo" => /\ p.npre = Canon(NPres) /\ p.bpa = Canon(BPAs) /\ p.async = Canon(Asyncs) /\ p.o1 \in MbO1s /\ p.o2 \in MbO2s
     \* BSL has no surrogate
     /\ p.kind = "bsl" => p.ninit = Canon(NInits) /\ p.upd = Canon(Upds) /\ p.reinit}

Init == /\ P \in Configs
        /\ pc = "idle" /\ call = 0 /\ next = 0 /\ pending = <<>> /\ tasks = {} /\ nextId = 0 /\ removed = {}
        /\ nCons = 0 /\ nSim = 0 /\ obj = 0 /\ round = 0 /\ inRound = 0 /\ objR = 0 /\ buf = <<>> /\ procs = <<>> /\ nSmp = 0
        \* BOLFIRE.__init__ ends with _init_round(): the first point exists before any call
        /\ point = IF P.kind = "bolfire" THEN [id |-> 1, src |-> NewSrc(0, 0, FALSE)] ELSE [id |-> 0, src |-> NoSrc]
        /\ nPts = IF P.kind = "bolfire" THEN 1 ELSE 0
        /\ acqs = IF P.kind = "bolfire" /\ Acquires(0) THEN <<AcqRec(NewSrc(0, 0, FALSE), 0)>> ELSE <<>>
        /\ queue = <<>> /\ gpN = (IF P.kind = "bo" THEN P.npre ELSE 0) /\ lastOpt = P.ninit /\ opts = <<>>
        /\ nEv = (IF P.kind = "bo" THEN P.npre ELSE 0) /\ fed = <<>>

\* ---- public calls ---------------------------------------------------------------------------------------------
\* BayesianOptimization.infer(n_evidence): set_objective
CallBo ==
  /\ P.kind = "bo" /\ pc = "idle" /\ call < Len(Objs)
  /\ obj' = BoObjective(Objs[call + 1], P.npre, P.bs)
  /\ pc' = "submit" /\ call' = call + 1
  /\ UNCHANGED <<P, sched, nCons, nSim, mbv, bov, acqs>>

\* BOLFIRE.fit(n) -> ModelBased.infer: if state['round'] > 0: _init_round(); then set_objective(rounds)
CallBolfire ==
  /\ P.kind = "bolfire" /\ pc = "idle" /\ call < Len(Objs)
  /\ objR' = Objs[call + 1] /\ obj' = MbObjective(Objs[call + 1], P.k)
  /\ IF round > 0 /\ P.reinit
     THEN LET s == NewSrc(nEv, gpN, opts # <<>>) IN
          /\ inRound' = 0 /\ point' = [id |-> nPts + 1, src |-> s] /\ nPts' = nPts + 1
          /\ acqs' = IF s.t >= 0 THEN Append(acqs, AcqRec(s, next)) ELSE acqs
     ELSE UNCHANGED <<inRound, point, nPts, acqs>>
  /\ pc' = "submit" /\ call' = call + 1
  /\ UNCHANGED <<P, sched, nCons, nSim, round, buf, procs, nSmp, bov>>

\* BSL.sample(n): _init_state (counters to 0, params[0] = params0); infer: round = 0, so no _init_round; set_objective(n)
CallBsl ==
  /\ P.kind = "bsl" /\ pc = "idle" /\ call < Len(Objs)
  /\ nCons' = 0 /\ nSim' = 0 /\ round' = 0 /\ inRound' = 0 /\ nSmp' = 0
  /\ point' = [id |-> nPts + 1, src |-> NoSrc] /\ nPts' = nPts + 1
  /\ objR' = Objs[call + 1] /\ obj' = MbObjective(Objs[call + 1], P.k)
  /\ pc' = "submit" /\ call' = call + 1
  /\ UNCHANGED <<P, sched, buf, procs, bov, acqs>>

\* ---- iterate(): the while loop ------------------------------------------------------------------------------------
\* (has_ready() answered False, or nothing is pending; a True answer is GoWait)
SubmitBo ==
  /\ P.kind = "bo" /\ pc = "submit" /\ ~Finished(obj, nCons)
  /\ PreGuard(P.maxpar, obj, nCons, Len(pending))
  /\ BoGate(P.async, T(next), queue = <<>>, Len(pending))
  /\ LET t == T(next)
         fresh == [k \in 1..P.bpa |-> [t |-> t, k |-> k, seen |-> gpN, pend |-> Len(pending), opt |-> opts # <<>>]]   \* acquire(bs * bpa, t)
         q == IF t < 0 THEN queue ELSE IF queue = <<>> THEN fresh ELSE queue
         src == IF t < 0 THEN NoSrc ELSE Head(q)
     IN /\ pending' = Append(pending, [index |-> next, id |-> nextId, pt |-> 0, src |-> src])
        /\ queue' = IF t < 0 THEN queue ELSE Tail(q)
        /\ acqs' = IF t >= 0 /\ queue = <<>> THEN Append(acqs, AcqRec(fresh[1], next)) ELSE acqs
  /\ tasks' = tasks \cup {nextId} /\ nextId' = nextId + 1 /\ next' = next + 1
  /\ UNCHANGED <<P, pc, call, removed, nCons, nSim, obj, mbv, gpN, lastOpt, opts, nEv, fed>>

SubmitMb ==
  /\ Mb /\ pc = "submit" /\ ~Finished(obj, nCons)
  /\ MbPreGuard(P.gate, next, P.k, P.maxpar, obj, nCons, Len(pending))
  \* prepare_new_batch: batch_size copies of current_params
  /\ pending' = Append(pending, [index |-> next, id |-> nextId, pt |-> point.id, src |-> point.src])
  /\ tasks' = tasks \cup {nextId} /\ nextId' = nextId + 1 /\ next' = next + 1
  /\ UNCHANGED <<P, pc, call, removed, nCons, nSim, obj, mbv, bov, acqs>>

GoWait ==
  /\ pc = "submit" /\ ~Finished(obj, nCons) /\ pending # <<>>
  /\ pc' = "wait"
  /\ UNCHANGED <<P, call, sched, nCons, nSim, obj, mbv, bov, acqs>>

\* ---- iterate(): wait_next(); update() ------------------------------------------------------------------------------
ConsumeBo ==
  /\ P.kind = "bo" /\ pc = "wait"
  /\ LET h == Head(pending)
         opt == ShouldOptimize(gpN, P.bs, lastOpt, P.upd, P.ninit)
     IN /\ pending' = Tail(pending) /\ tasks' = tasks \ {h.id}
        /\ nCons' = nCons + 1 /\ nSim' = nSim + P.bs /\ nEv' = nEv + P.bs
        /\ gpN' = gpN + P.bs /\ fed' = Append(fed, h)
        /\ lastOpt' = IF opt THEN gpN + P.bs ELSE lastOpt
        /\ opts' = IF opt THEN Append(opts, gpN + P.bs) ELSE opts
  /\ pc' = "submit"
  /\ UNCHANGED <<P, call, next, nextId, removed, obj, mbv, queue, acqs>>

ConsumeMb ==
  /\ Mb /\ pc = "wait"
  /\ LET h == Head(pending)
         b2 == Append(buf, h)
     IN /\ pending' = Tail(pending) /\ tasks' = tasks \ {h.id}
        /\ nCons' = nCons + 1 /\ nSim' = nSim + P.bs
        /\ IF inRound + 1 # P.k
           THEN \* _merge_batch only
                /\ buf' = b2 /\ inRound' = inRound + 1
                /\ UNCHANGED <<obj, round, objR, point, nPts, procs, nSmp, gpN, lastOpt, opts, nEv, fed, acqs>>
           ELSE \* the round is complete: _process_simulated; round += 1; if round < objective['round']: _init_round()
                /\ buf' = <<>> /\ round' = round + 1
                /\ procs' = Append(procs, [round |-> round, pt |-> point.id,
                                           idx |-> [j \in 1..Len(b2) |-> b2[j].index], pts |-> [j \in 1..Len(b2) |-> b2[j].pt]])
                /\ IF P.kind = "bolfire"
                   THEN LET opt == ShouldOptimize(gpN, 1, lastOpt, P.upd, P.ninit)
                            optd == opt \/ opts # <<>>
                            s == NewSrc(nEv + 1, gpN + 1, optd)
                        IN /\ nEv' = nEv + 1 /\ gpN' = gpN + 1
                           /\ fed' = Append(fed, [index |-> round, id |-> 0, pt |-> point.id, src |-> point.src])
                           /\ lastOpt' = IF opt THEN gpN + 1 ELSE lastOpt
                           /\ opts' = IF opt THEN Append(opts, gpN + 1) ELSE opts
                           /\ IF round + 1 < objR
                              THEN /\ inRound' = 0 /\ point' = [id |-> nPts + 1, src |-> s] /\ nPts' = nPts + 1
                                   /\ acqs' = IF s.t >= 0 THEN Append(acqs, AcqRec(s, next)) ELSE acqs
                              ELSE /\ inRound' = inRound + 1 /\ UNCHANGED <<point, nPts, acqs>>
                           /\ UNCHANGED <<obj, objR, nSmp>>
                   ELSE \* BSL: _process_simulated advances the chain; _init_round rejects `rej` proposals outside the prior support
                        \* without simulating (each lowers objective['round'] by one) and then stores an in-support proposal, if a
                        \* position is left
                        /\ IF round + 1 < objR
                           THEN \E rej \in 0..(Objs[call] - (nSmp + 1)) :
                                  /\ nSmp' = nSmp + 1 + rej /\ objR' = objR - rej /\ obj' = MbObjective(objR - rej, P.k)
                                  /\ IF nSmp + 1 + rej < Objs[call]
                                     THEN inRound' = 0 /\ point' = [id |-> nPts + 1, src |-> NoSrc] /\ nPts' = nPts + 1
                                     ELSE inRound' = inRound + 1 /\ UNCHANGED <<point, nPts>>
                           ELSE nSmp' = nSmp + 1 /\ inRound' = inRound + 1 /\ UNCHANGED <<obj, objR, point, nPts>>
                        /\ UNCHANGED <<gpN, lastOpt, opts, nEv, fed, acqs>>
  /\ pc' = "submit"
  /\ UNCHANGED <<P, call, next, nextId, removed, queue>>

\* ---- infer(): `while not self.finished` exits; batches.cancel_pending() --------------------------------------------
Finish ==
  /\ pc = "submit" /\ Finished(obj, nCons)
  /\ removed' = removed \cup {pending[i].id : i \in 1..Len(pending)}
  /\ tasks' = tasks \ {pending[i].id : i \in 1..Len(pending)}
  /\ next' = IF pending = <<>> THEN next ELSE pending[1].index
  /\ pending' = <<>>
  /\ pc' = IF call = Len(Objs) THEN "done" ELSE "idle"
  /\ UNCHANGED <<P, call, nextId, nCons, nSim, obj, mbv, bov, acqs>>

Next == CallBo \/ CallBolfire \/ CallBsl \/ SubmitBo \/ SubmitMb \/ GoWait \/ ConsumeBo \/ ConsumeMb \/ Finish
Spec == Init /\ [][Next]_vars /\ WF_vars(Next)

\* =====================================================================================================================
\* what a user relies on
\* =====================================================================================================================
Resting == pc \in {"idle", "done"}
Count(s, Test(_)) == Cardinality({i \in 1..Len(s) : Test(s[i])})

\* ---- common ---------------------------------------------------------------------------------------------------------
Bounded == Len(pending) <= P.maxpar /\ (Mb /\ P.gate => Len(pending) <= P.k)
\* these engines never submit a batch they do not consume: nothing is ever cancelled, nothing is left in the client
NothingCancelled == removed = {}
NoLeak == Resting => pending = <<>> /\ tasks = {}
PendingAreTasks == {pending[i].id : i \in 1..Len(pending)} = tasks
NeverWaitsOnNothing == pc = "wait" => pending # <<>>
PendingInIndexOrder == \A i \in 1..Len(pending) : pending[i].index = next - Len(pending) + i - 1
SimCounts == nSim = nCons * P.bs
Terminates == <>(pc = "done")

\* ---- ModelBased ---------------------------------------------------------------------------------------------------
\* every round hands exactly K batches to its evaluation: consecutive indexes, in index order, all prepared from the
\* round's own parameter point
MbRoundExact ==
  Mb => \A i \in 1..Len(procs) :
          /\ Len(procs[i].idx) = P.k
          /\ \A j \in 1..P.k : procs[i].idx[j] = (i - 1) * P.k + (j - 1) /\ procs[i].pts[j] = procs[i].pt
\* nothing of a later round is submitted before the current round is consumed (and evaluated)
MbNoEarlySubmit ==
  Mb => \A i \in 1..Len(pending) : pending[i].pt = point.id /\ pending[i].index \div P.k = Len(procs)
\* each round has a point of its own, set after the previous round was evaluated
MbFreshPointPerRound == Mb => \A i \in 2..Len(procs) : procs[i].pt > procs[i - 1].pt
MbCounters ==
  Mb => /\ inRound <= P.k
        /\ (inRound = Len(buf) \/ (inRound = P.k /\ buf = <<>>))
        /\ nCons = round * P.k + Len(buf)
        /\ (P.kind = "bolfire" => round = Len(procs) /\ nEv = round /\ gpN = round)
        /\ (P.kind = "bsl" /\ call > 0 => nSmp <= Objs[call] /\ objR - round = Objs[call] - nSmp)
MbTermination ==
  Mb /\ Resting /\ call > 0 =>
       /\ (P.kind = "bolfire" => round = MbDone(Objs, call) /\ nCons = round * P.k)
       /\ (P.kind = "bsl" => round = objR /\ nSmp = Objs[call] /\ nCons = round * P.k)
       /\ next = Len(procs) * P.k
\* BOLFIRE: the acquisition made for round r has seen the r earlier rounds, all of them
BolfireAcqSeesAll ==
  P.kind = "bolfire" => \A i \in 1..Len(acqs) : acqs[i].pend = 0 /\ acqs[i].seen = acqs[i].t + P.ninit /\ acqs[i].first % P.k = 0
\* BOLFIRE: the surrogate is fed one (point, value) per round, the round's own point, in round order
BolfireFedPerRound ==
  P.kind = "bolfire" => Len(fed) = Len(procs) /\ \A i \in 1..Len(fed) : fed[i].index = i - 1 /\ fed[i].pt = procs[i].pt

\* ---- BayesianOptimization --------------------------------------------------------------------------------------------
Bo == P.kind = "bo"
\* the surrogate is fed the consumed batches, in index order, each once
BoFedInOrderOnce == Bo => Len(fed) = nCons /\ \A i \in 1..Len(fed) : fed[i].index = i - 1
\* batch b >= OffB is slice ((b - OffB) mod BPA) + 1 of acquisition (b - OffB) div BPA, whatever the schedule
BoQueueExact ==
  Bo => \A i \in 1..Len(fed) :
          LET b == i - 1 IN
          IF b < OffB THEN fed[i].src.t = -1
          ELSE fed[i].src.t = (b - OffB) \div P.bpa /\ fed[i].src.k = ((b - OffB) % P.bpa) + 1
\* every acquisition index is acquired once, and every acquired slice is in exactly one place: still queued, outstanding, or fed
BoAcquiredAccounted ==
  Bo => /\ \A i, j \in 1..Len(acqs) : i # j => acqs[i].t # acqs[j].t
        /\ \A i \in 1..Len(acqs) : \A k \in 1..P.bpa :
             LET Is(x) == x.t = acqs[i].t /\ x.k = k
                 IsB(x) == Is(x.src)
             IN Count(queue, Is) + Count(pending, IsB) + Count(fed, IsB) = 1
\* what an acquisition has seen: precomputed evidence + every batch submitted before it EXCEPT the `pend` outstanding ones
BoAcqWindow ==
  Bo => \A i \in 1..Len(acqs) :
          /\ acqs[i].seen = P.npre + (acqs[i].first - acqs[i].pend) * P.bs
          /\ acqs[i].pend <= P.maxpar - 1
          /\ acqs[i].first = OffB + acqs[i].t * P.bpa
\* synchronous acquisition waits for ALL outstanding batches (hence for the whole initial evidence)
AcqSeesAllSubmitted == \A i \in 1..Len(acqs) : acqs[i].pend = 0
BoSyncSeesAll == Bo /\ ~P.async => AcqSeesAllSubmitted
\* hence the evidence behind every consumed acquired batch is schedule free
BoSyncEvidenceScheduleFree ==
  Bo /\ ~P.async => \A i \in 1..Len(fed) : fed[i].src.t >= 0 => fed[i].src.seen = P.npre + (OffB + fed[i].src.t * P.bpa) * P.bs
\* update_interval: hyperparameters are optimised at an update iff the evidence then reaches n_initial_evidence and
\* last_GP_update + update_interval; so never before n_initial + update_interval, then every ceil(update_interval / bs) updates
UpdateGate ==
  LET step == IF Bo THEN P.bs ELSE 1 IN
  /\ \A i \in 1..Len(opts) :
       LET prev == IF i = 1 THEN P.ninit ELSE opts[i - 1] IN
       /\ opts[i] >= P.ninit /\ opts[i] >= prev + P.upd
       /\ opts[i] < prev + Max2(P.upd, 1) + step
  /\ lastOpt = (IF opts = <<>> THEN P.ninit ELSE opts[Len(opts)])
  /\ (gpN <= lastOpt \/ gpN < lastOpt + P.upd)                     \* never update_interval or more points behind
\* n_evidence: on return the surrogate holds the precomputed evidence plus exactly the batches the targets ask for
BoTotal ==
  Bo /\ Resting /\ call > 0 =>
       /\ nCons = BoDone(Objs, call, P.npre, P.bs)
       /\ nEv = P.npre + nCons * P.bs /\ gpN = nEv
       /\ (nCons > 0 /\ nCons = obj => nEv >= Objs[call] /\ nEv < Objs[call] + P.bs)
       /\ next = nCons

\* ---- expectations the code does NOT meet (kept as invariants; TLC refutes them on this code-shaped machine) ------------
\* (1) no acquisition before the initial evidence is in the surrogate - holds for async_acq=False only
AcqAfterInitialEvidence == \A i \in 1..Len(acqs) : acqs[i].seen >= P.ninit
SyncAcqAfterInitialEvidence == ~P.async => AcqAfterInitialEvidence
\* (2) the GP hyperparameters have been optimised at least once when the first point is acquired - false for update_interval >= 1
GpOptimisedBeforeFirstAcq == \A i \in 1..Len(acqs) : acqs[i].seen > 0 => acqs[i].opt
\* (3) every acquired point is simulated - false when fit() is called with a target already reached (BOLFIRE: the point set by
\*     the re-initialisation is dropped by the next one) and when the acquisition size does not divide what is left (BO: queue)
NoAcquiredPointLeftBehind ==
  pc = "done" => /\ queue = <<>>
                 /\ (P.kind = "bolfire" => \A id \in 1..nPts : \E i \in 1..Len(fed) : fed[i].pt = id)
=============================================================================

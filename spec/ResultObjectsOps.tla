-------------------------- MODULE ResultObjectsOps --------------------------
(***************************************************************************)
(* Pure operators for the result containers of elfi.methods.results        *)
(* (Sample, SmcSample, BolfiSample), clauses (a)-(d) of C16.               *)
(*                                                                         *)
(* Values are IDS (T1): a sample value is a small integer that identifies  *)
(* where it came from; the harness maps ids to floats through a strictly   *)
(* increasing table, so order and equality of values are order and         *)
(* equality of ids, and where the table is id * 2^-sh also the arithmetic. *)
(*                                                                         *)
(* An abstract constructor call (what the harness passes to Sample(...)):  *)
(*   names   sequence of parameter names (distinct; any values with `=`)   *)
(*   okeys   keys of the `outputs` dict in insertion order (the parameter  *)
(*           names in any order plus other nodes: discrepancy, summaries)  *)
(*   ovals   ovals[k] = outputs[okeys[k]], a sequence of ids               *)
(*   hasw, ws  weights given / the unnormalised integer weights            *)
(***************************************************************************)
EXTENDS Naturals, Integers, Sequences, FiniteSets, WQuantileOps, WeightedStatsOps

HasKey(keys, k) == \E i \in 1..Len(keys) : keys[i] = k
KeyIdx(keys, k) == CHOOSE i \in 1..Len(keys) : keys[i] = k
Out(s, k) == s.ovals[KeyIdx(s.okeys, k)]

(***************************************************************************)
(* Sample.__init__:                                                        *)
(*     self.samples = OrderedDict()                                        *)
(*     for n in self.parameter_names: self.samples[n] = self.outputs[n]    *)
(* The live object is [skeys, svals, rep]: keys and values of `samples`    *)
(* in insertion order, and rep = "array" | "list", the Python type of the  *)
(* values (what Sample.save('x.json') changes, see ResultObjects.tla).     *)
(* sortedCtor = TRUE iterates the outputs in key order instead             *)
(* (`for n in sorted(self.outputs)`): the negative control; it needs       *)
(* ordered names, the design module uses integers as names.                *)
(***************************************************************************)
RECURSIVE SortedKeys(_)
SortedKeys(S) == IF S = {} THEN <<>>
                 ELSE LET m == CHOOSE x \in S : \A y \in S : x <= y IN <<m>> \o SortedKeys(S \ {m})
CtorKeys(s, sortedCtor) == IF sortedCtor THEN SortedKeys({s.okeys[i] : i \in 1..Len(s.okeys)}) ELSE s.names
Construct(s, sortedCtor) ==
  LET ks == CtorKeys(s, sortedCtor)
  IN [skeys |-> ks, svals |-> [j \in 1..Len(ks) |-> Out(s, ks[j])], rep |-> "array"]

\* THE STATEMENT (a): column j of the sample is the output of the j-th parameter name
ExpCols(s) == [j \in 1..Len(s.names) |-> Out(s, s.names[j])]
NRows(cols) == IF Len(cols) = 0 THEN 0 ELSE Len(cols[1])

(* samples_array = np.column_stack(tuple(self.samples.values())): row i, column j                  *)
ColumnStack(svals) == [i \in 1..NRows(svals) |-> [j \in 1..Len(svals) |-> svals[j][i]]]
ColumnOf(arr, j) == [i \in 1..Len(arr) |-> arr[i][j]]
ColumnsOf(arr, dim) == [j \in 1..dim |-> ColumnOf(arr, j)]

\* weights=None of np.average / weighted_sample_quantile: equal weights
WeightsOf(s, n) == IF s.hasw THEN s.ws ELSE Ones(n)
\* THE STATEMENT (b): mean = sum_i w_i x_i / sum_i w_i  as <<num, den>> (den = 0: undefined)
MeanRat(col, w) == <<WM(col, w), V1(w)>>
\* ... and the interval ends are the weighted 2.5% and 97.5% quantiles: IsWQ(col, w, 1, 40, lo) and
\* IsWQ(col, w, 39, 40, hi) (the DEFINITION of WQuantileOps, which accepts both neighbours of an
\* exact cumulative-weight boundary); QLo / QHi are what the code's scan returns
QLo(col, w) == WQScan(col, w, 1, 40)
QHi(col, w) == WQScan(col, w, 39, 40)

(***************************************************************************)
(* BolfiSample.__init__(chains, parameter_names, warmup), chains[c][t][p]: *)
(*     warmed_up = chains[:, warmup:, :]                                   *)
(*     concatenated = warmed_up.reshape((-1,) + shape[2:])                 *)
(*     outputs = dict(zip(parameter_names, concatenated.T))                *)
(* THE STATEMENT (c): each chain with exactly the warm-up prefix removed,  *)
(* concatenated chain by chain.                                            *)
(***************************************************************************)
DropPrefix(seq, w) == SubSeq(seq, w + 1, Len(seq))
RECURSIVE ConcatUpTo(_, _, _)
ConcatUpTo(chains, w, c) == IF c = 0 THEN <<>> ELSE ConcatUpTo(chains, w, c - 1) \o DropPrefix(chains[c], w)
\* the rows of the BOLFI sample (each row: one value per parameter)
BolfiConcat(chains, w) == ConcatUpTo(chains, w, Len(chains))
BolfiCols(chains, w, dim) == ColumnsOf(BolfiConcat(chains, w), dim)

\* the code: a slice, then a reshape of the (C, n', P) block to (C n', P).  In C order (numpy's
\* default) row r = c n' + t; in Fortran order (negative control) row r = c + C t.
BolfiRowsCode(chains, w, fortran) ==
  LET C == Len(chains)
      n == Len(chains[1])
      np == IF n > w THEN n - w ELSE 0
  IN [r \in 1..(C * np) |->
        LET c == IF fortran THEN (r - 1) % C ELSE (r - 1) \div np
            t == IF fortran THEN (r - 1) \div C ELSE (r - 1) % np
        IN chains[c + 1][w + t + 1]]
\* the constructor call BolfiSample makes on its base class
BolfiCtor(names, chains, w, fortran) ==
  LET rows == BolfiRowsCode(chains, w, fortran)
  IN [names |-> names, okeys |-> names,
      ovals |-> [p \in 1..Len(names) |-> ColumnOf(rows, p)],
      hasw |-> FALSE, ws |-> <<>>]

(***************************************************************************)
(* Files.  Sample.save(fname) by extension:                                *)
(*  csv   header = samples.keys(); rows = zip_longest of the values     *)
(*  json  json.dumps of a dict holding, among others, parameter_names,     *)
(*        samples (a dict name -> list) and weights                        *)
(*  pkl   pickle of the object                                             *)
(* Reading back (csv.reader / json.load / pickle.load) gives, in each      *)
(* case, an ordered list of names with one sequence of values per name.    *)
(***************************************************************************)
CsvFile(o) == [header |-> o.skeys, rows |-> ColumnStack(o.svals)]
CsvRead(f) == [skeys |-> f.header, svals |-> ColumnsOf(f.rows, Len(f.header))]
JsonFile(o) == [skeys |-> o.skeys, svals |-> o.svals]
JsonRead(f) == [skeys |-> f.skeys, svals |-> f.svals]
\* THE STATEMENT (d): what is read back is the sample
SameSamples(r, s) == r.skeys = s.names /\ r.svals = ExpCols(s)
=============================================================================

------------------------------ MODULE Distance ------------------------------
(***************************************************************************)
(* elfi.Distance(metric, *summaries, **kwargs)  =  Discrepancy node whose  *)
(* operation is  partial(distance_as_discrepancy, partial(cdist, **kw)).   *)
(*                                                                         *)
(* The code (elfi/model/utils.py:37) is transcribed at ndarray grain, with *)
(* explicit shapes, because the property is about shape handling:          *)
(*     summaries = np.column_stack(summaries)                              *)
(*     observed  = np.concatenate([np.atleast_2d(o) for o in observed], 1) *)
(*     d = dist(summaries, observed)           # cdist -> (n, 1)           *)
(*     if d.ndim == 2 and d.shape[1] == 1: d = d.reshape(-1)               *)
(* An ndarray is [sh |-> shape, d |-> row-major data]; Err = ValueError.   *)
(*                                                                         *)
(* One case = batch size, 1..MaxSums summaries of widths 0 (scalar: array  *)
(* of shape (bs,), observed (1,)) .. MaxW (shape (bs, w), observed (1, w)),*)
(* a metric descriptor (with / without keyword arguments) and integer data.*)
(* THEOREM (Conforms): the code-shaped computation equals, for every case, *)
(* the statement-shaped one: one value per row, the metric between the row *)
(* of the column-stacked summaries and the stacked observed summaries.     *)
(*                                                                         *)
(* Variant # "code" are negative controls (np.hstack instead of            *)
(* np.column_stack; no reshape(-1)) that TLC must refute.                  *)
(***************************************************************************)
EXTENDS Naturals, Integers, Sequences, FiniteSets, TLC, DistanceOps

CONSTANTS MaxBS,      \* batch sizes 1..MaxBS
          MaxSums,    \* number of summaries 1..MaxSums
          MaxW,       \* widths 0 (scalar) .. MaxW
          Seeds,      \* data patterns
          TinyVals,   \* value set for the exhaustive-data cases ({} = none)
          Variant     \* "code" | "hstack" | "noreshape"

VARIABLES case, out, phase
vars == <<case, out, phase>>

Err == [sh |-> <<-1>>, d |-> <<>>]

\* ---- ndarray helpers -----------------------------------------------------------------
NDim(a) == Len(a.sh)
RowOf(a, i) == SubSeq(a.d, (i - 1) * a.sh[2] + 1, i * a.sh[2])          \* 2-D only
\* statement-level reading of a summary output: rows
RowsOf(a) == IF NDim(a) = 1 THEN [i \in 1..a.sh[1] |-> <<a.d[i]>>]
             ELSE [i \in 1..a.sh[1] |-> RowOf(a, i)]

\* np.concatenate(arrs, axis=1) of 2-D arrays
ConcatAxis1(as) ==
  IF \E k \in 1..Len(as) : NDim(as[k]) # 2 \/ as[k].sh[1] # as[1].sh[1] THEN Err
  ELSE LET n == as[1].sh[1]
           m == SumSeq([k \in 1..Len(as) |-> as[k].sh[2]])
       IN [sh |-> <<n, m>>,
           d |-> Cat([i \in 1..n |-> Cat([k \in 1..Len(as) |-> RowOf(as[k], i)])])]

\* np.column_stack: 1-D arrays become columns (array(v, ndmin=2).T), then concatenate(axis=1)
ColumnStack(as) ==
  ConcatAxis1([k \in 1..Len(as) |-> IF NDim(as[k]) = 1 THEN [sh |-> <<as[k].sh[1], 1>>, d |-> as[k].d]
                                                    ELSE as[k]])
\* np.hstack: all 1-D -> concatenate(axis=0); otherwise concatenate(axis=1) (mixed ndim: ValueError)
HStack(as) ==
  IF \A k \in 1..Len(as) : NDim(as[k]) = 1
  THEN [sh |-> <<SumSeq([k \in 1..Len(as) |-> as[k].sh[1]])>>, d |-> Cat([k \in 1..Len(as) |-> as[k].d])]
  ELSE ConcatAxis1(as)

AtLeast2d(a) == IF NDim(a) = 1 THEN [sh |-> <<1, a.sh[1]>>, d |-> a.d] ELSE a

\* scipy cdist(XA, XB, metric, **kw): both 2-D with equal number of columns, else ValueError
Cdist(m, XA, XB) ==
  IF XA = Err \/ XB = Err THEN Err
  ELSE IF NDim(XA) # 2 \/ NDim(XB) # 2 THEN Err
  ELSE IF XA.sh[2] # XB.sh[2] THEN Err
  ELSE [sh |-> <<XA.sh[1], XB.sh[1]>>,
        d |-> Cat([i \in 1..XA.sh[1] |-> [j \in 1..XB.sh[1] |-> MetricInt(m, RowOf(XA, i), RowOf(XB, j))]])]

\* distance_as_discrepancy
Discrepancy(m, sims, obss) ==
  LET S == IF Variant = "hstack" THEN HStack(sims) ELSE ColumnStack(sims)
      O == ConcatAxis1([k \in 1..Len(obss) |-> AtLeast2d(obss[k])])
      d == Cdist(m, S, O)
  IN IF d = Err THEN Err
     ELSE IF Variant # "noreshape" /\ NDim(d) = 2 /\ d.sh[2] = 1 THEN [sh |-> <<d.sh[1]>>, d |-> d.d]
     ELSE d

\* ---- the cases -------------------------------------------------------------------------
WidthSeqs == UNION {[1..n -> 0..MaxW] : n \in 1..MaxSums}
Cols(w) == IF w = 0 THEN 1 ELSE w
TotalW(ws) == SumSeq([k \in 1..Len(ws) |-> Cols(ws[k])])

Val(s, k, i, j) == (s + 3 * k + 2 * i * i + j * (s + 1) + i * j * k) % 5
\* a summary output for rows i0+1..i0+n  (i0 = -1, n = 1: the observed value, "row 0")
MkArr(s, k, i0, n, w) ==
  IF w = 0 THEN [sh |-> <<n>>, d |-> [i \in 1..n |-> Val(s, k, i0 + i, 1)]]
  ELSE [sh |-> <<n, w>>, d |-> Cat([i \in 1..n |-> [j \in 1..w |-> Val(s, k, i0 + i, j)]])]

WVec(mm)  == [j \in 1..mm |-> 1 + (j % 3)]
VVec(mm)  == [j \in 1..mm |-> IF j % 2 = 1 THEN 4 ELSE IF j % 4 = 0 THEN 2 ELSE 1]
VIMat(mm) == [a \in 1..mm |-> [b \in 1..mm |-> IF a = b THEN 2 ELSE IF a - b \in {-1, 1} THEN 1 ELSE 0]]
MD(name, p, w, V, VI) == [name |-> name, p |-> p, w |-> w, V |-> V, VI |-> VI]
MetricsFor(mm) ==
  {MD(nm, 2, w, NoArg, NoArg) : nm \in {"cityblock", "chebyshev", "sqeuclidean", "euclidean"}, w \in {NoArg, WVec(mm)}}
  \cup {MD("minkowski", p, w, NoArg, NoArg) : p \in {1, 2}, w \in {NoArg, WVec(mm)}}
  \cup {MD("seuclidean", 2, NoArg, VVec(mm), NoArg), MD("mahalanobis", 2, NoArg, NoArg, VIMat(mm))}

PatternCase(c) ==
  \E bs \in 1..MaxBS, ws \in WidthSeqs, s \in Seeds : \E m \in MetricsFor(TotalW(ws)) :
     c = [bs |-> bs, widths |-> ws, m |-> m,
          sim |-> [k \in 1..Len(ws) |-> MkArr(s, k, 0, bs, ws[k])],
          obs |-> [k \in 1..Len(ws) |-> MkArr(s, k, -1, 1, ws[k])]]

\* exhaustive data over TinyVals for the smallest shapes (bs <= 2, total width <= 2)
TinyWidths == {<<0>>, <<1>>, <<2>>, <<0, 0>>, <<0, 1>>, <<1, 0>>}
FromFlat(f, off, n, w) ==
  IF w = 0 THEN [sh |-> <<n>>, d |-> [i \in 1..n |-> f[off + i]]]
  ELSE [sh |-> <<n, w>>, d |-> [i \in 1..(n * w) |-> f[off + i]]]
Off(ws, k, n) == n * SumSeq([q \in 1..(k - 1) |-> Cols(ws[q])])
TinyCase(c) ==
  /\ TinyVals # {}
  /\ \E bs \in 1..2, ws \in TinyWidths :
       \E f \in [1..((bs + 1) * TotalW(ws)) -> TinyVals], m \in MetricsFor(TotalW(ws)) :
         c = [bs |-> bs, widths |-> ws, m |-> m,
              sim |-> [k \in 1..Len(ws) |-> FromFlat(f, Off(ws, k, bs), bs, ws[k])],
              obs |-> [k \in 1..Len(ws) |-> FromFlat(f, bs * TotalW(ws) + Off(ws, k, 1), 1, ws[k])]]

\* ---- behaviour -------------------------------------------------------------------------
None == [sh |-> <<0>>, d |-> <<>>]
Init == (PatternCase(case) \/ TinyCase(case)) /\ out = None /\ phase = "given"

\* node.generate(with_values = summaries): one evaluation of the node's operation
Eval ==
  /\ phase = "given"
  /\ out' = Discrepancy(case.m, case.sim, case.obs)
  /\ phase' = "done"
  /\ UNCHANGED case

Next == Eval
Spec == Init /\ [][Next]_vars

\* ---- properties (C12 a) ------------------------------------------------------------------
SumsOf(c) == [k \in 1..Len(c.sim) |-> RowsOf(c.sim[k])]
ObsOf(c)  == [k \in 1..Len(c.obs) |-> RowsOf(c.obs[k])[1]]

\* one value per simulated row ...
OnePerRow == phase = "done" => out.sh = <<case.bs>>
\* ... which is the metric between that row of the stacked summaries and the stacked observed
Conforms == phase = "done" => out.d = Expected(case.m, SumsOf(case), ObsOf(case))
\* the enumeration really covers what the quantifier names
Covered == phase = "done" => /\ Len(StackObs(ObsOf(case))) = TotalW(case.widths)
                             /\ NRows(SumsOf(case)) = case.bs
=============================================================================

-------------------------- MODULE BolfiPosteriorOps --------------------------
(***************************************************************************)
(* C10, clauses (a) (b) (c): the BOLFI posterior of                        *)
(*     elfi/methods/posteriors.py  class BolfiPosterior                    *)
(* (logpdf, pdf, gradient_logpdf, _unnormalized_loglikelihood,             *)
(* _gradient_unnormalized_loglikelihood, _within_bounds) on the lattice    *)
(* of DESIGN.md T3, in integer arithmetic.                                 *)
(*                                                                         *)
(* Definition (class docstring, Gutmann & Corander 2016):                  *)
(*    log posterior(x) = log Phi((h - mu(x)) / sigma(x)) + log prior(x)    *)
(*                                        if lo_i <= x_i <= hi_i for all i *)
(*                     = -inf             otherwise                        *)
(* with mu, sigma^2 the surrogate's NOISY predictive mean and variance at  *)
(* x and h the threshold; the gradient is the derivative of that:          *)
(*    d/dx_i = Mills(z) * dz/dx_i + d log prior / dx_i,   z = (h-mu)/sigma *)
(*    dz/dx_i = - gmu_i / sigma - (h - mu) gv_i / (2 sigma^3)              *)
(*            = ( -gmu_i sigma - (h - mu) gv_i / (2 sigma) ) / sigma^2     *)
(* (the second form is the one the code evaluates), Mills = phi / Phi.     *)
(*                                                                         *)
(* Lattice.  A POINT is what a stub surrogate and a stub prior answer at   *)
(* one query row:                                                          *)
(*   c   = <<4 x_1, .., 4 x_d>>   coordinates in quarters (integers)       *)
(*   mu  integer, var in {1,4,9,16} (sigma = 1..4), nvar = the variance    *)
(*       the stub gives for noiseless=TRUE (never the one to use)          *)
(*   gmu, gv = <<..>> integer gradients of mean and variance               *)
(*   lp  = integer log prior or NINF (-inf); glp = its integer gradient    *)
(* with sigma | h - mu and z = (h - mu)/sigma in -4..4, so that Phi is     *)
(* only ever needed at nine arguments.  The values below were computed     *)
(* with 60 significant digits (decimal series of erf) and rounded to the   *)
(* nearest 10^-6:                                                          *)
(*   LogPhiMicro(z) = 10^6 log Phi(z)                                      *)
(*   MillsMicro(z)  = 10^6 phi(z) / Phi(z)                                 *)
(*   PhiMicro(z)    = 10^6 Phi(z)                                          *)
(* On the lattice the code's floats are exact up to the last step:         *)
(* sqrt(var) and (h - mu)/sigma are exact, so a logged value differs from  *)
(* the table arithmetic only by the two roundings (table, log) plus a      *)
(* relative float error of 10^-15.                                         *)
(***************************************************************************)
EXTENDS Naturals, Integers, Sequences, FixedPoint

ZMin == -16
ZMax == 4
LogPhiTab == << -131695396, -116131385, -101563034, -87989720, -75410673, -63824934, -53231285, -43628149, -35013437, -27384307, -20736769, -15064998, -10360101, -6607726, -3783184, -1841022, -693147, -172754, -23013, -1351, -32 >>
MillsTab == << 16062021, 15066087, 14070718, 13076039, 12082214, 11089465, 10098093, 9108523, 8121368, 7137546, 6158483, 5186504, 4225607, 3283099, 2373216, 1525135, 797885, 287600, 55248, 4438, 134 >>
PhiTab == << 0, 0, 0, 0, 0, 0, 0, 0, 0, 0, 0, 0, 32, 1350, 22750, 158655, 500000, 841345, 977250, 998650, 999968 >>
LogPhiMicro(z) == LogPhiTab[z + 17]
MillsMicro(z) == MillsTab[z + 17]
PhiMicro(z) == PhiTab[z + 17]

Vars == {1, 4, 9, 16}
SdOf(v) == CHOOSE s \in 1..4 : s * s = v

\* ---- bounds: _within_bounds, both ends inclusive ---------------------------------------------
\* bounds = << <<lo_1, hi_1>>, .. >> integers; c in quarters
Inside(c, bounds) == \A i \in 1..Len(bounds) : c[i] >= 4 * bounds[i][1] /\ c[i] <= 4 * bounds[i][2]
OnBoundary(c, bounds) == Inside(c, bounds) /\ \E i \in 1..Len(bounds) : c[i] = 4 * bounds[i][1] \/ c[i] = 4 * bounds[i][2]

\* ---- the lattice -----------------------------------------------------------------------------
ZOf(p, h) == (h - p.mu) \div SdOf(p.var)
OnLattice(p, h) == /\ p.var \in Vars
                   /\ (h - p.mu) % SdOf(p.var) = 0
                   /\ ZOf(p, h) >= ZMin /\ ZOf(p, h) <= ZMax

\* ---- clause (a), (b): the log density in units of 10^-6, FxNInf for -inf --------------------
LogPdfMicro(p, h, bounds) ==
  IF ~Inside(p.c, bounds) \/ p.lp = NINF THEN FxNInf
  ELSE LogPhiMicro(ZOf(p, h)) + p.lp * Unit
LogAgrees(v, p, h, bounds) ==
  LET e == LogPdfMicro(p, h, bounds) IN IF e = FxNInf THEN v = FxNInf ELSE FxFinite(v) /\ Abs(v - e) <= 2

\* pdf = exp(logpdf): decided where no exponential is needed (log prior 0 or -inf, or outside)
PdfDecided(p, bounds) == ~Inside(p.c, bounds) \/ p.lp = 0 \/ p.lp = NINF
PdfMicro(p, h, bounds) == IF ~Inside(p.c, bounds) \/ p.lp = NINF THEN 0 ELSE PhiMicro(ZOf(p, h))
PdfAgrees(v, p, h, bounds) == FxFinite(v) /\ Abs(v - PdfMicro(p, h, bounds)) <= 2

\* ---- clause (c): the gradient ----------------------------------------------------------------
\* dz/dx_i = GradNum / GradDen exactly
GradNum(p, h, i) == LET s == SdOf(p.var) IN -2 * s * s * p.gmu[i] - (h - p.mu) * p.gv[i]
GradDen(p) == LET s == SdOf(p.var) IN 2 * s * s * s
\* floor of 10^6 * Mills(z) * dz/dx_i (likelihood part), from the table
LikGradFloor(p, h, i) == (GradNum(p, h, i) * MillsMicro(ZOf(p, h))) \div GradDen(p)
\* tolerance: rounding of the log (1/2), of the table entry (|N| / 2D), floor (1), float error
GradTol(p, h, i) == 3 + Abs(GradNum(p, h, i)) \div GradDen(p)
\* g = logged d log posterior / dx_i in units of 10^-6 (inside the bounds)
GradAgrees(g, p, h, i) ==
  /\ FxFinite(g)
  /\ LET lik == g - p.glp[i] * Unit
         e == LikGradFloor(p, h, i)
     IN lik >= e - GradTol(p, h, i) /\ lik <= e + 1 + GradTol(p, h, i)
\* outside the bounds the density is constant -inf; the code answers 0 for the likelihood part
GradOutsideIsPrior(g, p, i) == g = p.glp[i] * Unit

\* ---- the shape table -------------------------------------------------------------------------
\* kind = "scalar" (0-d; only for dim 1) | "1d" (shape (n,): ONE point if dim > 1, n points if
\* dim = 1) | "2d" (shape (n, dim)); n = number of points of the query
ScalarLike(kind, dim) == kind = "scalar" \/ (kind = "1d" /\ dim > 1)
KindOK(kind, dim, n) == /\ kind \in {"scalar", "1d", "2d"}
                        /\ n >= 1
                        /\ (kind = "scalar" => dim = 1 /\ n = 1)
                        /\ (kind = "1d" /\ dim > 1 => n = 1)
ExpShape(fn, kind, dim, n) ==
  IF fn = "grad" THEN (IF ScalarLike(kind, dim) THEN <<dim>> ELSE <<n, dim>>)
  ELSE (IF ScalarLike(kind, dim) THEN <<>> ELSE <<n>>)
RECURSIVE ProdSeq(_)
ProdSeq(s) == IF s = <<>> THEN 1 ELSE s[1] * ProdSeq(Tail(s))
ExpCount(fn, dim, n) == IF fn = "grad" THEN n * dim ELSE n
=============================================================================

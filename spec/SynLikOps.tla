----------------------------- MODULE SynLikOps -----------------------------
(***************************************************************************)
(* The synthetic likelihoods of elfi/methods/bsl/pdf_methods.py in exact   *)
(* integer / rational arithmetic plus a table of logarithms (T3), shared   *)
(* by the design module SynLik.tla and the trace spec SynLik_Trace.tla.    *)
(*                                                                         *)
(* DATA.  ssx is an n x d matrix and ssy a d-vector of the numbers         *)
(* x[r][j]/s, y[j]/s with x, y integers and s a positive integer scale     *)
(* (dyadic data: s in {1, 2, 4}); d in {1, 2}.  With                       *)
(*     Sum_j = SUM_r x[r][j]     SP_jk = SUM_r x[r][j] x[r][k]             *)
(*     C_jk  = n SP_jk - Sum_j Sum_k           (integers)                  *)
(*     dl_j  = n y_j - Sum_j                   (integers)                  *)
(* the sample mean is Sum/(n s), the sample covariance (divisor n - 1) is  *)
(*     S = C / (n (n-1) s^2),   and   ssy - mean = dl / (n s).             *)
(*                                                                         *)
(* (a) STANDARD synthetic log-likelihood = log N(ssy; mean, S)             *)
(*       = -1/2 ( d log 2pi + log det S + (ssy-mean)' S^-1 (ssy-mean) ).   *)
(*     Whitening W (integer matrix / ws):  ssx <- ssx W', ssy <- W ssy.    *)
(*     Warton shrinkage with gamma = 1 - penalty = gn/gd:                  *)
(*       S <- D^1/2 (gamma R + (1-gamma) I) D^1/2, i.e. the off-diagonal   *)
(*       entries of S are multiplied by gamma (the code adds the guard     *)
(*       (1-gamma) * 1e-5 to the diagonal; that is covered by a tolerance  *)
(*       in the trace spec, not modelled).                                 *)
(* (b1) MISSPECIFICATION-ADJUSTED (Frazier & Drovandi 2021), std = sqrt of *)
(*     the diagonal of S, gamma an integer vector g:                       *)
(*       mean adjustment      mean <- mean + std o g                       *)
(*       variance adjustment  S <- S + diag((std o g)^2)                   *)
(* (b2) UNBIASED estimator (Ghurye & Olkin 1969; Price et al. 2018 eq. 5). *)
(*     Let M = (n-1) S = SUM_r (x_r - mean)(x_r - mean)' (scatter matrix)  *)
(*     and v = ssy - mean.  (mean, M) is complete sufficient, so the UMVU  *)
(*     estimator of the density N(ssy; mu, Sigma) is the conditional       *)
(*     density of one observation given (mean, M) (Rao-Blackwell):         *)
(*       f(ssy) = k |M|^-(n-d-2)/2  psi(M - v v'/(1-1/n))^(n-d-3)/2        *)
(*     with psi(A) = det A if A is positive definite and 0 OTHERWISE, and  *)
(*       k = (2 pi)^-d/2  c(d,n-2)/c(d,n-1)  (1-1/n)^-d/2,                 *)
(*       c(k,nu) = 2^-(k nu/2) pi^-(k(k-1)/4) / PROD_{i=1..k} G((nu-i+1)/2)*)
(*     Re-derivation of k (checks the published constant): substituting    *)
(*     v = sqrt((n-1)/n) M^1/2 u gives |M - v v' n/(n-1)| = |M| (1 - u'u), *)
(*     dv = ((n-1)/n)^d/2 |M|^1/2 du, and                                  *)
(*       INT_{|u|<1} (1-u'u)^((n-d-3)/2) du = pi^d/2 G((n-d-1)/2)/G((n-1)/2)*)
(*     so the density integrates to one iff                                *)
(*       k = G((n-1)/2) / ( pi^d/2 G((n-d-1)/2) ) (1-1/n)^-d/2 ;           *)
(*     the gamma products in c(d,n-2)/c(d,n-1) telescope to                *)
(*     2^d/2 G((n-1)/2)/G((n-d-1)/2): the same constant.  For d = 1 this   *)
(*     is Kolmogorov's estimator G((n-1)/2)/(G((n-2)/2) sqrt(pi (1-1/n) M))*)
(*     (1 - n v^2/((n-1) M))_+^((n-4)/2).  Hence                           *)
(*       2 log f = 2 lgG((n-1)/2) - 2 lgG((n-d-1)/2) - d log pi            *)
(*                 - d log(1-1/n) - (n-d-2) log|M| + (n-d-3) log|M - ..|   *)
(*     with  log|M| = log|(n-1) S| = d log(n-1) + log|S|.                  *)
(*     (F21: the code had log(n-1) + log|S|, and a 0-dimensional S for     *)
(*     d = 1; F32: the code took log|det| of a matrix that is not positive *)
(*     definite instead of returning log 0 = -inf.)                        *)
(*     In the integers above: M = C/(n s^2) and                            *)
(*       M - v v'/(1-1/n) = P / (n (n-1) s^2),  P = (n-1) C - dl dl'.      *)
(*                                                                         *)
(* LATTICE (T3).  Every determinant and denominator must be {2,3,5,7}-     *)
(* smooth so that its logarithm is a sum of table entries; the quadratic   *)
(* form is an exact rational.  A value is described by                     *)
(*    [lat, fin, t, q, w]:  2 * loglik = -(t + q)  with t in 10^-6 from    *)
(*    the table, q a rational, w the number of table entries used (error   *)
(*    bound), fin = FALSE: loglik = -inf, lat = FALSE: off the lattice.    *)
(***************************************************************************)
EXTENDS Naturals, Integers, Sequences, BslMhOps

Log2PiMicro == 1837877    \* log 2 pi = 1.837877 0664
LogPiMicro == 1144730     \* log pi   = 1.144729 8858
\* log Gamma(k/2) in 10^-6, k = 1..16:  G(1/2) = sqrt pi, G(1) = 1, G(x+1) = x G(x)
LGHalfMicro == <<572365, 0, -120782, 0, 284683, 693147, 1200974, 1791759, 2453737, 3178054,
                 3957814, 4787492, 5662562, 6579251, 7534364, 8525161>>

\* (TLC evaluates [i \in S |-> e] lazily and re-evaluates e on every application, so everything that is
\* read more than once is built as an explicit tuple.)
RECURSIVE SumTo(_, _)
\* SUM_{i=1..k} f[i]
SumTo(f, k) == IF k = 0 THEN 0 ELSE f[k] + SumTo(f, k - 1)
Dot(u, v) == IF Len(u) = 1 THEN u[1] * v[1] ELSE u[1] * v[1] + u[2] * v[2]
MatVec(W, v) == IF Len(W) = 1 THEN <<Dot(W[1], v)>> ELSE <<Dot(W[1], v), Dot(W[2], v)>>
RECURSIVE WhitenUpTo(_, _, _)
WhitenUpTo(W, x, k) == IF k = 0 THEN <<>> ELSE Append(WhitenUpTo(W, x, k - 1), MatVec(W, x[k]))
WhitenRows(W, x) == WhitenUpTo(W, x, Len(x))
RECURSIVE ColSumTo(_, _, _)
ColSumTo(x, j, r) == IF r = 0 THEN 0 ELSE x[r][j] + ColSumTo(x, j, r - 1)
ColSum(x, j) == ColSumTo(x, j, Len(x))
RECURSIVE ColProdTo(_, _, _, _)
ColProdTo(x, j, k, r) == IF r = 0 THEN 0 ELSE x[r][j] * x[r][k] + ColProdTo(x, j, k, r - 1)
ColProd(x, j, k) == ColProdTo(x, j, k, Len(x))
CEntry(x, j, k) == Len(x) * ColProd(x, j, k) - ColSum(x, j) * ColSum(x, k)
CMat(x, d) == IF d = 1 THEN <<<<CEntry(x, 1, 1)>>>>
              ELSE LET c12 == CEntry(x, 1, 2) IN <<<<CEntry(x, 1, 1), c12>>, <<c12, CEntry(x, 2, 2)>>>>
Delta(x, y, d) == IF d = 1 THEN <<Len(x) * y[1] - ColSum(x, 1)>>
                  ELSE <<Len(x) * y[1] - ColSum(x, 1), Len(x) * y[2] - ColSum(x, 2)>>
\* the d x d matrix with entries f(j, k) as an explicit tuple
Mat(d, f(_, _)) == IF d = 1 THEN <<<<f(1, 1)>>>> ELSE <<<<f(1, 1), f(1, 2)>>, <<f(2, 1), f(2, 2)>>>>
Vec(d, f(_)) == IF d = 1 THEN <<f(1)>> ELSE <<f(1), f(2)>>
Det(K, d) == IF d = 1 THEN K[1][1] ELSE K[1][1] * K[2][2] - K[1][2] * K[2][1]
\* v' adj(K) v for symmetric K
AdjQuad(K, v, d) == IF d = 1 THEN v[1] * v[1]
                    ELSE v[1] * v[1] * K[2][2] - 2 * v[1] * v[2] * K[1][2] + v[2] * v[2] * K[1][1]
PosDef(K, d) == K[1][1] > 0 /\ Det(K, d) > 0
RECURSIVE IsqrtFrom(_, _)
IsqrtFrom(m, r) == IF (r + 1) * (r + 1) > m THEN r ELSE IsqrtFrom(m, r + 1)
IsqrtB(m) == IsqrtFrom(m, 0)
IsSquare(m) == m >= 0 /\ m < 4000000 /\ IsqrtB(m) * IsqrtB(m) = m

OffLattice == [lat |-> FALSE, fin |-> TRUE, t |-> 0, q |-> <<0, 1>>, w |-> 0]
NegInf == [lat |-> TRUE, fin |-> FALSE, t |-> 0, q |-> <<0, 1>>, w |-> 0]

\* log N(.; ., K/kden) at distance v/dn from the mean:
\*   -2 log N = d log 2pi + log det K - d log kden + kden v'adj(K)v / (dn^2 det K)
Mvn(K, kden, v, dn, d) ==
  IF ~PosDef(K, d) THEN OffLattice          \* singular / indefinite covariance: outside the quantifier
  ELSE LET dt == Det(K, d)
           q == QMul(QNorm(kden, dn * dn), QNorm(AdjQuad(K, v, d), dt))
       IN IF ~(Smooth(dt) /\ Smooth(kden)) THEN OffLattice
          ELSE [lat |-> TRUE, fin |-> TRUE,
                t |-> d * Log2PiMicro + LogNatMicro(dt) - d * LogNatMicro(kden),
                q |-> q, w |-> Omega(dt) + d * Omega(kden)]

\* ---- (a) standard, with optional whitening and Warton shrinkage ------------------------------------
\* c = [x, y, s, d]; W = <<>> for no whitening; gam = <<gn, gd>> (shrinkage parameter 1 - penalty), <<1, 1>> = none
Whitened(c, W, ws) == IF W = <<>> THEN c
                      ELSE [c EXCEPT !.x = WhitenRows(W, c.x), !.y = MatVec(W, c.y), !.s = c.s * ws]
Shrunk(C, d, gam) == LET f(j, k) == IF j = k THEN gam[2] * C[j][k] ELSE gam[1] * C[j][k] IN Mat(d, f)
StdLik(c0, W, ws, gam) ==
  LET c == Whitened(c0, W, ws)
      n == Len(c.x)
      C == CMat(c.x, c.d)
  IN Mvn(Shrunk(C, c.d, gam), gam[2] * n * (n - 1) * c.s * c.s, Delta(c.x, c.y, c.d), n * c.s, c.d)

\* ---- (b1) misspecification-adjusted variants, integer gamma g ---------------------------------------
VarAdjLik(c, g) ==
  LET n == Len(c.x)
      C == CMat(c.x, c.d)
      f(j, k) == IF j = k THEN C[j][k] * (1 + g[j] * g[j]) ELSE C[j][k]
      K == Mat(c.d, f)
  IN Mvn(K, n * (n - 1) * c.s * c.s, Delta(c.x, c.y, c.d), n * c.s, c.d)
\* std_j = sqrt(C_jj n (n-1)) / (n (n-1) s) must be rational
MeanAdjLik(c, g) ==
  LET n == Len(c.x)
      C == CMat(c.x, c.d)
      dl == Delta(c.x, c.y, c.d)
  IN IF \E j \in 1..c.d : ~IsSquare(C[j][j] * n * (n - 1)) THEN OffLattice
     ELSE LET f(j) == (n - 1) * dl[j] - IsqrtB(C[j][j] * n * (n - 1)) * g[j]
              v == Vec(c.d, f)
          IN Mvn(C, n * (n - 1) * c.s * c.s, v, n * (n - 1) * c.s, c.d)

\* ---- (b2) unbiased (Ghurye-Olkin) --------------------------------------------------------------------
\* LogN1Coef: the coefficient of log(n-1) inside log|M|: d (the formula); 1 = the pre-F21 code
GoLikV(c, LogN1Coef, CheckPD) ==
  LET n == Len(c.x)
      d == c.d
      C == CMat(c.x, d)
      dl == Delta(c.x, c.y, d)
      f(j, k) == (n - 1) * C[j][k] - dl[j] * dl[k]
      P == Mat(d, f)
      dC == Det(C, d)
      dP == Det(P, d)
      adP == IF dP < 0 THEN -dP ELSE dP
      e1 == n - d - 2
      e2 == n - d - 3
  IN IF ~PosDef(C, d) \/ e2 < 0 \/ n - 1 > 16 THEN OffLattice
     \* exact boundary of the support (a float cannot decide it): excluded
     ELSE IF dP = 0 \/ \E j \in 1..d : P[j][j] = 0 THEN OffLattice
     ELSE IF CheckPD /\ ~PosDef(P, d) THEN NegInf
     ELSE IF ~(Smooth(dC) /\ Smooth(adP) /\ Smooth(n) /\ Smooth(n - 1) /\ Smooth(c.s)) THEN OffLattice
     ELSE \* log|S| = log dC - d log(n (n-1) s^2);  log|M| = LogN1Coef log(n-1) + log|S|
          LET nn == n * (n - 1) * c.s * c.s
              logS == LogNatMicro(dC) - d * LogNatMicro(nn)
              logM == LogN1Coef * LogNatMicro(n - 1) + logS
              logPsi == LogNatMicro(adP) - d * LogNatMicro(nn)
              twice == 2 * LGHalfMicro[n - 1] - 2 * LGHalfMicro[n - d - 1] - d * LogPiMicro
                       - d * (LogNatMicro(n - 1) - LogNatMicro(n)) - e1 * logM + e2 * logPsi
          IN [lat |-> TRUE, fin |-> TRUE, t |-> -twice, q |-> <<0, 1>>,
              w |-> 6 + d * (Omega(n) + Omega(n - 1))
                      + e1 * (LogN1Coef * Omega(n - 1) + Omega(dC) + d * Omega(nn))
                      + e2 * (Omega(adP) + d * Omega(nn))]
GoLik(c) == GoLikV(c, c.d, TRUE)

\* ---- comparison with a logged float (fixed point 10^-6; "-inf" etc. as strings) ---------------------
Tol(r) == 6 + (36 * r.w) \div 100
QSafe(r) == r.q[2] > 0 /\ r.q[2] <= 200000000 /\ r.q[1] >= 0 /\ r.q[1] \div r.q[2] <= 2000
\* res = "val" and v = round(loglik * 10^6), or res in {"-inf", "inf", "nan", "raise"}:  |2 v + t + q| <= tolerance
LikMatches(res, v, r, extra) ==
  IF ~r.fin THEN res = "-inf"
  ELSE /\ res = "val"
       /\ LET z == 2 * v + r.t + FxFloor(r.q[1], r.q[2]) IN z >= -(Tol(r) + extra) - 1 /\ z <= Tol(r) + extra
=============================================================================

---------------------------- MODULE WeightedStats ----------------------------
(***************************************************************************)
(* Design module for the weighted variance and the effective sample size   *)
(* of C13 (elfi.methods.utils.weighted_var / compute_ess).                 *)
(*                                                                         *)
(* One state = one pair of calls on sample xs with weights k * ws; s2 and  *)
(* ess are what the CODE computes, statement by statement, in exact        *)
(* rational arithmetic (WeightedStatsOps!WVarCode / EssCode).  The         *)
(* invariants say these equal the DEFINITIONS named in the statement       *)
(* (reliability-weights unbiased variance; (sum w)^2 / sum w^2) and have   *)
(* the characteristic consequences of those definitions:                   *)
(*   - equal weights give the ordinary unbiased sample variance, ESS = n   *)
(*   - Rescale(k2): multiplying all weights changes neither (reliability   *)
(*     weights, unlike frequency weights)                                  *)
(*   - DropZero(i): an observation of weight zero is irrelevant            *)
(* Freq = TRUE is the negative control `V_1 - 1` and must be refuted.      *)
(***************************************************************************)
EXTENDS Naturals, Integers, Sequences, FiniteSets, TLC, WeightedStatsOps

CONSTANTS MaxN, MaxV, MaxW, Scales, Freq

VARIABLES xs, ws, k, s2, ess
vars == <<xs, ws, k, s2, ess>>

Scaled(w, kk) == [i \in 1..Len(w) |-> kk * w[i]]
Drop(s, i) == [j \in 1..(Len(s) - 1) |-> IF j < i THEN s[j] ELSE s[j + 1]]

Init == /\ \E n \in 1..MaxN : /\ xs \in [1..n -> 0..MaxV]
                              /\ ws \in {w \in [1..n -> 0..MaxW] : \E i \in 1..n : w[i] > 0}
        /\ k = 1
        /\ s2 = WVarCodeV(xs, ws, Freq)
        /\ ess = EssCode(ws)

Rescale(k2) == /\ k = 1 /\ k2 # 1
               /\ k' = k2
               /\ s2' = WVarCodeV(xs, Scaled(ws, k2), Freq)
               /\ ess' = EssCode(Scaled(ws, k2))
               /\ UNCHANGED <<xs, ws>>

DropZero(i) == /\ Len(xs) > 1 /\ i <= Len(xs) /\ ws[i] = 0
               /\ xs' = Drop(xs, i) /\ ws' = Drop(ws, i)
               /\ s2' = WVarCodeV(xs', Scaled(ws', k), Freq)
               /\ ess' = EssCode(Scaled(ws', k))
               /\ UNCHANGED k

Next == (\E k2 \in Scales : Rescale(k2)) \/ (\E i \in 1..MaxN : DropZero(i))
Spec == Init /\ [][Next]_vars

\* ---- properties (C13 c, d) -----------------------------------------------------------
W == Scaled(ws, k)
NPos == Cardinality({i \in 1..Len(ws) : ws[i] > 0})
\* (c) the code's value is the reliability-weights unbiased variance (incl. where undefined)
VarIsDefinition == REq(s2, WVarRat(xs, W))
VarDefinedIffTwoPositive == IsDef(s2) <=> NPos >= 2
VarNonNegative == IsDef(s2) => s2[1] >= 0
\* equal weights: the ordinary unbiased sample variance  (n sum x^2 - (sum x)^2) / (n (n-1))
EqualWeightsSampleVariance ==
  LET n == Len(xs)
      sx == ISum(xs)
      sxx == ISum([i \in 1..n |-> xs[i] * xs[i]])
  IN (n >= 2 /\ \A i \in 1..n : ws[i] = ws[1]) => REq(s2, <<n * sxx - sx * sx, n * (n - 1)>>)
\* (d) the code's value is (sum w)^2 / sum w^2
EssIsDefinition == REq(ess, EssRat(W)) /\ IsDef(ess)
EssBounds == RLe(RInt(1), ess) /\ RLe(ess, RInt(NPos))
EssEqualWeights == (\A i \in 1..Len(ws) : ws[i] = ws[1]) => REq(ess, RInt(Len(ws)))
\* consequences of the definitions
ScaleInvariant == [][k' # k => (REq(s2', s2) /\ REq(ess', ess))]_vars
ZeroWeightIrrelevant == [][Len(xs') # Len(xs) => (REq(s2', s2) /\ REq(ess', ess))]_vars
=============================================================================

------------------------------- MODULE SynLik -------------------------------
(***************************************************************************)
(* Design module for clauses (a) and (b) of C20: the synthetic likelihoods *)
(* of SynLikOps.tla on small integer data, with the algebraic facts that   *)
(* tie the formulas together checked exhaustively by TLC.                  *)
(*                                                                         *)
(* A state is one data set c = [x, y, s, d] (n rows of d integers, the     *)
(* observed vector, the scale) and, after the action Whiten, its image     *)
(* under a whitening matrix W/ws (ssx <- ssx W', ssy <- W ssy), as         *)
(* gaussian_syn_likelihood applies it.                                     *)
(*                                                                         *)
(* Theorems                                                                *)
(*   Tables               the T3 tables satisfy G(x+1) = x G(x),           *)
(*                        G(1/2)^2 = pi, log 2pi = log 2 + log pi, and the *)
(*                        published constant c(d,n-2)/c(d,n-1) (2pi)^-d/2  *)
(*                        equals G((n-1)/2)/(pi^d/2 G((n-d-1)/2))          *)
(*   ScatterIsScaledCov   log|M| used by the unbiased estimator is the log *)
(*                        determinant of the scatter matrix M = (n-1) S    *)
(*                        computed directly from M = C/(n s^2)             *)
(*                        (refuted for LogN1Coef = 1, the pre-F21 code)    *)
(*   DetLemma             det((n-1)C - dl dl') = (n-1)^(d-1)               *)
(*                        ((n-1) det C - dl' adj(C) dl)                    *)
(*   UnbiasedSupport      the unbiased estimate is finite iff the standard *)
(*                        quadratic form is below (n-1)^2/n, i.e. iff      *)
(*                        M - v v'/(1-1/n) is positive definite            *)
(*                        (refuted for CheckPD = FALSE, the pre-F32 code)  *)
(*   Equivariance         whitening by W changes 2 log-likelihood by       *)
(*                        -2 log|det W| exactly (standard and unbiased):   *)
(*                        a density of W ssy (negative control:            *)
(*                        WhiteningInvariant claims no change)             *)
(*   ZeroGamma            both adjusted variants with gamma = 0 are the    *)
(*                        standard synthetic likelihood                    *)
(*   VarAdjFlatter        variance adjustment never decreases log det      *)
(***************************************************************************)
EXTENDS Naturals, Integers, Sequences, FiniteSets, TLC, SynLikOps

CONSTANTS N, D,        \* rows, summaries
          Vals,        \* entries of ssx
          YVals,       \* entries of ssy
          Scales,
          Ws,          \* whitening matrices: records [W, ws]
          LogN1Coef,   \* 0: use D (the formula);  1: the pre-F21 code (negative control for D = 2)
          CheckPD      \* TRUE: psi(A) = 0 unless A is positive definite;  FALSE: pre-F32 code

VARIABLES c,           \* current data set
          c0,          \* the data set before whitening
          w,           \* the whitening applied (or [W |-> <<>>, ws |-> 1])
          pc           \* "raw" | "whitened"
vars == <<c, c0, w, pc>>

Coef == IF LogN1Coef = 0 THEN D ELSE LogN1Coef
NoW == [W |-> <<>>, ws |-> 1]
NoShrink == <<1, 1>>
RowsSet == [1..D -> Vals]
Init == /\ c \in {[x |-> xs, y |-> yy, s |-> sc, d |-> D] : xs \in [1..N -> RowsSet], yy \in [1..D -> YVals], sc \in Scales}
        /\ c0 = c /\ w = NoW /\ pc = "raw"
Whiten == /\ pc = "raw"
          /\ \E ww \in Ws : /\ Len(ww.W) = D
                            /\ w' = ww /\ c' = Whitened(c, ww.W, ww.ws)
          /\ pc' = "whitened" /\ UNCHANGED c0
Next == Whiten
Spec == Init /\ [][Next]_vars

n == N
PMat(cc, dl) == LET f(j, k) == (n - 1) * cc[j][k] - dl[j] * dl[k] IN Mat(D, f)
Near(a, b, tol) == a - b <= tol /\ b - a <= tol

\* ---- tables ---------------------------------------------------------------------------------------
\* 2 wcon(k, nu) in 10^-6: wcon = -k nu/2 log 2 - k(k-1)/4 log pi - SUM_{i=0..k-1} lgG((nu - i)/2)
TwiceWcon(k, nu) == -k * nu * Log2Micro - ((k * (k - 1)) \div 2) * LogPiMicro
                    - 2 * SumTo([i \in 1..k |-> LGHalfMicro[nu - i + 1]], k)
TablesHold ==
  /\ \A k \in 1..14 : Smooth(k) => Near(LGHalfMicro[k + 2] - LGHalfMicro[k], LogNatMicro(k) - Log2Micro, 2)
  /\ Near(2 * LGHalfMicro[1], LogPiMicro, 1) /\ LGHalfMicro[2] = 0
  /\ Near(Log2PiMicro, Log2Micro + LogPiMicro, 1)
  /\ \A dd \in 1..2 : \A nn \in (dd + 3)..12 :
        Near(TwiceWcon(dd, nn - 2) - TwiceWcon(dd, nn - 1) - dd * Log2PiMicro,
             2 * LGHalfMicro[nn - 1] - 2 * LGHalfMicro[nn - dd - 1] - dd * LogPiMicro, 8)
ASSUME Tables == TablesHold

\* ---- the unbiased estimator -------------------------------------------------------------------------
Pow1(b, e) == IF e = 0 THEN 1 ELSE b
DetLemma ==
  LET cc == CMat(c.x, D)
      dl == Delta(c.x, c.y, D)
  IN Det(PMat(cc, dl), D) = Pow1(n - 1, D - 1) * ((n - 1) * Det(cc, D) - AdjQuad(cc, dl, D))
ScatterIsScaledCov ==
  LET r == GoLikV(c, Coef, CheckPD)
      r0 == GoLikV(c, 0, CheckPD)       \* coefficient 0: log|M| replaced by log|S|
      nn == n * (n - 1) * c.s * c.s
      e1 == n - D - 2
  IN (r.lat /\ r.fin) =>
       \* -e1 log|M| enters t with a plus sign:  r.t - r0.t = e1 (log|M| - log|S|) and
       \* log|M| - log|S| must be  D log(n s^2 (n-1)) - D log(n s^2) = D log(n-1)
       r.t - r0.t = e1 * (D * LogNatMicro(nn) - D * LogNatMicro(n * c.s * c.s))
UnbiasedSupport ==
  LET r == GoLikV(c, Coef, CheckPD)
      cc == CMat(c.x, D)
      dl == Delta(c.x, c.y, D)
  IN r.lat => (r.fin <=> (PosDef(cc, D) /\ AdjQuad(cc, dl, D) < (n - 1) * Det(cc, D) /\ PosDef(PMat(cc, dl), D)))
\* for positive definite C the two descriptions of the support agree
SupportIffQuad ==
  LET cc == CMat(c.x, D)
      dl == Delta(c.x, c.y, D)
      pp == PMat(cc, dl)
  IN (PosDef(cc, D) /\ Det(pp, D) # 0 /\ \A j \in 1..D : pp[j][j] # 0) =>
       (PosDef(pp, D) <=> AdjQuad(cc, dl, D) < (n - 1) * Det(cc, D))

\* ---- whitening ----------------------------------------------------------------------------------------
AbsI(v) == IF v < 0 THEN -v ELSE v
TwoLogDetW == 2 * LogNatMicro(AbsI(Det(w.W, D))) - 2 * D * LogNatMicro(w.ws)
Equivariance ==
  pc = "whitened" =>
    LET a == StdLik(c0, <<>>, 1, NoShrink)
        b == StdLik(c0, w.W, w.ws, NoShrink)
        g0 == GoLikV(c0, Coef, CheckPD)
        g1 == GoLikV(c, Coef, CheckPD)
    IN /\ b = StdLik(c, <<>>, 1, NoShrink)
       /\ (a.lat /\ b.lat) => (b.q = a.q /\ b.t = a.t + TwoLogDetW)
       /\ (g0.lat /\ g1.lat) => (g0.fin = g1.fin /\ (g0.fin => g1.t = g0.t + TwoLogDetW))
WhiteningInvariant ==     \* negative control: must be refuted
  pc = "whitened" =>
    LET a == StdLik(c0, <<>>, 1, NoShrink)
        b == StdLik(c0, w.W, w.ws, NoShrink)
    IN (a.lat /\ b.lat) => b.t = a.t

\* ---- adjusted variants ----------------------------------------------------------------------------------
Zero == IF D = 1 THEN <<0>> ELSE <<0, 0>>
ZeroGamma ==
  LET a == StdLik(c, <<>>, 1, NoShrink)
      m == MeanAdjLik(c, Zero)
  IN /\ VarAdjLik(c, Zero) = a
     /\ m.lat => m = [a EXCEPT !.q = m.q] /\ QEq(m.q, a.q)
VarAdjFlatter ==
  LET a == StdLik(c, <<>>, 1, NoShrink)
  IN a.lat => \A g \in (IF D = 1 THEN {<<1>>, <<2>>} ELSE {<<1, 0>>, <<1, 2>>}) :
       LET v == VarAdjLik(c, g) IN v.lat => (v.t >= a.t /\ ~QLess(a.q, v.q))
=============================================================================

SPECIFICATION Spec
CONSTANTS
  High = 4
  StreamLen = 7
  MaxIdx = 4
  MaxCalls = 3
INVARIANT HistoryIndependent
INVARIANT Distinct
INVARIANT InRange
INVARIANT Rejects
INVARIANT CacheConsistent
CHECK_DEADLOCK FALSE

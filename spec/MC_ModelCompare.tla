--------------------------- MODULE MC_ModelCompare ---------------------------
(* Exhaustive configurations of ModelCompare.tla. *)
EXTENDS ModelCompare

CONSTANTS DVals,      \* discrepancy values (may contain NINF, PINF, NAN)
          MaxSamples, \* n_samples per model in 1..MaxSamples
          NSims,      \* numbers of simulations
          Weights     \* prior weights

MCModels == {[d |-> d, nsim |-> n, w |-> w] :
             d \in UNION {[1..k -> DVals] : k \in 1..MaxSamples}, n \in NSims, w \in Weights}
=============================================================================

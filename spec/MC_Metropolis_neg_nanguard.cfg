SPECIFICATION Spec
CONSTANTS
  MaxN = 2
  MaxW = 1
  GuardInf = TRUE
  GuardNaN = FALSE
  SliceFrom = 1
  StartClass = "fin"
INVARIANT OutputsFinite
CHECK_DEADLOCK FALSE

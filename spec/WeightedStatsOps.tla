------------------------- MODULE WeightedStatsOps -------------------------
(***************************************************************************)
(* Pure operators for                                                      *)
(*     elfi.methods.utils.weighted_var(x, weights)                         *)
(*     elfi.methods.utils.compute_ess(weights)  (with normalize_weights)   *)
(* in exact rational arithmetic over integer samples and integer weights.  *)
(* A rational is a pair <<num, den>> with den > 0; Undef == <<0, 0>> marks *)
(* a division by zero (the float code returns nan / inf there).            *)
(* Shared by WeightedStats.tla (design) and WStats_Trace.tla (traces).     *)
(* Callers keep every intermediate product below 2^31 (TLC integers).      *)
(***************************************************************************)
EXTENDS Naturals, Integers, Sequences

\* ---- rationals ---------------------------------------------------------------
Undef == <<0, 0>>
IsDef(r) == r[2] # 0
Abs(n) == IF n < 0 THEN -n ELSE n
RECURSIVE Gcd(_, _)
Gcd(m, n) == IF n = 0 THEN m ELSE Gcd(n, m % n)
\* lowest terms, positive denominator
RNorm(n, d) == IF d = 0 THEN Undef
               ELSE LET g == Gcd(Abs(n), Abs(d))
                        s == IF d < 0 THEN -1 ELSE 1
                    IN <<s * (n \div g), s * (d \div g)>>    \* g >= 1 since d # 0
RInt(n) == <<n, 1>>
RAdd(p, r) == IF IsDef(p) /\ IsDef(r) THEN RNorm(p[1] * r[2] + r[1] * p[2], p[2] * r[2]) ELSE Undef
RSub(p, r) == IF IsDef(p) /\ IsDef(r) THEN RNorm(p[1] * r[2] - r[1] * p[2], p[2] * r[2]) ELSE Undef
RMul(p, r) == IF IsDef(p) /\ IsDef(r) THEN RNorm(p[1] * r[1], p[2] * r[2]) ELSE Undef
RDiv(p, r) == IF IsDef(p) /\ IsDef(r) /\ r[1] # 0 THEN RNorm(p[1] * r[2], p[2] * r[1]) ELSE Undef
\* equality of two rationals not necessarily in lowest terms (both defined or both undefined)
REq(p, r) == IF IsDef(p) /\ IsDef(r) THEN p[1] * r[2] = r[1] * p[2] ELSE IsDef(p) = IsDef(r)
RLe(p, r) == p[1] * r[2] <= r[1] * p[2]           \* both defined

RECURSIVE RSumTo(_, _)
\* sum of the rationals f[1..n]
RSumTo(f, n) == IF n = 0 THEN RInt(0) ELSE RAdd(f[n], RSumTo(f, n - 1))

RECURSIVE ISumTo(_, _)
ISumTo(f, n) == IF n = 0 THEN 0 ELSE f[n] + ISumTo(f, n - 1)
ISum(f) == ISumTo(f, Len(f))

\* ---- the definitions the statement of C13 refers to -----------------------------
V1(ws) == ISum(ws)                                            \* sum w
V2(ws) == ISum([i \in 1..Len(ws) |-> ws[i] * ws[i]])          \* sum w^2
WM(xs, ws) == ISum([i \in 1..Len(xs) |-> ws[i] * xs[i]])      \* sum w x

(* Reliability-weights unbiased variance                                          *)
(*      s2 = sum_i w_i (x_i - mu)^2 / (V1 - V2 / V1),   mu = sum_i w_i x_i / V1   *)
(* cleared of inner denominators (multiply numerator and denominator by V1^3):   *)
(*      s2 = sum_i w_i (V1 x_i - M)^2  /  ( V1 (V1^2 - V2) ),   M = sum w x      *)
(* Undefined when V1 = 0 or V1^2 = V2 (at most one positive weight).              *)
WVarRat(xs, ws) ==
  LET v1 == V1(ws)
      m == WM(xs, ws)
      num == ISum([i \in 1..Len(xs) |-> ws[i] * (v1 * xs[i] - m) * (v1 * xs[i] - m)])
      den == v1 * (v1 * v1 - V2(ws))
  IN IF den = 0 THEN Undef ELSE <<num, den>>

\* Effective sample size (sum w)^2 / sum w^2; undefined for all-zero weights
EssRat(ws) == IF V2(ws) = 0 THEN Undef ELSE <<V1(ws) * V1(ws), V2(ws)>>

\* ---- the code, statement by statement, over rationals ------------------------------
(*  V_1 = np.sum(weights); V_2 = np.sum(weights ** 2)                              *)
(*  xbar = np.average(x, weights=weights, axis=0)                                  *)
(*  numerator = weights.dot((x - xbar) ** 2)                                       *)
(*  s2 = numerator / (V_1 - (V_2 / V_1))                                           *)
(* freq = TRUE is the negative control  `V_1 - 1`  (frequency-weights formula).    *)
WVarCodeV(xs, ws, freq) ==
  LET n == Len(xs)
      v1 == RInt(V1(ws))
      v2 == RInt(V2(ws))
      xbar == RDiv(RInt(WM(xs, ws)), v1)
      sq == [i \in 1..n |-> LET d == RSub(RInt(xs[i]), xbar) IN RMul(RInt(ws[i]), RMul(d, d))]
      numerator == RSumTo(sq, n)
      denom == IF freq THEN RSub(v1, RInt(1)) ELSE RSub(v1, RDiv(v2, v1))
  IN RDiv(numerator, denom)
WVarCode(xs, ws) == WVarCodeV(xs, ws, FALSE)

(*  weights = normalize_weights(weights)      -> w / sum(w)  (raises if sum = 0)   *)
(*  numer = np.square(np.sum(weights)); denom = np.sum(np.square(weights))         *)
(*  return numer / denom                                                           *)
EssCode(ws) ==
  LET n == Len(ws)
      tot == RInt(V1(ws))
      nw == [i \in 1..n |-> RDiv(RInt(ws[i]), tot)]
      s == RSumTo(nw, n)
      numer == RMul(s, s)
      denom == RSumTo([i \in 1..n |-> RMul(nw[i], nw[i])], n)
  IN RDiv(numer, denom)

\* ---- fixed point ---------------------------------------------------------------------
(* floor(num * 10^6 / den) for num >= 0, den > 0, computed by long division three   *)
(* decimal digits at a time so that no intermediate exceeds max(num, 1000 * den).   *)
(* Requires num \div den < 2147 and den < 2 * 10^6.                                 *)
FxFloor6(num, den) ==
  LET i0 == num \div den
      r0 == num % den
      d1 == (r0 * 1000) \div den
      r1 == (r0 * 1000) % den
      d2 == (r1 * 1000) \div den
  IN i0 * 1000000 + d1 * 1000 + d2
\* a float logged as round(v * 10^6) agrees with the rational num/den (>= 0) up to the
\* rounding of the log: floor <= round <= floor + 1
FxAgrees6(v, num, den) == LET f == FxFloor6(num, den) IN v = f \/ v = f + 1
=============================================================================

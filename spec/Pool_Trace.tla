----------------------------- MODULE Pool_Trace -----------------------------
(***************************************************************************)
(* Trace validation for C05.  A trace is a history of inference runs over   *)
(* one real output pool (OutputPool or ArrayPool):                         *)
(*   T.stored   initially stored nodes                                      *)
(*   events  run     k consumed batches expected, res / twin digests of the  *)
(*                   result with the pool / of the pool-free twin run,       *)
(*                   held0: node -> batches the pool held before the run,    *)
(*                   calls: <<node, batch>> operation invocations during it, *)
(*                   pool: node -> <<batch, digest, fresh digest>> after it  *)
(*           remove n | replace n | reopen | badctx (a run with another       *)
(*           batch_size or seed: must be refused)                            *)
(***************************************************************************)
EXTENDS Naturals, Integers, Sequences, FiniteSets, TLC, Json, IOUtils, PoolOps

Traces == JsonDeserialize(IOEnv.TRACE_FILE)
VARIABLES tid, l, held, saved, verdict, drift, done
vars == <<tid, l, held, saved, verdict, drift, done>>
\* saved: what the pool held when it was last pickled (save / close); "staleopen" = the pool is opened from that pickle
\* after it was used further without being saved again: it makes available the batches it had then
T == Traces[tid]
SeqSet(s) == {s[i] : i \in 1..Len(s)}

Init == /\ tid \in 1..Len(Traces) /\ l = 1 /\ held = [n \in SeqSet(T.stored) |-> {}] /\ saved = [n \in SeqSet(T.stored) |-> {}]
        /\ verdict = "ok" /\ drift = "" /\ done = FALSE

JudgeP(e) ==
  CASE e.a = "run" ->
         IF e.raised # "" THEN "P:run-with-pool-returns"
         ELSE IF e.res # e.twin THEN "P:same-result-as-without-pool"
         ELSE IF \E c \in SeqSet(e.calls) : c[1] \in DOMAIN e.held0 /\ c[2] \in SeqSet(e.held0[c[1]]) THEN "P:stored-operation-not-invoked-for-held-batch"
         ELSE IF \E n \in DOMAIN e.pool : {p[1] : p \in SeqSet(e.pool[n])} # SeqSet(e.held0[n]) \cup 0..(e.k - 1) THEN "P:pool-holds-exactly-consumed-batches"
         ELSE IF \E n \in DOMAIN e.pool : \E p \in SeqSet(e.pool[n]) : p[2] # p[3] THEN "P:pool-values-are-fresh-computation-values"
         ELSE "ok"
    [] e.a = "badctx" -> IF e.raised # "ValueError" THEN "P:refuses-other-batch_size-or-seed" ELSE "ok"
    [] OTHER -> IF e.raised # "" THEN "P:pool-operation-raised" ELSE "ok"

\* mechanism: what the pool holds follows the design module (PoolOps!AddBatch never overwrites, stores removed on request)
JudgeM(e) ==
  CASE e.a = "run" ->
         IF e.raised # "" THEN ""
         ELSE IF DOMAIN e.held0 # DOMAIN held THEN "M:stored-set"
         ELSE IF \E n \in DOMAIN held : SeqSet(e.held0[n]) # held[n] THEN "M:held-before-run"
         \* the operations that run for batch i are among those the design's executor needs (PoolOps!Need) given what the pool
         \* held for that batch and what was requested.  NOT a clause of C05 (whose "never invoked again" speaks of STORED nodes):
         \* a needless run of an un-stored operation leaves the results unchanged; it is C03's clause f.  Mechanism clause here.
         ELSE IF \E c \in SeqSet(e.calls) :
                   LET ld == {n \in DOMAIN e.held0 : c[2] \in SeqSet(e.held0[n])}
                       \* (PoolLoader adds a store that misses the batch to the outputs set of the sampler's compiled net - for the
                       \*  life of that sampler object: e.sticky = the stores this sampler object met in its earlier runs)
                       outs == SeqSet(e.req) \cup DOMAIN e.held0 \cup SeqSet(e.sticky)
                   IN c[1] \in {"sim", "S", "d"} /\ c[1] \notin Need(outs \ ld, ld)
              THEN "M:no-operation-run-that-the-held-batch-makes-needless"
         ELSE ""
    [] OTHER -> ""

Apply(e) ==
  CASE e.a = "run" /\ e.raised = "" -> [n \in DOMAIN held |-> held[n] \cup 0..(e.k - 1)]
    [] e.a = "remove" -> [n \in DOMAIN held \ {e.n} |-> held[n]]
    [] e.a = "addstore" -> [n \in DOMAIN held \cup {e.n} |-> IF n = e.n THEN {} ELSE held[n]]
    [] e.a = "staleopen" /\ e.raised = "" -> [n \in DOMAIN held |-> IF n \in DOMAIN saved THEN saved[n] ELSE {}]
    [] OTHER -> held

Step == /\ ~done
        /\ IF l > Len(T.events) THEN done' = TRUE /\ UNCHANGED <<tid, l, held, saved, verdict, drift>>
           ELSE LET e == T.events[l] j == JudgeP(e) IN
                /\ verdict' = j /\ done' = (j # "ok") /\ l' = l + 1 /\ UNCHANGED tid
                /\ saved' = IF e.a \in {"save", "reopen"} /\ e.raised = "" THEN held ELSE saved
                /\ drift' = IF drift # "" THEN drift ELSE JudgeM(e)
                /\ held' = Apply(e)
Spec == Init /\ [][Step]_vars
Report == done => PrintT(<<"V", tid, l, verdict, drift>>)
=============================================================================

------------------------- MODULE BolfiPipeline_Trace -------------------------
(***************************************************************************)
(* Trace validation for the EXTENSION BolfiPipeline.tla: histories of      *)
(* public calls on REAL elfi.BOLFI objects (a recording subclass whose     *)
(* overrides of the public methods only note that they were entered;       *)
(* wrappers around acquisition_method.acquire, target_model.optimize and   *)
(* mcmc.nuts / mcmc.metropolis that only log).  A history may drive        *)
(* SEVERAL objects (field o); objects of one group (grp) were built with   *)
(* the same seed and configuration.  One event per call, the constructor   *)
(* included (m = "init").  TLC replays every object's calls on the design  *)
(* module's state record with the design's Run operator (fix = {}: the     *)
(* code as transcribed) and compares everything observable after every     *)
(* call.  All clauses are E: clauses (extension: reported as drift).       *)
(*                                                                         *)
(* verdict: first clause that fails; ends the trace:                       *)
(*   E:<m>-public-methods-entered-in-order                                 *)
(*   E:<m>-refused-exactly-when-the-design-refuses                         *)
(*   E:<m>-returns-or-raises-as-the-stages-do                              *)
(*   E:<m>-refused-call-changes-nothing                                    *)
(*   E:<m>-state-<field>       n_batches n_sim n_evidence gp-rows          *)
(*                             last_GP_update acquisition-queue objective  *)
(*                             next_index is_sampling gp-optimisations     *)
(*   E:<m>-acquisitions        which batch came from which acquire() call, *)
(*                             and what the GP was then                    *)
(*   E:<m>-returned-<field>    kind rows warmup n_chains chain-iterations  *)
(*                             n_sim n_batches chains-shape                *)
(*   E:<m>-posteriors-held     which GP every posterior handed out sees    *)
(*   and, on observed quantities only:                                     *)
(*   E:evidence-append-only                                                *)
(*   E:gp-rows-are-precomputed-then-simulated-in-order                     *)
(*   E:n_sim-counts-simulator-rows                                         *)
(*   E:default-threshold-is-minimum-of-gp-mean  E:given-threshold-is-used  *)
(*   E:x_min-minimises-gp-mean-inside-bounds                               *)
(*   E:chain-seeds-are-sub-seeds-of-the-seed                               *)
(*   E:posterior-threshold-is-frozen  E:posterior-evaluates-the-live-gp    *)
(*   E:same-seed-same-batches-same-evidence                                *)
(* drift: the USER-LEVEL invariants of the design module evaluated on the  *)
(*   OBSERVED state after every call; every violated one is collected      *)
(*   ("inv-...|inv-...|").  The design module shows with TLC which of them *)
(*   the real pipeline cannot keep (its REPAIRS); on real histories they   *)
(*   are findings about elfi, not about the binding.                       *)
(*                                                                         *)
(* Event fields (every event carries every field).  Inputs: o, grp, m, n   *)
(* (-1 = None), thr ("none" | "given"), thrv (1e-6), ns, warm (-1 = None), *)
(* nch, alg, ini; for init: iek, ien, bs, upd, bpa, dim.  Environment      *)
(* (ORACLE): fin[k] = the k-th best evidence point has a finite logpdf.    *)
(* Outcome: raised (exception type, "" = returned), msg (first 23 chars),  *)
(* stages (public methods entered, in order).  Observed state: nb nsim nev *)
(* gp last q objset on osim nx smp nopt ninit npre.  acqs: the acquire()   *)
(* calls of this call [i (next batch index), t, n, seen, opt, smp]; bats:  *)
(* the batches prepared [i, t].  xs: rows of target_model.X (1e-6);        *)
(* simx: rows the simulator received, ever; sims = their number.  out:     *)
(* [kind, rows, warm, nch, iters (per chain), nsim, nbat, shape, othr,     *)
(* gmin, emin (1e-6; ORACLE: GP mean minimum on a grid / over the          *)
(* evidence points), xmin_ok, seeds_ok (ORACLE)].  posts: the last         *)
(* posteriors handed out [at, sees, thr0, thr, same, live].                *)
(***************************************************************************)
EXTENDS Naturals, Integers, Sequences, FiniteSets, TLC, Json, IOUtils

Traces == JsonDeserialize(IOEnv.TRACE_FILE)

D == INSTANCE BolfiPipeline WITH IEKinds <- {"int"}, IENs <- {0}, ReqMin <- 10, BSs <- {1}, Upds <- {1}, BPAs <- {1}, Ns <- {0},
                                 NoneToo <- FALSE, MaxEv <- 0, Profiles <- {}, MaxPosts <- 2, MaxCalls <- 0, Fix <- {},
                                 st <- 0, todo <- <<>>, call <- 0, st0 <- 0, env <- 0, ncalls <- 0

VARIABLES tid, l, cur, cfg, obs, grps, verdict, drift, viol, done
vars == <<tid, l, cur, cfg, obs, grps, verdict, drift, viol, done>>
T == Traces[tid]
TOL == 100
NoCfg == [bs |-> 0, ninit |-> 0, npre |-> 0, upd |-> 0, bpa |-> 0, fix |-> {}]

Init == /\ tid \in 1..Len(Traces) /\ l = 1 /\ verdict = "ok" /\ drift = "" /\ viol = {} /\ done = FALSE /\ grps = {}
        /\ cfg = [o \in 1..T.nobj |-> NoCfg]
        /\ cur = [o \in 1..T.nobj |-> D!S0(NoCfg)]
        /\ obs = [o \in 1..T.nobj |-> [s |-> D!S0(NoCfg), xs |-> <<>>]]

\* ---- the call, from the logged inputs
CallOf(e) == [m |-> e.m, n |-> e.n, thr |-> e.thr, ns |-> e.ns, warm |-> e.warm, nch |-> e.nch, alg |-> e.alg, ini |-> e.ini,
              fin |-> e.fin]
CfgOf(e) == D!Config([kind |-> e.iek, n |-> e.ien], 10, e.dim, e.bs, e.upd, e.bpa, {})

\* ---- the observed state as a design state record; ev / qrec / posts continue the previously observed ones
RECURSIVE NewEv(_, _, _, _)
\* bats[k..]: the batches prepared in this call; qrec: the acquisition the queue holds points of
NewEv(e, k, qrec, acc) ==
  IF k > Len(e.bats) THEN <<acc, qrec>>
  ELSE LET b == e.bats[k]
           mine == SelectSeq(e.acqs, LAMBDA a : a.i = b.i)
           fresh == Len(mine) > 0
           rec == IF fresh THEN [t |-> mine[1].t, seen |-> mine[1].seen, opt |-> mine[1].opt, smp |-> mine[1].smp] ELSE qrec
           ent == IF b.t < 0 THEN [i |-> b.i, t |-> -1, fresh |-> FALSE, seen |-> 0, opt |-> 0, smp |-> FALSE]
                  ELSE [i |-> b.i, t |-> rec.t, fresh |-> fresh, seen |-> rec.seen, opt |-> rec.opt, smp |-> rec.smp]
       IN NewEv(e, k + 1, IF b.t < 0 THEN qrec ELSE rec, Append(acc, ent))

KindOfRaise(e, want) ==
  IF e.raised = "" THEN ""
  ELSE IF e.raised = "ValueError" /\ want \in D!Refusals /\ D!PyMsg(want) = e.msg THEN want
  ELSE IF e.raised = "ValueError" THEN "ValueError:" \o e.msg
  ELSE e.raised

ObsOut(e) == [kind |-> e.out.kind, rows |-> e.out.rows, warm |-> e.out.warm, nch |-> e.out.nch,
              iters |-> IF Len(e.out.iters) > 0 /\ \A k \in 1..Len(e.out.iters) : e.out.iters[k] = e.out.iters[1]
                        THEN e.out.iters[1] ELSE IF Len(e.out.iters) = 0 THEN 0 ELSE -1,
              nsim |-> e.out.nsim, nbat |-> e.out.nbat, thr |-> IF e.out.kind \in {"posterior", "sample"} THEN e.thr ELSE "none"]

ObsState(e, prev, want) ==
  LET ne == NewEv(e, 1, prev.qrec, <<>>) IN
  [nb |-> e.nb, nsim |-> e.nsim, nev |-> e.nev, gp |-> e.gp, last |-> e.last, q |-> e.q, qrec |-> ne[2],
   objset |-> e.objset, on |-> e.on, osim |-> e.osim, nx |-> e.nx, smp |-> e.smp, nopt |-> e.nopt,
   ev |-> prev.ev \o ne[1], posts |-> [k \in 1..Len(e.posts) |-> [at |-> e.posts[k].at, sees |-> e.posts[k].sees]],
   out |-> ObsOut(e), raised |-> KindOfRaise(e, want), trail |-> e.stages]

\* ---- mechanism: first difference between what the design's stages give (x) and what was observed (o)
StateDiff(x, o) ==
  IF x.nb # o.nb THEN "state-n_batches"
  ELSE IF x.nsim # o.nsim THEN "state-n_sim"
  ELSE IF x.nev # o.nev THEN "state-n_evidence"
  ELSE IF x.gp # o.gp THEN "state-gp-rows"
  ELSE IF x.last # o.last THEN "state-last_GP_update"
  ELSE IF x.q # o.q THEN "state-acquisition-queue"
  ELSE IF x.objset # o.objset \/ (x.objset /\ (x.on # o.on \/ x.osim # o.osim)) THEN "state-objective"
  ELSE IF x.nx # o.nx THEN "state-next_index"
  ELSE IF x.smp # o.smp THEN "state-is_sampling"
  ELSE IF x.nopt # o.nopt THEN "state-gp-optimisations"
  ELSE IF x.ev # o.ev THEN "acquisitions"
  ELSE IF x.out.kind # o.out.kind THEN "returned-kind"
  ELSE IF x.out.rows # o.out.rows THEN "returned-rows"
  ELSE IF x.out.warm # o.out.warm THEN "returned-warmup"
  ELSE IF x.out.nch # o.out.nch THEN "returned-n_chains"
  ELSE IF x.out.iters # o.out.iters THEN "returned-chain-iterations"
  ELSE IF x.out.nsim # o.out.nsim THEN "returned-n_sim"
  ELSE IF x.out.nbat # o.out.nbat THEN "returned-n_batches"
  ELSE IF x.posts # o.posts THEN "posteriors-held"
  ELSE ""

Match(x, e, o, before) ==
  LET want == D!PyName(x.raised)
      diff == StateDiff(x, o)
  IN IF e.stages # x.trail THEN "public-methods-entered-in-order"
     ELSE IF want # e.raised \/ (D!PyMsg(x.raised) # "" /\ D!PyMsg(x.raised) # e.msg)
          THEN (IF x.raised \in D!Refusals \/ (e.raised = "ValueError" /\ want # "ValueError")
                THEN "refused-exactly-when-the-design-refuses" ELSE "returns-or-raises-as-the-stages-do")
     ELSE IF diff # "" THEN (IF x.raised \in D!Refusals /\ D!Core(x) = D!Core(before) THEN "refused-call-changes-nothing" ELSE diff)
     ELSE IF e.out.kind = "sample" /\ e.out.shape # <<e.nch, e.ns, T.dim>> THEN "returned-chains-shape"
     ELSE "ok"

\* ---- clauses over observed quantities only
Abs(v) == IF v < 0 THEN -v ELSE v
Observed(e, prevxs, c) ==
  IF ~D!IsPrefix(prevxs, e.xs) THEN "E:evidence-append-only"
  ELSE IF Len(e.xs) # e.gp \/ Len(e.simx) # e.sims \/ Len(e.xs) # c.npre + Len(e.simx)
          \/ \E k \in 1..Len(e.simx) : e.xs[c.npre + k] # e.simx[k]
       THEN "E:gp-rows-are-precomputed-then-simulated-in-order"
  ELSE IF e.sims # e.nsim THEN "E:n_sim-counts-simulator-rows"
  ELSE IF e.out.kind \in {"posterior", "sample"} /\ e.thr = "given" /\ e.out.othr # e.thrv THEN "E:given-threshold-is-used"
  ELSE IF e.out.kind \in {"posterior", "sample"} /\ e.thr = "none" /\ ~(e.out.gmin - TOL <= e.out.othr /\ e.out.othr <= e.out.emin + TOL)
       THEN "E:default-threshold-is-minimum-of-gp-mean"
  ELSE IF e.out.kind = "optres" /\ ~e.out.xmin_ok THEN "E:x_min-minimises-gp-mean-inside-bounds"
  ELSE IF e.out.kind = "sample" /\ ~e.out.seeds_ok THEN "E:chain-seeds-are-sub-seeds-of-the-seed"
  ELSE IF \E k \in 1..Len(e.posts) : e.posts[k].thr # e.posts[k].thr0 THEN "E:posterior-threshold-is-frozen"
  ELSE IF \E k \in 1..Len(e.posts) : ~e.posts[k].live \/ (e.posts[k].same # (e.posts[k].sees = e.posts[k].at))
       THEN "E:posterior-evaluates-the-live-gp"
  ELSE "ok"

\* objects of one group at the same number of batches: the design says whether their evidence must agree
GroupClash(e, x) == \E r \in grps : r.grp = e.grp /\ r.o # e.o /\ r.nb = e.nb /\ r.ev = x.ev /\ r.xs # e.xs
GroupDiffer(e) == \E r \in grps : r.grp = e.grp /\ r.o # e.o /\ r.nb = e.nb /\ r.xs # e.xs

WellFormed(e) == /\ e.o \in 1..T.nobj /\ e.thr \in {"none", "given"} /\ e.ini \in {"none", "ok", "bad", "shape"}
                 /\ (e.m = "init" => e.iek \in {"none", "int", "dict"} /\ e.bs >= 1 /\ e.bpa >= 1)
                 /\ (e.m # "init" => e.m \in D!Methods /\ cfg[e.o].bs >= 1)

\* ---- user-level invariants on the observed state
InvNames == <<"inv-evidence-bookkeeping-counts-agree", "inv-every-acquisition-saw-all-earlier-evidence",
              "inv-evidence-is-a-function-of-seed-and-number-of-batches", "inv-extracted-posterior-is-a-snapshot",
              "inv-is_sampling-only-while-sample-runs", "inv-acquisitions-use-an-optimised-gp", "inv-call-returns-or-is-refused",
              "inv-sample-has-n_chains-times-n_samples-minus-warmup-rows", "inv-warmup-argument-is-respected",
              "inv-n_samples-includes-warmup", "inv-reported-n_sim-is-the-simulations-run", "inv-refused-call-changes-nothing",
              "inv-fit-reaches-the-requested-evidence">>
Holds(k, c, b, o, a, e) ==
  CASE k = 1 -> D!InvCounts(c, o)
    [] k = 2 -> D!InvAcqSeesAll(c, o)
    [] k = 3 -> D!InvSplitIndependent(c, o) /\ ~GroupDiffer(e)
    [] k = 4 -> D!InvPosteriorSnapshot(c, o)
    [] k = 5 -> D!InvNotSamplingOutside(c, o)
    [] k = 6 -> D!InvAcqOnOptimisedGP(c, o)
    [] k = 7 -> D!InvOnlyRefusals(c, o)
    [] k = 8 -> D!InvSampleRows(c, o, a)
    [] k = 9 -> D!InvWarmupRespected(c, o, a)
    [] k = 10 -> D!InvNSamplesIncludesWarmup(c, o, a)
    [] k = 11 -> D!InvReportedNSim(c, o, a)
    [] k = 12 -> D!InvRefusedChangesNothing(c, b, o, a)
    [] k = 13 -> D!InvFitReaches(c, b, o, a)
Violated(c, b, o, a, e) == {InvNames[k] : k \in {j \in 1..Len(InvNames) : ~Holds(j, c, b, o, a, e)}}
RECURSIVE Join(_, _)
Join(S, k) == IF k > Len(InvNames) THEN "" ELSE (IF InvNames[k] \in S THEN InvNames[k] \o "|" ELSE "") \o Join(S, k + 1)

Fail(j) == verdict' = j /\ done' = TRUE /\ l' = l + 1 /\ UNCHANGED <<tid, cur, cfg, obs, grps, drift, viol>>

StepInit(e) ==
  LET ie == [kind |-> e.iek, n |-> e.ien] IN
  IF D!InitRefused(ie)
  THEN IF e.raised = "ValueError" /\ e.msg = "Number of initial evide"
       THEN verdict' = "ok" /\ done' = FALSE /\ l' = l + 1 /\ UNCHANGED <<tid, cur, cfg, obs, grps, drift, viol>>
       ELSE Fail("E:init-refused-exactly-when-the-design-refuses")
  ELSE LET c == CfgOf(e)
           x == D!S0(c)
           o == ObsState(e, x, "")
           d == StateDiff(x, o)
           w == Observed(e, <<>>, c)
       IN IF e.raised # "" THEN Fail("E:init-returns-or-raises-as-the-stages-do")
          ELSE IF e.ninit # c.ninit THEN Fail("E:init-n_initial_evidence")
          ELSE IF e.npre # c.npre THEN Fail("E:init-n_precomputed_evidence")
          ELSE IF d # "" THEN Fail("E:init-" \o d)
          ELSE IF w # "ok" THEN Fail(w)
          ELSE /\ verdict' = "ok" /\ done' = FALSE /\ l' = l + 1 /\ UNCHANGED <<tid, drift, viol>>
               /\ cfg' = [cfg EXCEPT ![e.o] = c] /\ cur' = [cur EXCEPT ![e.o] = x]
               /\ obs' = [obs EXCEPT ![e.o] = [s |-> o, xs |-> e.xs]]
               /\ grps' = grps \cup {[grp |-> e.grp, o |-> e.o, nb |-> e.nb, ev |-> x.ev, xs |-> e.xs]}

StepCall(e) ==
  LET c == cfg[e.o]
      a == CallOf(e)
      x0 == D!Run(c, cur[e.o], a)
      x == [x0 EXCEPT !.posts = IF Len(x0.posts) > 2 THEN Tail(x0.posts) ELSE x0.posts]      \* the last two are followed
      before == obs[e.o].s
      o == ObsState(e, before, x.raised)
      j == Match(x, e, o, cur[e.o])
      w == Observed(e, obs[e.o].xs, c)
      v == viol \cup Violated(c, before, o, a, e)
  IN IF j # "ok" THEN Fail("E:" \o e.m \o "-" \o j)
     ELSE IF w # "ok" THEN Fail(w)
     ELSE IF GroupClash(e, x) THEN Fail("E:same-seed-same-batches-same-evidence")
     ELSE /\ verdict' = "ok" /\ done' = FALSE /\ l' = l + 1 /\ UNCHANGED <<tid, cfg>>
          /\ cur' = [cur EXCEPT ![e.o] = x]
          /\ obs' = [obs EXCEPT ![e.o] = [s |-> o, xs |-> e.xs]]
          /\ grps' = grps \cup {[grp |-> e.grp, o |-> e.o, nb |-> e.nb, ev |-> x.ev, xs |-> e.xs]}
          /\ viol' = v /\ drift' = Join(v, 1)

Step ==
  /\ ~done
  /\ IF l > Len(T.events) THEN done' = TRUE /\ UNCHANGED <<tid, l, cur, cfg, obs, grps, verdict, drift, viol>>
     ELSE LET e == T.events[l] IN
          IF ~WellFormed(e) THEN Fail("X:event-not-well-formed")
          ELSE IF e.m = "init" THEN StepInit(e) ELSE StepCall(e)

Spec == Init /\ [][Step]_vars
Report == done => PrintT(<<"V", tid, l, verdict, drift>>)
=============================================================================

------------------------------ MODULE Batches ------------------------------
(***************************************************************************)
(* elfi.client.BatchHandler + ParameterInference.infer / iterate /         *)
(* _allow_submit + the round structure of samplers.SMC, against an         *)
(* ADVERSARIAL client: every is_ready answer is a free choice, and so is   *)
(* the order in which outstanding tasks are executed (tasks are pure, so   *)
(* execution is not a state change here).                                  *)
(*                                                                         *)
(* Code -> action map                                                      *)
(*   iterate(): while _allow_submit(): submit()          Submit            *)
(*   iterate(): leaving the while loop                   GoWait            *)
(*   iterate(): wait_next(); update()                    WaitNext          *)
(*       SMC.update(): inner rejection finished ->                         *)
(*            cancel_pending(); next population; new round generator       *)
(*   infer(): loop exit -> cancel_pending()              Finish            *)
(*                                                                         *)
(* The inner sampler's objective n_batches is a function of the batches    *)
(* consumed so far in the round (batch i's content is fixed by (seed,i)    *)
(* and, in SMC rounds >= 1, by the proposal chunk it received), so it is   *)
(* modelled as an ARBITRARY function G[r] : consumed-in-round -> objective *)
(* chosen in Init.                                                         *)
(***************************************************************************)
EXTENDS Naturals, Sequences, FiniteSets, TLC

CONSTANTS MaxPar,      \* max_parallel_batches
          Rounds,      \* number of SMC rounds (1 = plain rejection sampling)
          ObjFns,      \* set of objective functions  (consumed in round |-> objective n_batches of the round)
          SmcCancel    \* TRUE: update() cancels pending batches when a round ends (SMC); FALSE: Rejection

VARIABLES pc,          \* "submit" (in iterate's while loop) | "wait" | "done"
          next,        \* BatchHandler._next_batch_index
          pending,     \* OrderedDict batch_index -> task, as a sequence of [index, id, round, chunk]
          tasks,       \* ids currently held by the client
          nextId,      \* client's task counter
          nCons,       \* state['n_batches']
          round,       \* state['round']
          roundStart,  \* nCons when the current round started
          rngPos,      \* chunks drawn so far from the current round's proposal generator
          G,           \* G[r] objective function of round r
          consumed,    \* history: sequence of [index, id, round, chunk]
          removed,     \* history: ids handed to remove_task
          maxPend      \* history: largest number of outstanding batches
vars == <<pc, next, pending, tasks, nextId, nCons, round, roundStart, rngPos, G, consumed, removed, maxPend>>

InRound == nCons - roundStart
InnerObj == G[round][InRound]
\* objective['n_batches'] = batches of earlier populations + inner objective
Obj == roundStart + InnerObj
Finished == Obj <= nCons                      \* ParameterInference.finished
HasToSubmit == Obj > nCons + Len(pending)     \* _has_batches_to_submit
Guard == MaxPar > Len(pending) /\ HasToSubmit

Init == /\ G \in [1..Rounds -> ObjFns]
        /\ pc = "submit" /\ next = 0 /\ pending = <<>> /\ tasks = {} /\ nextId = 0
        /\ nCons = 0 /\ round = 1 /\ roundStart = 0 /\ rngPos = 0
        /\ consumed = <<>> /\ removed = {} /\ maxPend = 0

\* batches.submit(prepare_new_batch(next_index)); has_ready() answered FALSE (or nothing pending)
Submit ==
  /\ pc = "submit" /\ ~Finished /\ Guard
  /\ pending' = Append(pending, [index |-> next, id |-> nextId, round |-> round, chunk |-> rngPos])
  /\ tasks' = tasks \cup {nextId}
  /\ nextId' = nextId + 1 /\ next' = next + 1 /\ rngPos' = rngPos + 1
  /\ maxPend' = IF Len(pending') > maxPend THEN Len(pending') ELSE maxPend
  /\ UNCHANGED <<pc, nCons, round, roundStart, G, consumed, removed>>

\* the while loop ends: limit reached, nothing left to submit, or has_ready() answered TRUE
GoWait ==
  /\ pc = "submit" /\ ~Finished /\ pending # <<>>
  /\ pc' = "wait"
  /\ UNCHANGED <<next, pending, tasks, nextId, nCons, round, roundStart, rngPos, G, consumed, removed, maxPend>>

Ids(s) == {s[i].id : i \in 1..Len(s)}

\* wait_next(): popitem(last=False); get_result(); update()
WaitNext ==
  /\ pc = "wait"
  /\ LET h == Head(pending)
         rest == Tail(pending)
         innerFinished == G[round][InRound + 1] <= InRound + 1
         cancel == SmcCancel /\ innerFinished
         newRound == innerFinished /\ round < Rounds
     IN /\ consumed' = Append(consumed, h)
        /\ nCons' = nCons + 1
        /\ tasks' = (tasks \ {h.id}) \ (IF cancel THEN Ids(rest) ELSE {})
        /\ removed' = removed \cup (IF cancel THEN Ids(rest) ELSE {})
        /\ pending' = IF cancel THEN <<>> ELSE rest
        /\ next' = IF cancel /\ rest # <<>> THEN rest[1].index ELSE next
        /\ round' = IF newRound THEN round + 1 ELSE round
        /\ roundStart' = IF newRound THEN nCons + 1 ELSE roundStart
        /\ rngPos' = IF newRound THEN 0 ELSE rngPos
  /\ pc' = "submit"
  /\ UNCHANGED <<nextId, G, maxPend>>

\* infer(): `while not self.finished` exits; batches.cancel_pending() (reverse order, rewinding next)
Finish ==
  /\ pc = "submit" /\ Finished
  /\ removed' = removed \cup Ids(pending)
  /\ tasks' = tasks \ Ids(pending)
  /\ next' = IF pending = <<>> THEN next ELSE pending[1].index
  /\ pending' = <<>> /\ pc' = "done"
  /\ UNCHANGED <<nextId, nCons, round, roundStart, rngPos, G, consumed, maxPend>>

Next == Submit \/ GoWait \/ WaitNext \/ Finish
Spec == Init /\ [][Next]_vars /\ WF_vars(Next)

\* ---- properties (C04) ---------------------------------------------------------
\* (b) consumed strictly in index order, each once
InOrderOnce == \A i \in 1..Len(consumed) : consumed[i].index = i - 1
\* (c) never more than max_parallel_batches outstanding
Bounded == Len(pending) <= MaxPar /\ maxPend <= MaxPar
\* (d) results of cancelled batches are never used
NoCancelledUsed == \A i \in 1..Len(consumed) : consumed[i].id \notin removed
\* (e) nothing left in the client on return
NoLeak == pc = "done" => tasks = {}
PendingAreTasks == Ids(pending) = tasks
\* (a) design level: what is consumed is a function of G only - not of the schedule, not of MaxPar
RECURSIVE FirstFix(_, _)
FirstFix(g, k) == IF g[k] <= k THEN k ELSE FirstFix(g, k + 1)
RECURSIVE Total(_)
Total(r) == IF r = 0 THEN 0 ELSE Total(r - 1) + FirstFix(G[r], 1)
RoundOf(i) == CHOOSE r \in 1..Rounds : Total(r - 1) < i /\ i <= Total(r)
ScheduleIndependent ==
  pc = "done" => /\ nCons = Total(Rounds) /\ next = nCons /\ round = Rounds
                 /\ \A i \in 1..Len(consumed) :
                      /\ consumed[i].round = RoundOf(i)
                      \* the proposals used by the j-th consumed batch of a round are chunk j of that
                      \* round's generator, whatever was submitted speculatively
                      /\ consumed[i].chunk = (i - 1) - Total(RoundOf(i) - 1)
\* at every moment the batches consumed so far are a prefix of that canonical run
PrefixOfCanonical ==
  \A i \in 1..Len(consumed) : i <= Total(Rounds) /\ consumed[i].round = RoundOf(i)
                               /\ consumed[i].chunk = (i - 1) - Total(RoundOf(i) - 1)
\* wait_next is never called with nothing submitted (it would raise)
NeverWaitsOnNothing == pc = "wait" => pending # <<>>
Terminates == <>(pc = "done")
=============================================================================

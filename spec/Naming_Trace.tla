---------------------------- MODULE Naming_Trace ----------------------------
(***************************************************************************)
(* Trace validation for the EXTENSION Naming (NamingOps.tla, Naming.tla,   *)
(* NamingCtx.tla).  A trace is a history of public calls on REAL elfi      *)
(* objects; one event per call.  TLC replays the history on the design     *)
(* module's world record with the design's composed operators (Run with    *)
(* F = {}: the code as transcribed; CRun) and compares, after every call,  *)
(* everything the harness can see.  All clauses are E: clauses (extension: *)
(* reported as drift, never as a violation).                               *)
(*                                                                         *)
(* kind = "naming": node constructors executed from generated source files *)
(*   (so that _inspect_name reads a real source line), model[name],        *)
(*   ref.parents, model.remove_node, ref.become, the parameter_names       *)
(*   setter, set_default_model / new_model / ElfiModel() /                 *)
(*   get_default_model, ref.size.  Event: a (the arguments, NamingOps!A0), *)
(*   draws (what the scripted uuid4().hex[:4] returned during the call, in *)
(*   order), raised (exception type, "" = returned), ret (handle of the    *)
(*   model the call returned, 0 = none), obs = the projection afterwards:  *)
(*   models [mname, nodes [name, cls, param, priv, par], obs (keys of      *)
(*   model.observed), pnames (model.parameter_names)], default, refs [h,   *)
(*   name, cls (type of the reference object), valid (ref.state does not   *)
(*   raise), stcls (state['_class'] if valid)].  T.codes[name] = the code  *)
(*   points of every name in the trace (TLC compares strings only for      *)
(*   equality: sortedness and the leading underscore are read off these).  *)
(* kind = "ctx": ComputationContext(...), OutputPool(...), BatchHandler    *)
(*   submit / wait_next / cancel_pending / reset / compute, and            *)
(*   model.generate on a model whose operation uses_meta.  Event: b        *)
(*   (NamingOps!B0), raised, ret ([batch index, submission_index seen,     *)
(*   master_seed seen]), obs = [ctxs [bs, seed, pool, nsub], pools [bs,    *)
(*   seed], hds [ctx, next, pend (pending batch indices)]].                *)
(*                                                                         *)
(* verdict: first MECHANISM clause that fails ("the code does what the     *)
(*   design's stages do"); ends the trace:                                 *)
(*   E:<op>-random-name-draws  E:<op>-raises-as-the-design                 *)
(*   E:<op>-number-of-models  -model-names  -default-model  -returned-model*)
(*   E:<op>-node-names-in-order  -node-classes  -parameter-flags           *)
(*   -private-flags  -parents  -observed-keys                              *)
(*   E:<op>-references  -reference-validity  -parameter-names-sorted       *)
(*   E:<op>-context-attributes -pool-context -handler-state -returned-meta *)
(* drift: the USER-LEVEL theorems of the design module evaluated on the    *)
(*   state the real code was just shown to be in; every violated one is    *)
(*   collected ("inv-...|inv-...|").  The design module shows with TLC     *)
(*   which of them the code as it is cannot keep (its REPAIRS): on real    *)
(*   histories they are findings about elfi, not about the binding.        *)
(***************************************************************************)
EXTENDS Naturals, Integers, Sequences, FiniteSets, TLC, Json, IOUtils

Traces == JsonDeserialize(IOEnv.TRACE_FILE)

D == INSTANCE NamingOps

VARIABLES tid, l, cur, cc, verdict, drift, viol, done
vars == <<tid, l, cur, cc, verdict, drift, viol, done>>
T == Traces[tid]

Init == /\ tid \in 1..Len(Traces) /\ l = 1 /\ cur = D!W0 /\ cc = D!C0 /\ verdict = "ok" /\ drift = "" /\ viol = {} /\ done = FALSE

SeqSet(s) == {s[i] : i \in 1..Len(s)}
Code(n) == T.codes[n]
Und(n) == Len(Code(n)) > 0 /\ Code(n)[1] = 95
RECURSIVE LexLess(_, _, _)
LexLess(s, t, i) == IF i > Len(s) THEN i <= Len(t)
                    ELSE IF i > Len(t) THEN FALSE
                    ELSE IF s[i] < t[i] THEN TRUE
                    ELSE IF s[i] > t[i] THEN FALSE
                    ELSE LexLess(s, t, i + 1)
Sorted(names) == \A i \in 1..(Len(names) - 1) : LexLess(Code(names[i]), Code(names[i + 1]), 1)

\* ------------------------------------------------------------------ naming histories
ObsNames(e) == UNION {{e.obs.models[h].nodes[i].name : i \in 1..Len(e.obs.models[h].nodes)} : h \in 1..Len(e.obs.models)}
WellFormedN(e) ==
  /\ e.a.op \in {"create", "lookup", "parents", "remove", "become", "setparams", "setdefault", "newmodel", "getdefault", "size"}
  /\ e.a.cls \in D!ClassNames /\ e.a.form \in D!Forms /\ e.a.nk \in {"plain", "star", "none", "empty"}
  /\ ObsNames(e) \subseteq DOMAIN T.codes
  /\ (e.a.nm # "" => e.a.nm \in DOMAIN T.codes /\ (e.a.und <=> Und(e.a.nm)))
  /\ \A h \in 1..Len(e.obs.models) : \A i \in 1..Len(e.obs.models[h].nodes) :
        e.obs.models[h].nodes[i].priv <=> Und(e.obs.models[h].nodes[i].name)
  /\ e.a.r1 \in 0..Len(cur.refs) /\ e.a.r2 \in 0..Len(cur.refs) /\ e.a.h \in 0..Len(cur.models) /\ e.a.marg \in (-1)..Len(cur.models)
  /\ \A i \in 1..Len(e.a.parents) : e.a.parents[i].kind \in {"lit", "ref"} /\ e.a.parents[i].id \in 0..Len(cur.refs)

Field(nodes, f) == [i \in 1..Len(nodes) |-> nodes[i][f]]
\* first difference between the design's world x after the call and the observation
MatchN(x, e) ==
  LET o == e.obs
      nm == Len(x.models)
      differs(f) == \E h \in 1..nm : Field(x.models[h].nodes, f) # Field(o.models[h].nodes, f)
  IN IF x.want \/ x.rest # <<>> THEN "random-name-draws"
     ELSE IF x.raised # e.raised THEN "raises-as-the-design"
     ELSE IF nm # Len(o.models) THEN "number-of-models"
     ELSE IF \E h \in 1..nm : x.models[h].mname # o.models[h].mname THEN "model-names"
     ELSE IF x.default # o.default THEN "default-model"
     ELSE IF e.a.op = "getdefault" /\ e.raised = "" /\ e.ret # x.default THEN "returned-model"
     ELSE IF e.a.op = "newmodel" /\ e.raised = "" /\ e.ret # nm THEN "returned-model"
     ELSE IF differs("name") THEN "node-names-in-order"
     ELSE IF differs("cls") THEN "node-classes"
     ELSE IF differs("param") THEN "parameter-flags"
     ELSE IF differs("priv") THEN "private-flags"
     ELSE IF differs("par") THEN "parents"
     ELSE IF \E h \in 1..nm : x.models[h].obs # SeqSet(o.models[h].obs) THEN "observed-keys"
     ELSE IF Len(x.refs) # Len(o.refs) \/ \E i \in 1..Len(x.refs) : D!ProjRef(x.refs[i]) # [h |-> o.refs[i].h, name |-> o.refs[i].name, cls |-> o.refs[i].cls]
          THEN "references"
     ELSE IF \E i \in 1..Len(x.refs) : \/ o.refs[i].valid # D!ValidRef(x, x.refs[i])
                                       \/ (o.refs[i].valid /\ o.refs[i].stcls # D!NodeAt(x.models[x.refs[i].h], x.refs[i].name).cls)
          THEN "reference-validity"
     ELSE IF \E h \in 1..nm : \/ SeqSet(o.models[h].pnames) # {n \in D!NamesOf(x.models[h]) : D!NodeAt(x.models[h], n).param}
                              \/ ~Sorted(o.models[h].pnames)
          THEN "parameter-names-sorted"
     ELSE "ok"

\* user-level theorems of Naming.tla on the pair (world before, world after) the code was shown to follow
InvNamesN == <<"inv-names-unique-per-model", "inv-parents-and-observed-keys-are-nodes", "inv-synced-reference-roundtrips-through-model-getitem",
               "inv-stale-reference-never-revives", "inv-default-model-is-the-last-one-set", "inv-model-names-unique",
               "inv-only-documented-exception-types", "inv-call-that-raises-changes-no-model", "inv-other-models-unchanged",
               "inv-new-node-lands-in-exactly-one-model-under-its-name", "inv-auto-named-constructor-never-refused",
               "inv-remove-node-takes-only-constants-along", "inv-become-refreshes-both-references", "inv-size-of-a-live-random-variable-returns">>
HoldsN(k, w, x, a) ==
  CASE k = 1 -> D!InvNamesUnique(x)
    [] k = 2 -> D!InvClosed(x)
    [] k = 3 -> D!InvRoundTrip(x)
    [] k = 4 -> D!InvStaleNeverRevives(x)
    [] k = 5 -> D!InvDefaultIsLast(x)
    [] k = 6 -> D!InvModelNamesUnique(x)
    [] k = 7 -> D!InvDocumentedRaise(x)
    [] k = 8 -> D!RefusedChangesNothing(w, x)
    [] k = 9 -> D!OthersUnchanged(w, x, a)
    [] k = 10 -> D!CreateLands(w, x, a)
    [] k = 11 -> (a.op = "create" /\ x.cur.auto => x.raised = "")
    [] k = 12 -> D!RemoveOnlyConstants(w, x, a)
    [] k = 13 -> D!BecomeRefsAgree(x, a)
    [] k = 14 -> (a.op = "size" /\ D!ValidRef(w, w.refs[a.r1]) => x.raised = "")
ViolatedN(w, x, a) == {InvNamesN[k] : k \in {j \in 1..Len(InvNamesN) : ~HoldsN(j, w, x, a)}}

\* ------------------------------------------------------------------ context histories
WellFormedC(e) ==
  /\ e.b.op \in {"newctx", "newpool", "handler", "submit", "wait", "cancel", "reset", "compute", "generate"}
  /\ e.b.pool \in 0..Len(cc.pools) /\ e.b.ctx \in 0..Len(cc.ctxs) /\ e.b.hd \in 0..Len(cc.hds)
  /\ (e.b.op \in {"submit", "wait", "cancel", "reset", "compute"} => e.b.hd >= 1)
  /\ (e.b.op = "handler" => e.b.ctx >= 1)
MatchC(x, e) ==
  LET o == e.obs IN
  IF x.raised # e.raised THEN "raises-as-the-design"
  ELSE IF x.ctxs # o.ctxs THEN "context-attributes"
  ELSE IF x.pools # o.pools THEN "pool-context"
  ELSE IF Len(x.hds) # Len(o.hds) \/ \E h \in 1..Len(x.hds) :
             \/ x.hds[h].ctx # o.hds[h].ctx \/ x.hds[h].next # o.hds[h].next
             \/ [i \in 1..Len(x.hds[h].pend) |-> x.hds[h].pend[i].bi] # o.hds[h].pend
       THEN "handler-state"
  ELSE IF x.ret # e.ret \/ (Len(e.ret) = 3 /\ e.mbi # e.ret[1]) THEN "returned-meta"
  ELSE "ok"
InvNamesC == <<"inv-given-batch-size-is-kept", "inv-context-agrees-with-its-pool", "inv-submission-index-below-num-submissions">>
HoldsC(k, w, x, b) ==
  CASE k = 1 -> (b.op = "newctx" /\ x.raised = "" /\ b.bs # -1 => x.ctxs[Len(x.ctxs)].bs = b.bs)
    [] k = 2 -> \A c \in 1..Len(x.ctxs) : x.ctxs[c].pool # 0 =>
                   LET p == x.pools[x.ctxs[c].pool] IN D!PoolHasContext(p) /\ p.bs = x.ctxs[c].bs /\ p.seed = x.ctxs[c].seed
    [] k = 3 -> \A h \in 1..Len(x.hds) : \A i \in 1..Len(x.hds[h].pend) : x.hds[h].pend[i].si < x.ctxs[x.hds[h].ctx].nsub
ViolatedC(w, x, b) == {InvNamesC[k] : k \in {j \in 1..Len(InvNamesC) : ~HoldsC(j, w, x, b)}}

AllInvNames == InvNamesN \o InvNamesC
RECURSIVE Join(_, _)
Join(S, k) == IF k > Len(AllInvNames) THEN "" ELSE (IF AllInvNames[k] \in S THEN AllInvNames[k] \o "|" ELSE "") \o Join(S, k + 1)

Step ==
  /\ ~done
  /\ IF l > Len(T.events) THEN done' = TRUE /\ UNCHANGED <<tid, l, cur, cc, verdict, drift, viol>>
     ELSE LET e == T.events[l] IN
          IF T.kind = "naming"
          THEN IF ~WellFormedN(e)
               THEN verdict' = "X:event-not-well-formed" /\ done' = TRUE /\ l' = l + 1 /\ UNCHANGED <<tid, cur, cc, drift, viol>>
               ELSE LET x == D!Run({}, cur, e.a, e.draws)
                        m == MatchN(x, e)
                        v == IF m = "ok" THEN viol \cup ViolatedN(cur, x, e.a) ELSE viol
                    IN /\ verdict' = (IF m = "ok" THEN "ok" ELSE "E:" \o e.a.op \o "-" \o m)
                       /\ done' = (m # "ok") /\ l' = l + 1 /\ UNCHANGED <<tid, cc>>
                       /\ cur' = (IF m = "ok" THEN x ELSE cur) /\ viol' = v /\ drift' = Join(v, 1)
          ELSE IF ~WellFormedC(e)
               THEN verdict' = "X:event-not-well-formed" /\ done' = TRUE /\ l' = l + 1 /\ UNCHANGED <<tid, cur, cc, drift, viol>>
               ELSE LET x == D!CRun(cc, e.b)
                        m == MatchC(x, e)
                        v == IF m = "ok" THEN viol \cup ViolatedC(cc, x, e.b) ELSE viol
                    IN /\ verdict' = (IF m = "ok" THEN "ok" ELSE "E:" \o e.b.op \o "-" \o m)
                       /\ done' = (m # "ok") /\ l' = l + 1 /\ UNCHANGED <<tid, cur>>
                       /\ cc' = (IF m = "ok" THEN x ELSE cc) /\ viol' = v /\ drift' = Join(v, 1)

Spec == Init /\ [][Step]_vars
Report == done => PrintT(<<"V", tid, l, verdict, drift>>)
=============================================================================

------------------------------ MODULE External ------------------------------
(***************************************************************************)
(* elfi.tools.external_operation(command) used per row of a batch by       *)
(* elfi.tools.vectorize (run_external = unpack_meta ; prepare_seed ;       *)
(* command.format ; subprocess ; process_result).                          *)
(*                                                                         *)
(* One action = one vectorised batch of `rows` rows.  Chosen freely in     *)
(* Init: the command template (sequence of literal / positional / keyword  *)
(* fields), which keywords are passed explicitly, whether elfi passes the  *)
(* run metadata `meta` (node.uses_meta) and what it contains, whether a    *)
(* batch generator `random_state` is passed, and the generator's draw      *)
(* stream RandomState(state0).randint(High) as an ARBITRARY sequence over  *)
(* 0..High-1 (collisions forced, as in SubSeed.tla).  The external command *)
(* is `echo`: its output is the sequence of substituted field values.      *)
(*                                                                         *)
(* Row r (0-based) gets the positional inputs <<100 + r, 200>> (one        *)
(* varying input, one constant); run_vectorized writes the row index into  *)
(* meta['index_in_batch'] - only when meta is passed at all.               *)
(***************************************************************************)
EXTENDS Naturals, Integers, Sequences, FiniteSets, TLC, SubSeedOps, ExternalOps

CONSTANTS High,        \* exclusive upper limit of seeds (2^31 in the code)
          StreamLen,   \* modelled prefix of the generator's draw stream
          MaxRows,     \* rows per batch 1..MaxRows  (<= High)
          MaxFields,   \* template length 1..MaxFields
          Variant      \* "code" or a deliberately broken variant

VARIABLES stream, cfg, outs, pc
vars == <<stream, cfg, outs, pc>>

Lit(x)  == [k |-> "lit", v |-> x, i |-> 0, name |-> ""]
Pos(p)  == [k |-> "pos", v |-> -1, i |-> p, name |-> ""]
Kw(n)   == [k |-> "kw",  v |-> -1, i |-> 0, name |-> n]
Alphabet == {Lit(1), Pos(0), Pos(1), Pos(2), Kw("a"), Kw("b"), Kw("c"), Kw("seed"), Kw("index_in_batch")}
Templates == UNION {[1..n -> Alphabet] : n \in 1..MaxFields}

ExplicitVal == [a |-> 10, seed |-> 11, index_in_batch |-> 1]
MetaVal == [a |-> 20, b |-> 21]
Restrict(f, S) == [x \in S |-> f[x]]

Init ==
  /\ stream \in [1..StreamLen -> 0..(High - 1)]
  /\ \E t \in Templates : \E n \in 1..MaxRows : \E ek \in SUBSET {"a", "seed", "index_in_batch"} :
     \E hm \in BOOLEAN : \E mk \in SUBSET {"a", "b"} : \E rs \in BOOLEAN :
       /\ (~hm => mk = {})
       /\ cfg = [tmpl |-> t, rows |-> n, kw |-> Restrict(ExplicitVal, ek), hasMeta |-> hm,
                 meta |-> Restrict(MetaVal, mk), hasRS |-> rs]
  /\ outs = <<>>
  /\ pc = "call"

Args(r) == <<100 + r, 200>>
\* what run_vectorized hands to the operation for row r
MetaAtRow(r) == IF cfg.hasMeta /\ Variant # "no-index" THEN ("index_in_batch" :> r) @@ cfg.meta ELSE cfg.meta
\* run_external for row r
RowResult(r) ==
  LET K0 == UnpackMeta(cfg.kw, cfg.hasMeta, MetaAtRow(r), Variant)
      idx == IF HasIndex(K0) THEN K0["index_in_batch"] ELSE 0          \* `.get('index_in_batch') or 0`
      sub == IF cfg.hasRS THEN CallResult(stream, NoCache, idx, FALSE) ELSE <<0, {}, -1>>
      K1 == PrepareSeed(K0, cfg.hasRS, sub[3])
      fs == Fields(cfg.tmpl, Args(r), K1)
  IN [inPrefix |-> sub[1] # Fail, idxOk |-> idx < High, ok |-> AllOk(fs),
      toks |-> [q \in 1..Len(fs) |-> fs[q].v], seed |-> sub[3], idx |-> idx]
Batch == [r1 \in 1..cfg.rows |-> RowResult(r1 - 1)]

InModel == \A r1 \in 1..cfg.rows : Batch[r1].inPrefix /\ Batch[r1].idxOk       \* stay inside the modelled stream prefix
RunReturns == /\ pc = "call" /\ InModel /\ (\A r1 \in 1..cfg.rows : Batch[r1].ok)
              /\ outs' = Batch /\ pc' = "done" /\ UNCHANGED <<stream, cfg>>
RunRaises  == /\ pc = "call" /\ InModel /\ (\E r1 \in 1..cfg.rows : ~Batch[r1].ok)
              /\ outs' = Batch /\ pc' = "raised" /\ UNCHANGED <<stream, cfg>>
Next == RunReturns \/ RunRaises
Spec == Init /\ [][Next]_vars

\* ---- the property (C18 c, d) ---------------------------------------------------
\* the run metadata as the property sees it: elfi's meta plus the row index
MetaSeen(r) == IF cfg.hasMeta THEN ("index_in_batch" :> r) @@ cfg.meta ELSE cfg.meta
FieldAvailable(f, r) ==
  CASE f.k = "lit" -> TRUE
    [] f.k = "pos" -> f.i < Len(Args(r))
    [] OTHER -> Available(f.name, cfg.kw, cfg.hasMeta, MetaSeen(r), cfg.hasRS)
\* (c) positional and keyword inputs substituted; explicit keywords win over metadata
Substitution == pc = "done" => \A r1 \in 1..Len(outs) : \A q \in 1..Len(cfg.tmpl) :
  LET f == cfg.tmpl[q] IN
  outs[r1].toks[q] = CASE f.k = "lit" -> f.v
                       [] f.k = "pos" -> Args(r1 - 1)[f.i + 1]
                       [] OTHER -> Wanted(f.name, cfg.kw, cfg.hasMeta, MetaSeen(r1 - 1), cfg.hasRS, outs[r1].seed)
RaisesIffUnavailable ==
  /\ pc = "done" => \A r1 \in 1..cfg.rows : \A q \in 1..Len(cfg.tmpl) : FieldAvailable(cfg.tmpl[q], r1 - 1)
  /\ pc = "raised" => \E r1 \in 1..cfg.rows : \E q \in 1..Len(cfg.tmpl) : ~FieldAvailable(cfg.tmpl[q], r1 - 1)
\* (d) the seed is a function of the generator (its stream) and the row only ...
RowOf(r1) == IF "index_in_batch" \in DOMAIN cfg.kw THEN cfg.kw["index_in_batch"]      \* the caller fixed the row
             ELSE IF cfg.hasMeta THEN r1 - 1 ELSE 0
SeedDeterministic == pc # "call" /\ cfg.hasRS => \A r1 \in 1..Len(outs) : outs[r1].seed = Ref(stream, RowOf(r1))
SeedInRange == pc # "call" /\ cfg.hasRS => \A r1 \in 1..Len(outs) : outs[r1].seed \in 0..(High - 1)
\* ... and differs between the rows of a batch - when the row index reaches the operation
SeedsDistinctPerRow ==
  pc # "call" /\ cfg.hasRS /\ cfg.hasMeta /\ "index_in_batch" \notin DOMAIN cfg.kw =>
    \A a, b \in 1..Len(outs) : a # b => outs[a].seed # outs[b].seed
\* NOT a theorem (negative control; finding F26): without meta the rows share one seed
SeedsDistinctPerRowWithoutMeta ==
  pc # "call" /\ cfg.hasRS /\ "index_in_batch" \notin DOMAIN cfg.kw =>
    \A a, b \in 1..Len(outs) : a # b => outs[a].seed # outs[b].seed
=============================================================================

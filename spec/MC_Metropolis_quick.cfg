SPECIFICATION Spec
CONSTANTS
  MaxN = 3
  MaxW = 2
  GuardInf = TRUE
  GuardNaN = TRUE
  SliceFrom = 1
  StartClass = "fin"
INVARIANT OutputsFinite
INVARIANT CurrentFinite
INVARIANT LengthExact
INVARIANT ChainIsRandomWalk
INVARIANT AcceptIff
INVARIANT OutputIsChainTail
INVARIANT RuleMatchesStatement
CHECK_DEADLOCK FALSE

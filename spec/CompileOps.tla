----------------------------- MODULE CompileOps -----------------------------
(***************************************************************************)
(* elfi compile -> load -> execute, and the dataflow MEANING of a model.   *)
(* Pure operators over a graph record                                      *)
(*   g.nodes   set of node names                                           *)
(*   g.kind    name -> "const" | "op" | "prior" | "sim" | "sum" | "disc"   *)
(*   g.pos     name -> sequence of positional parents (declared order)     *)
(*   g.named   name -> set of <<param name, parent>> (named parents)       *)
(*   g.obs     names with GIVEN observed data                              *)
(*   g.meta    names that declare uses_meta                                *)
(* Assumption (finding F20 otherwise): a child lists each parent once.     *)
(*                                                                         *)
(* Operational side (one operator per compiler pass / loader, as in        *)
(* elfi/compiler.py, elfi/loader.py, elfi/executor.py):                    *)
(*   OutputCompile, ObservedCompile, Rejects, Instr, Reduce, Load, Execute *)
(* Denotational side: Val / OVal / MeaningRejects.                         *)
(* Values are TERMS (all terms are sequences, so that TLC can compare any  *)
(* two of them):  <<"c",x>> constant, <<"wv",x>> supplied by with_values,  *)
(* <<"obs",x>> given observation, <<"BS">> <<"RS">> <<"META">> the         *)
(* instruction values, <<"-">> absent, and                                 *)
(*   <<"app", op, <<positional terms>>, <<named terms in Keys order>>>>    *)
(***************************************************************************)
EXTENDS Naturals, Sequences, FiniteSets

Stoch(k) == k \in {"prior", "sim"}
Observable(k) == k \in {"sim", "sum"}
UsesObs(k) == k = "disc"
UsesBS(k) == k \in {"prior", "sim"}

\* keyword parameters, in the fixed order used to serialise named arguments
Keys == <<"batch_size", "meta", "observed", "random_state", "ka", "kb">>
Absent == <<"-">>

U(x) == <<"n", x>>            \* a node of the user's graph
Tw(x) == <<"o", x>>           \* its observed twin  _x_observed
IBS == <<"i", "batch_size">>  \* instruction nodes  _batch_size, _random_state, _meta
IRS == <<"i", "random_state">>
IMETA == <<"i", "meta">>

\* ---------- graph helpers on nets [N, E, st] with E a set of <<parent, child, param>> ----------
Preds(E, c) == {e[1] : e \in {x \in E : x[2] = c}}
RECURSIVE Anc(_, _, _)
Anc(E, front, acc) == LET new == UNION {Preds(E, c) : c \in front} \ acc IN
                      IF new = {} THEN acc ELSE Anc(E, new, acc \cup new)
Ancestors(E, c) == Anc(E, {c}, {})
AncOrSelf(E, S) == S \cup UNION {Ancestors(E, c) : c \in S}

\* ---------- compiler passes ----------
SrcEdges(g) ==
  UNION {{<<U(g.pos[c][i]), U(c), <<"p", i>> >> : i \in 1..Len(g.pos[c])} : c \in g.nodes}
  \cup UNION {{<<U(e[2]), U(c), <<"k", e[1]>> >> : e \in g.named[c]} : c \in g.nodes}

\* OutputCompiler: structural copy; constants carry their output, everything else its operation
OutputCompile(g) ==
  [N |-> {U(x) : x \in g.nodes}, E |-> SrcEdges(g),
   st |-> [id \in {U(x) : x \in g.nodes} |->
            IF g.kind[id[2]] = "const" THEN [t |-> "out", v |-> <<"c", id[2]>>]
            ELSE [t |-> "op", v |-> id[2]]]]

\* ObservedCompiler: twins for observable and observed-using nodes; a twin of a non-stochastic
\* node copies the node's in-edges, re-pointed to the twins of observable parents
ObservedCompile(g, net) ==
  LET twins == {x \in g.nodes : Observable(g.kind[x]) \/ UsesObs(g.kind[x])}
      N2 == net.N \cup {Tw(x) : x \in twins}
      link(p) == IF Observable(g.kind[p]) THEN Tw(p) ELSE U(p)
      copied == UNION {{<<link(e[1][2]), Tw(x), e[3]>> : e \in {f \in net.E : f[2] = U(x)}} :
                       x \in {y \in twins : ~Stoch(g.kind[y])}}
      useE == {<<Tw(x), U(x), <<"k", "observed">> >> : x \in {y \in twins : UsesObs(g.kind[y])}}
  IN [N |-> N2, E |-> net.E \cup copied \cup useE,
      st |-> [id \in N2 |-> IF id \in net.N THEN net.st[id]
                            ELSE IF UsesObs(g.kind[id[2]]) THEN [t |-> "op", v |-> "tuple"]
                            ELSE net.st[U(id[2])]]]

\* the guard of ObservedCompiler: walk the ancestors of every observed twin the requested outputs
\* need; given observed data ends the walk; reaching a stochastic node - or the twin of a stochastic
\* node without given data - rejects the graph
RECURSIVE Walk(_, _, _, _)
Walk(g, E, stack, visited) ==
  IF stack = {} THEN FALSE
  ELSE LET n == CHOOSE s \in stack : TRUE
           rest == stack \ {n}
       IN IF n \in visited \/ (n[1] = "o" /\ n[2] \in g.obs) THEN Walk(g, E, rest, visited)
          ELSE IF n[1] \in {"n", "o"} /\ Stoch(g.kind[n[2]]) THEN TRUE
          ELSE Walk(g, E, rest \cup Preds(E, n), visited \cup {n})
Rejects(g, net, outs) ==
  LET needed == AncOrSelf(net.E, outs) IN
  \E t \in needed : t[1] = "o" /\ Walk(g, net.E, {t}, {})

\* AdditionalNodesCompiler + RandomStateCompiler
Instr(g, net) ==
  LET bsU == {x \in g.nodes : UsesBS(g.kind[x])}
      rsU == {x \in g.nodes : Stoch(g.kind[x])}
      mU == g.meta
      N2 == net.N \cup (IF bsU # {} THEN {IBS} ELSE {}) \cup (IF rsU # {} THEN {IRS} ELSE {})
                  \cup (IF mU # {} THEN {IMETA} ELSE {})
  IN [N |-> N2,
      E |-> net.E \cup {<<IBS, U(x), <<"k", "batch_size">> >> : x \in bsU}
                  \cup {<<IRS, U(x), <<"k", "random_state">> >> : x \in rsU}
                  \cup {<<IMETA, U(x), <<"k", "meta">> >> : x \in mU},
      st |-> [id \in N2 |-> IF id \in net.N THEN net.st[id] ELSE [t |-> "none", v |-> 0]]]

\* ReduceCompiler: keep the requested outputs and their ancestors
Reduce(net, outs) ==
  LET keep == AncOrSelf(net.E, outs) IN
  [N |-> keep, E |-> {e \in net.E : e[1] \in keep /\ e[2] \in keep}, st |-> [id \in keep |-> net.st[id]]]

Compile(g, outs) == Reduce(Instr(g, ObservedCompile(g, OutputCompile(g))), outs)

\* ---------- loaders: ObservedLoader, AdditionalNodesLoader, RandomStateLoader, PoolLoader ----------
Load(g, net, wv) ==
  [net EXCEPT !.st = [id \in net.N |->
     IF id[1] = "o" /\ id[2] \in g.obs THEN [t |-> "out", v |-> <<"obs", id[2]>>]
     ELSE IF id = IBS THEN [t |-> "out", v |-> <<"BS">>]
     ELSE IF id = IRS THEN [t |-> "out", v |-> <<"RS">>]
     ELSE IF id = IMETA THEN [t |-> "out", v |-> <<"META">>]
     ELSE IF id[1] = "n" /\ id[2] \in wv THEN [t |-> "out", v |-> <<"wv", id[2]>>]
     ELSE net.st[id]]]

\* ---------- executor ----------
KeyIndex(k) == CHOOSE i \in 1..Len(Keys) : Keys[i] = k
\* Executor._run: positional arguments sorted by their integer param, keyword arguments by name
ArgsOf(net, val, c) ==
  LET ins == {e \in net.E : e[2] = c}
      pos == {e \in ins : e[3][1] = "p"}
      nam == ins \ pos
  IN <<[i \in 1..Cardinality(pos) |->
          val[(CHOOSE e \in pos : Cardinality({f \in pos : f[3][2] <= e[3][2]}) = i)[1]]],
       [i \in 1..Len(Keys) |->
          IF \E e \in nam : e[3][2] = Keys[i] THEN val[(CHOOSE e \in nam : e[3][2] = Keys[i])[1]] ELSE Absent]>>

\* get_execution_order: the needed outputs that still have an operation, plus their ancestors in the
\* dependency graph from which every node whose output is present has been removed
ToExec(net, outs) ==
  LET needed == {o \in outs : net.st[o].t = "op"}
      hasOut == {id \in net.N : net.st[id].t = "out"}
      depE == {e \in net.E : e[1] \notin hasOut /\ e[2] \notin hasOut}
  IN AncOrSelf(depE, needed)

\* the value every executed / loaded node ends up with (any topological order gives the same)
RECURSIVE NodeVal(_, _)
NodeVal(net, id) ==
  IF net.st[id].t = "out" THEN net.st[id].v
  ELSE LET ins == {e \in net.E : e[2] = id}
           pos == {e \in ins : e[3][1] = "p"}
           nam == ins \ pos
       IN <<"app", net.st[id].v,
            [i \in 1..Cardinality(pos) |->
               NodeVal(net, (CHOOSE e \in pos : Cardinality({f \in pos : f[3][2] <= e[3][2]}) = i)[1])],
            [i \in 1..Len(Keys) |->
               IF \E e \in nam : e[3][2] = Keys[i]
               THEN NodeVal(net, (CHOOSE e \in nam : e[3][2] = Keys[i])[1]) ELSE Absent]>>

Execute(net, outs) == [res |-> [o \in outs |-> NodeVal(net, o)], ran |-> ToExec(net, outs)]

\* ---------- the meaning ----------
RECURSIVE Val(_, _, _), OVal(_, _, _)
ObsArg(g, wv, p) == IF Observable(g.kind[p]) THEN OVal(g, wv, p) ELSE Val(g, wv, p)
NamedOf(g, x, f(_)) ==
  [i \in 1..Len(Keys) |->
     IF \E e \in g.named[x] : e[1] = Keys[i] THEN f((CHOOSE e \in g.named[x] : e[1] = Keys[i])[2]) ELSE Absent]
Val(g, wv, x) ==
  IF x \in wv THEN <<"wv", x>>                     \* a supplied value wins, also over a constant's own value
  ELSE IF g.kind[x] = "const" THEN <<"c", x>>
  ELSE LET named == NamedOf(g, x, LAMBDA p : Val(g, wv, p))
           extras == [i \in 1..Len(Keys) |->
              IF Keys[i] = "batch_size" /\ UsesBS(g.kind[x]) THEN <<"BS">>
              ELSE IF Keys[i] = "random_state" /\ Stoch(g.kind[x]) THEN <<"RS">>
              ELSE IF Keys[i] = "meta" /\ x \in g.meta THEN <<"META">>
              ELSE IF Keys[i] = "observed" /\ UsesObs(g.kind[x])
                   THEN <<"app", "tuple", [j \in 1..Len(g.pos[x]) |-> ObsArg(g, wv, g.pos[x][j])],
                          NamedOf(g, x, LAMBDA p : ObsArg(g, wv, p))>>
              ELSE named[i]]
       IN <<"app", x, [i \in 1..Len(g.pos[x]) |-> Val(g, wv, g.pos[x][i])], extras>>
\* the observed twin: the given observation, else the operation applied to the parents' observed twins
OVal(g, wv, x) ==
  IF x \in g.obs THEN <<"obs", x>>
  ELSE <<"app", x, [i \in 1..Len(g.pos[x]) |-> ObsArg(g, wv, g.pos[x][i])],
         NamedOf(g, x, LAMBDA p : ObsArg(g, wv, p))>>
MeaningOf(g, wv, id) ==
  IF id[1] = "n" THEN Val(g, wv, id[2])
  ELSE IF UsesObs(g.kind[id[2]])
       THEN <<"app", "tuple", [j \in 1..Len(g.pos[id[2]]) |-> ObsArg(g, wv, g.pos[id[2]][j])],
              NamedOf(g, id[2], LAMBDA p : ObsArg(g, wv, p))>>
       ELSE OVal(g, wv, id[2])

\* does (observed) data depend on a stochastic node?   DepStoch: the simulated value of x;
\* ODepStoch: the observed twin of an observable x
AllPar(g, x) == {g.pos[x][i] : i \in 1..Len(g.pos[x])} \cup {e[2] : e \in g.named[x]}
RECURSIVE DepStoch(_, _), ODepStoch(_, _)
DepStoch(g, x) == Stoch(g.kind[x]) \/ \E p \in AllPar(g, x) : DepStoch(g, p)
ODep(g, p) == IF Observable(g.kind[p]) THEN ODepStoch(g, p) ELSE DepStoch(g, p)
ODepStoch(g, x) == IF x \in g.obs THEN FALSE ELSE IF Stoch(g.kind[x]) THEN TRUE ELSE \E p \in AllPar(g, x) : ODep(g, p)
ObsDataDependsOnStoch(g, x) == \E p \in AllPar(g, x) : ODep(g, p)      \* for an observed-using node x
\* the graph is rejectable: some observed data would depend on a stochastic node
MeaningRejectsLoose(g) ==
  \/ \E x \in g.nodes : UsesObs(g.kind[x]) /\ ObsDataDependsOnStoch(g, x)
  \/ \E x \in g.nodes : Observable(g.kind[x]) /\ ODepStoch(g, x)
\* rejection is required: evaluating the requested outputs would evaluate such observed data
RECURSIVE NeedsNodes(_, _, _)
\* source nodes whose value the requested node needs, by the meaning (cut at constants / with_values)
NeedsNodes(g, wv, x) ==
  IF g.kind[x] = "const" \/ x \in wv THEN {} ELSE {x} \cup UNION {NeedsNodes(g, wv, p) : p \in AllPar(g, x)}
MeaningRejectsStrict(g, wv, outs) ==
  \E o \in outs :
     IF o[1] = "n" THEN \E y \in NeedsNodes(g, wv, o[2]) : UsesObs(g.kind[y]) /\ ObsDataDependsOnStoch(g, y)
     ELSE IF UsesObs(g.kind[o[2]]) THEN ObsDataDependsOnStoch(g, o[2])
     ELSE ODepStoch(g, o[2])
\* (f) the net nodes whose operation the meaning needs to run: plain nodes U(x) and twins Tw(x)
RECURSIVE MNeeds(_, _, _), MONeeds(_, _, _)
MArg(g, wv, p) == IF Observable(g.kind[p]) THEN MONeeds(g, wv, p) ELSE MNeeds(g, wv, p)
MNeeds(g, wv, x) ==
  IF g.kind[x] = "const" \/ x \in wv THEN {}
  ELSE {U(x)} \cup UNION {MNeeds(g, wv, p) : p \in AllPar(g, x)}
       \cup (IF UsesObs(g.kind[x]) THEN {Tw(x)} \cup UNION {MArg(g, wv, p) : p \in AllPar(g, x)} ELSE {})
MONeeds(g, wv, x) == IF x \in g.obs THEN {} ELSE {Tw(x)} \cup UNION {MArg(g, wv, p) : p \in AllPar(g, x)}
MeaningRuns(g, wv, outs) ==
  UNION {IF o[1] = "n" THEN MNeeds(g, wv, o[2])
         ELSE IF UsesObs(g.kind[o[2]]) THEN {Tw(o[2])} \cup UNION {MArg(g, wv, p) : p \in AllPar(g, o[2])}
         ELSE MONeeds(g, wv, o[2]) : o \in outs}
=============================================================================

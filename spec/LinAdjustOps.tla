--------------------------- MODULE LinAdjustOps ---------------------------
(***************************************************************************)
(* Pure operators of elfi.methods.post_processing.LinearAdjustment, shared *)
(* by the design module LinAdjust.tla and the trace spec                   *)
(* LinAdjust_Trace.tla.                                                    *)
(*                                                                         *)
(* Data.  S   : sequence of n rows, each a sequence of K summary values    *)
(*        obs : sequence of the K observed summaries (integers)            *)
(*        th  : sequence of n values of ONE parameter                      *)
(* Values are integers; three reserved codes stand for the non-finite      *)
(* floats (only numpy.isfinite is ever applied to them by the code).       *)
(* Rationals are pairs <<num, den>> with den > 0.                          *)
(*                                                                         *)
(* The code, per parameter (RegressionAdjustment.fit/_get_finite/_pairs/   *)
(* adjust, LinearAdjustment._input_variables/_adjust):                     *)
(*   X      = summaries - observed_summaries                               *)
(*   finite = isfinite(X).all(axis=1) & isfinite(theta)                    *)
(*   b      = LinearRegression().fit(X[finite], theta[finite]).coef_       *)
(*            (ordinary least squares WITH intercept = least squares of    *)
(*            the centred data; minimum-norm solution when rank-deficient) *)
(*   return theta[finite] - X[finite].dot(b)                               *)
(* The centred normal equations are written cleared of the row count m:    *)
(*   A[a][b] = m*Sum(x_a x_b) - Sum(x_a) Sum(x_b)  ( = m^2 cov(x_a, x_b) ) *)
(*   C[a]    = m*Sum(x_a y)   - Sum(x_a) Sum(y)    ( = m^2 cov(x_a, y)   ) *)
(* and solved by Cramer's rule (K = 1, 2).                                 *)
(***************************************************************************)
EXTENDS Naturals, Integers, Sequences, FiniteSets, FixedPoint

RECURSIVE SumF(_, _)
SumF(f, F) == IF F = {} THEN 0 ELSE LET i == CHOOSE j \in F : TRUE IN f[i] + SumF(f, F \ {i})

RECURSIVE SortedSeq(_)
SortedSeq(F) == IF F = {} THEN <<>>
                ELSE LET x == CHOOSE y \in F : \A z \in F : y <= z IN <<x>> \o SortedSeq(F \ {x})

\* ---- _get_finite ------------------------------------------------------------
RowFinite(S, th, i) == IsFin(th[i]) /\ \A a \in 1..Len(S[i]) : IsFin(S[i][a])
Mask(S, th) == {i \in 1..Len(S) : RowFinite(S, th, i)}

\* ---- _input_variables (only ever used on finite rows) ------------------------
XRow(S, obs, i) == [a \in 1..Len(obs) |-> S[i][a] - obs[a]]
IsObservedRow(S, obs, i) == \A a \in 1..Len(obs) : S[i][a] = obs[a]

\* ---- normal equations over the rows F, cleared of m = |F| --------------------
\* centred = TRUE is the code (fit_intercept=True); FALSE exists only for the negative control.
NormalEq(S, obs, th, F, centred) ==
  LET K == Len(obs)
      m == IF centred THEN Cardinality(F) ELSE 1
      z == IF centred THEN 1 ELSE 0
      sx(a) == SumF([i \in F |-> S[i][a] - obs[a]], F)
      sy == SumF([i \in F |-> th[i]], F)
      sxx(a, b) == SumF([i \in F |-> (S[i][a] - obs[a]) * (S[i][b] - obs[b])], F)
      sxy(a) == SumF([i \in F |-> (S[i][a] - obs[a]) * th[i]], F)
      AA(a, b) == m * sxx(a, b) - z * sx(a) * sx(b)
      CC(a) == m * sxy(a) - z * sx(a) * sy
  IN [A11 |-> AA(1, 1),
      A12 |-> IF K = 2 THEN AA(1, 2) ELSE 0,
      A22 |-> IF K = 2 THEN AA(2, 2) ELSE 0,
      C1 |-> CC(1),
      C2 |-> IF K = 2 THEN CC(2) ELSE 0]

Det(ne, K) == IF K = 1 THEN ne.A11 ELSE ne.A11 * ne.A22 - ne.A12 * ne.A12
Trace2(ne) == ne.A11 + ne.A22

\* Slope as [num |-> <<n_1..n_K>>, den |-> d, unique |-> BOOLEAN]; b_a = num[a] / den, den > 0.
\*  unique  : Cramer's rule (the centred Gram matrix is positive definite, so Det > 0)
\*  ~unique : the minimum-norm least-squares solution scipy.linalg.lstsq returns:
\*            rank 0 -> 0;  rank 1 (K = 2) -> A^+ C = A C / tr(A)^2
SlopeOf(ne, K) ==
  LET d == Det(ne, K) IN
  IF d # 0 THEN
       [num |-> IF K = 1 THEN <<ne.C1>>
                ELSE <<ne.C1 * ne.A22 - ne.C2 * ne.A12, ne.A11 * ne.C2 - ne.A12 * ne.C1>>,
        den |-> d, unique |-> TRUE]
  ELSE IF K = 1 \/ Trace2(ne) = 0 THEN
       [num |-> [a \in 1..K |-> 0], den |-> 1, unique |-> FALSE]
  ELSE [num |-> <<ne.A11 * ne.C1 + ne.A12 * ne.C2, ne.A12 * ne.C1 + ne.A22 * ne.C2>>,
        den |-> Trace2(ne) * Trace2(ne), unique |-> FALSE]

Slope(S, obs, th, F, centred) == SlopeOf(NormalEq(S, obs, th, F, centred), Len(obs))

\* ---- _adjust: theta[finite] - X[finite].dot(b), one rational per row of F in row order --------
AdjustWith(S, obs, th, F, b) ==
  LET rows == SortedSeq(F)
      K == Len(obs)
  IN [q \in 1..Len(rows) |->
        LET i == rows[q] IN
        <<th[i] * b.den - SumF([a \in 1..K |-> (S[i][a] - obs[a]) * b.num[a]], 1..K), b.den>>]

Adjusted(S, obs, th) ==
  LET F == Mask(S, th) IN AdjustWith(S, obs, th, F, Slope(S, obs, th, F, TRUE))

\* ---- rationals ----------------------------------------------------------------
RatEq(p, q) == p[1] * q[2] = q[1] * p[2]
SeqRatEq(s, t) == Len(s) = Len(t) /\ \A q \in 1..Len(s) : RatEq(s[q], t[q])

\* ---- affine re-expression of the summaries --------------------------------------
\* s' = M s + v on finite rows (rows with a non-finite summary keep their markers), obs' = M obs + v
MapVec(M, v, s) == [a \in 1..Len(v) |-> SumF([c \in 1..Len(v) |-> M[a][c] * s[c]], 1..Len(v)) + v[a]]
MapRow(M, v, s) == IF \A a \in 1..Len(s) : IsFin(s[a]) THEN MapVec(M, v, s) ELSE s
MapRows(M, v, S) == [i \in 1..Len(S) |-> MapRow(M, v, S[i])]
DetM(M) == IF Len(M) = 1 THEN M[1][1] ELSE M[1][1] * M[2][2] - M[1][2] * M[2][1]
=============================================================================

---------------------------- MODULE ResultObjects ----------------------------
(***************************************************************************)
(* Design module for clauses (a)-(d) of C16: a result object of            *)
(* elfi.methods.results (Sample / SmcSample / BolfiSample) reports what    *)
(* the sampler produced, and survives saving.                              *)
(*                                                                         *)
(* State: `ctor` the constructor call (never changes), `live` the object   *)
(* built from it, `files` the three files Sample.save can write (csv,      *)
(* json, pkl; NoFile before the first save of that kind), `loaded` what    *)
(* the last read-back returned.  Actions = the public calls:               *)
(*     Save("csv" | "json" | "pkl")       Sample.save(fname)               *)
(*     Load("csv" | "json" | "pkl")       csv.reader / json.load /         *)
(*                                        pickle.load of that file         *)
(* so that histories such as save-JSON-then-pickle-then-load are explored. *)
(*                                                                         *)
(* What the code does on Save("json") (results.py:284-317, utils.py:319-   *)
(* 378): sample_object_to_dict puts the object's OWN `samples` dict into   *)
(* the dict to be dumped, and numpy_to_python_type then replaces every     *)
(* array in that nested dict by a list - IN PLACE, so the live object's    *)
(* samples become Python lists (JsonInPlace = TRUE, the code as it is).    *)
(* weighted_sample_quantile indexes its sample with an index array         *)
(* (`x[index]`), which a list does not support: the intervals of a live    *)
(* object are no longer available after a JSON save, nor are those of an   *)
(* object unpickled from a pickle written after it (finding F30; theorem   *)
(* IntervalsAvailable is refuted for JsonInPlace = TRUE and holds for the  *)
(* repaired design JsonInPlace = FALSE, in which the nested dict is copied *)
(* before conversion).  Means (np.average) and samples_array               *)
(* (np.column_stack) accept lists.                                         *)
(*                                                                         *)
(* Negative controls: SortedCtor (columns in sorted-output order instead   *)
(* of parameter_names order), Fortran (BOLFI reshape in Fortran order),    *)
(* WarmupOff (slice starts one element late).                              *)
(***************************************************************************)
EXTENDS Naturals, Integers, Sequences, FiniteSets, TLC, ResultObjectsOps

CONSTANTS Ctors,        \* set of constructor calls: records [kind, names, okeys, ovals, hasw, ws, chains, warmup]
          MaxSteps,     \* length of the save/load histories
          JsonInPlace,  \* TRUE: the code as it is (see above)
          SortedCtor, Fortran, WarmupOff   \* negative controls

VARIABLES ctor, live, files, loaded, steps
vars == <<ctor, live, files, loaded, steps>>

NoFile == [none |-> TRUE]
NoLoad == [fmt |-> "none"]
Kinds == {"csv", "json", "pkl"}

\* the base-class constructor call a (Bolfi)Sample makes
BaseCall(c) == IF c.kind = "bolfi"
               THEN BolfiCtor(c.names, c.chains, c.warmup + (IF WarmupOff THEN 1 ELSE 0), Fortran)
               ELSE c
\* the sample the statement expects the object to hold
ExpectedCols(c) == IF c.kind = "bolfi" THEN BolfiCols(c.chains, c.warmup, Len(c.names)) ELSE ExpCols(c)
Expected(c) == [names |-> c.names, okeys |-> c.names, ovals |-> ExpectedCols(c), hasw |-> c.hasw, ws |-> c.ws]

Init == /\ ctor \in Ctors
        /\ live = Construct(BaseCall(ctor), SortedCtor)
        /\ files = [k \in Kinds |-> NoFile]
        /\ loaded = NoLoad
        /\ steps = 0

Save(k) ==
  /\ steps < MaxSteps
  /\ steps' = steps + 1
  /\ files' = [files EXCEPT ![k] = CASE k = "csv" -> CsvFile(live)
                                     [] k = "json" -> JsonFile(live)
                                     [] k = "pkl" -> live]        \* the pickle holds the object as it is NOW
  /\ live' = IF k = "json" /\ JsonInPlace THEN [live EXCEPT !.rep = "list"] ELSE live
  /\ UNCHANGED <<ctor, loaded>>

Load(k) ==
  /\ steps < MaxSteps
  /\ files[k] # NoFile
  /\ steps' = steps + 1
  /\ loaded' = CASE k = "csv" -> [fmt |-> "csv", obj |-> CsvRead(files[k])]
                 [] k = "json" -> [fmt |-> "json", obj |-> JsonRead(files[k])]
                 [] k = "pkl" -> [fmt |-> "pkl", obj |-> files[k]]
  /\ UNCHANGED <<ctor, live, files>>

Next == \E k \in Kinds : Save(k) \/ Load(k)
Spec == Init /\ [][Next]_vars

\* ---- what an object reports ------------------------------------------------------------
\* every object the user can hold: the live one and one loaded from a pickle
Objects == {live} \cup (IF loaded.fmt = "pkl" THEN {loaded.obj} ELSE {})
N(o) == NRows(o.svals)
W(o) == WeightsOf(ctor, N(o))
SamplesArray(o) == ColumnStack(o.svals)
Means(o) == [j \in 1..Len(o.svals) |-> MeanRat(o.svals[j], W(o))]
\* weighted_sample_quantile needs arrays (x[index] with an index array)
IntervalsDefined(o) == o.rep = "array"
Intervals(o) == [j \in 1..Len(o.svals) |-> <<QLo(o.svals[j], W(o)), QHi(o.svals[j], W(o))>>]

\* ---- the clauses of the statement ----------------------------------------------------------
E == Expected(ctor)
Weighted(n) == n > 0 /\ WTotal(WeightsOf(ctor, n)) > 0
\* (a) columns in parameter-name order
ColumnOrder == \A o \in Objects :
                 /\ o.skeys = ctor.names
                 /\ Len(ctor.names) > 0 /\ N(o) > 0 => ColumnsOf(SamplesArray(o), Len(ctor.names)) = ExpectedCols(ctor)
\* (c) (and "exactly the stored samples"): the object holds the expected sample
HoldsSample == \A o \in Objects : o.skeys = ctor.names /\ o.svals = ExpectedCols(ctor)
\* (b) means and intervals are those of the expected sample
MeansDef == \A o \in Objects : Weighted(N(o)) =>
               \A j \in 1..Len(ctor.names) : REq(Means(o)[j], MeanRat(ExpectedCols(ctor)[j], WeightsOf(ctor, N(o))))
IntervalsDef == \A o \in Objects : (Weighted(N(o)) /\ IntervalsDefined(o)) =>
               \A j \in 1..Len(ctor.names) :
                  LET col == ExpectedCols(ctor)[j]
                      w == WeightsOf(ctor, N(o))
                  IN /\ IsWQ(col, w, 1, 40, Intervals(o)[j][1])
                     /\ IsWQ(col, w, 39, 40, Intervals(o)[j][2])
\* (b) on every object the user holds, whatever was saved before  (refuted for JsonInPlace: F30)
IntervalsAvailable == \A o \in Objects : IntervalsDefined(o)
\* (d) reading a saved sample back yields the same samples
RoundTrip == loaded.fmt # "none" => SameSamples(loaded.obj, E)
\* the code's BOLFI slice-and-reshape is the statement's concatenation
BolfiIsConcat == ctor.kind = "bolfi" =>
                   LET b == BaseCall(ctor) IN b.ovals = BolfiCols(ctor.chains, ctor.warmup, Len(ctor.names))
=============================================================================

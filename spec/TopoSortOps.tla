---------------------------- MODULE TopoSortOps ----------------------------
(***************************************************************************)
(* elfi.executor.nx_constant_topological_sort, transcribed.                *)
(* Nodes are identified by small integers; Key[n] is the node's name as a  *)
(* sequence of character codes, compared the way Python compares strings.  *)
(* E is a set of <<parent, child>>.                                        *)
(***************************************************************************)
EXTENDS Naturals, Sequences, FiniteSets

RECURSIVE Less(_, _)
Less(s, t) == IF s = <<>> THEN t # <<>>
              ELSE IF t = <<>> THEN FALSE
              ELSE IF Head(s) # Head(t) THEN Head(s) < Head(t)
              ELSE Less(Tail(s), Tail(t))
MinOf(S, Key) == CHOOSE x \in S : \A y \in S : x = y \/ Less(Key[x], Key[y])
RECURSIVE SortedSeq(_, _)
SortedSeq(S, Key) == IF S = {} THEN <<>> ELSE LET m == MinOf(S, Key) IN <<m>> \o SortedSeq(S \ {m}, Key)   \* sorted(...)

Front(s) == SubSeq(s, 1, Len(s) - 1)
Succ(E, w) == {e[2] : e \in {x \in E : x[1] = w}}
\* the inner while loop over `fringe` (depth first, successors pushed in sorted order)
RECURSIVE Dfs(_, _, _, _, _)
Dfs(E, Key, fringe, explored, order) ==
  IF fringe = <<>> THEN <<explored, order>>
  ELSE LET w == fringe[Len(fringe)] IN
    IF w \in explored THEN Dfs(E, Key, Front(fringe), explored, order)
    ELSE LET new == SortedSeq({n \in Succ(E, w) : n \notin explored}, Key) IN
      IF new # <<>> THEN Dfs(E, Key, fringe \o new, explored, order)
      ELSE Dfs(E, Key, Front(fringe), explored \cup {w}, Append(order, w))
\* the outer loop over sorted(G.nodes())
RECURSIVE Outer(_, _, _, _, _)
Outer(E, Key, todo, explored, order) ==
  IF todo = <<>> THEN order
  ELSE IF Head(todo) \in explored THEN Outer(E, Key, Tail(todo), explored, order)
  ELSE LET r == Dfs(E, Key, <<Head(todo)>>, explored, order) IN Outer(E, Key, Tail(todo), r[1], r[2])
Reverse(s) == [i \in 1..Len(s) |-> s[Len(s) + 1 - i]]
ConstantOrder(N, E, Key) == Reverse(Outer(E, Key, SortedSeq(N, Key), {}, <<>>))
Pos(s, x) == CHOOSE i \in 1..Len(s) : s[i] = x
IsTopological(order, E) == \A e \in E : Pos(order, e[1]) < Pos(order, e[2])
=============================================================================

---------------------------- MODULE BslMh_Trace ----------------------------
(***************************************************************************)
(* Trace validation for clauses (c) and (d) of C20.                        *)
(*                                                                         *)
(* A trace is one parameter vector ps (sequence of [ty, a, b], see         *)
(* BslMhOps.tla) and a sequence of real calls:                             *)
(*   ev = "inv"   static helpers at the lattice point E (one rational      *)
(*                e^tt per parameter; the integer tt itself for type 3):   *)
(*                th  = back_transform(tt)                                 *)
(*                rt1 = transform(back_transform(tt))                      *)
(*                tt  = transform(t) at the exact rational t = BackQ(E)    *)
(*                rt2 = back_transform(transform(t))                       *)
(*   ev = "invr"  x = a parameter vector on the 10^-6 grid inside the      *)
(*                bounds; err = back_transform(transform(x)) - x in 10^-12 *)
(*   ev = "jac"   out = _jacobian_logit_transform(tt(E)) -                 *)
(*                _jacobian_logit_transform(tt(E2)): only differences of   *)
(*                log J (sum over the parameters) enter the property       *)
(*   ev = "mh"    a BSL object whose state holds params[n-1] = t(pE),      *)
(*                params[n] = t(cE), logposterior = log pq, log cq         *)
(*                (cz: -inf), logit_transform_bound = the bounds (tb) or   *)
(*                None; out = _get_mh_ratio(); jc / jp = the arguments the *)
(*                Jacobian helper received (recorded by a subclass)        *)
(* All floats are logged in fixed point (10^-6).  TLC recomputes the       *)
(* rationals with BslMhOps and compares.  Total and deterministic.         *)
(***************************************************************************)
EXTENDS Naturals, Integers, Sequences, FiniteSets, TLC, Json, IOUtils, BslMhOps

Traces == JsonDeserialize(IOEnv.TRACE_FILE)

VARIABLES tid, l, verdict, drift, done
vars == <<tid, l, verdict, drift, done>>

T == Traces[tid]
PS == T.ps
NP == Len(PS)
Init == tid \in 1..Len(Traces) /\ l = 1 /\ verdict = "ok" /\ drift = "" /\ done = FALSE

Near(a, b, tol) == a - b <= tol /\ b - a <= tol
\* the transformed point in fixed point: log E for bounded types (table), tt itself for type 3
TTMicro(p, E) == IF p.ty = 3 THEN E[1] * Unit ELSE LogQMicro(E)
TTErr(p, E) == IF p.ty = 3 THEN 1 ELSE 1 + LogQErr(E)
RECURSIVE SumLogJ(_, _)
SumLogJ(Es, k) == IF k = 0 THEN 0 ELSE SumLogJ(Es, k - 1) + LogQMicro(JacQ(PS[k], Es[k]))
RECURSIVE SumLogJErr(_, _)
SumLogJErr(Es, k) == IF k = 0 THEN 1 ELSE SumLogJErr(Es, k - 1) + LogQErr(JacQ(PS[k], Es[k]))

LatticeOk(Es) == /\ Len(Es) = NP
                 /\ \A i \in 1..NP : /\ QIsRat(Es[i])
                                     /\ IF PS[i].ty = 3 THEN Es[i][2] = 1 ELSE (Es[i][1] > 0 /\ QSmooth(Es[i]))
                                     /\ (PS[i].ty = 0 => PS[i].a < PS[i].b /\ QSmooth(JacQ(PS[i], Es[i])))

JudgeX(e) ==
  CASE e.ev = "inv" -> IF LatticeOk(e.E) THEN "" ELSE "X:off-lattice"
    [] e.ev = "jac" -> IF LatticeOk(e.E) /\ LatticeOk(e.E2) THEN "" ELSE "X:off-lattice"
    [] e.ev = "mh" -> IF LatticeOk(e.pE) /\ LatticeOk(e.cE) /\ QIsRat(e.pq) /\ QIsRat(e.cq) /\ e.pq[1] > 0 /\ e.cq[1] > 0
                      THEN "" ELSE "X:off-lattice"
    [] e.ev = "invr" -> IF Len(e.x) = NP /\ \A i \in 1..NP :
                               /\ (PS[i].ty \in {0, 2} => e.x[i] >= PS[i].a * Unit + 1000)
                               /\ (PS[i].ty \in {0, 1} => e.x[i] <= PS[i].b * Unit - 1000)
                        THEN "" ELSE "X:point-outside-bounds"
    [] OTHER -> "X:unknown-event"

\* the stated ratio (rational) for the move pE -> cE
StatedRatio(e) == IF e.tb THEN MhRatioQ(PS, e.pE, e.cE, e.pq, e.cq) ELSE QDiv(e.cq, e.pq)

JudgeP(e) ==
  IF e.res # "ok" THEN "P:valid-input-raised"
  ELSE CASE e.ev = "inv" ->
         IF Len(e.th) # NP \/ Len(e.rt1) # NP \/ Len(e.rt2) # NP \/ Len(e.tt) # NP THEN "P:inverse"
         \* the back-transformed point lies inside the bounds
         ELSE IF \E i \in 1..NP : ~( (PS[i].ty \in {0, 2} => e.th[i] > PS[i].a * Unit - 1)
                                     /\ (PS[i].ty \in {0, 1} => e.th[i] < PS[i].b * Unit + 1) )
              THEN "P:back-transform-inside-bounds"
         \* transform(back_transform(tt)) = tt
         ELSE IF \E i \in 1..NP : ~Near(e.rt1[i], TTMicro(PS[i], e.E[i]), TTErr(PS[i], e.E[i])) THEN "P:inverse"
         \* back_transform(transform(t)) = t
         ELSE IF \E i \in 1..NP : LET t == BackQ(PS[i], e.E[i]) IN ~FxMatches(e.rt2[i], t[1], t[2]) THEN "P:inverse"
         ELSE "ok"
    [] e.ev = "invr" ->
         IF Len(e.err) # NP \/ \E i \in 1..NP : ~Near(e.err[i], 0, 1000) THEN "P:inverse" ELSE "ok"
    [] e.ev = "jac" ->
         IF e.ores # "val" \/ ~Near(e.out, SumLogJ(e.E, NP) - SumLogJ(e.E2, NP), SumLogJErr(e.E, NP) + SumLogJErr(e.E2, NP))
         THEN "P:jacobian" ELSE "ok"
    [] e.ev = "mh" ->
         LET r == StatedRatio(e)
         IN IF e.cz THEN (IF e.ores = "val" /\ e.out = 0 THEN "ok" ELSE "P:mh-ratio")
            ELSE IF r[2] > 200000000 THEN "ok"                 \* cannot be formed in 32 bits: not decided
            ELSE IF r[1] \div r[2] >= 2000 THEN (IF e.ores = "big" \/ (e.ores = "val" /\ e.out >= 2000 * Unit) THEN "ok" ELSE "P:mh-ratio")
            ELSE IF e.ores = "val" /\ FxMatches(e.out, r[1], r[2]) THEN "ok" ELSE "P:mh-ratio"
    [] OTHER -> "ok"

JudgeM(e) ==
  IF e.res # "ok" THEN ""
  ELSE CASE e.ev = "inv" ->
         IF Len(e.th) # NP \/ Len(e.tt) # NP THEN ""
         ELSE IF \E i \in 1..NP : LET t == BackQ(PS[i], e.E[i]) IN ~FxMatches(e.th[i], t[1], t[2]) THEN "M:back-transform-value"
         ELSE IF \E i \in 1..NP : ~Near(e.tt[i], TTMicro(PS[i], e.E[i]), TTErr(PS[i], e.E[i])) THEN "M:transform-value" ELSE ""
    [] e.ev = "mh" ->
         IF ~e.tb THEN (IF e.nj # 0 THEN "M:no-jacobian-without-transform" ELSE "")
         ELSE IF e.nj # 2 \/ Len(e.jc) # NP \/ Len(e.jp) # NP THEN "M:jacobian-called-for-both-points"
         ELSE IF \E i \in 1..NP : ~Near(e.jc[i], TTMicro(PS[i], e.cE[i]), TTErr(PS[i], e.cE[i]))
                                  \/ ~Near(e.jp[i], TTMicro(PS[i], e.pE[i]), TTErr(PS[i], e.pE[i]))
              THEN "M:jacobian-at-transformed-point"
         ELSE ""
    [] OTHER -> ""

Step ==
  /\ ~done
  /\ IF l > Len(T.events) THEN done' = TRUE /\ UNCHANGED <<tid, l, verdict, drift>>
     ELSE LET e == T.events[l]
              x == JudgeX(e)
              j == IF x = "" THEN JudgeP(e) ELSE "ok"
              m == IF drift # "" THEN drift ELSE IF x # "" THEN x ELSE JudgeM(e)
          IN /\ verdict' = j
             /\ drift' = m
             /\ done' = (j # "ok")
             /\ l' = l + 1
             /\ UNCHANGED tid

Spec == Init /\ [][Step]_vars
Report == done => PrintT(<<"V", tid, l, verdict, drift>>)
=============================================================================

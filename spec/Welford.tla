------------------------------ MODULE Welford ------------------------------
(***************************************************************************)
(* elfi.AdaptiveDistance: running moments of the adaptation data           *)
(* (state['store'] = [n, mean, M2], batched Welford recurrence in          *)
(* add_data), update_distance (append a new weighted Euclidean distance,   *)
(* start a new adaptation round) and nested_distance (one column per       *)
(* distance function).  One public call = one action.                      *)
(*                                                                         *)
(* The adaptation data of a round is built up by the AddDataAct steps      *)
(* themselves: every reachable state (rnd, store) stands for one data set  *)
(* (the rows added so far in this round, entries in Vals) together with    *)
(* one ORDERED PARTITION of it into add_data calls (the path).  Exhaustive *)
(* search therefore visits every data set of <= MaxRows rows x C columns   *)
(* with every ordered partition.                                           *)
(*                                                                         *)
(* THEOREMS                                                                *)
(*  BatchInvariant     scale^2 = M2/n equals the population variance of    *)
(*                     ALL rows of the round, however they were split      *)
(*                     (and mean = their mean, n = their number)           *)
(*  NewestIsRoundScale after the r-th update, distance function r+1 is the *)
(*                     Euclidean distance divided by the scale of round r  *)
(*  NestedKeepsEarlier no action changes an existing column of the nested  *)
(*                     output (earlier distances stay available unchanged) *)
(*  AddKeepsDistance   adaptation data do not influence the distance until *)
(*                     update_distance is called                           *)
(* Variant # "code" are negative controls that TLC must refute.            *)
(***************************************************************************)
EXTENDS Naturals, Integers, Sequences, FiniteSets, TLC, WelfordOps

CONSTANTS C,          \* columns of the stacked summaries
          Vals,       \* entries of the adaptation data
          MaxRows,    \* rows per adaptation round
          MaxRounds,  \* number of update_distance calls
          QVals,      \* entries of the query rows the nested distance is evaluated on
          Variant     \* "code" | "perbatch" | "delta1sq" | "sample"

VARIABLES store,      \* [n, mean, m2]  (state['store'])
          rnd,        \* rows added in the current round (specification-only history)
          dfs,        \* state['distance_functions'] as squared-weight vectors
          hist        \* the data of the finished rounds (specification-only history)
vars == <<store, rnd, dfs, hist>>

Rows == [1..C -> Vals]
Queries == {<<u, [j \in 1..C |-> 1]>> : u \in [1..C -> QVals]}

Init == /\ store = ZeroStore(C)          \* init_state + init_adaptation_round
        /\ rnd = <<>>
        /\ dfs = <<Ones(C)>>              \* partial(cdist 'euclidean', w=None)
        /\ hist = <<>>

\* add_data with k >= 1 rows
AddDataAct ==
  \E k \in 1..(MaxRows - Len(rnd)) : \E b \in [1..k -> Rows] :
    /\ store' = AddData(Variant, store, b)
    /\ rnd' = rnd \o b
    /\ UNCHANGED <<dfs, hist>>

\* update_distance(): weis = 1/scale (scale # 0), append, init_adaptation_round
Update ==
  /\ Len(hist) < MaxRounds
  /\ store.n >= 1
  /\ \A j \in 1..C : store.m2[j][1] # 0
  /\ dfs' = Append(dfs, WeightsOf(Variant, store))
  /\ hist' = Append(hist, rnd)
  /\ rnd' = <<>>
  /\ store' = ZeroStore(C)

Next == AddDataAct \/ Update
Spec == Init /\ [][Next]_vars

\* ---- properties (C12 b, c) -----------------------------------------------------------------
BatchInvariant ==
  /\ store.n = Len(rnd)
  /\ Len(rnd) = 0 => store = ZeroStore(C)
  /\ Len(rnd) > 0 => /\ Scale2(Variant, store) = PopVarRows(rnd, C)
                     /\ store.mean = MeanRows(rnd, C)

NewestIsRoundScale ==
  /\ Len(dfs) = Len(hist) + 1
  /\ dfs[1] = Ones(C)
  /\ \A r \in 1..Len(hist) : dfs[r + 1] = [j \in 1..C |-> RInv(PopVar(Column(hist[r], j)))]

\* the same on outputs: column r+1 of the nested output = sum_j (u_j - v_j)^2 / popvar_j(round r)
NestedIsScaledEuclid ==
  \A q \in Queries : LET o == NestedSq(dfs, q[1], q[2]) IN
    /\ o[1] = RInt(ISum([j \in 1..C |-> (q[1][j] - q[2][j]) * (q[1][j] - q[2][j])]))
    /\ \A r \in 1..Len(hist) :
         o[r + 1] = RSum([j \in 1..C |-> RMul(RInt((q[1][j] - q[2][j]) * (q[1][j] - q[2][j])),
                                             RInv(PopVar(Column(hist[r], j))))])

KeepsEarlier ==
  \A q \in Queries : LET a == NestedSq(dfs, q[1], q[2])
                         b == NestedSq(dfs', q[1], q[2])
                     IN Len(b) >= Len(a) /\ SubSeq(b, 1, Len(a)) = a
NestedKeepsEarlier == [][KeepsEarlier]_vars
AddKeepsDistance == [][store'.n > store.n => dfs' = dfs]_vars
=============================================================================

SPECIFICATION Spec
CONSTANTS
  MaxN = 2
  MaxV = 3
  MaxW = 3
  Scales = {1, 2, 3}
  Freq = TRUE
INVARIANT VarIsDefinition
CHECK_DEADLOCK FALSE

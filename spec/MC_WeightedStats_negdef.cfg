SPECIFICATION Spec
CONSTANTS
  MaxN = 3
  MaxV = 3
  MaxW = 3
  Scales = {1, 2, 3}
  Freq = TRUE
INVARIANT VarIsDefinition
CHECK_DEADLOCK FALSE

SPECIFICATION Spec
CONSTANTS
  MaxN = 3
  MaxV = 3
  MaxW = 3
  A = 8
  Scales = {1, 2, 3}
  Swapped = TRUE
INVARIANT Found
INVARIANT Def
CHECK_DEADLOCK FALSE

SPECIFICATION Spec
CONSTANTS
  MaxN = 2
  MaxV = 1
  MaxW = 2
  A = 4
  Scales = {1, 2, 3}
  Swapped = TRUE
INVARIANT Found
INVARIANT Def
CHECK_DEADLOCK FALSE

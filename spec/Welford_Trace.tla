--------------------------- MODULE Welford_Trace ---------------------------
(***************************************************************************)
(* Trace validation for C12 (b), (c): real elfi.AdaptiveDistance nodes.    *)
(*                                                                         *)
(* A trace is one node (widths of its summaries, observed row `obs` of     *)
(* every summary, fixed-point units) and the history of calls made on it:  *)
(*  add     add_data of the summaries: INPUT sums[k][i] = row i of summary  *)
(*          k;                                                             *)
(*          OUTPUT n = store[0], mean / m2 = round(store[1|2] * U),        *)
(*          sc2 = round(state['scale']^2 * U)      (one entry per column)  *)
(*  update  update_distance(): OUTPUT w2 = round(w[-1]^2 * UW), nw, ndf =  *)
(*          lengths of state['w'] / state['distance_functions'], n after   *)
(*  gen     node.generate(with_values = sums): INPUT sums, qid (identity   *)
(*          of the query); OUTPUT shape, v / sq = round(d * U) /           *)
(*          round(d*d * U) as a matrix rows x distance functions           *)
(*  run     a whole elfi.Rejection(...).sample() over the node: INPUT      *)
(*          sums = the summaries of all simulated draws in order (taken    *)
(*          from the simulator's own log: the adaptation data, added       *)
(*          batch by batch of size bs); OUTPUT sc2, nw, nsim, and the      *)
(*          returned sample: rsums (its summaries), v / sq (one column:    *)
(*          its discrepancies)                                             *)
(* TLC keeps the rows of the running adaptation round (rnd), the design    *)
(* module's exact rational store (st), and per finished round r the pair   *)
(* (n_r, Q_r) with  popvar_j = Q_r[j] / n_r^2.                             *)
(*                                                                         *)
(* P:scale   |sc2_j * n^2 - Q_j * U| <= n^2   (scale^2 = population        *)
(*           variance of ALL rows of the round, to one unit)               *)
(* P:newest / P:earlier   column r+1 of the nested output: d^2 * U lies in *)
(*           [T - 1, T + C + 1] with T = sum_j floor(delta_j^2 n_r^2 U /   *)
(*           Q_r[j])  (d^2 = sum_j delta_j^2 / popvar_j, denominators      *)
(*           cleared column by column to stay inside 32-bit integers)      *)
(* P:plain-first  column 1 is the plain Euclidean distance (exact square)  *)
(* P:earlier-unchanged  a query evaluated before returns the same values   *)
(*           in the columns that existed then                              *)
(* P:nested-shape  (rows,) with one distance function, (rows, K) with K    *)
(* run events: P:scale on the scale left by the run, P:one-per-row, and    *)
(*           P:newest ROW-WISE on the returned sample: the discrepancy of  *)
(*           result row i is the newest distance of result row i's own     *)
(*           summaries (P:result-row-not-simulated guards it: a returned   *)
(*           summaries row must be one of the simulated rows)              *)
(* M:*       the store follows the design recurrence (WelfordOps!AddData)  *)
(***************************************************************************)
EXTENDS Naturals, Integers, Sequences, FiniteSets, TLC, Json, IOUtils, DistanceOps, WelfordOps

Traces == JsonDeserialize(IOEnv.TRACE_FILE)

VARIABLES tid, l, rnd, st, rounds, seen, verdict, drift, done
vars == <<tid, l, rnd, st, rounds, seen, verdict, drift, done>>

T == Traces[tid]
U == T.unit
UW == T.unitw
C == Len(StackObs(T.obs))
IsNum(x) == x > -1000000000 /\ x < 1000000000

Init == /\ tid \in 1..Len(Traces) /\ l = 1
        /\ rnd = <<>> /\ st = ZeroStore(C) /\ rounds = <<>> /\ seen = <<>>
        /\ verdict = "ok" /\ drift = "" /\ done = FALSE

Qs(rows) == [j \in 1..C |-> Q(Column(rows, j))]

\* fixed-point value x (unit u) equals the rational r to one unit
Near(x, r, u) == IsNum(x) /\ Abs(x * r[2] - r[1] * u) <= r[2]

ScaleOK(sc2, rows) ==
  LET n == Len(rows) IN
  /\ Len(sc2) = C
  /\ \A j \in 1..C : IsNum(sc2[j]) /\ Abs(sc2[j] * n * n - Q(Column(rows, j)) * U) <= n * n

\* squared distance of stacked row u under the scale of finished round r, fixed point, rounded down per column
T2(r, u) == LET o == StackObs(T.obs) IN
  SumSeq([j \in 1..C |-> ((u[j] - o[j]) * (u[j] - o[j]) * r.n * r.n * U) \div r.q[j]])
ScaledOK(x, r, u) == IsNum(x) /\ x >= T2(r, u) - 1 /\ x <= T2(r, u) + C + 1
PlainOK(x, u) == LET o == StackObs(T.obs) IN
  IsNum(x) /\ x = U * SumSeq([j \in 1..C |-> (u[j] - o[j]) * (u[j] - o[j])])

\* ---- P: clauses -------------------------------------------------------------------------------
JudgeAdd(e) ==
  IF e.res # "val" THEN "P:raised"
  ELSE IF ~ScaleOK(e.sc2, rnd \o Stack(e.sums)) THEN "P:scale"
  ELSE "ok"

JudgeUpdate(e) ==
  IF e.res # "val" THEN "P:raised"
  ELSE IF rnd = <<>> \/ \E j \in 1..C : Qs(rnd)[j] = 0 THEN "X:degenerate-round"
  ELSE "ok"

JudgeGen(e) ==
  LET K == Len(rounds) + 1
      rows == Stack(e.sums)
      n == Len(rows)
  IN IF e.res # "val" THEN "P:raised"
     ELSE IF e.shape # (IF K = 1 THEN <<n>> ELSE <<n, K>>) THEN "P:nested-shape"
     ELSE IF Len(e.v) # n \/ \E i \in 1..n : Len(e.v[i]) # K THEN "P:nested-shape"
     ELSE IF \E i \in 1..n : \E k \in 1..K : ~IsNum(e.v[i][k]) \/ e.v[i][k] < 0 THEN (IF K = 1 THEN "P:plain-first" ELSE "P:newest")
     ELSE IF \E i \in 1..n : ~PlainOK(e.sq[i][1], rows[i]) THEN "P:plain-first"
     ELSE IF K > 1 /\ \E i \in 1..n : ~ScaledOK(e.sq[i][K], rounds[K - 1], rows[i]) THEN "P:newest"
     ELSE IF \E i \in 1..n : \E k \in 2..(K - 1) : ~ScaledOK(e.sq[i][k], rounds[k - 1], rows[i]) THEN "P:earlier"
     ELSE IF \E s \in 1..Len(seen) : /\ seen[s].qid = e.qid
                                     /\ \E i \in 1..n : \E k \in 1..Len(seen[s].v[i]) : e.v[i][k] # seen[s].v[i][k]
          THEN "P:earlier-unchanged"
     ELSE "ok"

JudgeRun(e) ==
  LET data == Stack(e.sums)
      n == Len(data)
      r == [n |-> n, q |-> Qs(data)]
      res == Stack(e.rsums)
  IN IF e.res # "val" THEN "P:raised"
     ELSE IF data = <<>> \/ \E j \in 1..C : r.q[j] = 0 THEN "X:degenerate-round"
     ELSE IF ~ScaleOK(e.sc2, data) THEN "P:scale"
     ELSE IF e.shape # <<Len(res)>> \/ Len(e.v) # Len(res) THEN "P:one-per-row"
     ELSE IF \E i \in 1..Len(res) : \A k \in 1..n : data[k] # res[i] THEN "P:result-row-not-simulated"
     ELSE IF \E i \in 1..Len(res) : ~(IsNum(e.v[i][1]) /\ e.v[i][1] >= 0 /\ ScaledOK(e.sq[i][1], r, res[i])) THEN "P:newest"
     ELSE "ok"

JudgeP(e) ==
  CASE e.ev = "add" -> JudgeAdd(e)
    [] e.ev = "update" -> JudgeUpdate(e)
    [] e.ev = "gen" -> JudgeGen(e)
    [] e.ev = "run" -> JudgeRun(e)
    [] OTHER -> "X:unknown-event"

\* ---- M: clauses -------------------------------------------------------------------------------
MAdd(e) ==
  LET s2 == AddData("code", st, Stack(e.sums)) IN
  IF e.n # s2.n THEN "M:store-n"
  ELSE IF Len(e.mean) # C \/ \E j \in 1..C : ~Near(e.mean[j], s2.mean[j], U) THEN "M:store-mean"
  ELSE IF Len(e.m2) # C \/ \E j \in 1..C : ~Near(e.m2[j], s2.m2[j], U) THEN "M:store-m2"
  ELSE ""

MUpdate(e) ==
  LET n == Len(rnd) IN
  IF e.nw # Len(rounds) + 2 \/ e.ndf # Len(rounds) + 2 THEN "M:one-function-per-update"
  ELSE IF e.n # 0 THEN "M:new-round-starts-empty"
  ELSE IF Len(e.w2) # C \/ \E j \in 1..C : ~(IsNum(e.w2[j]) /\ Abs(e.w2[j] * Qs(rnd)[j] - n * n * UW) <= Qs(rnd)[j])
       THEN "M:weights-are-inverse-variance"
  ELSE ""

MRun(e) ==
  IF e.nw # Len(rounds) + 2 THEN "M:one-function-per-update"
  ELSE IF e.nsim # Len(Stack(e.sums)) THEN "M:adaptation-data-are-all-simulations"
  ELSE ""

JudgeM(e) ==
  IF e.res # "val" THEN ""
  ELSE CASE e.ev = "add" -> MAdd(e)
         [] e.ev = "update" -> MUpdate(e)
         [] e.ev = "run" -> MRun(e)
         [] OTHER -> ""

Step ==
  /\ ~done
  /\ IF l > Len(T.events) THEN done' = TRUE /\ UNCHANGED <<tid, l, rnd, st, rounds, seen, verdict, drift>>
     ELSE LET e == T.events[l]
              j == JudgeP(e)
              m == IF drift = "" /\ j = "ok" THEN JudgeM(e) ELSE drift
          IN /\ verdict' = j
             /\ drift' = m
             /\ done' = (j # "ok")
             /\ l' = l + 1
             /\ UNCHANGED tid
             /\ IF j # "ok" THEN UNCHANGED <<rnd, st, rounds, seen>>
                ELSE CASE e.ev = "add" ->
                            /\ rnd' = rnd \o Stack(e.sums)
                            /\ st' = AddData("code", st, Stack(e.sums))
                            /\ UNCHANGED <<rounds, seen>>
                       [] e.ev = "update" ->
                            /\ rounds' = Append(rounds, [n |-> Len(rnd), q |-> Qs(rnd)])
                            /\ rnd' = <<>> /\ st' = ZeroStore(C)
                            /\ UNCHANGED seen
                       [] e.ev = "gen" ->
                            /\ seen' = Append(SelectSeq(seen, LAMBDA s : s.qid # e.qid), [qid |-> e.qid, v |-> e.v])
                            /\ UNCHANGED <<rnd, st, rounds>>
                       [] e.ev = "run" ->
                            /\ rounds' = Append(rounds, [n |-> Len(Stack(e.sums)), q |-> Qs(Stack(e.sums))])
                            /\ rnd' = <<>> /\ st' = ZeroStore(C)
                            /\ UNCHANGED seen

Spec == Init /\ [][Step]_vars
Report == done => PrintT(<<"V", tid, l, verdict, drift>>)
=============================================================================

SPECIFICATION Spec
CONSTANTS
  MaxN = 4
  MaxV = 3
  MaxW = 2
  Scales = {1, 2, 3}
  Freq = FALSE
INVARIANT VarIsDefinition
INVARIANT VarDefinedIffTwoPositive
INVARIANT VarNonNegative
INVARIANT EqualWeightsSampleVariance
INVARIANT EssIsDefinition
INVARIANT EssBounds
INVARIANT EssEqualWeights
PROPERTY ScaleInvariant
PROPERTY ZeroWeightIrrelevant
CHECK_DEADLOCK FALSE

------------------------- MODULE ModelPrior_Trace -------------------------
(***************************************************************************)
(* Trace validation for C08.  A trace is ONE real ElfiModel of Prior nodes  *)
(* (exact fake distributions and scipy.stats.uniform), ONE                  *)
(* ModelPrior(model, parameter_names) built from it, and the calls made on  *)
(* it:                                                                      *)
(*   T.unit    coordinates / constants are integers in 1/unit (4 = quarter  *)
(*             lattice; 10^6 for traces whose rvs draws are floats)          *)
(*   T.params  parameter names, alphabetical;  T.args, T.dist  the DAG and   *)
(*             the distribution records (see ModelPriorOps)                  *)
(*   T.names   the requested parameters in the requested order               *)
(*   T.cons    "ok" | "raise" | "hang"  (constructing the ModelPrior)        *)
(*   T.calls   events [op, ndim, rows, hu, size, res, shape, vals, pv, lv,  *)
(*             cnt]:                                                         *)
(*     op = "pdf" | "logpdf": rows = query points; vals = returned numbers   *)
(*     op = "grad": gradient_logpdf(rows, stepsize = hu/unit or default      *)
(*                  when hu = 0); vals row-major                             *)
(*     op = "rvs":  rvs(size or None); rows = the draws, pv / lv = pdf and   *)
(*                  logpdf of the same object at the draws                   *)
(*     cnt[n] = <<pdf, logpdf, rvs>> calls of n's distribution during the    *)
(*              event (-1: real scipy given by name, not counted)            *)
(* Returned numbers are records [k, s, n, d, m, mv]: k = "q" exact fraction  *)
(* n/d | "a" only the fixed-point value | "big" | "inf" | "-inf" | "nan";    *)
(* s the sign; m the value in 10^-6 when mv.                                *)
(* TLC recomputes every expected value from the DAG, the distribution       *)
(* records and the query points (ModelPriorOps).                            *)
(***************************************************************************)
EXTENDS Naturals, Integers, Sequences, FiniteSets, TLC, Json, IOUtils, ModelPriorOps

Traces == JsonDeserialize(IOEnv.TRACE_FILE)

VARIABLES tid, l, mech, verdict, drift, done
vars == <<tid, l, mech, verdict, drift, done>>
T == Traces[tid]

u == T.unit
Names == T.names
Dim == Len(Names)
PS == SeqSet(T.params)
D == [params |-> T.params, args |-> [n \in PS |-> T.args[n]], dist |-> [n \in PS |-> T.dist[n]]]

Min(S) == CHOOSE x \in S : \A y \in S : x <= y
FirstBad(rv) == LET bad == {i \in 1..Len(rv) : rv[i] # "ok"} IN IF bad = {} THEN "ok" ELSE rv[Min(bad)]
IsNum(v) == v.k \in {"q", "a", "big"}

\* ---------------------------------------------------------------- P: clauses
\* (a)(b) pdf at one point
JudgePdfRow(row, v) ==
  IF ~JointDefined(D, Names, row, u) THEN "ok"        \* some conditional has invalid parameters: not decided
  ELSE IF JointZero(D, Names, row, u) THEN (IF IsNum(v) /\ v.s = 0 THEN "ok" ELSE "P:zero-iff")
  ELSE IF ~(IsNum(v) /\ v.s > 0) THEN "P:zero-iff"
  ELSE IF ~JointExact(D, Names, row, u) THEN "ok"
  ELSE IF v.k = "q" /\ <<v.n, v.d>> = JointVal(D, Names, row, u) THEN "ok"
  ELSE "P:product"
\* (b) logpdf at one point
LogExact(row) == \A i \in 1..Dim : D.dist[Names[i]].kind = "unif" => CondExact(D, Names, Names[i], row, u)
LogTol == IF NUnif(D, Names) = 0 THEN 0 ELSE 4
JudgeLogRow(row, v) ==
  IF ~JointDefined(D, Names, row, u) THEN "ok"
  ELSE IF JointZero(D, Names, row, u) THEN (IF v.k = "-inf" THEN "ok" ELSE "P:zero-iff")
  ELSE IF ~IsNum(v) THEN "P:zero-iff"
  ELSE IF ~LogExact(row) THEN "ok"
  ELSE IF v.mv /\ Abs(v.m - JointLogMicro(D, Names, row, u)) <= LogTol THEN "ok"
  ELSE "P:log-consistent"
\* (e) one component of the gradient
JudgeGradAt(row, j, v, hu) ==
  IF ~Smooth(D, Names, j, row, u, hu) THEN "ok"       \* not decided: boundary / kink / smooth log density
  ELSE IF IsNum(v) /\ v.mv /\ Abs(v.m - DerivativeMicro(D, Names, Names[j], row, u)) <= 2 THEN "ok"
  ELSE "P:grad"

PosTol == IF u = 4 THEN 0 ELSE 2
JudgeP(e) ==
  LET n == Len(e.rows)
      cntIn == IF e.ndim = 0 THEN 1 ELSE n * Dim
  IN
  IF e.res = "hang" THEN "P:returns"
  ELSE IF e.res = "raise" THEN
     \* invalid distribution parameters at a query point (not decided) may be rejected by the distribution
     IF e.op # "rvs" /\ \E i \in 1..n : ~JointDefined(D, Names, e.rows[i], u) THEN "ok"
     ELSE "P:no-exception-at-a-well-formed-point"
  ELSE IF e.op \in {"pdf", "logpdf"} THEN
     IF e.shape # SpecShapeEval(e.ndim, cntIn, Dim) \/ Len(e.vals) # n THEN "P:shape"
     ELSE FirstBad([i \in 1..n |-> IF e.op = "pdf" THEN JudgePdfRow(e.rows[i], e.vals[i]) ELSE JudgeLogRow(e.rows[i], e.vals[i])])
  ELSE IF e.op = "grad" THEN
     IF e.shape # SpecShapeGrad(e.ndim, cntIn, Dim) \/ Len(e.vals) # n * Dim THEN "P:shape"
     ELSE FirstBad([q \in 1..(n * Dim) |->
                      JudgeGradAt(e.rows[((q - 1) \div Dim) + 1], ((q - 1) % Dim) + 1, e.vals[q], e.hu)])
  ELSE \* rvs
     IF e.shape # SpecShapeRvs(e.size, Dim) \/ n # (IF e.size = 0 THEN 1 ELSE e.size)
        \/ Len(e.pv) # n \/ Len(e.lv) # n THEN "P:shape"
     ELSE FirstBad([i \in 1..n |->
            IF ~JointPositiveTol(D, Names, e.rows[i], u, PosTol) THEN "P:rvs-positive"
            ELSE IF ~(IsNum(e.pv[i]) /\ e.pv[i].s > 0 /\ IsNum(e.lv[i])) THEN "P:rvs-positive"
            ELSE IF u = 4 /\ JudgePdfRow(e.rows[i], e.pv[i]) # "ok" THEN JudgePdfRow(e.rows[i], e.pv[i])
            ELSE IF u = 4 /\ JudgeLogRow(e.rows[i], e.lv[i]) # "ok" THEN JudgeLogRow(e.rows[i], e.lv[i])
            ELSE "ok"])

\* ---------------------------------------------------------------- M: the code follows ModelPrior.tla
\* how often each distribution method runs: from the execution set of the design module's Evaluate
RvsRan == LET E == UNION {{<<q, n, 0>> : q \in ParamArgs(D, n)} : n \in PS} IN AncOrSelf(E, SeqSet(Names))
ExpCount(e, n) ==
  LET rows == Len(e.rows)
      inP == IF U(A("pdf", n)) \in mech.pdf THEN 1 ELSE 0
      inL == IF U(A("logpdf", n)) \in mech.logpdf THEN 1 ELSE 0
      drawnP == IF U(P(n)) \in mech.pdf THEN 1 ELSE 0
      drawnL == IF U(P(n)) \in mech.logpdf THEN 1 ELSE 0
  IN IF e.op = "pdf" THEN <<inP, 0, drawnP>>
     ELSE IF e.op = "logpdf" THEN <<0, inL, drawnL>>
     ELSE IF e.op = "grad" THEN <<0, rows * inL, rows * drawnL>>
     ELSE <<inP, inL, (IF n \in RvsRan THEN 1 ELSE 0) + drawnP + drawnL>>
JudgeM(e) ==
  IF e.res # "val" THEN ""
  ELSE IF \E n \in PS : e.cnt[n][1] >= 0 /\ e.cnt[n] # ExpCount(e, n) THEN "M:each-conditional-evaluated-once-no-prior-draw"
  ELSE ""

Init == /\ tid \in 1..Len(Traces) /\ l = 1 /\ verdict = "ok" /\ drift = "" /\ done = FALSE
        /\ mech = IF T.cons = "ok" /\ T.mech
                  THEN [pdf |-> Evaluate(D, Names, "pdf", TRUE).ran, logpdf |-> Evaluate(D, Names, "logpdf", TRUE).ran]
                  ELSE [pdf |-> {}, logpdf |-> {}]

Step ==
  /\ ~done
  /\ UNCHANGED <<tid, mech>>
  /\ IF T.cons # "ok" THEN verdict' = "P:constructs" /\ done' = TRUE /\ l' = l /\ UNCHANGED drift
     ELSE IF l > Len(T.calls) THEN done' = TRUE /\ UNCHANGED <<l, verdict, drift>>
     ELSE LET e == T.calls[l]
              j == JudgeP(e)
          IN /\ verdict' = j
             /\ drift' = IF drift = "" /\ T.mech THEN JudgeM(e) ELSE drift
             /\ done' = (j # "ok")
             /\ l' = l + 1

Spec == Init /\ [][Step]_vars
Report == done => PrintT(<<"V", tid, l, verdict, drift>>)
=============================================================================

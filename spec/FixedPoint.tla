----------------------------- MODULE FixedPoint -----------------------------
(***************************************************************************)
(* Number conventions shared by the C17 modules LinAdjust.. / ModelCompare.. *)
(*                                                                         *)
(* Inputs are small integers; three reserved codes stand for the           *)
(* non-finite floats and are ordered the way numpy sorts floats:           *)
(*      -inf (NINF) < every finite value < +inf (PINF) < nan (NAN).        *)
(* Outputs of the real code are logged in fixed point, unit 10^-6, and     *)
(* compared with exact rationals N/D by long division (TLC integers are    *)
(* 32 bit, so N * 10^6 cannot be formed).                                  *)
(***************************************************************************)
EXTENDS Naturals, Integers

PINF == 100000
NINF == -100000
NAN == 100001
IsFin(v) == v > NINF /\ v < PINF

Abs(x) == IF x < 0 THEN -x ELSE x
Unit == 1000000
\* logged instead of a fixed-point value: too large for the unit / nan / +inf / -inf
FxBig == 2147000000
FxNaN == 2147000001
FxPInf == 2147000002
FxNInf == -2147000002
FxFinite(v) == Abs(v) < FxBig

\* floor(N * 10^6 / D) by long division, D > 0 (TLC integers are 32 bit: needs 10*D < 2^31 and
\* |N \div D| <= 2146).  \div and % are floor division / non-negative remainder.
RECURSIVE Digits(_, _, _, _)
Digits(r, D, k, acc) == IF k = 0 THEN acc
                        ELSE Digits((r * 10) % D, D, k - 1, acc * 10 + ((r * 10) \div D))
FxFloor(N, D) == Digits(N % D, D, 6, N \div D)
FxRepresentable(N, D) == D > 0 /\ D <= 200000000 /\ Abs(N \div D) <= 2000
\* a float within << 1/2 unit of N/D, rounded to the unit 10^-6, is the floor or the floor + 1
FxMatches(v, N, D) == LET lo == FxFloor(N, D) IN v = lo \/ v = lo + 1
=============================================================================

------------------------------ MODULE PoolApi ------------------------------
(***************************************************************************)
(* store.OutputPool as a state machine over its public API (extension of    *)
(* the specification beyond the listed properties; bound by the C05 check). *)
(*   stores : node -> (batch index -> value)     (None stores are created   *)
(*            on demand: modelled as empty)                                  *)
(* add_batch never overwrites an existing (node, batch); it ignores nodes    *)
(* that have no store; remove_batch removes the batch from every store that  *)
(* holds it; len(pool) is the LARGEST number of batches held by any store;   *)
(* `i in pool` is len(pool) > i (so it is not "some store holds i" when      *)
(* batches are held out of order - recorded, not judged).                    *)
(***************************************************************************)
EXTENDS Naturals, Sequences, FiniteSets, TLC

CONSTANTS Nodes, Batches, Vals, MaxOps
VARIABLES stores, nops
vars == <<stores, nops>>
Init == stores = [n \in Nodes |-> <<>>] /\ nops = 0

AddBatchTo(st, batch, i) ==
  [n \in DOMAIN st |-> IF n \in DOMAIN batch /\ i \notin DOMAIN st[n]
                       THEN [j \in DOMAIN st[n] \cup {i} |-> IF j = i THEN batch[n] ELSE st[n][j]]
                       ELSE st[n]]
RemoveBatchFrom(st, i) == [n \in DOMAIN st |-> [j \in DOMAIN st[n] \ {i} |-> st[n][j]]]
GetBatch(st, i) == [n \in {m \in DOMAIN st : i \in DOMAIN st[m]} |-> st[n][i]]
Max(S) == IF S = {} THEN 0 ELSE CHOOSE x \in S : \A y \in S : y <= x
PoolLen(st) == Max({Cardinality(DOMAIN st[n]) : n \in DOMAIN st})

AddBatch == \E i \in Batches, ns \in SUBSET (Nodes \cup {"other"}) : \E v \in Vals :
              stores' = AddBatchTo(stores, [n \in ns |-> v], i)
RemoveBatch == \E i \in Batches : stores' = RemoveBatchFrom(stores, i)
RemoveStore == \E n \in DOMAIN stores : stores' = [m \in DOMAIN stores \ {n} |-> stores[m]]
Clear == stores' = [n \in DOMAIN stores |-> <<>>]
Next == nops < MaxOps /\ nops' = nops + 1 /\ (AddBatch \/ RemoveBatch \/ RemoveStore \/ Clear)
Spec == Init /\ [][Next]_vars

\* a held value never changes except by removal (add_batch never overwrites)
NeverOverwrites == [][\A n \in DOMAIN stores \cap DOMAIN stores' : \A i \in DOMAIN stores[n] \cap DOMAIN stores'[n] :
                         stores'[n][i] = stores[n][i]]_vars
LenBounds == PoolLen(stores) <= Cardinality(Batches)
OnlyKnownNodes == DOMAIN stores \subseteq Nodes
=============================================================================

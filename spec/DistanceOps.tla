---------------------------- MODULE DistanceOps ----------------------------
(***************************************************************************)
(* Pure operators for C12, shared by the design module Distance.tla and    *)
(* the trace specifications Distance_Trace.tla / Welford_Trace.tla.        *)
(*                                                                         *)
(* STATEMENT LEVEL.  The output of a summary node for a batch is a         *)
(* sequence of rows; a row is a sequence of integers (a scalar summary has *)
(* rows of length 1).  "Column-stacked summaries" = row-wise concatenation *)
(* (Stack).  The observed value of a summary is one row.                   *)
(*                                                                         *)
(* Metrics are the scipy.spatial.distance definitions restricted to        *)
(* integer data, in INTEGER FORM: a metric descriptor m is a record        *)
(*   [name, p, w, V, VI]   (w, V: sequences, <<>> = not given;             *)
(*                          VI: square matrix as sequence of rows)         *)
(* and  MetricInt(m, u, v)  is the integer N with                          *)
(*   Form(m) = "lin":  distance            = N                             *)
(*   Form(m) = "sq" :  distance^2 * Den(m) = N      (distance >= 0)        *)
(* so that Euclidean forms are compared through their square.              *)
(*   cityblock        sum_j w_j |u_j - v_j|                                *)
(*   chebyshev        max_j |u_j - v_j|          (w > 0 has no effect)     *)
(*   sqeuclidean      sum_j w_j (u_j - v_j)^2                              *)
(*   minkowski p=1    sum_j w_j |u_j - v_j|                                *)
(*   minkowski p=2    sqrt(sum_j w_j (u_j - v_j)^2)      (p=2 is default)  *)
(*   euclidean        sqrt(sum_j w_j (u_j - v_j)^2)                        *)
(*   seuclidean       sqrt(sum_j (u_j - v_j)^2 / V_j),  V_j in {1,2,4}:    *)
(*                    Den = 4,  N = sum_j (u_j - v_j)^2 * (4 / V_j)        *)
(*   mahalanobis      sqrt(d VI d^T),  d = u - v,  VI an integer matrix    *)
(***************************************************************************)
EXTENDS Naturals, Integers, Sequences

Abs(x) == IF x < 0 THEN -x ELSE x
Max2(a, b) == IF a >= b THEN a ELSE b

RECURSIVE SumSeq(_)
SumSeq(s) == IF s = <<>> THEN 0 ELSE Head(s) + SumSeq(Tail(s))
RECURSIVE MaxSeq(_)
MaxSeq(s) == IF s = <<>> THEN 0 ELSE Max2(Head(s), MaxSeq(Tail(s)))

\* concatenation of a sequence of sequences
RECURSIVE Cat(_)
Cat(ss) == IF ss = <<>> THEN <<>> ELSE Head(ss) \o Cat(Tail(ss))

\* ---- stacking (the meaning of column_stack / atleast_2d / concatenate(axis=1)) ----------
\* sums[k][i] = row i of summary k
NRows(sums) == Len(sums[1])
StackRow(sums, i) == Cat([k \in 1..Len(sums) |-> sums[k][i]])
Stack(sums) == [i \in 1..NRows(sums) |-> StackRow(sums, i)]
\* obs[k] = the observed row of summary k
StackObs(obs) == Cat(obs)

\* ---- metrics --------------------------------------------------------------------------
NoArg == <<>>
Wt(m, j) == IF m.w = NoArg THEN 1 ELSE m.w[j]
Delta(u, v) == [j \in 1..Len(u) |-> u[j] - v[j]]

L1(m, u, v)   == SumSeq([j \in 1..Len(u) |-> Wt(m, j) * Abs(u[j] - v[j])])
L2sq(m, u, v) == SumSeq([j \in 1..Len(u) |-> Wt(m, j) * (u[j] - v[j]) * (u[j] - v[j])])
\* scipy: weights only select coordinates (w > 0); the harness uses positive weights only
Linf(m, u, v) == MaxSeq([j \in 1..Len(u) |-> IF Wt(m, j) > 0 THEN Abs(u[j] - v[j]) ELSE 0])
SEucl4(m, u, v) == SumSeq([j \in 1..Len(u) |-> (u[j] - v[j]) * (u[j] - v[j]) * (4 \div m.V[j])])
Mahal(m, u, v) == LET d == Delta(u, v) IN
  SumSeq([a \in 1..Len(d) |-> d[a] * SumSeq([b \in 1..Len(d) |-> m.VI[a][b] * d[b]])])

KnownMetric(m) ==
  \/ m.name \in {"cityblock", "chebyshev", "sqeuclidean", "euclidean"}
  \/ m.name = "minkowski" /\ m.p \in {1, 2}
  \/ m.name = "seuclidean" /\ m.V # NoArg
  \/ m.name = "mahalanobis" /\ m.VI # NoArg

Form(m) == IF m.name \in {"cityblock", "chebyshev", "sqeuclidean"} \/ (m.name = "minkowski" /\ m.p = 1)
           THEN "lin" ELSE "sq"
Den(m) == IF m.name = "seuclidean" THEN 4 ELSE 1

MetricInt(m, u, v) ==
  CASE m.name = "cityblock"   -> L1(m, u, v)
    [] m.name = "chebyshev"   -> Linf(m, u, v)
    [] m.name = "sqeuclidean" -> L2sq(m, u, v)
    [] m.name = "minkowski"   -> IF m.p = 1 THEN L1(m, u, v) ELSE L2sq(m, u, v)
    [] m.name = "euclidean"   -> L2sq(m, u, v)
    [] m.name = "seuclidean"  -> SEucl4(m, u, v)
    [] m.name = "mahalanobis" -> Mahal(m, u, v)

\* the property's right-hand side: one value per simulated row
Expected(m, sums, obs) == [i \in 1..NRows(sums) |-> MetricInt(m, StackRow(sums, i), StackObs(obs))]
=============================================================================

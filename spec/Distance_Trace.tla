--------------------------- MODULE Distance_Trace ---------------------------
(***************************************************************************)
(* Trace validation for C12 (a): real elfi.Distance nodes.                 *)
(*                                                                         *)
(* A trace is one node configuration                                       *)
(*   widths  width of every summary (0 = scalar)                           *)
(*   obs     observed row of every summary (sequence of integers)          *)
(*   metric  [name, p, w, V, VI, callable]   (<<>> = keyword not given)    *)
(*   unit    fixed-point unit U of the logged outputs                      *)
(* and a sequence of evaluations of the node (events):                     *)
(*   mode    "with_values" | "default_bs" | "model" | "sampler" (who       *)
(*           called the node; only informative)                            *)
(*   sums    INPUT: sums[k][i] = row i of summary k (integers)             *)
(*   res     "val" | "raise" | "hang"                                      *)
(*   shape   OUTPUT: shape of the returned array                           *)
(*   v, sq   OUTPUT: round(d * U) and round(d * d * U) of every returned   *)
(*           value d, flattened (non-finite / too large: |x| >= 2*10^9)    *)
(*   xsh, ysh, x, y   what a harness-supplied callable distance received   *)
(*           (mode "callable" only): shapes and contents of XA and XB      *)
(* TLC recomputes the expected value of every row from the logged inputs   *)
(* with DistanceOps!MetricInt over Stack(sums) and StackObs(obs).          *)
(* Integer-valued metrics must match exactly; Euclidean forms are compared *)
(* through their square (d*d*Den = N, exact to the unit for integer data). *)
(***************************************************************************)
EXTENDS Naturals, Integers, Sequences, FiniteSets, TLC, Json, IOUtils, DistanceOps

Traces == JsonDeserialize(IOEnv.TRACE_FILE)

VARIABLES tid, l, verdict, drift, done
vars == <<tid, l, verdict, drift, done>>

T == Traces[tid]
U == T.unit
M == T.metric
IsNum(x) == x > -1000000000 /\ x < 1000000000

Init == tid \in 1..Len(Traces) /\ l = 1 /\ verdict = "ok" /\ drift = "" /\ done = FALSE

\* summaries read back from a sampler's result must be integers of the input domain (the harness
\* logs 999999 for anything else, e.g. uninitialised filler memory)
Sane(u) == \A j \in 1..Len(u) : u[j] > -100000 /\ u[j] < 100000
RowOK(e, i) ==
  LET N == MetricInt(M, StackRow(e.sums, i), StackObs(T.obs)) IN
  /\ Sane(StackRow(e.sums, i))
  /\ IsNum(e.v[i]) /\ IsNum(e.sq[i])
  /\ IF Form(M) = "lin" THEN e.v[i] = N * U
     ELSE e.v[i] >= 0 /\ Den(M) * e.sq[i] = N * U

\* first failing clause of the PROPERTY for event e, or "ok"
JudgeP(e) ==
  IF ~KnownMetric(M) THEN "X:unknown-metric"
  ELSE IF e.res = "raise" THEN "P:raised"
  ELSE IF e.res = "hang" THEN "P:no-return"
  ELSE IF Len(e.sums) # Len(T.widths) THEN "X:summaries"
  ELSE IF e.shape # <<NRows(e.sums)>> \/ Len(e.v) # NRows(e.sums) THEN "P:one-per-row"
  ELSE IF \E i \in 1..NRows(e.sums) : ~RowOK(e, i) THEN "P:metric"
  ELSE "ok"

\* mechanism (visible only through a harness-supplied callable distance): XA is the (n, m) array
\* of column-stacked summaries, XB the (1, m) array of stacked observed summaries
JudgeM(e) ==
  IF e.res # "val" \/ ~M.callable \/ e.xsh = <<>> THEN ""          \* nothing logged for this evaluation
  ELSE LET mm == Len(StackObs(T.obs)) IN
       IF e.xsh # <<NRows(e.sums), mm>> THEN "M:XA-shape"
       ELSE IF e.ysh # <<1, mm>> THEN "M:XB-shape"
       ELSE IF e.x # Stack(e.sums) THEN "M:XA-is-column-stack"
       ELSE IF e.y # <<StackObs(T.obs)>> THEN "M:XB-is-stacked-observed"
       ELSE ""

Step ==
  /\ ~done
  /\ IF l > Len(T.events) THEN done' = TRUE /\ UNCHANGED <<tid, l, verdict, drift>>
     ELSE LET e == T.events[l]
              j == JudgeP(e)
              m == IF drift = "" /\ j = "ok" THEN JudgeM(e) ELSE drift
          IN /\ verdict' = j
             /\ drift' = m
             /\ done' = (j # "ok")
             /\ l' = l + 1
             /\ UNCHANGED tid

Spec == Init /\ [][Step]_vars
Report == done => PrintT(<<"V", tid, l, verdict, drift>>)
=============================================================================

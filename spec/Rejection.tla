------------------------------ MODULE Rejection ------------------------------
(***************************************************************************)
(* elfi.methods.inference.samplers.Rejection as a state machine over the   *)
(* public stepping API:                                                    *)
(*    set_objective(n_samples, threshold | quantile | n_sim)     Init       *)
(*    update(batch, batch_index)   (= _init_samples_lazy, _merge_batch,     *)
(*          _update_state_meta, _update_objective_n_batches)     Update     *)
(*    `finished`  and  extract_result()                          Extract    *)
(* The buffer has N+BS rows; rows never written hold distance +inf and an   *)
(* uninitialised payload (Filler).                                          *)
(***************************************************************************)
EXTENDS Naturals, Integers, Sequences, FiniteSets, TLC, RejectionOps

CONSTANTS BS,          \* batch_size
          N,           \* n_samples
          DVals,       \* discrepancy values a draw may have (codes, see RejectionOps)
          Thr,         \* threshold, or NoThr
          Budget,      \* n_sim (or ceil(n_samples/quantile)); 0 in threshold mode
          InitB,       \* initial objective n_batches in threshold mode (= max_parallel_batches)
          MaxBatches   \* exploration bound

ASSUME (Thr = NoThr) <=> (Budget > 0)
ASSUME Budget > 0 => Budget >= N          \* else extract_result returns fillers by construction

VARIABLES phase, buf, consumed, nCons, objB, stThr
vars == <<phase, buf, consumed, nCons, objB, stThr>>

Init == /\ phase = "run"
        /\ buf = [i \in 1..(N + BS) |-> Filler]
        /\ consumed = {} /\ nCons = 0
        /\ objB = IF Budget > 0 THEN Ceil(Budget, BS) ELSE InitB
        /\ stThr = INF

Finished == objB <= nCons

Update ==
  /\ phase = "run" /\ ~Finished /\ nCons < MaxBatches
  /\ \E ds \in [1..BS -> DVals] :
       LET batch == [r \in 1..BS |-> [id |-> nCons * BS + r - 1, d |-> ds[r]]] IN
       /\ buf' \in MergeResults(buf, batch, Thr)
       /\ consumed' = consumed \cup {batch[r] : r \in 1..BS}
       /\ stThr' = buf'[N].d
       /\ objB' = ObjAfter(objB, buf', Thr, N, BS, (nCons + 1) * BS)
  /\ nCons' = nCons + 1
  /\ UNCHANGED phase

Extract ==
  /\ phase = "run" /\ Finished
  /\ phase' = "done"
  /\ UNCHANGED <<buf, consumed, nCons, objB, stThr>>

Next == Update \/ Extract
Spec == Init /\ [][Next]_vars

\* ---- properties (C01) ---------------------------------------------------------
Result == SubSeq(buf, 1, N)
Done == phase = "done"
Elig == Eligible(consumed, Thr)
\* (a) the N eligible draws with the smallest discrepancy (as a multiset of discrepancies: the
\*     choice among equal discrepancies is free)
BestN == Done => [i \in 1..N |-> Result[i].d] = SmallestDs(Elig, N)
\* (a)/(c) every returned row is one of the consumed draws, whole (id and d from the same draw)
AreConsumedDraws == Done => \A i \in 1..N : Result[i] \in Elig
\* what holds in the presence of +inf / nan draws: as soon as N *finite* eligible draws exist
AreConsumedDrawsWhenEnoughFinite ==
  (Done /\ Cardinality({c \in Elig : c.d < INF}) >= N) => \A i \in 1..N : Result[i] \in Elig
NoDuplicates == Done => \A i, j \in 1..N : (i # j /\ Result[i].id # -1) => Result[i].id # Result[j].id
\* (b)
Sorted == SortedByD(buf)
\* (d)
ThrIsMax == Done => stThr = Result[N].d
\* (f)
BudgetBatches == (Done /\ Budget > 0) => nCons = Ceil(Budget, BS)
\* threshold mode stops only with N acceptable draws
ThresholdModeFull == (Done /\ Thr # NoThr) => \A i \in 1..N : LeqThr(Result[i].d, Thr)
\* inductive buffer invariant: at every moment the first N rows hold the best eligible draws so far
RECURSIVE Pad(_, _)
Pad(s, n) == IF Len(s) >= n THEN s ELSE Pad(Append(s, INF), n)
FirstRowsBest == [i \in 1..N |-> IF buf[i].d = NAN THEN INF ELSE buf[i].d]
                   = Pad(SmallestDs({c \in Elig : c.d < INF}, N), N)
=============================================================================

--------------------------- MODULE MetropolisOps ---------------------------
(***************************************************************************)
(* Pure operators of elfi.methods.mcmc.metropolis, shared by the design    *)
(* module Metropolis.tla and the trace specification Metropolis_Trace.tla. *)
(*                                                                         *)
(*   for ii in 1 .. n_samples + warmup:                                    *)
(*       samples[ii] = samples[ii-1] + sigma * random_state.randn(d)       *)
(*       target_prev = target_current                                      *)
(*       target_current = target(samples[ii])                              *)
(*       if (exp(target_current - target_prev) < random_state.rand()       *)
(*           or isinf(target_current) or isnan(target_current)):           *)
(*           samples[ii] = samples[ii-1]; target_current = target_prev     *)
(*   return samples[(1 + warmup):]                                         *)
(*                                                                         *)
(* A log-target value is abstracted to its class; `cmp` is the outcome of  *)
(* the float comparison  exp(tprop - tcur) < u  ("lt" = TRUE, "ge" =       *)
(* FALSE).  States are ids: 0 = the start, i = the i-th proposal.          *)
(***************************************************************************)
EXTENDS Naturals, Integers, Sequences

TClass == {"fin", "-inf", "inf", "nan"}
CmpOutcomes == {"lt", "ge"}

\* ---- the code ---------------------------------------------------------------
\* np.isinf is TRUE for both infinities; the guards are switchable only for the negative controls
RejectsG(tprop, cmp, guardInf, guardNaN) ==
  \/ cmp = "lt"
  \/ (guardInf /\ tprop \in {"-inf", "inf"})
  \/ (guardNaN /\ tprop = "nan")
Rejects(tprop, cmp) == RejectsG(tprop, cmp, TRUE, TRUE)
Accepts(tprop, cmp) == ~Rejects(tprop, cmp)

\* what IEEE arithmetic can produce for exp(tprop - tcur) < u with tcur finite and u in [0, 1):
\* exp(nan) < u and exp(+inf) < u are FALSE; exp(-inf) = 0 < u unless u = 0
Realizable(tprop, cmp) ==
  CASE tprop = "nan" -> cmp = "ge"
    [] tprop = "inf" -> cmp = "ge"
    [] OTHER -> cmp \in CmpOutcomes

\* state after one iteration; st = [cur |-> id, tcur |-> class]
StepState(st, i, tprop, cmp) == IF Accepts(tprop, cmp) THEN [cur |-> i, tcur |-> tprop] ELSE st

\* `samples` holds n + warmup + 1 states, samples[1] is the start (python index 0);
\* python samples[(from + warmup):] with from = 1
OutSliceFrom(samples, warmup, from) == SubSeq(samples, from + warmup + 1, Len(samples))
OutSlice(samples, warmup) == OutSliceFrom(samples, warmup, 1)

\* ---- the statement ------------------------------------------------------------
\* "accepted precisely when a uniform draw is below the target ratio and the proposed
\*  log-target is finite"
AcceptsStmt(tprop, cmp) == tprop = "fin" /\ cmp = "ge"

\* ---- exact comparison on the lattice  target = k * ln 2 -------------------------
\* ratio = 2^(kp - kc);  u is known through u30 = floor(u * 2^30).  Returns the outcome of
\* ratio < u, or "either" when u lies within 2^-30 of the ratio (float rounding of
\* exp((kp - kc) * ln 2), relative error < 10^-13, cannot be excluded there).
RECURSIVE Pow2(_)
Pow2(n) == IF n = 0 THEN 1 ELSE 2 * Pow2(n - 1)
CmpLattice(kp, kc, u30) ==
  LET m == kp - kc IN
  IF m >= 0 THEN "ge"                                   \* ratio >= 1 > u
  ELSE IF m < -30 THEN (IF u30 >= 1 THEN "lt" ELSE "either")
  ELSE LET r == Pow2(30 + m) IN                          \* ratio * 2^30
       IF u30 >= r + 1 THEN "lt"
       ELSE IF u30 <= r - 2 THEN "ge"
       ELSE "either"
=============================================================================

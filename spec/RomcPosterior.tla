---------------------------- MODULE RomcPosterior ----------------------------
(***************************************************************************)
(* Design module for C19(d,e): RomcPosterior over N accepted problems.     *)
(*                                                                         *)
(* Init chooses the regions (bounding boxes, BBoxOps), the cut-off and     *)
(* whether local surrogates are used.  EvalPdf is one evaluation of        *)
(* _pdf_unnorm_single_point at a lattice point: the distances of the N     *)
(* objectives at that point and the prior density are free (arbitrary      *)
(* objectives, arbitrary prior).  DrawWeight is one (region, draw) pair of *)
(* sample(): the draw is any lattice point of the widened limits mapped    *)
(* forward as NDimBoundingBox.sample does.                                 *)
(*                                                                         *)
(* DensityLeq / WeightLt = TRUE is the code (`<=` for the density, `<` for *)
(* the weights); the negative control swaps them.                          *)
(***************************************************************************)
EXTENDS Integers, Sequences, FiniteSets, TLC, BBoxOps, RomcPosteriorOps

CONSTANTS N,          \* number of accepted problems
          D,          \* dimension
          Boxes,      \* set of raw boxes [R, c, lim]
          LMax, Eps,  \* bound on limits, widening threshold (as in BBox.tla)
          PR,         \* pdf is evaluated at lattice points with coordinates in -PR..PR
          DMax,       \* distances are in 0..DMax
          Cutoffs,    \* set of eps_cutoff values
          Priors,     \* set of prior density values <<num, den>>
          DensityLeq, WeightLt

VARIABLES regs, eps, surr, ev
vars == <<regs, eps, surr, ev>>

NoEv == [kind |-> "none"]
Built(b) == [R |-> b.R, rinv |-> Inverse(b.R), c |-> b.c, lim |-> Secure(b.lim, Eps)]
InsideVec(x) == [k \in 1..N |-> Contains(regs[k].rinv, regs[k].c, regs[k].lim, x)]
BodyLattice(lim) == {u \in [1..D -> -(LMax + Eps)..(LMax + Eps)] : InLimits(lim, u)}

Init == /\ regs \in [1..N -> {Built(b) : b \in Boxes}]
        /\ eps \in Cutoffs /\ surr \in BOOLEAN /\ ev = NoEv

EvalPdf(x, d, pr) ==
  /\ ev' = [kind |-> "pdf", x |-> x, d |-> d, pr |-> pr, i |-> 0, dist |-> 0,
            val |-> PdfUnnorm(pr, InsideVec(x), d, eps, surr, DensityLeq)]
  /\ UNCHANGED <<regs, eps, surr>>

DrawWeight(i, u, dist, pr) ==
  LET x == Forward(regs[i].R, regs[i].c, u)
      q == Pdf(regs[i].rinv, regs[i].c, regs[i].lim, x)
  IN /\ ev' = [kind |-> "w", x |-> x, d |-> <<>>, pr |-> pr, i |-> i, dist |-> dist,
               val |-> Weight(pr, q, dist, eps, WeightLt)]
     /\ UNCHANGED <<regs, eps, surr>>

\* (one evaluation per behaviour; the guard stands outside the quantifiers)
EvalPdfStep == /\ ev = NoEv
               /\ \E x \in [1..D -> -PR..PR], d \in [1..N -> 0..DMax], pr \in Priors : EvalPdf(x, d, pr)
DrawWeightStep == /\ ev = NoEv
                  /\ \E i \in 1..N : \E u \in BodyLattice(regs[i].lim), dist \in 0..DMax, pr \in Priors :
                        DrawWeight(i, u, dist, pr)
Next == EvalPdfStep \/ DrawWeightStep
Spec == Init /\ [][Next]_vars

\* ---- theorems -----------------------------------------------------------------------
\* (d) unnormalised density = prior density * number of accepted problems within the cut-off
\*     (and containing the point when local surrogates are used)
DensityCount ==
  ev.kind = "pdf" => ev.val = <<ev.pr[1] * CountDef(InsideVec(ev.x), ev.d, eps, surr), ev.pr[2]>>

\* (e) weight of a drawn sample = indicator(distance below cut-off) * prior / region density
WeightFormula ==
  ev.kind = "w" => RatEq(ev.val, WeightDef(ev.pr, Volume(regs[ev.i].lim), ev.dist, eps))

\* (d)+(e) are consistent: a sample with positive weight is counted by the density at its point,
\* whatever the other objectives say there
PositiveWeightCounted ==
  (ev.kind = "w" /\ ev.val[1] > 0) =>
     \A d \in [1..N -> 0..DMax] :
        d[ev.i] = ev.dist => PdfUnnorm(ev.pr, InsideVec(ev.x), d, eps, surr, DensityLeq)[1] >= ev.pr[1]

\* weights are never negative and vanish outside the prior's support
WeightSane == ev.kind = "w" => ev.val[1] >= 0 /\ ev.val[2] > 0 /\ (ev.pr[1] = 0 => ev.val[1] = 0)
=============================================================================

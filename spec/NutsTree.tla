------------------------------ MODULE NutsTree ------------------------------
(***************************************************************************)
(* Design module for C09 (d), NUTS part: one iteration of                  *)
(* elfi.methods.mcmc.nuts over abstract leaf outcomes (NutsTreeOps).       *)
(*                                                                         *)
(*   samples[ii] = samples_prev; depth = 0; n_ok = 1; all_ok = True        *)
(*   while all_ok and depth <= max_depth:                                  *)
(*       direction = +-1                                                   *)
(*       ..., params1, n_sub, sub_ok, ... = _build_tree_nuts(end, ..., depth, ...)  *)
(*       if sub_ok == 1:                                                   *)
(*           if rand() < float(n_sub) / n_ok: samples[ii] = params1        *)
(*       n_ok += n_sub                                                     *)
(*       all_ok = sub_ok and no U-turn between the two ends                *)
(*       depth += 1                                                        *)
(*                                                                         *)
(* One action = one pass of the loop body (one tree doubling).  The tree   *)
(* built in a pass ranges over EVERY assignment of outcomes to its 2^depth *)
(* potential leaves, every U-turn answer and every selection draw.  The    *)
(* direction of a doubling only decides which end the tree grows from,     *)
(* which matters to the U-turn tests alone - free booleans here.           *)
(*                                                                         *)
(* Theorem SelectedIsInSliceLeafOrPrevious: whatever the leaves do, the    *)
(* state written to samples[ii] is the previous sample or a leaf inside    *)
(* the slice - in particular never a leaf whose log-target is -inf or NaN  *)
(* (such a leaf has log_joint = -inf / NaN, outcome "div").                *)
(***************************************************************************)
EXTENDS Naturals, Integers, Sequences, FiniteSets, TLC, NutsTreeOps

CONSTANTS MaxDepth,     \* max_depth
          MergeGuard    \* TRUE in the code (`if n_sub2 > 0`); FALSE is a negative control

VARIABLES depth, nOk, allOk,
          sel,          \* state in samples[ii]: 0 = samples_prev, k = leaf k
          hist,         \* outcomes of the leaves built so far (creation order)
          fin
vars == <<depth, nOk, allOk, sel, hist, fin>>

AllOuts(d) == [1..Pow2n(d) -> Outcomes]
\* every result of _build_tree_nuts(depth = d) over every outcome assignment, with the outcomes of the
\* leaves that were actually built (a tree stops early after a failed first half)
BuildAll(d) ==
  UNION { { [outs |-> SubSeq(o, 1, r.len), n |-> r.n, ok |-> r.ok, cand |-> r.cand] : r \in Build(d, o, 0, MergeGuard) }
          : o \in AllOuts(d) }
Results == [d \in 0..MaxDepth |-> BuildAll(d)]

Init == depth = 0 /\ nOk = 1 /\ allOk = TRUE /\ sel = 0 /\ hist = <<>> /\ fin = FALSE

Double ==
  /\ ~fin /\ allOk /\ depth <= MaxDepth
  /\ \E r \in Results[depth], noUturn \in BOOLEAN :
       \E take \in TopTake(r, nOk) :
         /\ sel' = IF take THEN Len(hist) + r.cand ELSE sel
         /\ nOk' = nOk + r.n
         /\ allOk' = (r.ok /\ noUturn)
         /\ depth' = depth + 1
         /\ hist' = hist \o r.outs
         /\ fin' = FALSE

Finish ==
  /\ ~fin /\ (~allOk \/ depth > MaxDepth)
  /\ fin' = TRUE /\ UNCHANGED <<depth, nOk, allOk, sel, hist>>

Next == Double \/ Finish
Spec == Init /\ [][Next]_vars

\* ---- theorems --------------------------------------------------------------------
InSlice(s) == s = 0 \/ (s \in 1..Len(hist) /\ hist[s] = "in")
SelectedIsInSliceLeafOrPrevious == InSlice(sel)
\* n_ok counts the previous sample and the in-slice leaves
NOkCountsSlice == nOk = 1 + Cardinality({i \in 1..Len(hist) : hist[i] = "in"})
\* a diverging / out-of-support leaf ends the iteration: nothing is built after it
DivergenceIsLast == \A i \in 1..Len(hist) : hist[i] = "div" => (i = Len(hist) /\ ~allOk)
LeafBound == Len(hist) <= 2 * Pow2n(MaxDepth) - 1 /\ depth <= MaxDepth + 1
\* lemma about every sub-tree: n_sub counts its in-slice leaves, and params1 is one of them if there is any
SubtreeLemma ==
  \A d \in 0..MaxDepth : \A r \in Results[d] :
     /\ r.n = Cardinality({i \in 1..Len(r.outs) : r.outs[i] = "in"})
     /\ r.n > 0 => r.outs[r.cand] = "in"
     /\ r.cand \in 1..Len(r.outs)
     /\ (\E i \in 1..Len(r.outs) : r.outs[i] = "div") => ~r.ok
\* the directed operator the trace spec uses admits this run and nothing outside the slice
DirectedAgrees ==
  fin => /\ sel \in FinalSelections(hist, MaxDepth)
         /\ \A s \in FinalSelections(hist, MaxDepth) : InSlice(s)
=============================================================================

---------------------------- MODULE WStats_Trace ----------------------------
(***************************************************************************)
(* Trace validation for C13, clauses (a)-(e): weighted quantile, weighted  *)
(* variance, effective sample size, Gaussian-mixture density.              *)
(*                                                                         *)
(* A trace is one data set and a sequence of calls of the real functions   *)
(* on it.  TLC recomputes the expected values from the logged INPUTS with  *)
(* the operators of the design modules (exact integer / rational           *)
(* arithmetic) and compares with the logged OUTPUTS.                       *)
(*                                                                         *)
(*  kind "wq"   xs, ws;  events ev="wq":  a, A (alpha = a/A), k (the call  *)
(*              got k*ws), wnone (weights=None), exact (float-soundness    *)
(*              rule of DESIGN 5/C13 holds: the M: clause applies),        *)
(*              res, q (returned value; res="nonint" if not an integer)    *)
(*  kind "wvar" cols (columns of x), ws; events ev="wvar": k, wnone, res,  *)
(*              vals (round(s2*10^6) per column), vcls ("fin","nan",..)    *)
(*  kind "ess"  ws; events ev="ess": k, res, val (round(ess*10^6))         *)
(*  kind "gm"   means, wts, sds (see GmPdfOps); events ev="pdf": pts,      *)
(*              res, ps (round(pdf*10^8)), lps (round(logpdf*10^6)),       *)
(*              lcls ("fin","-inf",..), lplogs (round(log(pdf out)*10^6),  *)
(*              oracle field: python's math.log of the function's own pdf) *)
(* res: "val" | "raise" | "hang".                                          *)
(*                                                                         *)
(* Total and deterministic.  P:* = clauses of the statement of C13,        *)
(* M:* = the code follows the design module, X:* = harness insufficiency.  *)
(***************************************************************************)
EXTENDS Naturals, Integers, Sequences, FiniteSets, TLC, Json, IOUtils,
        WQuantileOps, WeightedStatsOps, GmPdfOps

Traces == JsonDeserialize(IOEnv.TRACE_FILE)

VARIABLES tid, l, seen, verdict, drift, done
vars == <<tid, l, seen, verdict, drift, done>>

T == Traces[tid]

Init == /\ tid \in 1..Len(Traces) /\ l = 1 /\ seen = {}
        /\ verdict = "ok" /\ drift = "" /\ done = FALSE

\* ---- (a), (b) weighted quantile ---------------------------------------------------
WqW(e) == IF e.wnone THEN Ones(Len(T.xs)) ELSE ScaleW(T.ws, e.k)
\* the statement quantifies over non-empty samples, weights not all zero, alpha in [0,1]
WqInDomain(e) == Len(T.xs) >= 1 /\ WTotal(WqW(e)) > 0 /\ 0 <= e.a /\ e.a <= e.A /\ e.A > 0
\* earlier calls of this trace on the same weight vector: <<a, A, k, wnone, q>>
JudgeWqP(e) ==
  IF ~WqInDomain(e) THEN "ok"
  ELSE IF e.res # "val" THEN "P:wq-def"         \* no element returned (raise / hang / not an integer)
  ELSE IF ~IsWQ(T.xs, WqW(e), e.a, e.A, e.q) THEN "P:wq-def"
  ELSE IF \E s \in seen : /\ s[3] = e.k /\ s[4] = e.wnone
                          /\ \/ (s[1] * e.A <= e.a * s[2] /\ s[5] > e.q)
                             \/ (s[1] * e.A >= e.a * s[2] /\ s[5] < e.q)
       THEN "P:wq-monotone"
  ELSE IF \E s \in seen : /\ ~s[4] /\ ~e.wnone /\ s[3] # e.k
                          /\ s[1] * e.A = e.a * s[2] /\ s[5] # e.q
       THEN "P:wq-scale"
  ELSE "ok"
JudgeWqM(e) ==
  IF ~e.exact \/ e.res # "val" \/ ~WqInDomain(e) THEN ""
  ELSE LET i == WQScanIdx(T.xs, WqW(e), e.a, e.A)        \* 0 = the scan finds no index
       IN IF i = 0 THEN "M:wq-scan-finds"
          ELSE IF e.q # T.xs[i] THEN "M:wq-scan"         \* T.xs[i] = WQScan(T.xs, WqW(e), e.a, e.A)
          ELSE ""

\* ---- (c) weighted variance ---------------------------------------------------------------
SW(e) == IF e.wnone THEN [i \in 1..Len(T.cols[1]) |-> 1]
         ELSE [i \in 1..Len(T.ws) |-> e.k * T.ws[i]]
\* the fixed-point comparison needs bounded magnitudes; the harness generates only such cases
FxFits(r) == r[1] >= 0 /\ r[2] > 0 /\ r[2] < 2000000 /\ r[1] \div r[2] < 2147
JudgeVarP(e) ==
  LET w == SW(e)
      bad == {c \in 1..Len(T.cols) :
                LET r == WVarRat(T.cols[c], w) IN
                IsDef(r) /\ ~(/\ e.res = "val" /\ Len(e.vals) = Len(T.cols)
                              /\ e.vcls[c] = "fin" /\ e.vals[c] >= 0
                              /\ FxAgrees6(e.vals[c], r[1], r[2]))}
      unfit == {c \in 1..Len(T.cols) : LET r == WVarRat(T.cols[c], w) IN IsDef(r) /\ ~FxFits(r)}
  IN IF unfit # {} THEN "X:wvar-magnitude" ELSE IF bad # {} THEN "P:wvar" ELSE "ok"
\* where the formula is undefined (at most one positive weight) the code's 0/0 gives nan
JudgeVarM(e) ==
  IF e.res # "val" \/ Len(e.vals) # Len(T.cols) THEN ""
  ELSE IF \E c \in 1..Len(T.cols) : ~IsDef(WVarRat(T.cols[c], SW(e))) /\ e.vcls[c] = "fin"
       THEN "M:wvar-undefined-not-finite" ELSE ""

\* ---- (d) effective sample size --------------------------------------------------------------
JudgeEssP(e) ==
  LET w == [i \in 1..Len(T.ws) |-> e.k * T.ws[i]]
      r == EssRat(w)
  IN IF ~IsDef(r) THEN "ok"                       \* all weights zero: not in the statement's domain
     ELSE IF ~FxFits(r) THEN "X:ess-magnitude"
     ELSE IF e.res = "val" /\ e.val >= 0 /\ FxAgrees6(e.val, r[1], r[2]) THEN "ok" ELSE "P:ess"
\* all-zero weights are refused by normalize_weights
JudgeEssM(e) ==
  IF ~IsDef(EssRat(T.ws)) /\ e.res # "raise" THEN "M:ess-zero-weights-refused" ELSE ""

\* ---- (e) mixture density -----------------------------------------------------------------------
JudgePdfP(e) ==
  IF \E p \in 1..Len(e.pts) : ~OnLattice(T.means, T.sds, e.pts[p]) THEN "X:gm-off-lattice"
  ELSE IF e.res # "val" \/ Len(e.ps) # Len(e.pts) \/ Len(e.lps) # Len(e.pts) THEN "P:gm-pdf"
  ELSE IF \E p \in 1..Len(e.pts) : ~GmPdfAgrees(T.means, T.wts, T.sds, e.pts[p], e.ps[p]) THEN "P:gm-pdf"
  \* log density = log of the density (oracle: math.log of the function's own pdf output)
  ELSE IF \E p \in 1..Len(e.pts) :
            \/ e.lcls[p] # e.lplogcls[p]
            \/ (e.lcls[p] = "fin" /\ Abs(e.lps[p] - e.lplogs[p]) > 1) THEN "P:gm-logpdf"
  \* ... and in closed form where the mixture reduces to one normal
  ELSE IF \E p \in 1..Len(e.pts) :
            /\ EquiDistant(T.means, T.wts, T.sds, e.pts[p])
            /\ ~(e.lcls[p] = "fin" /\ GmLogPdfAgreesEqui(T.means, T.wts, T.sds, e.pts[p], e.lps[p]))
       THEN "P:gm-logpdf"
  ELSE "ok"

\* ---- (e) off the lattice: a full (correlated) covariance matrix.  No integer oracle exists; the harness logs, next to
\* the code's log pdf / logpdf, the log of sum_i w_i N(x; m_i, Sigma) evaluated from the definition with numpy
\* (solve + slogdet; T4 oracle field, 10^-6 fixed point).  TLC judges the relation.
JudgeGmoP(e) ==
  IF e.res # "val" THEN "P:gm-call-raised"
  ELSE IF Len(e.lp) # Len(e.o) \/ Len(e.lq) # Len(e.o) THEN "P:count"
  ELSE IF \E p \in 1..Len(e.o) : Abs(e.lp[p] - e.o[p]) > 5 + Abs(e.o[p]) \div 100000000 THEN "P:gm-pdf"
  ELSE IF \E p \in 1..Len(e.o) : Abs(e.lq[p] - e.o[p]) > 5 + Abs(e.o[p]) \div 100000000 THEN "P:gm-logpdf"
  ELSE "ok"

JudgeP(e) == CASE e.ev = "wq" -> JudgeWqP(e)
               [] e.ev = "wvar" -> JudgeVarP(e)
               [] e.ev = "ess" -> JudgeEssP(e)
               [] e.ev = "pdf" -> JudgePdfP(e)
               [] e.ev = "gmo" -> JudgeGmoP(e)
               [] OTHER -> "X:unknown-event"
JudgeM(e) == CASE e.ev = "wq" -> JudgeWqM(e)
               [] e.ev = "wvar" -> JudgeVarM(e)
               [] e.ev = "ess" -> JudgeEssM(e)
               [] OTHER -> ""

Step ==
  /\ ~done
  /\ IF l > Len(T.events) THEN done' = TRUE /\ UNCHANGED <<tid, l, seen, verdict, drift>>
     ELSE LET e == T.events[l]
              j == JudgeP(e)
              m == IF drift = "" THEN JudgeM(e) ELSE drift
          IN /\ verdict' = j
             /\ drift' = m
             /\ done' = (j # "ok")
             /\ l' = l + 1
             /\ UNCHANGED tid
             /\ seen' = IF j = "ok" /\ e.ev = "wq" /\ e.res = "val" /\ WqInDomain(e)
                        THEN seen \cup {<<e.a, e.A, e.k, e.wnone, e.q>>} ELSE seen

Spec == Init /\ [][Step]_vars
Report == done => PrintT(<<"V", tid, l, verdict, drift>>)
=============================================================================

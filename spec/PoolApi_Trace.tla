--------------------------- MODULE PoolApi_Trace ---------------------------
(* Trace validation of OutputPool / ArrayPool API histories against PoolApi.tla:
   after every call the pool's whole content (get_batch of every index), len and
   membership answers are compared with the list model.                          *)
EXTENDS Naturals, Integers, Sequences, FiniteSets, TLC, Json, IOUtils
Traces == JsonDeserialize(IOEnv.TRACE_FILE)
VARIABLES tid, l, st, verdict, drift, done
vars == <<tid, l, st, verdict, drift, done>>
T == Traces[tid]
SeqSet(s) == {s[i] : i \in 1..Len(s)}
Init == /\ tid \in 1..Len(Traces) /\ l = 1 /\ st = [n \in SeqSet(T.nodes) |-> <<>>]
        /\ verdict = "ok" /\ drift = "" /\ done = FALSE
Max(S) == IF S = {} THEN 0 ELSE CHOOSE x \in S : \A y \in S : y <= x
PoolLen(s) == Max({Cardinality(DOMAIN s[n]) : n \in DOMAIN s})
Apply(s, e) ==
  CASE e.op = "add" -> [n \in DOMAIN s |-> IF n \in SeqSet(e.ns) /\ e.i \notin DOMAIN s[n]
                                           THEN [j \in DOMAIN s[n] \cup {e.i} |-> IF j = e.i THEN e.v ELSE s[n][j]] ELSE s[n]]
    [] e.op = "remove" -> [n \in DOMAIN s |-> [j \in DOMAIN s[n] \ {e.i} |-> s[n][j]]]
    [] e.op = "rmstore" -> [m \in DOMAIN s \ {e.n} |-> s[m]]
    [] e.op = "clear" -> [n \in DOMAIN s |-> <<>>]
    [] OTHER -> s          \* flush / save+open / close+open: content unchanged
\* observation: e.obs.content = sequence of <<node, batch, value>> currently held, e.obs.len
Content(s) == UNION {{<<n, i, s[n][i]>> : i \in DOMAIN s[n]} : n \in DOMAIN s}
Judge(e, s2) ==
  IF e.raised # "" THEN "P:pool-call-returns"
  ELSE IF {<<t[1], t[2], t[3]>> : t \in SeqSet(e.obs.content)} # Content(s2) THEN "P:pool-content-is-list-model"
  ELSE IF e.obs.len # PoolLen(s2) THEN "P:pool-len-is-largest-store"
  ELSE "ok"
Step == /\ ~done
        /\ IF l > Len(T.events) THEN done' = TRUE /\ UNCHANGED <<tid, l, st, verdict, drift>>
           ELSE LET e == T.events[l] s2 == Apply(st, e) j == Judge(e, s2) IN
                /\ verdict' = j /\ done' = (j # "ok") /\ l' = l + 1 /\ st' = s2 /\ UNCHANGED <<tid, drift>>
Spec == Init /\ [][Step]_vars
Report == done => PrintT(<<"V", tid, l, verdict, drift>>)
=============================================================================

------------------------------- MODULE Naming -------------------------------
(***************************************************************************)
(* EXTENSION (no listed property): node naming, the default model and      *)
(* node-reference bookkeeping of elfi - the machine over the operators of  *)
(* NamingOps.tla.  One action per public call (Create = any node           *)
(* constructor, LookupCall = model[name], ParentsCall = ref.parents,       *)
(* RemoveCall = model.remove_node, BecomeCall = ref.become(ref),           *)
(* SetParamsCall = model.parameter_names = [...], SetDefaultCall /         *)
(* NewModelCall / GetDefaultCall = set_default_model / new_model and       *)
(* ElfiModel() / get_default_model, SizeCall = ref.size).  A call runs     *)
(* through its stages (NamingOps!Stages, one per critical section of       *)
(* NodeReference.__init__) until it returns, raises, or reaches a          *)
(* random_name() call: there the environment chooses the draw (action      *)
(* Draw) from a small alphabet, so that collisions with existing names     *)
(* happen, and the call goes on.  StagewiseEqualsComposed ties this        *)
(* execution to the composed operator Run the trace spec uses.  Until     *)
(* Return, the variables call / st0 / drawn keep the call, the world       *)
(* before it and its draws, for the per-call theorems.                     *)
(*                                                                         *)
(* Fix = the set of repairs applied (NamingOps.tla lists them; {} = the    *)
(* code).  With every repair the user-level theorems below hold; TLC       *)
(* refutes one of them when any single repair is left out (negative        *)
(* controls), and refutes StaleNeverRevives / ModelNamesUnique for any     *)
(* Fix (name-based references; unchecked random model names).              *)
(***************************************************************************)
EXTENDS NamingOps

CONSTANTS Fix,          \* repairs applied ({} = the code)
          Classes,      \* node classes the constructors offered
          PlainNames,   \* explicit names: set of [nm, und]
          StarBases,    \* name='base*': set of [nm, und] (nm = "" is name='*')
          FormsUsed,    \* source shapes of a constructor call without name= (NamingOps!Forms)
          Targets,      \* assignment targets of those lines
          ModelNames,   \* explicit model names
          Toks,         \* what uuid4().hex[:4] may return
          Calls,        \* the public calls that are made (op names)
          Invalid,      \* BOOLEAN: calls with invalid arguments (model='str', name='', unknown names) are made too
          MaxModels, MaxNodes, MaxRefs, MaxPar, MaxCalls, MaxDraws

VARIABLES st, todo, call, st0, drawn, ncalls, touched
vars == <<st, todo, call, st0, drawn, ncalls, touched>>

Init == st = W0 /\ todo = <<>> /\ call = A0 /\ st0 = W0 /\ drawn = <<>> /\ ncalls = 0 /\ touched = {}

Idle == todo = <<>>
LiveH == 1..Len(st.models)
TotalNodes == LET RECURSIVE Sum(_) Sum(k) == IF k = 0 THEN 0 ELSE Len(st.models[k].nodes) + Sum(k - 1) IN Sum(Len(st.models))
Settle(adv, before) == /\ st' = (IF adv.todo = <<>> THEN MarkRefs(before, adv.w) ELSE adv.w)
                       /\ todo' = (IF adv.todo = <<>> THEN <<"return">> ELSE adv.todo)
Begin(a) == /\ Idle /\ (MaxCalls > 0 => ncalls < MaxCalls) /\ a.op \in Calls
            /\ ncalls' = (IF MaxCalls > 0 THEN ncalls + 1 ELSE 0)
            /\ call' = a /\ st0' = st /\ drawn' = <<>>
            /\ Settle(Advance(Fix, Entered(st), a, Stages(a)), st)
            /\ touched' = IF a.op = "setparams" THEN touched \cup {a.h} ELSE touched

RECURSIVE SetToSeq(_)
SetToSeq(S) == IF S = {} THEN <<>> ELSE LET x == CHOOSE y \in S : TRUE IN <<x>> \o SetToSeq(S \ {x})

\* ---- public calls
RefIds == 1..Len(st.refs)
ParItems == {Lit} \cup {RefP(i) : i \in RefIds}
ParSeqs == {<<>>} \cup (IF MaxPar >= 1 THEN {<<p>> : p \in ParItems} ELSE {})
                  \cup (IF MaxPar >= 2 THEN {s \in ParItems \X ParItems : s[2].kind = "lit" \/ s[2] # s[1]} ELSE {})
NLit(ps) == Cardinality({i \in 1..Len(ps) : ps[i].kind = "lit"})
NameArgs == {[nk |-> "plain", nm |-> n.nm, und |-> n.und, form |-> "expr", target |-> ""] : n \in PlainNames}
            \cup {[nk |-> "star", nm |-> n.nm, und |-> n.und, form |-> "expr", target |-> ""] : n \in StarBases}
            \cup {[nk |-> "none", nm |-> "", und |-> FALSE, form |-> f, target |-> IF f \in InferForms THEN t ELSE ""] : f \in FormsUsed, t \in Targets}
            \cup (IF Invalid THEN {[nk |-> "empty", nm |-> "", und |-> FALSE, form |-> "expr", target |-> ""]} ELSE {})
Create ==
  \E cls \in Classes, marg \in {0} \cup LiveH \cup (IF Invalid THEN {-1} ELSE {}), na \in NameArgs, ps \in ParSeqs, obs \in BOOLEAN :
    /\ obs => Observable(cls)
    /\ TotalNodes + 1 + NLit(ps) <= MaxNodes
    /\ (marg = 0 /\ st.default = 0 /\ ~\E i \in 1..Len(ps) : ps[i].kind = "ref") => Len(st.models) < MaxModels
    /\ Begin([A0 EXCEPT !.op = "create", !.cls = cls, !.marg = marg, !.nk = na.nk, !.nm = na.nm, !.und = na.und, !.form = na.form,
                        !.target = na.target, !.parents = ps, !.obs = obs, !.keep = (Len(st.refs) < MaxRefs)])
LookupCall == \E h \in LiveH : \E x \in NamesOf(st.models[h]) \cup (IF Invalid THEN {"zz"} ELSE {}) :
                 Len(st.refs) < MaxRefs /\ Begin([A0 EXCEPT !.op = "lookup", !.h = h, !.x = x])
ParentsCall == \E r \in RefIds :
                 /\ ValidRef(st, st.refs[r]) => Len(st.refs) + Len(NodeAt(st.models[st.refs[r].h], st.refs[r].name).par) <= MaxRefs
                 /\ Begin([A0 EXCEPT !.op = "parents", !.r1 = r])
RemoveCall == \E h \in LiveH : \E x \in NamesOf(st.models[h]) \cup (IF Invalid THEN {"zz"} ELSE {}) :
                 Begin([A0 EXCEPT !.op = "remove", !.h = h, !.x = x])
\* the replacement is fresh (no children, no descendant of the replaced node) whenever both nodes exist
FreshPair(r1, r2) ==
  LET s == st.refs[r1]  o == st.refs[r2] IN
  (s.h = o.h /\ ValidRef(st, s) /\ ValidRef(st, o) /\ s.name # o.name) =>
     (ChildrenOf(st.models[s.h], o.name) = {} /\ o.name \notin Descendants(st.models[s.h], s.name))
BecomeCall == \E r1, r2 \in RefIds : FreshPair(r1, r2) /\ Begin([A0 EXCEPT !.op = "become", !.r1 = r1, !.r2 = r2])
SetParamsCall == \E h \in LiveH : \E P \in SUBSET (NamesOf(st.models[h]) \cup (IF Invalid THEN {"zz"} ELSE {})) :
                   Begin([A0 EXCEPT !.op = "setparams", !.h = h, !.P = SetToSeq(P)])
SetDefaultCall == \E marg \in {0} \cup LiveH \cup (IF Invalid THEN {-1} ELSE {}) :
                   /\ marg = 0 => Len(st.models) < MaxModels
                   /\ Begin([A0 EXCEPT !.op = "setdefault", !.marg = marg])
\* (the domains mention the state only so that TLC keeps this one action instead of splitting it per constant)
NewModelCall == \E named \in {b \in BOOLEAN : Len(st.models) >= 0}, setdef \in {b \in BOOLEAN : Len(st.models) >= 0},
                   nm \in {n \in ModelNames \cup {""} : Len(st.models) >= 0} :
                   /\ named <=> nm # ""
                   /\ Len(st.models) < MaxModels
                   /\ Begin([A0 EXCEPT !.op = "newmodel", !.named = named, !.nm = nm, !.setdef = setdef])
GetDefaultCall == /\ st.default = 0 => Len(st.models) < MaxModels
                  /\ Begin([A0 EXCEPT !.op = "getdefault"])
SizeCall == \E r \in RefIds : HasSize(st.refs[r].cls) /\ Begin([A0 EXCEPT !.op = "size", !.r1 = r])

\* ---- random_name(): the environment picks uuid4().hex[:4] and the call goes on
Draw == /\ ~Idle /\ todo # <<"return">> /\ st.want /\ Len(drawn) < MaxDraws
        /\ \E t \in Toks : /\ Settle(Advance(Fix, [st EXCEPT !.want = FALSE, !.rest = <<t>>], call, todo), st0)
                            /\ drawn' = Append(drawn, t)
        /\ UNCHANGED <<call, st0, ncalls, touched>>

\* the call returns (or its exception reaches the caller); what the theorems needed to know about it is forgotten
Return == /\ todo = <<"return">> /\ todo' = <<>> /\ call' = A0 /\ st0' = W0 /\ drawn' = <<>> /\ st' = Entered(st)
          /\ UNCHANGED <<ncalls, touched>>

Next == \/ Return \/ Create \/ LookupCall \/ ParentsCall \/ RemoveCall \/ BecomeCall \/ SetParamsCall \/ SetDefaultCall \/ NewModelCall
        \/ GetDefaultCall \/ SizeCall \/ Draw
Spec == Init /\ [][Next]_vars

\* ------------------------------------------------------------------ theorems (checked by TLC)
AtReturn == todo = <<"return">>      \* the call is over: st0 / call / drawn describe it
Visible == todo = <<>> \/ AtReturn
\* machine
StagewiseEqualsComposed == AtReturn => st = Run(Fix, st0, call, drawn)
AllDrawsConsumed == AtReturn => st.rest = <<>> /\ ~st.want
\* user level, at any moment
NamesUnique == InvNamesUnique(st)
Closed == InvClosed(st)
DefaultIsLast == InvDefaultIsLast(st)
RoundTrip == Visible => InvRoundTrip(st)
\* user level, per call
OnlyDocumentedRaises == AtReturn => InvDocumentedRaise(st)
RefusedNothingChanged == AtReturn => RefusedChangesNothing(st0, st)
OtherModelsUnchanged == AtReturn => OthersUnchanged(st0, st, call)
NodeLandsInOneModel == AtReturn => CreateLands(st0, st, call)
AutoNameNeverRefused == AtReturn /\ call.op = "create" /\ st.cur.auto => st.raised = ""
RemoveTakesOnlyConstants == AtReturn => RemoveOnlyConstants(st0, st, call)
BecomeRefreshesBothRefs == AtReturn => BecomeRefsAgree(st, call)
\* lookups: model[name] is refused exactly for unknown names and returns the node's model / name / class
LookupRoundTrips == AtReturn /\ call.op = "lookup" =>
   IF Has(st0.models[call.h], call.x)
   THEN st.raised = "" /\ ProjRef(st.refs[Len(st.refs)]) = [h |-> call.h, name |-> call.x, cls |-> NodeAt(st0.models[call.h], call.x).cls]
   ELSE st.raised = "KeyError"
\* the default model changes only through set_default_model / new_model(set_default=True) / the first get_default_model
DefaultChangesOnlyWhenAsked == AtReturn /\ st.default # st0.default =>
   \/ call.op = "setdefault" \/ (call.op = "newmodel" /\ call.setdef)
   \/ (st0.default = 0 /\ call.op \in {"getdefault", "create"})
\* until parameter_names is assigned, the flagged nodes of a model are exactly its Prior-class nodes
FlagsFollowClass == Visible => \A h \in LiveH \ touched : \A i \in 1..Len(st.models[h].nodes) :
                                   st.models[h].nodes[i].param = IsParamClass(st.models[h].nodes[i].cls)
\* after the setter returns, the flagged nodes are exactly the given ones
SetterSetsExactly == AtReturn /\ call.op = "setparams" /\ st.raised = "" =>
   {n \in NamesOf(st.models[call.h]) : NodeAt(st.models[call.h], n).param} = SeqSet(call.P)
\* ref.size of a live RandomVariable / Prior reference returns
SizeReturns == AtReturn /\ call.op = "size" /\ ValidRef(st0, st0.refs[call.r1]) => st.raised = ""
\* NOT kept by any Fix (controls)
StaleNeverRevives == Visible => InvStaleNeverRevives(st)
ModelNamesUnique == InvModelNamesUnique(st)
=============================================================================

----------------------------- MODULE MC_Batches -----------------------------
(* Exhaustive configuration of Batches.tla: every objective function over    *)
(* 0..K that starts positive and has a fix point (the sampler terminates).    *)
EXTENDS Batches
CONSTANT K
MCObjFns == {g \in [0..K -> 0..(K + 1)] : g[0] >= 1 /\ \E k \in 1..K : g[k] <= k}
=============================================================================

--------------------------- MODULE MC_BolfiPosterior ---------------------------
(* Exhaustive configurations of BolfiPosterior.tla (a cfg file cannot write negative numbers). *)
EXTENDS BolfiPosterior
MCSlopes == {-1, 0, 1}
MCLpVals == {0, -1, NINF}
MCLpValsSmall == {0, NINF}
MCPriorSlopes == {-1, 0, 2}
MCPriorSlopesSmall == {0, 2}
MCPriorSlopesOne == {2}
=============================================================================

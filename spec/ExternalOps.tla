---------------------------- MODULE ExternalOps ----------------------------
(***************************************************************************)
(* Pure operators of elfi.model.tools.run_external (unpack_meta,           *)
(* prepare_seed, str.format of the command), shared by the design module   *)
(* External.tla and the trace specification External_Trace.tla.            *)
(*                                                                         *)
(* A command template is a sequence of fields                              *)
(*    [k |-> "lit", v |-> value]            literal text                   *)
(*    [k |-> "pos", i |-> 0-based position] python format field {i}        *)
(*    [k |-> "kw",  name |-> keyword]       python format field {name}     *)
(* (every field record carries all of k, v, i, name).  Values are opaque.  *)
(* Keyword maps are functions name -> value; `meta` and `random_state`     *)
(* are kept apart from the other keywords (hasMeta/meta, hasRS).           *)
(***************************************************************************)
EXTENDS Naturals, Integers, Sequences, FiniteSets, TLC

\* ---- the code ---------------------------------------------------------------
\* unpack_meta:  new = kwinputs['meta'].copy(); new.update(kwinputs)   (explicit keywords win)
UnpackMeta(kw, hasMeta, meta, variant) ==
  IF ~hasMeta THEN kw
  ELSE IF variant = "meta-wins" THEN meta @@ kw
  ELSE kw @@ meta                                     \* f @@ g: f wins on common keys
\* prepare_seed:  if 'random_state' in kwinputs: kwinputs['seed'] = get_sub_seed(state0, index or 0)
HasIndex(K) == "index_in_batch" \in DOMAIN K
PrepareSeed(K, hasRS, seedVal) == IF hasRS THEN ("seed" :> seedVal) @@ K ELSE K
\* command.format(*inputs, **kwinputs), field by field; ok = FALSE: IndexError / KeyError
FieldVal(f, args, K) ==
  IF f.k = "lit" THEN [ok |-> TRUE, v |-> f.v]
  ELSE IF f.k = "pos" THEN (IF f.i < Len(args) THEN [ok |-> TRUE, v |-> args[f.i + 1]] ELSE [ok |-> FALSE, v |-> f.v])
  ELSE IF f.name \in DOMAIN K THEN [ok |-> TRUE, v |-> K[f.name]] ELSE [ok |-> FALSE, v |-> f.v]
Fields(tmpl, args, K) == [q \in 1..Len(tmpl) |-> FieldVal(tmpl[q], args, K)]
AllOk(fs) == \A q \in 1..Len(fs) : fs[q].ok

\* ---- the definition the property refers to -----------------------------------
\* value a keyword field must show: the explicit keyword if given, else the entry of the run
\* metadata; `seed` is the provided seed whenever a generator was passed.
Available(name, kw, hasMeta, meta, hasRS) ==
  (name = "seed" /\ hasRS) \/ name \in DOMAIN kw \/ (hasMeta /\ name \in DOMAIN meta)
Wanted(name, kw, hasMeta, meta, hasRS, seedVal) ==
  IF name = "seed" /\ hasRS THEN seedVal
  ELSE IF name \in DOMAIN kw THEN kw[name]
  ELSE meta[name]
=============================================================================

---------------------------- MODULE WelfordOps ----------------------------
(***************************************************************************)
(* Pure operators for the adaptive part of C12 (elfi.AdaptiveDistance),    *)
(* shared by the design module Welford.tla and the trace specification     *)
(* Welford_Trace.tla.  Exact arithmetic over rationals <<num, den>>,       *)
(* den > 0, always in lowest terms (so equal values are equal tuples).     *)
(*                                                                         *)
(* The code (elfi/model/elfi_model.py, AdaptiveDistance.add_data):         *)
(*     data = np.column_stack(data)                                        *)
(*     store[0] += len(data)                                               *)
(*     delta_1 = data - store[1]                                           *)
(*     store[1] += np.sum(delta_1, axis=0) / store[0]                      *)
(*     delta_2 = data - store[1]                                           *)
(*     store[2] += np.sum(delta_1 * delta_2, axis=0)                       *)
(*     state['scale'] = np.sqrt(store[2] / store[0])                       *)
(* All operations are column-wise; a store is [n, mean, m2] with mean and  *)
(* m2 sequences (one rational per column of the stacked summaries).        *)
(***************************************************************************)
EXTENDS Naturals, Integers, Sequences

RAbs(x) == IF x < 0 THEN -x ELSE x
RECURSIVE GCD(_, _)
GCD(a, b) == IF b = 0 THEN a ELSE GCD(b, a % b)
Norm(n, d) == IF n = 0 THEN <<0, 1>> ELSE LET g == GCD(RAbs(n), d) IN <<n \div g, d \div g>>

RInt(i) == <<i, 1>>
RAdd(a, b) == Norm(a[1] * b[2] + b[1] * a[2], a[2] * b[2])
RSub(a, b) == Norm(a[1] * b[2] - b[1] * a[2], a[2] * b[2])
RMul(a, b) == Norm(a[1] * b[1], a[2] * b[2])
RDivInt(a, k) == Norm(a[1], a[2] * k)                   \* k > 0
RInv(a) == IF a[1] > 0 THEN <<a[2], a[1]>> ELSE <<-a[2], -a[1]>>      \* a # 0
RECURSIVE RSum(_)
RSum(s) == IF s = <<>> THEN <<0, 1>> ELSE RAdd(Head(s), RSum(Tail(s)))

RECURSIVE ISum(_)
ISum(s) == IF s = <<>> THEN 0 ELSE Head(s) + ISum(Tail(s))

\* ---- the code: one add_data call on one column -----------------------------------------
\* variant "code" is elfi; the others are classic slips used as negative controls
AddCol(variant, n0, mean0, m20, xs) ==
  LET k == Len(xs)
      n1 == n0 + k
      d1 == [i \in 1..k |-> RSub(RInt(xs[i]), mean0)]
      mean1 == RAdd(mean0, RDivInt(RSum(d1), IF variant = "perbatch" THEN k ELSE n1))
      d2 == [i \in 1..k |-> RSub(RInt(xs[i]), mean1)]
      m21 == RAdd(m20, RSum([i \in 1..k |-> RMul(d1[i], IF variant = "delta1sq" THEN d1[i] ELSE d2[i])]))
  IN <<n1, mean1, m21>>

ZeroStore(C) == [n |-> 0, mean |-> [j \in 1..C |-> <<0, 1>>], m2 |-> [j \in 1..C |-> <<0, 1>>]]
Column(rows, j) == [i \in 1..Len(rows) |-> rows[i][j]]

\* rows: non-empty sequence of stacked summary rows (each a sequence of C integers)
AddData(variant, st, rows) ==
  LET C == Len(st.mean)
      r == [j \in 1..C |-> AddCol(variant, st.n, st.mean[j], st.m2[j], Column(rows, j))]
  IN [n |-> st.n + Len(rows), mean |-> [j \in 1..C |-> r[j][2]], m2 |-> [j \in 1..C |-> r[j][3]]]

\* state['scale']^2 = store[2] / store[0]
Scale2(variant, st) == [j \in 1..Len(st.m2) |-> RDivInt(st.m2[j], IF variant = "sample" THEN st.n - 1 ELSE st.n)]

\* ---- the definition the property refers to ----------------------------------------------
\* population variance of a column = (n*sum(x^2) - sum(x)^2) / n^2;  Q is the numerator
Q(xs) == Len(xs) * ISum([i \in 1..Len(xs) |-> xs[i] * xs[i]]) - ISum(xs) * ISum(xs)
PopVar(xs) == Norm(Q(xs), Len(xs) * Len(xs))
PopVarRows(rows, C) == [j \in 1..C |-> PopVar(Column(rows, j))]
MeanRows(rows, C) == [j \in 1..C |-> Norm(ISum(Column(rows, j)), Len(rows))]

\* ---- nested distances ---------------------------------------------------------------------
\* a distance function is its vector of squared weights w (cdist 'euclidean' with w:
\* sqrt(sum_j w_j (u_j - v_j)^2));  w = None is the vector of ones
Ones(C) == [j \in 1..C |-> <<1, 1>>]
\* update_distance: weis = 1 / scale;  w = weis ** 2 = 1 / scale^2
WeightsOf(variant, st) == [j \in 1..Len(st.m2) |-> RInv(Scale2(variant, st)[j])]
\* squared distance between u and v under squared weights w
DistSq(w, u, v) == RSum([j \in 1..Len(u) |-> RMul(w[j], RInt((u[j] - v[j]) * (u[j] - v[j])))])
\* nested_distance(u, v): one column per distance function
NestedSq(dfs, u, v) == [k \in 1..Len(dfs) |-> DistSq(dfs[k], u, v)]
=============================================================================

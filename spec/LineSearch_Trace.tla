-------------------------- MODULE LineSearch_Trace --------------------------
(***************************************************************************)
(* Trace validation for C19(c).  A trace is one call of the real           *)
(* line_search (kind "ls") or one RegionConstructor.build() (kind "build": *)
(* 2*D line searches from the same start along +-axis directions).         *)
(*                                                                         *)
(* Inputs: K, replim, hf (which variant of the design module the code is   *)
(* expected to follow, see LineSearchOps!For; only M: clauses use it),     *)
(* ndir directions, and per direction the predicate the                    *)
(* harness objective implements: below[dir][j] = 1 iff the objective is    *)
(* below the threshold on the unit interval [lo+j-1, lo+j) of the line     *)
(* (unit = eta/2^K; outside the table: not below).  Outputs: every call of *)
(* the objective (ev "probe": direction, position p in 1/1024 units, the   *)
(* answer b it gave; dir 0 = the start point in a build) and every result  *)
(* (ev "ret": direction, sign and value of the returned offset in 1/1024   *)
(* units; for a build the two limits of each dimension of the box).        *)
(*                                                                         *)
(* P: clauses = the statement: a positive offset is returned, and at every *)
(* probed position between the start and the offset the objective was      *)
(* below (given it is below at the start).  M: clauses = the result and    *)
(* the probe sequence are those of the design module (LineSearchOps).      *)
(***************************************************************************)
EXTENDS Naturals, Integers, Sequences, FiniteSets, TLC, Json, IOUtils, LineSearchOps

Traces == JsonDeserialize(IOEnv.TRACE_FILE)

VARIABLES tid, l, seen, verdict, drift, done
vars == <<tid, l, seen, verdict, drift, done>>

T == Traces[tid]
Sub == 1024                                   \* positions are logged in 1/1024 of a unit

\* the predicate of direction dir as a function on positions (for LSRun) and on logged positions
Tab(dir) == T.below[IF dir = 0 THEN 1 ELSE dir]
BFun(dir) == [p \in T.lo..(T.lo + Len(Tab(dir)) - 1) |-> Tab(dir)[p - T.lo + 1] = 1]
BelAt(dir, p) == Bel(BFun(dir), p \div Sub)   \* \div rounds towards minus infinity
StartBelow == \A dir \in 1..T.ndir : Bel(BFun(dir), 0)

Init == /\ tid \in 1..Len(Traces) /\ l = 1 /\ seen = <<>>
        /\ verdict = "ok" /\ drift = "" /\ done = FALSE

Mine(dir) == SelectSeq(seen, LAMBDA s : s[1] = dir \/ s[1] = 0)

JudgeP(e) ==
  IF e.ev = "probe"
  THEN (IF e.dir \notin 0..T.ndir THEN "X:probe-direction"
        ELSE IF (e.b = 1) # BelAt(e.dir, e.p) THEN "X:objective-inconsistent-with-table" ELSE "ok")
  ELSE IF e.res # "val" THEN "P:ls-returns"
  ELSE IF e.sgn # 1 THEN "P:ls-positive-offset"
  ELSE IF e.dir \notin 1..T.ndir THEN "ok"          \* search direction off the axes: nothing more to decide
  ELSE IF StartBelow /\ \E k \in 1..Len(seen) :
             /\ (seen[k][1] = e.dir \/ seen[k][1] = 0)
             /\ 0 <= seen[k][2] /\ seen[k][2] <= e.off /\ seen[k][3] = 0
       THEN "P:ls-below-up-to-result"
  ELSE "ok"

Scaled(ps) == [k \in 1..Len(ps) |-> ps[k] * Sub]
NoCentre(ps) == SelectSeq(ps, LAMBDA p : p # 0)
Positions(ss) == [k \in 1..Len(ss) |-> ss[k][2]]
JudgeM(e) ==
  IF e.ev = "probe" \/ e.res # "val" THEN ""
  ELSE IF e.dir \notin 1..T.ndir THEN "M:ls-direction-along-an-axis"
  ELSE IF T.kind = "build" /\ ~StartBelow THEN ""
  ELSE LET r == LSRun(BFun(e.dir), T.K, T.replim, TRUE, T.hf)
           got == Positions(Mine(e.dir))
           mine == Mine(e.dir)
       IN IF \E k \in 1..Len(r.probes) : r.probes[k] \notin DOMAIN BFun(e.dir) THEN "X:table-too-short"
          ELSE IF e.off # r.off * Sub THEN "M:ls-result"
          ELSE IF T.kind = "ls" /\ got # Scaled(r.probes) THEN "M:ls-probes"
          ELSE IF T.kind = "build" /\ NoCentre(got) # NoCentre(Scaled(r.probes)) THEN "M:ls-probes"
          ELSE IF StartBelow /\ \E a, b \in 1..Len(mine) : a < b /\ mine[a][3] = 0 /\ mine[a][2] >= 0 /\ mine[b][2] > mine[a][2]
               THEN "M:ls-never-passes-a-failed-probe"
          ELSE ""

Step ==
  /\ ~done
  /\ IF l > Len(T.events) THEN done' = TRUE /\ UNCHANGED <<tid, l, seen, verdict, drift>>
     ELSE LET e == T.events[l]
              j == JudgeP(e)
              m == IF drift = "" THEN JudgeM(e) ELSE drift
          IN /\ verdict' = j
             /\ drift' = m
             /\ done' = (j # "ok")
             /\ l' = l + 1
             /\ UNCHANGED tid
             /\ seen' = IF e.ev = "probe" THEN Append(seen, <<e.dir, e.p, e.b>>) ELSE seen

Spec == Init /\ [][Step]_vars
Report == done => PrintT(<<"V", tid, l, verdict, drift>>)
=============================================================================

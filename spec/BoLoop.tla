------------------------------- MODULE BoLoop -------------------------------
(***************************************************************************)
(* bolfi.BayesianOptimization on top of the batch scheduling of             *)
(* Batches.tla: prepare_new_batch (acquisition queue), the refined           *)
(* _allow_submit (synchronous acquisition) and update (evidence).           *)
(* Units are batches.  OffB = (n_initial - n_precomputed) / batch_size is    *)
(* the number of batches drawn from the prior; batch b >= OffB belongs to    *)
(* acquisition t = (b - OffB) div BPA and is its k-th slice.  An acquired    *)
(* slice records `seen`: how many batches of evidence the surrogate had      *)
(* when acquire() ran.                                                      *)
(***************************************************************************)
EXTENDS Naturals, Integers, Sequences, FiniteSets, TLC

CONSTANTS MaxPar, BPA, OffB, Total, Async

VARIABLES pc, next, pending, queue, tasks, nextId, nCons, evidence, acqs
vars == <<pc, next, pending, queue, tasks, nextId, nCons, evidence, acqs>>

AcqT(b) == IF b < OffB THEN -1 ELSE (b - OffB) \div BPA
Prior == [t |-> -1, k |-> 0, seen |-> 0]

Init == /\ pc = "submit" /\ next = 0 /\ pending = <<>> /\ queue = <<>> /\ tasks = {} /\ nextId = 0
        /\ nCons = 0 /\ evidence = <<>> /\ acqs = <<>>

Finished == Total <= nCons
BaseGuard == MaxPar > Len(pending) /\ Total > nCons + Len(pending)
\* BayesianOptimization._allow_submit
BoGuard == LET t == AcqT(next) IN
           BaseGuard /\ (Async \/ t < 0 \/ ~(queue = <<>> /\ pending # <<>>))

Submit ==
  /\ pc = "submit" /\ ~Finished /\ BoGuard
  /\ LET t == AcqT(next)
         fresh == [k \in 1..BPA |-> [t |-> t, k |-> k, seen |-> nCons]]      \* acquisition_method.acquire(bs * bpa, t)
         q == IF t < 0 THEN queue ELSE IF queue = <<>> THEN fresh ELSE queue
         src == IF t < 0 THEN Prior ELSE Head(q)
     IN /\ pending' = Append(pending, [index |-> next, id |-> nextId, src |-> src])
        /\ queue' = IF t < 0 THEN queue ELSE Tail(q)
        /\ acqs' = IF t >= 0 /\ queue = <<>> THEN Append(acqs, [t |-> t, seen |-> nCons, pend |-> Len(pending), first |-> next]) ELSE acqs
  /\ tasks' = tasks \cup {nextId} /\ nextId' = nextId + 1 /\ next' = next + 1
  /\ UNCHANGED <<pc, nCons, evidence>>

GoWait == /\ pc = "submit" /\ ~Finished /\ pending # <<>> /\ pc' = "wait"
          /\ UNCHANGED <<next, pending, queue, tasks, nextId, nCons, evidence, acqs>>

WaitNext ==
  /\ pc = "wait"
  /\ LET h == Head(pending) IN
       /\ evidence' = Append(evidence, h) /\ tasks' = tasks \ {h.id}
  /\ pending' = Tail(pending) /\ nCons' = nCons + 1 /\ pc' = "submit"
  /\ UNCHANGED <<next, queue, nextId, acqs>>

Finish ==
  /\ pc = "submit" /\ Finished
  /\ tasks' = tasks \ {pending[i].id : i \in 1..Len(pending)}
  /\ next' = IF pending = <<>> THEN next ELSE pending[1].index
  /\ pending' = <<>> /\ pc' = "done"
  /\ UNCHANGED <<queue, nextId, nCons, evidence, acqs>>

Next == Submit \/ GoWait \/ WaitNext \/ Finish
Spec == Init /\ [][Next]_vars /\ WF_vars(Next)

\* ---- properties (C11) ---------------------------------------------------------
\* (c) the evidence is exactly the consumed batches, in index order
EvidenceIsConsumedSequence == Len(evidence) = nCons /\ \A i \in 1..Len(evidence) : evidence[i].index = i - 1
\* each consumed batch of the acquisition phase is slice k of acquisition t with (t, k) fixed by its index
QueueExact == \A i \in 1..Len(evidence) :
  LET b == i - 1 IN
  IF b < OffB THEN evidence[i].src.t = -1
  ELSE evidence[i].src.t = (b - OffB) \div BPA /\ evidence[i].src.k = ((b - OffB) % BPA) + 1
\* (d) synchronous acquisition: acquire() runs with nothing pending, i.e. having seen ALL earlier batches
AcquisitionSeesAllEarlierEvidence == \A i \in 1..Len(acqs) : acqs[i].pend = 0 /\ acqs[i].seen = acqs[i].first
\* hence the evidence every consumed acquired batch was computed from does not depend on the schedule
ScheduleIndependentEvidence == \A i \in 1..Len(evidence) :
  evidence[i].src.t >= 0 => evidence[i].src.seen = OffB + evidence[i].src.t * BPA
Bounded == Len(pending) <= MaxPar
NoLeak == pc = "done" => tasks = {}
Terminates == <>(pc = "done")
=============================================================================

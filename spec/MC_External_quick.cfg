SPECIFICATION Spec
CONSTANTS
  High = 2
  StreamLen = 3
  MaxRows = 2
  MaxFields = 2
  Variant = "code"
INVARIANT Substitution
INVARIANT RaisesIffUnavailable
INVARIANT SeedDeterministic
INVARIANT SeedInRange
INVARIANT SeedsDistinctPerRow
CHECK_DEADLOCK FALSE

------------------------------ MODULE MC_BslMh ------------------------------
(* Exhaustive configuration of BslMh.tla: the four bound types, widths      *)
(* b - a in {1, 2, 4}, e^tt in {1/3, 1/2, 1, 2, 3}; one parameter (Dim = 1)  *)
(* or every pair of parameter kinds (Dim = 2).                               *)
EXTENDS BslMh
CONSTANT Dim
MCPoints == {<<1, 3>>, <<1, 2>>, <<1, 1>>, <<2, 1>>, <<3, 1>>}
MCIntPoints == {<<-1, 1>>, <<0, 1>>, <<2, 1>>}
MCPosts1 == {<<1, 4>>, <<1, 1>>, <<3, 2>>, <<5, 1>>}
Kinds == {[ty |-> 0, a |-> 0, b |-> 1], [ty |-> 0, a |-> -1, b |-> 1], [ty |-> 0, a |-> 1, b |-> 5],
          [ty |-> 1, a |-> 0, b |-> 4], [ty |-> 2, a |-> 1, b |-> 0], [ty |-> 3, a |-> 0, b |-> 0]}
Kinds2 == {[ty |-> 0, a |-> -1, b |-> 1], [ty |-> 1, a |-> 0, b |-> 4], [ty |-> 2, a |-> 1, b |-> 0], [ty |-> 3, a |-> 0, b |-> 0]}
MCParams == IF Dim = 1 THEN {<<k>> : k \in Kinds} ELSE {<<k1, k2>> : k1 \in Kinds2, k2 \in Kinds2}
MCPosts2 == {<<1, 4>>, <<3, 2>>}
MCPosts == IF Dim = 1 THEN MCPosts1 ELSE MCPosts2
=============================================================================

------------------------- MODULE AdaptiveSmc_Trace -------------------------
(***************************************************************************)
(* Trace validation for the EXTENSION AdaptiveSmc.tla: real runs of        *)
(* elfi.AdaptiveDistanceSMC (kind "AD") and elfi.AdaptiveThresholdSMC      *)
(* (kind "AT").  One event per returned population, then an "end" event.   *)
(* A failing clause is reported by the driver as drift "E:<clause>".       *)
(*                                                                         *)
(* Units: AD distances and distance weights 1e-6 (INF = 2000000000 stands  *)
(* for np.inf); AT discrepancies 1/8; importance weights, log densities,   *)
(* covariances 1e-4; quantile estimates 1e-6; density ratios 1e-3.         *)
(*                                                                         *)
(* kind "AD": T.n, T.N (objective n_samples of the inner Rejection),       *)
(*   T.qa / T.qA (the selection quantile, dyadic), T.bs, T.rounds, T.ncol. *)
(*   pop event of round r = i - 1 (logged by the harness from its update   *)
(*   and _extract_population hooks; ORACLE = numpy, technique T4):         *)
(*   nb, nsim        batches consumed / pop.n_sim                          *)
(*   ncols[b]        number of distance columns of batch b's output        *)
(*   nest            the threshold list the inner Rejection had in force   *)
(*   rows[x][k]      ORACLE distance of simulated row x (all rows of the   *)
(*                   round, in order) under function k - 1, whose scale is *)
(*                   numpy's population std of ALL rows of round k - 2     *)
(*   rows_elfi[x][k] the distance node's own output for the same rows      *)
(*   w_elfi, w_orc   pop.adaptive_distance_w / ORACLE 1 / std(all rows of  *)
(*                   this round)                                           *)
(*   cand[c]         index into rows of candidate c (the N rows of the     *)
(*                   inner Rejection's sample, matched by exact equality   *)
(*                   of parameters AND summaries; 0 = not a simulated row) *)
(*   cnew[c]         ORACLE distance of candidate c under the NEW function *)
(*   pop[p]          index into cand of particle p (0 = not a candidate)   *)
(*   ds, thr_rep     the population's discrepancies / threshold            *)
(*   ws, pp, lw, lp, lq, cov, wvar  as in Smc_Trace (scipy oracle fields)  *)
(*   end event: nsim, npops, ndf (length of the node's function list);     *)
(*   T.rounds = populations requested over ALL sample() calls of the trace *)
(*   (continued sampling: a second call on the same sampler); cont = 1 on  *)
(*   an end event whose exception was raised by a continuing call          *)
(*                                                                         *)
(* Float boundary allowed both ways (DESIGN 4, T2: ceil of an exactly      *)
(* integral quotient): the inner Rejection stops when                      *)
(* ceil(n / (n_acceptable / n_sim) / batch_size) <= batches consumed; with *)
(* n_acceptable = n the quotient is n_sim in exact arithmetic but may be   *)
(* n_sim * (1 + 2^-52) in doubles, and one more batch is consumed.         *)
(* art[b] = 1 (ORACLE: the same expression evaluated in doubles from the   *)
(* acceptance count after batch b) marks the batches where that happens;   *)
(* continuing after the target was reached is accepted only there.         *)
(*                                                                         *)
(* kind "AT": T.n, T.bs, T.max_iter, T.qthr, T.q0a / T.q0A (dyadic         *)
(*   initial quantile).  pop event: nb, nsim, rowd (discrepancies of ALL   *)
(*   simulated rows of the round, in order), thr_force (objective          *)
(*   thresholds[r], INF in round 0), a (quantile _quantiles[r], 1e-4), wn  *)
(*   (normalised weights 1e-4), qest (_quantiles[r + 1], -1 = None), mr    *)
(*   (the value DensityRatioEstimation.max_ratio returned for it), and the *)
(*   Smc_Trace fields.  end event: nsim, npops.                            *)
(***************************************************************************)
EXTENDS Naturals, Integers, Sequences, FiniteSets, TLC, Json, IOUtils, WQuantileOps

Traces == JsonDeserialize(IOEnv.TRACE_FILE)
VARIABLES tid, l, hist, sumSim, verdict, drift, done
vars == <<tid, l, hist, sumSim, verdict, drift, done>>
T == Traces[tid]
INF == 2000000000
TOL == 3
Abs(x) == IF x < 0 THEN -x ELSE x
SeqSet(s) == {s[i] : i \in 1..Len(s)}
MaxOf(S) == CHOOSE m \in S : \A x \in S : x <= m
CeilDiv(x, y) == (x + y - 1) \div y
Count(s, v) == Cardinality({i \in 1..Len(s) : s[i] = v})

Init == /\ tid \in 1..Len(Traces) /\ l = 1 /\ hist = <<>> /\ sumSim = 0
        /\ verdict = "ok" /\ drift = "" /\ done = FALSE

\* ---------------------------------------------------------------- shared (as Smc_Trace)
JudgeWeights(e, i) ==
  IF \E k \in 1..T.n : e.pp[k] <= 0 THEN "P:particles-have-positive-prior-density"
  ELSE IF i = 1 /\ \E k \in 1..T.n : e.ws[k] # 10000 THEN "P:first-population-weights-are-one"
  ELSE IF i > 1 /\ \E k \in 1..T.n : Abs(e.lw[k] - (e.lp[k] - e.lq[k])) > 3 THEN "P:weight-is-prior-over-mixture-of-previous-population"
  ELSE IF \E j \in 1..Len(e.cov) : Abs(e.cov[j] - 2 * e.wvar[j]) > 3 + (e.cov[j] \div 5000) THEN "P:covariance-is-twice-weighted-variance"
  ELSE "ok"

\* ---------------------------------------------------------------- AdaptiveDistanceSMC
\* [np.inf] + [pop.threshold for every earlier population]
NestT == <<INF>> \o [j \in 1..Len(hist) |-> hist[j].thr]
\* nested acceptance of an oracle row, decided up to TOL units either way
Maybe(row) == \A k \in 1..Len(NestT) : row[k] <= NestT[k] + TOL
Sure(row) == \A k \in 1..Len(NestT) : row[k] <= NestT[k] - TOL

JudgeAD(e, i) ==
  LET nrows == Len(e.rows)
      CandRows == {e.cand[c] : c \in 1..Len(e.cand)}
      PopCands == {e.pop[p] : p \in 1..Len(e.pop)}
  IN
  IF \E k \in 1..Len(e.sizes) : e.sizes[k] # T.n THEN "P:population-has-n-particles"
  ELSE IF Len(e.ds) # T.n \/ Len(e.pop) # T.n THEN "P:population-has-n-particles"
  ELSE IF ~(T.N * T.qa >= T.n * T.qA /\ (T.N - 1) * T.qa < T.n * T.qA) THEN "P:candidates-N-is-ceil-n-over-quantile"
  ELSE IF e.nsim # T.bs * e.nb \/ nrows # e.nsim \/ Len(e.ncols) # e.nb \/ Len(e.art) # e.nb THEN "P:population-n_sim-is-batches-times-batch_size"
  ELSE IF \E b \in 1..e.nb : e.ncols[b] # i THEN "P:one-distance-function-per-finished-round"
  ELSE IF \E x \in 1..nrows : Len(e.rows_elfi[x]) # i THEN "P:one-distance-function-per-finished-round"
  ELSE IF e.nest # (IF i = 1 THEN <<>> ELSE NestT) THEN "P:nested-thresholds-are-inf-then-every-earlier-population-threshold"
  ELSE IF Len(e.w_elfi) # T.ncol \/ \E k \in 1..T.ncol : Abs(e.w_elfi[k] - e.w_orc[k]) > 2 + (e.w_orc[k] \div 100000)
       THEN "P:new-distance-scale-is-std-of-all-rows-of-the-round"
  ELSE IF \E x \in 1..nrows : \E k \in 1..i : Abs(e.rows_elfi[x][k] - e.rows[x][k]) > TOL + (e.rows[x][k] \div 1000000)
       THEN "P:batch-distances-are-the-nested-distances"
  ELSE IF Cardinality({x \in 1..nrows : Maybe(e.rows[x])}) < T.N THEN "P:round-ends-with-N-nested-acceptances"
  ELSE IF \E b \in 1..(e.nb - 1) : e.art[b] # 1 /\ Cardinality({x \in 1..(b * T.bs) : Sure(e.rows[x])}) >= T.N
       THEN "P:round-stops-at-first-batch-reaching-N-acceptances"
  ELSE IF Len(e.cand) # T.N \/ Cardinality(CandRows) # T.N \/ ~(CandRows \subseteq 1..nrows) THEN "P:candidates-are-N-distinct-simulated-rows"
  ELSE IF Cardinality(PopCands) # T.n \/ ~(PopCands \subseteq 1..T.N) THEN "P:particles-are-n-distinct-candidates"
  ELSE IF \E p \in 1..T.n : ~Maybe(e.rows[e.cand[e.pop[p]]]) THEN "P:particle-passed-every-earlier-nested-threshold"
  ELSE IF \E c \in 1..T.N : ~Maybe(e.rows[e.cand[c]]) THEN "P:candidate-passed-every-earlier-nested-threshold"
  ELSE IF \E p \in 1..T.n : Abs(e.ds[p] - e.cnew[e.pop[p]]) > TOL + (e.ds[p] \div 1000000) THEN "P:discrepancy-is-distance-under-the-new-function"
  ELSE IF e.thr_rep # MaxOf(SeqSet(e.ds)) THEN "P:threshold-is-largest-new-distance-of-population"
  ELSE IF \E c \in (1..T.N) \ PopCands : e.cnew[c] < e.thr_rep - TOL - (e.thr_rep \div 1000000) THEN "P:population-is-best-n-of-N-under-new-distance"
  ELSE JudgeWeights(e, i)

\* mechanism: when the last batch brings more than N acceptances, the surplus is dropped by the newest distance IN FORCE
DriftAD(e, i) ==
  LET nrows == Len(e.rows)
      CandRows == {e.cand[c] : c \in 1..Len(e.cand)}
      worst == MaxOf({e.rows[x][i] : x \in CandRows})
  IN IF \E x \in (1..nrows) \ CandRows : Sure(e.rows[x]) /\ e.rows[x][i] < worst - TOL - (worst \div 1000000)
     THEN "M:surplus-acceptances-dropped-by-distance-in-force" ELSE ""

JudgeADEnd(e) ==
  IF e.raised # "" THEN (IF e.cont = 1 THEN "P:continued-sampling-returns" ELSE "P:sampler-returns")
  ELSE IF e.nsim # sumSim THEN "P:n_sim-is-total-over-all-rounds"
  ELSE IF e.npops # T.rounds \/ Len(hist) # T.rounds THEN "P:one-population-per-round"
  ELSE IF e.ndf # T.rounds + 1 THEN "P:one-distance-function-per-finished-round"
  ELSE "ok"

\* ---------------------------------------------------------------- AdaptiveThresholdSMC
\* thr is a weighted a/A-quantile of (xs, ws) up to the rounding of the logged (normalised) weights and of a
IsWQSlack(xs, ws, a, A, q) ==
  LET W == WTotal(ws)
      slack == 2 * Len(xs) * (a + A)
  IN /\ \E k \in 1..Len(xs) : xs[k] = q
     /\ WLe(xs, ws, q) * A >= a * W - slack
     /\ WLt(xs, ws, q) * A <= a * W + slack

QuantileOK(e) ==
  LET M == IF e.mr < 1000 THEN 1000 ELSE e.mr          \* max_value = 1.0 if max_value < 1.0
      q4 == e.qest \div 100
  IN /\ e.mr >= 0
     /\ \/ M >= 19980 /\ e.qest = 50000                 \* max(1 / max_value, 0.05)
        \/ M <= 20020 /\ Abs(q4 * M - 10000000) <= 2 * M + q4 + 10

JudgeAT(e, i) ==
  LET nrows == Len(e.rowd)
      Acc == {x \in 1..nrows : e.rowd[x] <= e.thr_force}
  IN
  IF \E k \in 1..Len(e.sizes) : e.sizes[k] # T.n THEN "P:population-has-n_samples-particles"
  ELSE IF Len(e.ds) # T.n \/ Len(e.ws) # T.n THEN "P:population-has-n_samples-particles"
  ELSE IF e.nsim # T.bs * e.nb \/ nrows # e.nsim \/ Len(e.art) # e.nb THEN "P:population-n_sim-is-batches-times-batch_size"
  ELSE IF i = 1 /\ e.nb # CeilDiv(CeilDiv(T.n * T.q0A, T.q0a), T.bs) THEN "P:first-round-simulates-ceil-n-over-initial-quantile"
  ELSE IF i = 1 /\ e.thr_force # INF THEN "P:first-round-has-no-threshold"
  ELSE IF i > 1 /\ hist[i - 1].qest < 0 THEN "P:round-started-without-quantile-estimate"
  ELSE IF i > 1 /\ hist[i - 1].qest > T.qthr THEN "P:round-started-only-while-estimated-quantile-below-q_threshold"
  ELSE IF i > 1 /\ Abs(e.a * 100 - hist[i - 1].qest) > 100 THEN "P:threshold-quantile-is-the-estimate-made-after-previous-round"
  ELSE IF i > 1 /\ ~IsWQSlack(hist[i - 1].ds, hist[i - 1].wn, e.a, 10000, e.thr_force) THEN "P:threshold-is-weighted-quantile-of-previous-population"
  ELSE IF \E k \in 1..T.n : e.ds[k] > e.thr_force THEN "P:discrepancies-within-threshold-in-force"
  ELSE IF e.thr_rep # MaxOf(SeqSet(e.ds)) THEN "P:reported-threshold-is-largest-discrepancy"
  ELSE IF Cardinality(Acc) < T.n THEN "P:round-ends-with-n-acceptances"
  ELSE IF i > 1 /\ \E b \in 1..(e.nb - 1) : e.art[b] # 1 /\ Cardinality({x \in Acc : x <= b * T.bs}) >= T.n
       THEN "P:round-stops-at-first-batch-reaching-n-acceptances"
  ELSE IF \/ Cardinality({x \in Acc : e.rowd[x] < e.thr_rep}) >= T.n
          \/ \E v \in SeqSet(e.ds) \cup {e.rowd[x] : x \in Acc} : v < e.thr_rep /\ Count(e.ds, v) # Count(e.rowd, v)
          \/ Count(e.ds, e.thr_rep) > Count(e.rowd, e.thr_rep)
       THEN "P:population-is-the-n-smallest-accepted-discrepancies"
  ELSE IF e.qest >= 0 /\ ~QuantileOK(e) THEN "P:quantile-is-max-of-inverse-max-ratio-and-0.05"
  ELSE IF e.qest < 0 /\ i < T.max_iter THEN "P:quantile-estimated-after-every-round-but-the-last-possible"
  ELSE JudgeWeights(e, i)

JudgeATEnd(e) ==
  LET P == Len(hist) IN
  IF e.raised # "" THEN (IF e.cont = 1 THEN "P:continued-sampling-returns" ELSE "P:sampler-returns")
  ELSE IF e.nsim # sumSim THEN "P:n_sim-is-total-over-all-rounds"
  ELSE IF e.npops # P \/ P < 1 THEN "P:every-round-returns-its-population"
  ELSE IF P > T.max_iter THEN "P:at-most-max_iter-populations"
  ELSE IF P < T.max_iter /\ (hist[P].qest < 0 \/ hist[P].qest < T.qthr) THEN "P:early-stop-only-when-estimated-quantile-reaches-q_threshold"
  ELSE "ok"

\* ----------------------------------------------------------------
JudgeP(e, i) ==
  IF e.ev = "end" THEN (IF T.kind = "AD" THEN JudgeADEnd(e) ELSE JudgeATEnd(e))
  ELSE IF T.kind = "AD" THEN JudgeAD(e, i) ELSE JudgeAT(e, i)
JudgeM(e, i) == IF e.ev = "pop" /\ T.kind = "AD" THEN DriftAD(e, i) ELSE ""

Step == /\ ~done
        /\ IF l > Len(T.events) THEN done' = TRUE /\ UNCHANGED <<tid, l, hist, sumSim, verdict, drift>>
           ELSE LET e == T.events[l]
                    i == Len(hist) + 1
                    j == JudgeP(e, i)
                    m == IF j = "ok" THEN JudgeM(e, i) ELSE ""
                IN /\ verdict' = j /\ done' = (j # "ok") /\ l' = l + 1 /\ UNCHANGED tid
                   /\ drift' = (IF drift = "" THEN m ELSE drift)
                   /\ IF e.ev = "pop"
                      THEN /\ hist' = Append(hist, [thr |-> e.thr_rep, ds |-> e.ds, wn |-> e.wn, qest |-> e.qest])
                           /\ sumSim' = sumSim + e.nsim
                      ELSE UNCHANGED <<hist, sumSim>>
Spec == Init /\ [][Step]_vars
Report == done => PrintT(<<"V", tid, l, verdict, drift>>)
=============================================================================

--------------------------- MODULE RejectionOps ---------------------------
(***************************************************************************)
(* Pure operators of elfi.methods.inference.samplers.Rejection, shared by  *)
(* the design module Rejection.tla and the trace spec Rejection_Trace.tla. *)
(*                                                                         *)
(* A draw is a record [id, d].  Discrepancies are integers; two reserved   *)
(* codes stand for the non-finite values, ordered as numpy.argsort orders  *)
(* them:  finite < +inf (INF) < nan (NAN).                                  *)
(* `d <= threshold` is numpy's comparison: false for nan, true for         *)
(* inf <= inf.                                                             *)
(***************************************************************************)
EXTENDS Naturals, Integers, Sequences, FiniteSets

INF == 999
NAN == 1000
NoThr == -1                              \* objective has no threshold (quantile / n_sim mode)
Filler == [id |-> -1, d |-> INF]         \* rows of the buffer before anything was written there:
                                         \* distance np.inf, payload np.empty (garbage)

LeqThr(d, thr) == d # NAN /\ d <= thr    \* numpy: nan <= x is False; INF <= INF is True
Accepts(d, thr) == IF thr = NoThr THEN TRUE ELSE LeqThr(d, thr)

Ceil(a, b) == (a + b - 1) \div b         \* b > 0, a >= 0

SortedByD(s) == \A i \in 1..(Len(s) - 1) : s[i].d <= s[i + 1].d
Perms(n) == {p \in [1..n -> 1..n] : \A i, j \in 1..n : i # j => p[i] # p[j]}

\* _merge_batch: accepted rows of the batch overwrite the tail of the buffer ...
Tailed(buf, batch, thr) ==
  LET acc == SelectSeq(batch, LAMBDA r : Accepts(r.d, thr))
      L == Len(buf)
      k == Len(acc)
  IN [i \in 1..L |-> IF i > L - k THEN acc[i - (L - k)] ELSE buf[i]]
\* ... then every output is permuted by ONE argsort of the discrepancy column.  argsort is not
\* stable: any permutation that sorts by d is a possible outcome.
MergeResults(buf, batch, thr) ==
  LET t == Tailed(buf, batch, thr)
  IN {[i \in 1..Len(t) |-> t[p[i]]] : p \in {q \in Perms(Len(t)) : SortedByD([i \in 1..Len(t) |-> t[q[i]]])}}

\* same multiset of rows
RECURSIVE CountIn(_, _)
CountIn(s, r) == IF s = <<>> THEN 0 ELSE (IF Head(s) = r THEN 1 ELSE 0) + CountIn(Tail(s), r)
SameRows(a, b) == Len(a) = Len(b) /\ \A i \in 1..Len(a) : CountIn(a, a[i]) = CountIn(b, a[i])
\* b is a possible result of merging: sorted and the same multiset as the tailed buffer
IsMergeResult(b, buf, batch, thr) == SortedByD(b) /\ SameRows(b, Tailed(buf, batch, thr))

NAcceptable(buf, thr) == Cardinality({i \in 1..Len(buf) : LeqThr(buf[i].d, thr)})

\* _update_objective_n_batches (threshold mode), the float expression cleared of denominators:
\*   ceil((n_samples / (n_acc / n_sim) + .2 * bs * [n_acc < n_samples]) / bs)
\* The harness generates sizes for which the quotient is computed exactly enough (see driver).
ObjAfter(objB, buf, thr, n, bs, nSim) ==
  IF thr = NoThr THEN objB
  ELSE LET a == NAcceptable(buf, thr) IN
       IF a = 0 THEN objB + 1
       ELSE Ceil(5 * n * nSim + (IF a < n THEN bs * a ELSE 0), 5 * a * bs)
\* exact-quotient cases, where a float ceil may legitimately land on either side: both accepted
ObjAfterAlt(objB, buf, thr, n, bs, nSim) ==
  IF thr = NoThr THEN {objB}
  ELSE LET a == NAcceptable(buf, thr) IN
       IF a = 0 THEN {objB + 1}
       ELSE LET num == 5 * n * nSim + (IF a < n THEN bs * a ELSE 0)
                den == 5 * a * bs
            IN IF num % den = 0 THEN {num \div den, num \div den + 1} ELSE {Ceil(num, den)}

\* ---- the definition the property refers to -----------------------------------
\* the k smallest discrepancies (as a sorted sequence) among a sequence of draws
RECURSIVE SmallestDs(_, _)
MinD(S) == CHOOSE x \in S : \A y \in S : x.d <= y.d
SmallestDs(S, k) == IF k = 0 \/ S = {} THEN <<>> ELSE LET m == MinD(S) IN <<m.d>> \o SmallestDs(S \ {m}, k - 1)
Eligible(S, thr) == {c \in S : Accepts(c.d, thr)}
=============================================================================

--------------------------- MODULE WQuantileOps ---------------------------
(***************************************************************************)
(* Pure operators for the weighted sample quantile                         *)
(*     elfi.methods.utils.weighted_sample_quantile(x, alpha, weights)      *)
(* shared by the design module WQuantile.tla, the trace spec               *)
(* WStats_Trace.tla and the modules of other properties that consume a     *)
(* quantile (C07 SMC thresholds, C16 credible intervals).                  *)
(*                                                                         *)
(* Conventions (everything is exact integer arithmetic):                   *)
(*   xs   sequence of integers: the sample, in the caller's order (may be  *)
(*        unsorted, may contain ties).  Only order and equality of the     *)
(*        values are used, so ranks / ids / fixed-point integers all work. *)
(*   ws   sequence of naturals of the same length: UNNORMALISED weights    *)
(*        (zeros allowed).  `weights=None` of the code is Ones(Len(xs)).   *)
(*   a, A the probability alpha = a / A  with A > 0 (0 <= a <= A for       *)
(*        alpha in [0,1]).                                                 *)
(* All comparisons "normalised weight >= alpha" are cleared of             *)
(* denominators:  S / W >= a / A  <=>  S * A >= a * W  (W, A > 0).         *)
(* The caller keeps  WTotal(ws) * max(a, A)  below 2^31 (TLC integers).    *)
(*                                                                         *)
(*   IsWQ(xs, ws, a, A, q)   the DEFINITION in the statement of C13        *)
(*   WQFound(xs, ws, a, A)   the code's scan finds an index (otherwise the *)
(*                           code raises IndexError)                       *)
(*   WQScan(xs, ws, a, A)    the VALUE the code's scan returns; only       *)
(*                           meaningful where WQFound (TLC stops with an   *)
(*                           evaluation error otherwise, never a verdict)  *)
(*   WQScanPos(xs, ws, a, A) the 1-based position, in the stably sorted    *)
(*                           sample, the scan stops at (0 = none)          *)
(*   WQScanIdx(xs, ws, a, A) the 1-based index INTO xs of that element     *)
(*                           under a stable argsort (0 = none)             *)
(*   WQSet(xs, ws, a, A)     all sample values satisfying the definition   *)
(*                                                                         *)
(* Facts checked exhaustively by TLC on WQuantile.tla (samples <= 4,       *)
(* values 0..3, weights 0..3, alpha in k/8) that users may rely on:        *)
(*   - for WTotal(ws) > 0 and 0 <= a <= A: WQFound, IsWQ(.., WQScan(..)),  *)
(*     and WQScan is the LEAST element of WQSet (the lower quantile);      *)
(*   - the value does not depend on how argsort orders tied values;        *)
(*   - WQScan is monotone in a/A and unchanged by ScaleW(ws, k), k >= 1.   *)
(* Float soundness when comparing with the real code: the float scan       *)
(* equals WQScan if a = 0, or WTotal(ws) is a power of two, or a/A is on   *)
(* no cumulative boundary; on a boundary with inexact normalisation the    *)
(* code may return the next element of positive weight instead - which     *)
(* still satisfies IsWQ (compare with IsWQ / WQSet there, not WQScan).     *)
(***************************************************************************)
EXTENDS Naturals, Integers, Sequences, FiniteSets

Ones(n) == [i \in 1..n |-> 1]
ScaleW(ws, k) == [i \in 1..Len(ws) |-> k * ws[i]]

RECURSIVE WSumUpTo(_, _)
WSumUpTo(ws, n) == IF n = 0 THEN 0 ELSE ws[n] + WSumUpTo(ws, n - 1)
\* total weight  sum(w)
WTotal(ws) == WSumUpTo(ws, Len(ws))

RECURSIVE WSumWhere(_, _, _)
\* sum of ws[i] over the index set S
WSumWhere(ws, S, n) == IF n = 0 THEN 0
                       ELSE (IF n \in S THEN ws[n] ELSE 0) + WSumWhere(ws, S, n - 1)
\* unnormalised weight of the sample values <= q  /  < q
WLe(xs, ws, q) == WSumWhere(ws, {i \in 1..Len(xs) : xs[i] <= q}, Len(xs))
WLt(xs, ws, q) == WSumWhere(ws, {i \in 1..Len(xs) : xs[i] < q}, Len(xs))

(***************************************************************************)
(* THE DEFINITION (statement of C13):  q is an element of the sample, the  *)
(* normalised weight of values <= q is at least alpha and the normalised   *)
(* weight of values < q is at most alpha.  Requires WTotal(ws) > 0.        *)
(***************************************************************************)
IsWQ(xs, ws, a, A, q) ==
  LET W == WTotal(ws) IN
  /\ \E i \in 1..Len(xs) : xs[i] = q
  /\ WLe(xs, ws, q) * A >= a * W
  /\ WLt(xs, ws, q) * A <= a * W

\* the set of sample values that satisfy the definition
WQSet(xs, ws, a, A) == {xs[i] : i \in {j \in 1..Len(xs) : IsWQ(xs, ws, a, A, xs[j])}}

(***************************************************************************)
(* THE CODE                                                                *)
(*   index = np.argsort(x)                                                 *)
(*   if alpha == 0: alpha_q = x[index[0]]                                  *)
(*   else:                                                                 *)
(*     weights = weights / np.sum(weights)                                 *)
(*     sorted_weights = weights[index]                                     *)
(*     cum_weights = np.insert(np.cumsum(sorted_weights), 0, 0)            *)
(*     cum_weights[-1] = 1.0                                               *)
(*     index_alpha = np.where(cum_weights[:-1] < alpha                     *)
(*                            & alpha <= cum_weights[1:])[0][0]            *)
(*     alpha_q = x[index][index_alpha]                                     *)
(* argsort is modelled as the STABLE sort (ties by original index).  The   *)
(* returned VALUE does not depend on the tie order (theorem               *)
(* TieOrderIrrelevant of WQuantile.tla), the position may.                 *)
(***************************************************************************)
\* 1-based position of element i in the stably sorted sample
Rank(xs, i) == 1 + Cardinality({j \in 1..Len(xs) : xs[j] < xs[i] \/ (xs[j] = xs[i] /\ j < i)})
\* np.argsort: Argsort(xs)[p] = index into xs of the p-th smallest element
Argsort(xs) == [p \in 1..Len(xs) |-> CHOOSE i \in 1..Len(xs) : Rank(xs, i) = p]

RECURSIVE CumAt(_, _, _)
\* unnormalised cumulative weight of the first k elements in the order `perm`
\* ( = W * cum_weights[k] of the code, k = 0..n )
CumAt(ws, perm, k) == IF k = 0 THEN 0 ELSE ws[perm[k]] + CumAt(ws, perm, k - 1)
\* `cum_weights[-1] = 1.0`: the last entry is forced to the total.  In exact arithmetic this
\* is the identity (CumAt(ws, perm, n) = W); in floating point it repairs a rounded cumsum.
CumForced(ws, perm, k) == IF k = Len(ws) THEN WTotal(ws) ELSE CumAt(ws, perm, k)

\* first 1-based position p with  cum[p-1] < alpha <= cum[p]  in the order `perm`; 0 if none
ScanPosIn(ws, perm, a, A) ==
  LET W == WTotal(ws)
      n == Len(ws)
      hits == {p \in 1..n : /\ CumForced(ws, perm, p - 1) * A < a * W
                            /\ a * W <= CumForced(ws, perm, p) * A}
  IN IF hits = {} THEN 0 ELSE CHOOSE p \in hits : \A r \in hits : p <= r

WQScanPos(xs, ws, a, A) ==
  IF Len(xs) = 0 THEN 0
  ELSE IF a = 0 THEN 1                      \* `if alpha == 0: x[index[0]]` (weights not looked at)
  ELSE IF WTotal(ws) = 0 THEN 0             \* 0/0 = nan weights: every comparison is False
  ELSE ScanPosIn(ws, Argsort(xs), a, A)

WQScanIdx(xs, ws, a, A) ==
  LET p == WQScanPos(xs, ws, a, A) IN IF p = 0 THEN 0 ELSE Argsort(xs)[p]

WQFound(xs, ws, a, A) == WQScanPos(xs, ws, a, A) # 0

WQScan(xs, ws, a, A) == xs[WQScanIdx(xs, ws, a, A)]

\* the same scan under an arbitrary sorting permutation (used to show tie-order irrelevance)
IsSortingPerm(xs, perm) ==
  /\ perm \in [1..Len(xs) -> 1..Len(xs)]
  /\ \A p, r \in 1..Len(xs) : p # r => perm[p] # perm[r]
  /\ \A p \in 1..(Len(xs) - 1) : xs[perm[p]] <= xs[perm[p + 1]]
WQFoundUnder(ws, a, A, perm) == a = 0 \/ ScanPosIn(ws, perm, a, A) # 0
WQScanUnder(xs, ws, a, A, perm) ==
  IF a = 0 THEN xs[perm[1]] ELSE xs[perm[ScanPosIn(ws, perm, a, A)]]
=============================================================================

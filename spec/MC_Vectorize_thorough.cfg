SPECIFICATION Spec
CONSTANTS
  MaxArity = 3
  MaxLen = 3
  Variant = "code"
INVARIANT Length
INVARIANT PerRow
INVARIANT ConstantsUntouched
INVARIANT Arity
INVARIANT KwargsThrough
INVARIANT MetaRowIndex
INVARIANT NoMetaInvented
INVARIANT DtypeFalseObject
INVARIANT ContainerOnly
INVARIANT Statement
CHECK_DEADLOCK FALSE

-------------------------------- MODULE Pool --------------------------------
(***************************************************************************)
(* Histories of inference runs over ONE output pool: fill, rerun, rerun     *)
(* needing more batches, remove a store, replace a downstream node.         *)
(***************************************************************************)
EXTENDS Naturals, Sequences, FiniteSets, TLC, PoolOps

CONSTANTS StoredSets,   \* the sets of stored nodes to explore
          MaxBatches, MaxRuns,
          KeepForm,     \* TRUE: removing a store must leave a set of the stated form
          WithSave      \* TRUE: on-disk pools - Save / StaleOpen enabled
VARIABLES stores,     \* node -> (batch index -> value)     (the pool)
          ver,        \* version of the deterministic nodes S, d
          nruns, lastRun, lastVer, ranLog,
          saved       \* on-disk pools: node -> batch indices in the last pickled view (save / close), or NoSave
vars == <<stores, ver, nruns, lastRun, lastVer, ranLog, saved>>
NoSave == [n \in {"_none"} |-> {}]
Req == {"d", "t1", "t2"}          \* what Rejection requests: discrepancy + parameters

Init == /\ \E st \in StoredSets : stores = [n \in st |-> <<>>]
        /\ ver = [n \in {"S", "d"} |-> 0] /\ nruns = 0 /\ lastRun = <<>> /\ lastVer = ver /\ ranLog = {} /\ saved = NoSave

\* one inference run consuming batches 0..k-1
RECURSIVE DoRun(_, _, _, _, _)
DoRun(st, i, k, res, ran) ==
  IF i = k THEN <<st, res, ran>>
  ELSE LET b == RunBatch(st, Req, i, ver) IN
       DoRun(AddBatch(st, b.val, i), i + 1, k, Append(res, [n \in Req |-> b.val[n]]),
             ran \cup {<<n, i, i \in DOMAIN (IF n \in DOMAIN st THEN st[n] ELSE <<>>)>> : n \in b.ran})
Run(k) == /\ nruns < MaxRuns /\ LET r == DoRun(stores, 0, k, <<>>, {}) IN
             stores' = r[1] /\ lastRun' = r[2] /\ ranLog' = r[3]
          /\ nruns' = nruns + 1 /\ lastVer' = ver /\ UNCHANGED <<ver, saved>>
\* the stated form of a stored set: the simulator and/or anything computed from it, optionally with ALL parameters
StatedForm(S) == (S \cap {"sim", "S", "d"} # {}) /\ (S \cap {"t1", "t2"} \in {{}, {"t1", "t2"}})
RemoveStore(n) == /\ n \in DOMAIN stores /\ (KeepForm => StatedForm(DOMAIN stores \ {n}))
                  /\ stores' = [m \in DOMAIN stores \ {n} |-> stores[m]]
                  /\ saved' = NoSave /\ UNCHANGED <<ver, nruns, lastRun, lastVer, ranLog>>
\* pool.add_store(n): an empty store for a node (e.g. one that was removed before); it fills up as batches are consumed
AddStore(n) == /\ n \in NodeSet \ DOMAIN stores /\ (KeepForm => StatedForm(DOMAIN stores \cup {n}))
               \* only for pools that do not store parameters: with parameters loaded for a batch, a node of that
               \* batch that is NOT held (an added, still empty store) makes the simulator re-run on a generator the
               \* parameters did not advance - the situation of finding F29 (TLC refutes Transparent / PoolFresh
               \* without this guard)
               /\ {"t1", "t2"} \cap DOMAIN stores = {}
               /\ stores' = [m \in DOMAIN stores \cup {n} |-> IF m = n THEN <<>> ELSE stores[m]]
               /\ saved' = NoSave /\ UNCHANGED <<ver, nruns, lastRun, lastVer, ranLog>>
\* the user replaces a downstream node; a stored node that was replaced must be dropped from the pool
Replace(n) == /\ n \in {"S", "d"} /\ n \notin DOMAIN stores /\ ver[n] < 1
              /\ (n = "S" => "d" \notin DOMAIN stores)
              /\ ver' = [ver EXCEPT ![n] = ver[n] + 1] /\ UNCHANGED <<stores, nruns, lastRun, lastVer, ranLog, saved>>
\* ArrayPool.save / close pickles the stores (each with its number of batches); the data files keep growing afterwards
Save == /\ WithSave /\ nruns > 0 /\ saved # [n \in DOMAIN stores |-> DOMAIN stores[n]] /\ saved' = [n \in DOMAIN stores |-> DOMAIN stores[n]]
        /\ UNCHANGED <<stores, ver, nruns, lastRun, lastVer, ranLog>>
\* ArrayPool.open from a pickle older than the data (used further, not saved again): the pool makes available the
\* batches it had when it was saved; later batches are written over the orphaned rows in place
StaleOpen == /\ WithSave /\ saved # NoSave
             /\ stores' = [n \in DOMAIN stores |-> [j \in saved[n] |-> stores[n][j]]]
             /\ UNCHANGED <<ver, nruns, lastRun, lastVer, ranLog, saved>>
Next == (\E k \in 1..MaxBatches : Run(k)) \/ (\E n \in NodeSet : RemoveStore(n) \/ AddStore(n)) \/ (\E n \in {"S", "d"} : Replace(n))
        \/ Save \/ StaleOpen
Spec == Init /\ [][Next]_vars

\* (a) same results as the pool-free run
Transparent == \A i \in 1..Len(lastRun) : \A n \in Req : lastRun[i][n] = Fresh(i - 1, lastVer)[n]
\* (b) a stored node's operation never runs for a batch the pool held
NoResim == \A r \in ranLog : ~r[3]
\* (c) the pool holds fresh-computation values (for the version current when they were stored:
\*     Replace requires the replaced node and everything computed from it not to be stored)
PoolFresh == \A n \in DOMAIN stores : \A i \in DOMAIN stores[n] : stores[n][i] = Fresh(i, ver)[n]
=============================================================================

----------------------------- MODULE Nuts_Trace -----------------------------
(***************************************************************************)
(* Trace validation for C09, NUTS part.                                    *)
(*                                                                         *)
(* A trace is one real call  nuts(n_iter, params0, target, grad_target,    *)
(* ...)  seen through the target callable supplied by the harness.  Every  *)
(* distinct parameter vector gets a small state id (bit-for-bit equality). *)
(* Per iteration the harness logs                                          *)
(*   prev   : id of the argument of the iteration's first target call      *)
(*            (samples[ii-1]),                                             *)
(*   leaves : one entry per leapfrog step, in creation order: id of        *)
(*            params1 and the outcome "in" / "ok" / "div" computed from    *)
(*            the values the code itself holds at that call (log_slicevar, *)
(*            momentum1) and the target value; "unk" if not observable,    *)
(* per returned row its state id and the class of its log-target, and the  *)
(* digests of two identical calls.                                         *)
(*                                                                         *)
(* P:* clauses transcribe the statement (requested number of states, no    *)
(* state with log-target -inf / NaN from a valid start, deterministic in   *)
(* the seed).  M:* clauses bind the run to the design module NutsTree: the *)
(* row written by iteration i must be a selection that NutsTree allows for *)
(* exactly the observed leaf outcomes (FinalSelections), in particular the *)
(* previous sample or a leaf inside the slice.                             *)
(***************************************************************************)
EXTENDS Naturals, Integers, Sequences, FiniteSets, TLC, Json, IOUtils, NutsTreeOps

Traces == JsonDeserialize(IOEnv.TRACE_FILE)

VARIABLES tid, l, verdict, drift, done
vars == <<tid, l, verdict, drift, done>>

T == Traces[tid]
NI == Len(T.iters)

Init == /\ tid \in 1..Len(Traces) /\ l = 1 /\ verdict = "ok" /\ drift = "" /\ done = FALSE

\* ---- one iteration (mechanism only: the statement says nothing about single NUTS moves) -----
OutsOf(e) == [k \in 1..Len(e.leaves) |-> e.leaves[k].o]
JudgeIterM(i) ==
  LET e == T.iters[i] IN
  IF i > Len(T.outs) THEN ""                                   \* the run ended early; judged at the end
  ELSE LET row == T.outs[i].s
           prevRow == IF i = 1 THEN T.start ELSE T.outs[i - 1].s
           cands == (IF row = e.prev THEN {0} ELSE {}) \cup {k \in 1..Len(e.leaves) : e.leaves[k].s = row}
           outs == OutsOf(e)
       IN IF e.prev # prevRow THEN "M:iteration-starts-from-previous-sample"
          ELSE IF cands = {} THEN "M:sample-is-previous-or-a-leaf"
          ELSE IF \E k \in 1..Len(outs) : outs[k] \notin Outcomes THEN ""          \* leaves not observable
          ELSE IF \A c \in cands : c # 0 /\ outs[c] # "in" THEN "M:selected-in-slice"
          ELSE IF Len(outs) > 2 * Pow2n(T.maxdepth) - 1 THEN "M:max-depth"
          ELSE IF T.maxdepth <= 3 /\ cands \cap FinalSelections(outs, T.maxdepth) = {} THEN "M:run-is-a-NutsTree-behaviour"
          ELSE ""

\* ---- end of the run ----------------------------------------------------------------------
JudgeEndP ==
  IF T.res # "ok" THEN "P:returns-the-requested-number-of-states"
  ELSE IF Len(T.outs) # T.n THEN "P:length"
  ELSE IF \E k \in 1..T.n : T.outs[k].t \in {"-inf", "nan"} THEN "P:finite-output"
  ELSE IF T.d1 # T.d2 THEN "P:pure"
  ELSE "ok"
JudgeEndM == IF T.res = "ok" /\ NI # T.n THEN "M:one-iteration-per-state" ELSE ""

Step ==
  /\ ~done
  /\ UNCHANGED tid /\ l' = l + 1
  /\ IF T.t0 # "fin"
     THEN /\ verdict' = "ok" /\ done' = TRUE
          /\ drift' = (IF T.t0 \in {"-inf", "inf"} /\ T.res # "raise" THEN "M:infinite-start-is-refused" ELSE "")
     ELSE IF l > NI
     THEN /\ verdict' = JudgeEndP /\ done' = TRUE
          /\ drift' = (IF drift = "" THEN JudgeEndM ELSE drift)
     ELSE /\ verdict' = "ok" /\ done' = FALSE
          /\ drift' = (IF drift = "" THEN JudgeIterM(l) ELSE drift)

Spec == Init /\ [][Step]_vars
Report == done => PrintT(<<"V", tid, l, verdict, drift>>)
=============================================================================

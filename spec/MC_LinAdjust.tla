---------------------------- MODULE MC_LinAdjust ----------------------------
(* Exhaustive configurations of LinAdjust.tla.  The adjustment is equivariant *)
(* under a permutation of the rows, so the data are enumerated as multisets   *)
(* of rows (sequences that are non-decreasing in the lexicographic order).    *)
EXTENDS LinAdjust

CONSTANTS MinN, MaxN,   \* numbers of rows
          SVals,        \* values of a summary (may contain NAN, PINF, NINF)
          ThVals,       \* values of a parameter
          ObsSet        \* observed summary vectors

RowTypes == {s \o t : s \in [1..K -> SVals], t \in [1..NP -> ThVals]}

RECURSIVE LexLeq(_, _)
LexLeq(a, b) == IF a = <<>> THEN TRUE
                ELSE IF Head(a) < Head(b) THEN TRUE
                ELSE IF Head(a) > Head(b) THEN FALSE
                ELSE LexLeq(Tail(a), Tail(b))

RECURSIVE NonDec(_, _)
NonDec(n, from) == IF n = 0 THEN {<<>>}
                   ELSE UNION {{<<r>> \o t : t \in NonDec(n - 1, {x \in from : LexLeq(r, x)})} : r \in from}

MCData == {[S |-> [i \in 1..Len(r) |-> SubSeq(r[i], 1, K)],
            obs |-> o,
            TH |-> [j \in 1..NP |-> [i \in 1..Len(r) |-> r[i][K + j]]]]
           : r \in UNION {NonDec(n, RowTypes) : n \in MinN..MaxN}, o \in ObsSet}

MCObs1 == {<<1>>}
MCObs2 == {<<1, 0>>, <<1, 1>>}
MCObs == IF K = 1 THEN MCObs1 ELSE MCObs2

\* integer maps with determinant -1, 1, 2, -2
MCMaps == IF K = 1 THEN {<< <<-1>> >>, << <<2>> >>, << <<-2>> >>}
          ELSE {<< <<0, 1>>, <<1, 0>> >>, << <<1, 1>>, <<0, 1>> >>, << <<1, 1>>, <<-1, 1>> >>,
                << <<2, 0>>, <<1, -1>> >>}
MCShifts == IF K = 1 THEN {<<0>>, <<3>>} ELSE {<<0, 0>>, <<1, -2>>}
\* negative control: a singular map loses information, the result must change for some data
MCMapsSingular == IF K = 1 THEN {<< <<0>> >>} ELSE {<< <<1, 1>>, <<1, 1>> >>}

MCGrid == [1..K -> -2..2]
=============================================================================

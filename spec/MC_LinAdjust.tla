---------------------------- MODULE MC_LinAdjust ----------------------------
(* Exhaustive configurations of LinAdjust.tla (constants a cfg file cannot express). *)
EXTENDS LinAdjust

CONSTANTS SVals,        \* values of a summary (may contain NAN, PINF, NINF)
          ThVals        \* values of a parameter

MCRowTypes == {s \o t : s \in [1..K -> SVals], t \in [1..NP -> ThVals]}

MCObs == IF K = 1 THEN {<<1>>} ELSE {<<1, 0>>, <<1, 1>>}

\* integer maps with determinant -1, 1, 2, -2 (and translations)
MCAffs == IF K = 1 THEN {<< << <<-1>> >>, <<0>> >>, << << <<2>> >>, <<3>> >>, << << <<-2>> >>, <<-1>> >>}
          ELSE {<< << <<0, 1>>, <<1, 0>> >>, <<0, 0>> >>,
                << << <<1, 1>>, <<0, 1>> >>, <<1, -2>> >>,
                << << <<1, 1>>, <<-1, 1>> >>, <<0, 0>> >>,
                << << <<2, 0>>, <<1, -1>> >>, <<0, 3>> >>}
\* negative control: a singular map loses information, the result must change for some data
MCAffsSingular == IF K = 1 THEN {<< << <<0>> >>, <<0>> >>} ELSE {<< << <<1, 1>>, <<1, 1>> >>, <<0, 0>> >>}

MCGrid == [1..K -> -1..1]
=============================================================================

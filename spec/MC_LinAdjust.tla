---------------------------- MODULE MC_LinAdjust ----------------------------
(* Exhaustive configurations of LinAdjust.tla (constants a cfg file cannot express). *)
EXTENDS LinAdjust

CONSTANTS SVals,        \* values of a summary (may contain NAN, PINF, NINF)
          ThVals        \* values of a parameter

\* named value sets (a cfg file cannot write negative numbers)
SV_nan == {0, 1, 2, NAN}
SV_ninf == {0, 1, 2, NINF}
SV_wide == {0, 1, 2, 4, NAN}
SV_fin == {0, 1, 2}
TV_pinf == {0, 1, PINF}
TV_nan == {0, 1, 3, NAN}
TV_neg == {-1, 0, 2, PINF}
TV_nan3 == {0, 1, NAN}
TV_fin == {0, 1}

MCRowTypes == {s \o t : s \in [1..K -> SVals], t \in [1..NP -> ThVals]}

MCObs == IF K = 1 THEN {<<1>>} ELSE {<<1, 0>>, <<1, 1>>}
MCObsOne == IF K = 1 THEN {<<1>>} ELSE {<<1, 0>>}

\* integer maps with determinant -1, 1, 2, -2 (and translations)
MCAffs == IF K = 1 THEN {<< << <<-1>> >>, <<0>> >>, << << <<2>> >>, <<3>> >>, << << <<-2>> >>, <<-1>> >>}
          ELSE {<< << <<0, 1>>, <<1, 0>> >>, <<0, 0>> >>,
                << << <<1, 1>>, <<0, 1>> >>, <<1, -2>> >>,
                << << <<1, 1>>, <<-1, 1>> >>, <<0, 0>> >>,
                << << <<2, 0>>, <<1, -1>> >>, <<0, 3>> >>}
\* negative control: a singular map loses information, the result must change for some data
MCAffsSingular == IF K = 1 THEN {<< << <<0>> >>, <<0>> >>} ELSE {<< << <<1, 1>>, <<1, 1>> >>, <<0, 0>> >>}

MCGrid == [1..K -> -1..1]
=============================================================================

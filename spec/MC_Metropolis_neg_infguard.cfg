SPECIFICATION Spec
CONSTANTS
  MaxN = 2
  MaxW = 1
  GuardInf = FALSE
  GuardNaN = TRUE
  SliceFrom = 1
  StartClass = "fin"
INVARIANT AcceptIff
CHECK_DEADLOCK FALSE

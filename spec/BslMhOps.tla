----------------------------- MODULE BslMhOps -----------------------------
(***************************************************************************)
(* Pure operators of the bounded-parameter transform of elfi's BSL         *)
(* sampler (elfi/methods/inference/bsl.py: _para_logit_transform,          *)
(* _para_logit_back_transform, _jacobian_logit_transform, _get_mh_ratio),  *)
(* shared by the design module BslMh.tla and the trace specs               *)
(* BslMh_Trace.tla / BslRound_Trace.tla.                                   *)
(*                                                                         *)
(* Bound types, numbered as the code numbers them                          *)
(*   type = [a = -inf] * 1 + [b = +inf] * 2                                *)
(*     0  two-sided (a, b)      tt = log((t - a)/(b - t))                  *)
(*     1  upper bound only      tt = log(1/(b - t))                        *)
(*     2  lower bound only      tt = log(t - a)                            *)
(*     3  unbounded             tt = t                                     *)
(* The chain lives in the transformed space tt (random-walk proposals are  *)
(* symmetric there), so the target density of the chain is                 *)
(*     post(t(tt)) * |dt/dtt|                                              *)
(* and a proposal tt -> tt' is accepted with probability                   *)
(*     min(1, (post(t') J(tt')) / (post(t) J(tt))),   J = dt/dtt.          *)
(*                                                                         *)
(* T2/T3 lattice: every transformed point is the logarithm of a small      *)
(* rational E = e^tt, so that t, J and the ratio are RATIONALS:            *)
(*     type 0:  t = (a + b E)/(1 + E)     J = (b - a) E/(1 + E)^2          *)
(*     type 1:  t = b - 1/E               J = 1/E      (log J = -tt)       *)
(*     type 2:  t = a + E                 J = E        (log J = +tt)       *)
(*     type 3:  t = tt (an integer here)  J = 1                            *)
(* Rationals are pairs <<num, den>>, den > 0, always reduced.              *)
(***************************************************************************)
EXTENDS Naturals, Integers, Sequences, FixedPoint

RECURSIVE Gcd(_, _)
Gcd(a, b) == IF b = 0 THEN a ELSE Gcd(b, a % b)
QNorm(n, d) == LET g == Gcd(Abs(n), Abs(d))
                   s == IF d < 0 THEN -1 ELSE 1
               IN IF g = 0 THEN <<0, 1>> ELSE <<(s * n) \div g, (s * d) \div g>>
Q(n) == <<n, 1>>
QMul(x, y) == LET g1 == Gcd(Abs(x[1]), y[2])
                  g2 == Gcd(Abs(y[1]), x[2])
                  h1 == IF g1 = 0 THEN 1 ELSE g1
                  h2 == IF g2 = 0 THEN 1 ELSE g2
              IN QNorm((x[1] \div h1) * (y[1] \div h2), (x[2] \div h2) * (y[2] \div h1))
QInv(x) == QNorm(x[2], x[1])
QDiv(x, y) == QMul(x, QInv(y))
QAdd(x, y) == QNorm(x[1] * y[2] + y[1] * x[2], x[2] * y[2])
QSub(x, y) == QAdd(x, <<-y[1], y[2]>>)
QLess(x, y) == x[1] * y[2] < y[1] * x[2]
QEq(x, y) == x[1] * y[2] = y[1] * x[2]
QMin(x, y) == IF QLess(y, x) THEN y ELSE x
QIsRat(x) == Len(x) = 2 /\ x[2] > 0

\* ---- the transform on the lattice ---------------------------------------------------------------
\* a parameter description: [ty |-> 0..3, a |-> int (unused when -inf), b |-> int (unused when +inf)]
\* a transformed point: the rational E = e^tt for types 0..2, the integer tt itself (as <<tt, 1>>) for type 3
BackQ(p, E) ==
  CASE p.ty = 0 -> QDiv(QAdd(Q(p.a), QMul(Q(p.b), E)), QAdd(Q(1), E))
    [] p.ty = 1 -> QSub(Q(p.b), QInv(E))
    [] p.ty = 2 -> QAdd(Q(p.a), E)
    [] OTHER    -> E
\* the forward transform, as E = e^tt (type 3: tt itself)
FwdQ(p, t) ==
  CASE p.ty = 0 -> QDiv(QSub(t, Q(p.a)), QSub(Q(p.b), t))
    [] p.ty = 1 -> QInv(QSub(Q(p.b), t))
    [] p.ty = 2 -> QSub(t, Q(p.a))
    [] OTHER    -> t
InSupport(p, t) ==
  CASE p.ty = 0 -> QLess(Q(p.a), t) /\ QLess(t, Q(p.b))
    [] p.ty = 1 -> QLess(t, Q(p.b))
    [] p.ty = 2 -> QLess(Q(p.a), t)
    [] OTHER    -> TRUE
\* J = dt/dtt at the transformed point.  UpperSign = -1 is the derivative (log J = -tt for an upper
\* bound only); UpperSign = +1 is the variant the code had before F17 (log J = +tt), kept as a
\* negative control of the design module.
JacQS(p, E, UpperSign) ==
  CASE p.ty = 0 -> QDiv(QMul(Q(p.b - p.a), E), QMul(QAdd(Q(1), E), QAdd(Q(1), E)))
    [] p.ty = 1 -> IF UpperSign < 0 THEN QInv(E) ELSE E
    [] p.ty = 2 -> E
    [] OTHER    -> Q(1)
JacQ(p, E) == JacQS(p, E, -1)

RECURSIVE ProdJac(_, _, _)
\* product over the parameters of J_i(E_i)
ProdJac(ps, Es, k) == IF k = 0 THEN Q(1) ELSE QMul(ProdJac(ps, Es, k - 1), JacQ(ps[k], Es[k]))
\* the stated Metropolis-Hastings ratio for the move  prev -> cur  (posterior values as rationals)
MhRatioQ(ps, prevE, curE, prevPost, curPost) ==
  QMul(QDiv(ProdJac(ps, curE, Len(ps)), ProdJac(ps, prevE, Len(ps))), QDiv(curPost, prevPost))
AcceptProbQ(r) == QMin(Q(1), r)

\* ---- logarithms of {2,3,5,7}-smooth rationals in 10^-6 (T3 table) --------------------------------
Log2Micro == 693147      \* log 2 = 0.693147 1806
Log3Micro == 1098612     \* log 3 = 1.098612 2887
Log5Micro == 1609438     \* log 5 = 1.609437 9124
Log7Micro == 1945910     \* log 7 = 1.945910 1491
RECURSIVE Expo(_, _)
Expo(n, p) == IF n > 0 /\ n % p = 0 THEN 1 + Expo(n \div p, p) ELSE 0
RECURSIVE Pow(_, _)
Pow(b, e) == IF e = 0 THEN 1 ELSE b * Pow(b, e - 1)
Cofactor(n) == n \div (Pow(2, Expo(n, 2)) * Pow(3, Expo(n, 3)) * Pow(5, Expo(n, 5)) * Pow(7, Expo(n, 7)))
Smooth(n) == n > 0 /\ Cofactor(n) = 1
LogNatMicro(n) == Expo(n, 2) * Log2Micro + Expo(n, 3) * Log3Micro + Expo(n, 5) * Log5Micro + Expo(n, 7) * Log7Micro
Omega(n) == Expo(n, 2) + Expo(n, 3) + Expo(n, 5) + Expo(n, 7)
QSmooth(x) == Smooth(x[1]) /\ Smooth(x[2])
LogQMicro(x) == LogNatMicro(x[1]) - LogNatMicro(x[2])
\* each table entry is within 0.36 of the true value in 10^-6: bound on the error of LogQMicro
LogQErr(x) == 1 + (36 * (Omega(x[1]) + Omega(x[2]))) \div 100
=============================================================================

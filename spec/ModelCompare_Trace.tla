------------------------- MODULE ModelCompare_Trace -------------------------
(***************************************************************************)
(* Trace validation for C17, model comparison.                             *)
(*                                                                         *)
(* A trace is a list of models ms[i] = [d, nsim, w] (the discrepancies,    *)
(* n_sim and prior weight of real elfi Sample objects; w = 1 for all when  *)
(* model_priors=None) and a sequence of real calls compare_models(...):    *)
(*   ev = "compare" : the call on the list as it is (pi = identity)        *)
(*   ev = "permute" : the call on the list (and priors) permuted by pi:    *)
(*                    position k holds model pi[k]                         *)
(* Every event carries the inputs handed to the code (e.ms) and what came  *)
(* back: res ("ok" | "raise" | "hang") and out = the probabilities in      *)
(* fixed point (unit 10^-6; FxNaN for nan).                                *)
(*                                                                         *)
(* TLC recomputes the possible shares (free tie order at the n_min cut)    *)
(* and the exact rational probabilities from the logged inputs with the    *)
(* operators of ModelCompareOps and compares.  Total and deterministic.    *)
(* Not decided: inputs where the weights of all models in the cut vanish   *)
(* (0/0): an all-nan answer is accepted there.                             *)
(***************************************************************************)
EXTENDS Naturals, Integers, Sequences, FiniteSets, TLC, Json, IOUtils, ModelCompareOps

Traces == JsonDeserialize(IOEnv.TRACE_FILE)

VARIABLES tid, l, verdict, drift, done
vars == <<tid, l, verdict, drift, done>>

T == Traces[tid]
Init == tid \in 1..Len(Traces) /\ l = 1 /\ verdict = "ok" /\ drift = "" /\ done = FALSE

Base == T.events[1]

\* Numer <= n_min * w * prod(nsim), Total <= M times that: keep below the long-division limit
MaxOf(S) == CHOOSE x \in S : \A y \in S : y <= x
Safe(m) == LET M == Len(m)
               wmax == MaxOf({m[i].w : i \in 1..M} \cup {1})
           IN /\ M <= 6 /\ \A i \in 1..M : m[i].nsim >= 1 /\ m[i].nsim <= 1000 /\ m[i].w >= 0 /\ m[i].w <= 1000 /\ Len(m[i].d) >= 1
              /\ Len(Concat(m)) <= 16
              /\ \A k \in 1..M : ProdS([i \in 1..k |-> m[i].nsim]) <= 200000000 \div (M * wmax * NMin(m))

Matches(m, out, cnt) == Total(m, cnt) > 0 /\ \A i \in 1..Len(m) : FxMatches(out[i], Numer(m, cnt, i), Total(m, cnt))

JudgeP(e) ==
  LET m == e.ms
      cands == DefCounts(m)
  IN
  IF e.res # "ok" THEN "P:valid-input-raised"
  ELSE IF Len(e.out) # Len(m) THEN "P:probabilities"
  ELSE IF (\A i \in 1..Len(m) : e.out[i] = FxNaN) /\ (\E c \in cands : Total(m, c) = 0) THEN "ok"
  ELSE IF \E i \in 1..Len(m) : ~FxFinite(e.out[i]) \/ e.out[i] < 0 THEN "P:probabilities"
  ELSE IF Abs(SumS(e.out) - Unit) > Len(m) THEN "P:sum-one"
  ELSE IF ~\E c \in cands : Matches(m, e.out, c) THEN "P:probabilities"
  ELSE IF e.ev = "permute" /\ Base.res = "ok" /\ Len(Base.out) = Len(m) /\ Determined(T.ms) /\
          \E k \in 1..Len(m) : FxFinite(Base.out[e.pi[k]]) /\ Abs(e.out[k] - Base.out[e.pi[k]]) > 1
       THEN "P:permute"
  ELSE "ok"

IsPerm(pi, n) == Len(pi) = n /\ {pi[k] : k \in 1..n} = 1..n
\* harness-side consistency: the log must be sufficient and inside the magnitudes TLC can compute
JudgeX(e) ==
  IF l = 1 /\ (e.ev # "compare" \/ e.ms # T.ms) THEN "X:first-event-is-the-base-call"
  ELSE IF ~Safe(e.ms) THEN "X:unsafe-magnitudes"
  ELSE IF ~IsPerm(e.pi, Len(T.ms)) \/ e.ms # PermuteSeq(T.ms, e.pi) THEN "X:permuted-inputs"
  ELSE ""
\* the code is a function of its inputs here: no mechanism clause beyond the property
JudgeM(e) == ""

Step ==
  /\ ~done
  /\ IF l > Len(T.events) THEN done' = TRUE /\ UNCHANGED <<tid, l, verdict, drift>>
     ELSE LET e == T.events[l]
              x == JudgeX(e)
              j == IF x = "" THEN JudgeP(e) ELSE "ok"
              m == IF drift # "" THEN drift ELSE IF x # "" THEN x ELSE JudgeM(e)
          IN /\ verdict' = j
             /\ drift' = m
             /\ done' = (j # "ok")
             /\ l' = l + 1
             /\ UNCHANGED tid

Spec == Init /\ [][Step]_vars
Report == done => PrintT(<<"V", tid, l, verdict, drift>>)
=============================================================================

--------------------------- MODULE Compile_Trace ---------------------------
(***************************************************************************)
(* Trace validation for C03.  A trace is ONE real model built through the  *)
(* public constructors with symbolic operations, one generate() call, and  *)
(* what came back:                                                         *)
(*   T.nodes, T.kind, T.pos, T.named, T.obs, T.meta   the graph            *)
(*   T.outs (ids <<"n"|"o", name>>), T.wv              the request          *)
(*   T.raised  "" | "ValueError" | other exception name                     *)
(*   T.result  terms returned, aligned with T.outs                         *)
(*   T.counts  name -> how often the node's operation function was called   *)
(* TLC computes the meaning of the graph (CompileOps!MeaningOf) and the     *)
(* compiled execution (CompileOps!Compile/Load/Execute) from the graph      *)
(* description and compares.  One step per trace.                          *)
(***************************************************************************)
EXTENDS Naturals, Sequences, FiniteSets, TLC, Json, IOUtils, CompileOps

Traces == JsonDeserialize(IOEnv.TRACE_FILE)

VARIABLES tid, l, verdict, drift, done
vars == <<tid, l, verdict, drift, done>>
T == Traces[tid]

SeqSet(s) == {s[i] : i \in 1..Len(s)}
G == [nodes |-> SeqSet(T.nodes),
      kind |-> [x \in SeqSet(T.nodes) |-> T.kind[x]],
      pos |-> [x \in SeqSet(T.nodes) |-> T.pos[x]],
      named |-> [x \in SeqSet(T.nodes) |-> {<<e[1], e[2]>> : e \in SeqSet(T.named[x])}],
      obs |-> SeqSet(T.obs), meta |-> SeqSet(T.meta)]
Outs == SeqSet(T.outs)
WV == SeqSet(T.wv)
\* calls of the user's operation function of node x: by the node itself and by its observed twin
\* (the twin of a discrepancy is elfi's own tuple operation, not the user's function)
CountOf(S, x) == Cardinality({id \in S : id[2] = x /\ ~(id[1] = "o" /\ UsesObs(G.kind[x]))})
NoCalls == \A x \in G.nodes : T.counts[x] = 0

JudgeP ==
  IF T.raised # "" THEN
     IF ~NoCalls THEN (IF MeaningRejectsStrict(G, WV, Outs) THEN "P:rejected-without-evaluating" ELSE "P:no-exception-on-a-valid-graph")
     ELSE IF ~MeaningRejectsLoose(G) THEN "P:no-exception-on-a-valid-graph"
     ELSE "ok"
  ELSE IF MeaningRejectsStrict(G, WV, Outs) THEN "P:rejects-observed-data-depending-on-stochastic-node"
  ELSE IF \E i \in 1..Len(T.outs) : T.result[i] # MeaningOf(G, WV, T.outs[i]) THEN "P:value-is-dataflow-meaning"
  ELSE IF \E x \in G.nodes : T.counts[x] # CountOf(MeaningRuns(G, WV, Outs), x) THEN "P:needed-operations-run-once-others-never"
  ELSE "ok"

JudgeM ==
  LET pre == ObservedCompile(G, OutputCompile(G))
      rej == Rejects(G, pre, Outs)
  IN IF rej # (T.raised = "ValueError") THEN "M:rejects-iff-guard"
     ELSE IF rej THEN ""
     ELSE LET net == Load(G, Reduce(Instr(G, pre), Outs), WV)
              run == Execute(net, Outs)
          IN IF \E i \in 1..Len(T.outs) : T.result[i] # run.res[T.outs[i]] THEN "M:value-of-compiled-net"
             ELSE IF \E x \in G.nodes : T.counts[x] # CountOf(run.ran, x) THEN "M:execution-set"
             ELSE ""

Init == tid \in 1..Len(Traces) /\ l = 1 /\ verdict = "ok" /\ drift = "" /\ done = FALSE
Step == /\ ~done /\ done' = TRUE /\ l' = l + 1 /\ UNCHANGED tid
        /\ verdict' = JudgeP
        /\ drift' = IF T.raised \notin {"", "ValueError"} THEN "" ELSE JudgeM
Spec == Init /\ [][Step]_vars
Report == done => PrintT(<<"V", tid, l, verdict, drift>>)
=============================================================================

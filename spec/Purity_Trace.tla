---------------------------- MODULE Purity_Trace ----------------------------
(***************************************************************************)
(* Trace validation for C02.  A trace is ONE key                           *)
(*   K = (model graph, seed, batch index, batch size, outputs)             *)
(* executed several times in one process, each time after a different      *)
(* perturbation history (consuming / reseeding np.random, other generate   *)
(* and inference calls, other batches through a shared context, a rebuild  *)
(* of the model in another insertion order, the multiprocessing client).   *)
(*   T.net_keys   net node id -> name as character codes                    *)
(*   T.net_edges  edges of the loaded net <<parent, child>>                 *)
(*   T.need       recording stochastic nodes the outputs depend on          *)
(*   T.stream     the numpy draw stream of the master seed (limbs)          *)
(*   T.bi         batch index;  T.state_of  <<value limbs, state digest>>   *)
(*   T.runs       [label, digest, has_draws, draws <<node, rsid, before,    *)
(*                 after>>] ; run 1 is the reference execution              *)
(* One step per run.                                                       *)
(***************************************************************************)
EXTENDS Naturals, Integers, Sequences, FiniteSets, TLC, Json, IOUtils, SubSeedOps, TopoSortOps

Traces == JsonDeserialize(IOEnv.TRACE_FILE)
VARIABLES tid, l, verdict, drift, done
vars == <<tid, l, verdict, drift, done>>
T == Traces[tid]

SeqSet(s) == {s[i] : i \in 1..Len(s)}
E == {<<e[1], e[2]>> : e \in SeqSet(T.net_edges)}
N == 1..Len(T.net_keys)
Preds(c) == {e[1] : e \in {x \in E : x[2] = c}}
RECURSIVE Anc(_, _)
Anc(front, acc) == LET new == UNION {Preds(c) : c \in front} \ acc IN IF new = {} THEN acc ELSE Anc(new, acc \cup new)
Ancestors(c) == Anc({c}, {})

\* digest of RandomState(sub seed of (seed, bi)): the sub seed is the draw at which the number of
\* distinct values of the stream first reaches bi+1 (SubSeedOps!PosOf)
SeedPos == PosOf(T.stream, 0, {}, T.bi + 1)
ExpectedState0 ==
  IF SeedPos = Fail THEN "?"
  ELSE LET v == T.stream[SeedPos]
           hits == {p \in SeqSet(T.state_of) : p[1] = v}
       IN IF hits = {} THEN "?" ELSE (CHOOSE p \in hits : TRUE)[2]

Nodes(r) == [i \in 1..Len(r.draws) |-> r.draws[i][1]]

JudgeP(r) ==
  IF r.raised # "" THEN "P:seeded-run-returns"
  ELSE IF r.digest # T.runs[1].digest THEN "P:bit-identical-whatever-happened-before"
  ELSE IF ~r.has_draws THEN "ok"
  ELSE IF \E i \in 1..Len(r.draws) : r.draws[i][2] # r.draws[1][2] THEN "P:single-generator-per-batch"
  ELSE IF SeqSet(Nodes(r)) # SeqSet(T.need) \/ Len(r.draws) # Len(T.need) THEN "P:every-stochastic-node-draws-once"
  \* (only when every stochastic node of the batch is a recording one: unlogged scipy priors also draw)
  ELSE IF T.all_recorded /\ Len(r.draws) > 0 /\ ExpectedState0 = "?" THEN "X:stream-or-state-table-too-short"
  ELSE IF T.all_recorded /\ Len(r.draws) > 0 /\ r.draws[1][3] # ExpectedState0 THEN "P:generator-seeded-by-seed-and-batch-index-only"
  ELSE IF T.all_recorded /\ \E i \in 1..(Len(r.draws) - 1) : r.draws[i + 1][3] # r.draws[i][4] THEN "P:generator-consumed-in-one-sequence"
  ELSE IF \E i, j \in 1..Len(r.draws) : i < j /\ r.draws[j][1] \in Ancestors(r.draws[i][1]) THEN "P:order-respects-dependencies"
  ELSE IF T.runs[1].has_draws /\ Nodes(r) # Nodes(T.runs[1]) THEN "P:order-is-fixed"
  ELSE "ok"

JudgeM(r) ==
  IF ~r.has_draws \/ r.raised # "" THEN ""
  ELSE LET key == [n \in N |-> T.net_keys[n]]
           order == ConstantOrder(N, E, key)
           expect == SelectSeq(order, LAMBDA n : n \in SeqSet(T.need))
       IN IF Nodes(r) # expect THEN "M:order-is-constant-topological-sort" ELSE ""

Init == tid \in 1..Len(Traces) /\ l = 1 /\ verdict = "ok" /\ drift = "" /\ done = FALSE
Step == /\ ~done
        /\ IF l > Len(T.runs) THEN done' = TRUE /\ UNCHANGED <<tid, l, verdict, drift>>
           ELSE LET r == T.runs[l] j == JudgeP(r) IN
                /\ verdict' = j /\ done' = (j # "ok") /\ l' = l + 1 /\ UNCHANGED tid
                /\ drift' = IF drift # "" THEN drift ELSE JudgeM(r)
Spec == Init /\ [][Step]_vars
Report == done => PrintT(<<"V", tid, l, verdict, drift>>)
=============================================================================

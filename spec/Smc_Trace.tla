----------------------------- MODULE Smc_Trace -----------------------------
(***************************************************************************)
(* Trace validation for C07.  A trace is one SMC sampler with one or two   *)
(* sample() calls; one event per returned population (in order):           *)
(*   kind "u" (user threshold thr_user) | "q0" | "q" (alpha = a/A quantile  *)
(*   of the previous population, thr_force = the threshold the sampler     *)
(*   put in force), ds (discrepancies, 1/8 units), ws (weights, 1e-4),      *)
(*   sizes (length of every output), pp (prior density of every particle   *)
(*   evaluated by scipy, 1e-4), and for every population after the first:   *)
(*   lw, lp, lq (log weight, log prior density, log density of the Gaussian *)
(*   mixture centred on the PREVIOUS population with its weights and        *)
(*   covariance - scipy, 1e-4), cov and wvar (diagonal of the reported      *)
(*   covariance / reliability-weights variance by the definition, 1e-4),    *)
(*   nsim, nb (batches consumed in the round).                              *)
(* Final event "end": total n_sim reported.                                 *)
(***************************************************************************)
EXTENDS Naturals, Integers, Sequences, FiniteSets, TLC, Json, IOUtils, WQuantileOps

Traces == JsonDeserialize(IOEnv.TRACE_FILE)
VARIABLES tid, l, prev, sumSim, verdict, drift, done
vars == <<tid, l, prev, sumSim, verdict, drift, done>>
T == Traces[tid]
Abs(x) == IF x < 0 THEN -x ELSE x
SeqSet(s) == {s[i] : i \in 1..Len(s)}

Init == /\ tid \in 1..Len(Traces) /\ l = 1 /\ prev = [ds |-> <<>>, ws |-> <<>>, cov |-> <<>>] /\ sumSim = 0
        /\ verdict = "ok" /\ drift = "" /\ done = FALSE

\* thr is a weighted alpha-quantile of (xs, ws) up to the rounding of the logged weights
\* (each weight is rounded to 1e-4; a particle's weight is orders of magnitude larger)
IsWQSlack(xs, ws, a, A, q) ==
  LET W == WTotal(ws)
      slack == 2 * Len(xs) * (a + A)
  IN /\ \E i \in 1..Len(xs) : xs[i] = q
     /\ WLe(xs, ws, q) * A >= a * W - slack
     /\ WLt(xs, ws, q) * A <= a * W + slack

JudgeP(e, i) ==
  \* a population whose weighted variance vanishes in some dimension (to the 1e-4 of the log) has no Gaussian-mixture
  \* proposal: the weight formula of the statement is undefined there, and scipy's refusal (LinAlgError) is not a failure
  IF e.ev = "end" /\ e.raised # "" /\ e.rtype = "LinAlgError" /\ \E k \in 1..Len(prev.cov) : prev.cov[k] <= 0 THEN "ok"
  ELSE IF e.ev = "end" THEN (IF e.raised # "" THEN "P:sampler-returns" ELSE IF e.nsim # sumSim THEN "P:n_sim-is-total-over-all-rounds" ELSE "ok")
  ELSE IF \E k \in 1..Len(e.sizes) : e.sizes[k] # T.n THEN "P:population-has-n_samples-particles"
  ELSE IF Len(e.ds) # T.n \/ Len(e.ws) # T.n THEN "P:population-has-n_samples-particles"
  ELSE IF e.kind = "u" /\ \E k \in 1..T.n : e.ds[k] > e.thr_user THEN "P:discrepancies-within-user-threshold"
  ELSE IF e.kind = "q" /\ ~IsWQSlack(prev.ds, prev.ws, e.a, e.A, e.thr_force) THEN "P:threshold-is-weighted-quantile-of-previous-population"
  ELSE IF e.kind = "q" /\ \E k \in 1..T.n : e.ds[k] > e.thr_force THEN "P:discrepancies-within-quantile-threshold"
  ELSE IF \E k \in 1..T.n : e.ds[k] > e.thr_rep THEN "P:discrepancies-within-reported-threshold"
  ELSE IF \E k \in 1..T.n : e.pp[k] <= 0 THEN "P:particles-have-positive-prior-density"
  ELSE IF i = 1 /\ \E k \in 1..T.n : e.ws[k] # 10000 THEN "P:first-population-weights-are-one"
  ELSE IF i > 1 /\ \E k \in 1..T.n : Abs(e.lw[k] - (e.lp[k] - e.lq[k])) > 3 THEN "P:weight-is-prior-over-mixture-of-previous-population"
  ELSE IF \E j \in 1..Len(e.cov) : Abs(e.cov[j] - 2 * e.wvar[j]) > 3 + (e.cov[j] \div 5000) THEN "P:covariance-is-twice-weighted-variance"
  ELSE IF e.nsim # T.bs * e.nb THEN "P:population-n_sim"
  ELSE "ok"

Step == /\ ~done
        /\ IF l > Len(T.events) THEN done' = TRUE /\ UNCHANGED <<tid, l, prev, sumSim, verdict, drift>>
           ELSE LET e == T.events[l] j == JudgeP(e, l) IN
                /\ verdict' = j /\ done' = (j # "ok") /\ l' = l + 1 /\ UNCHANGED <<tid, drift>>
                /\ IF e.ev = "pop" THEN prev' = [ds |-> e.ds, ws |-> e.ws, cov |-> e.cov] /\ sumSim' = sumSim + e.nsim
                   ELSE UNCHANGED <<prev, sumSim>>
Spec == Init /\ [][Step]_vars
Report == done => PrintT(<<"V", tid, l, verdict, drift>>)
=============================================================================

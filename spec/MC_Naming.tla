----------------------------- MODULE MC_Naming -----------------------------
(* constants of Naming.tla that a cfg file cannot express *)
EXTENDS Naming
MCPlainNames == {[nm |-> "a", und |-> FALSE]}
MCPlainNames2 == {[nm |-> "a", und |-> FALSE], [nm |-> "_u", und |-> TRUE]}
MCStarBases == {[nm |-> "a", und |-> FALSE]}
MCStarBases2 == {[nm |-> "a", und |-> FALSE], [nm |-> "", und |-> FALSE]}
MCPlainNames3 == {[nm |-> "a", und |-> FALSE], [nm |-> "b", und |-> FALSE]}
NoNames == {}
AllFixesSet == AllFixes
NoFix == {}
Without(f) == AllFixes \ {f}
W_become_class == Without("become_class")
W_become_atomic == Without("become_atomic")
W_create_atomic == Without("create_atomic")
W_setter_atomic == Without("setter_atomic")
W_invalid_model_raises == Without("invalid_model_raises")
W_empty_name_refused == Without("empty_name_refused")
W_size_reads_attr_dict == Without("size_reads_attr_dict")
W_cascade_constants_only == Without("cascade_constants_only")
=============================================================================

----------------------------- MODULE ModelPrior -----------------------------
(***************************************************************************)
(* Design theorems for C08 (joint model prior = product of the conditional *)
(* prior densities).                                                        *)
(*                                                                         *)
(* phase 1  for EVERY prior DAG over Names whose distribution arguments are *)
(*          constants or other parameters, every requested order of every   *)
(*          subset closed under parameter-parents, attr in {pdf, logpdf}:   *)
(*            Evaluate (augment, compile for the joint node, load, override *)
(*            the requested parameters with the query columns, execute)     *)
(*          = fold over the requested names of attr_n(x_n | x_parents(n)),  *)
(*          and only the pdf nodes and the joint node run (no prior draw).  *)
(* phase 2  the shape bookkeeping of pdf / logpdf / gradient_logpdf / rvs   *)
(*          equals "a bare point gives a bare answer, n points give n".     *)
(* phase 3  on piecewise-linear log densities the central difference of     *)
(*          utils.numgrad is the derivative wherever the stencil sees one   *)
(*          linear piece (the precondition under which the trace spec       *)
(*          decides P:grad).                                                *)
(* Fixed = FALSE is the code before the repair of F8 (pdf nodes for ALL     *)
(* parameters): TLC must refute the phase-1 theorem (negative control).     *)
(***************************************************************************)
EXTENDS ModelPriorOps, TLC

CONSTANTS Names,      \* parameter names, alphabetical
          MaxArgs,    \* at most this many distribution arguments
          Fixed,      \* TRUE: nodes=self.parameter_names is passed to add_pdf_nodes
          TopoOnly,   \* TRUE: a parameter may only depend on earlier names (symmetry cut)
          Phases,     \* which phases to explore
          Attrs,      \* phase 1: subset of {"pdf", "logpdf"}
          GradXs,     \* phase 3: lattice coordinates (quarters)
          GradHs      \* phase 3: step sizes (quarters)

VARIABLES phase, args, names, attr, shp, gi
vars == <<phase, args, names, attr, shp, gi>>

NodeSet == SeqSet(Names)
Rank(x) == IndexIn(Names, x)
CItem == [t |-> "c", p |-> "", c |-> 0]
PItem(q) == [t |-> "p", p |-> q, c |-> 0]
Items(n) == {CItem} \cup {PItem(q) : q \in {r \in NodeSet : r # n /\ (TopoOnly => Rank(r) < Rank(n))}}
RECURSIVE SeqsUpTo(_, _)
SeqsUpTo(S, k) == IF k = 0 THEN {<<>>}
                  ELSE SeqsUpTo(S, k - 1) \cup {Append(s, x) : s \in {t \in SeqsUpTo(S, k - 1) : Len(t) = k - 1}, x \in S}
\* no parameter twice among the arguments of one distribution (F20)
ArgChoices(n) == {s \in SeqsUpTo(Items(n), MaxArgs) :
                    \A i, j \in 1..Len(s) : (i # j /\ s[i].t = "p") => s[i] # s[j]}
OrderedSubsets == {s \in SeqsUpTo(NodeSet, Len(Names)) : s # <<>> /\ \A i, j \in 1..Len(s) : i # j => s[i] # s[j]}

NoDist == [kind |-> "none"]
DAG(a) == [params |-> Names, args |-> a, dist |-> [n \in NodeSet |-> NoDist]]
DepEdges(a) == UNION {{<<q, n, 0>> : q \in ParamArgs(DAG(a), n)} : n \in NodeSet}
Acyclic(a) == \A n \in NodeSet : n \notin Ancestors(DepEdges(a), n)

NoArgs == [n \in NodeSet |-> <<>>]
Init == phase = 0 /\ args = NoArgs /\ names = <<>> /\ attr = "" /\ shp = <<>> /\ gi = <<>>

\* two steps, so that TLC's workers share the evaluation of the theorem
PickNames ==
  /\ phase = 0 /\ 1 \in Phases /\ phase' = 10
  /\ names' \in OrderedSubsets
  /\ attr' \in Attrs
  /\ UNCHANGED <<args, shp, gi>>
\* argument choices of n once the requested names are known: a requested parameter only depends on requested ones
ArgChoicesFor(n, req) == IF n \in req THEN {s \in ArgChoices(n) : \A i \in 1..Len(s) : s[i].t = "p" => s[i].p \in req}
                         ELSE ArgChoices(n)
\* all assignments, built name by name (sequences indexed like Names)
RECURSIVE ArgSeqs(_, _)
ArgSeqs(k, req) == IF k = 0 THEN {<<>>}
                   ELSE {Append(s, c) : s \in ArgSeqs(k - 1, req), c \in ArgChoicesFor(Names[k], req)}
PickDag ==
  /\ phase = 10 /\ phase' = 1
  /\ \E s \in ArgSeqs(Len(Names), SeqSet(names)) :
       LET a == [n \in NodeSet |-> s[Rank(n)]] IN
       /\ Acyclic(a)
       /\ Closed(DAG(a), names)
       /\ args' = a
  /\ UNCHANGED <<names, attr, shp, gi>>

\* input kinds: <<"eval"|"grad", ndim, cnt, dim>> and <<"rvs", size, 0, dim>>
PickShape ==
  /\ phase = 0 /\ 2 \in Phases /\ phase' = 2
  /\ \/ \E nd \in 0..2, cnt \in 1..9, dim \in 1..3 :
          WellFormed(nd, cnt, dim) /\ shp' \in {<<"eval", nd, cnt, dim>>, <<"grad", nd, cnt, dim>>}
     \/ \E size \in 0..3, dim \in 1..3 : shp' = <<"rvs", size, 0, dim>>
  /\ UNCHANGED <<args, names, attr, gi>>

\* numeric instance for phase 3: a -> b, both fake, b = fake(a, const)
GL == {<<1, -2, 0>>, <<-3, 1, 2>>}
GK == {0, 1, -2}
GD == {<<1, -1, 0>>, <<1, 0, 0>>, <<0, 1, 1>>, <<-1, 1, 0>>}
GradDag(l, k, dd, m, zr, z1, cst) ==
  [params |-> <<"a", "b">>,
   args |-> [n \in {"a", "b"} |-> IF n = "a" THEN <<>> ELSE <<PItem("a"), [t |-> "c", p |-> "", c |-> cst]>>],
   dist |-> [n \in {"a", "b"} |->
      IF n = "a" THEN [kind |-> "fake", w0 |-> 2, zm |-> 4, zr |-> 3, z |-> <<0, 0>>, l0 |-> 1, l |-> <<2, 0, 0>>,
                       k |-> 3, dd |-> <<1, 0, 0>>, m |-> 1]
      ELSE [kind |-> "fake", w0 |-> 2, zm |-> 2, zr |-> zr, z |-> <<z1, 0>>, l0 |-> -1, l |-> l, k |-> k, dd |-> dd, m |-> m]]]
PickGradDist ==
  /\ phase = 0 /\ 3 \in Phases /\ phase' = 30
  /\ \E l \in GL, k \in GK, dd \in GD, m \in 0..1, zr \in 0..1, z1 \in 0..1, cst \in {0, 8} :
       gi' = [D |-> GradDag(l, k, dd, m, zr, z1, cst), row |-> <<0, 0>>, hu |-> 0, j |-> 0]
  /\ UNCHANGED <<args, names, attr, shp>>
PickGrad ==
  /\ phase = 30 /\ phase' = 3
  /\ \E x \in GradXs, y \in GradXs, hu \in GradHs, j \in 1..2 :
       gi' = [gi EXCEPT !.row = <<x, y>>, !.hu = hu, !.j = j]
  /\ UNCHANGED <<args, names, attr, shp>>

Next == PickNames \/ PickDag \/ PickShape \/ PickGradDist \/ PickGrad
Spec == Init /\ [][Next]_vars

\* ---------------------------------------------------------------- phase 1
Run == Evaluate(DAG(args), names, attr, Fixed)
TermTheorem == phase = 1 => Run.val = ExpectedTerm(DAG(args), names, attr)
RunsOnlyPdfNodes == phase = 1 => Run.ran = ExpectedRan(names, attr)

\* ---------------------------------------------------------------- phase 2
Prod(s) == IF Len(s) = 0 THEN 1 ELSE IF Len(s) = 1 THEN s[1] ELSE s[1] * s[2]
ShapeTheorem ==
  phase = 2 =>
    IF shp[1] = "eval" THEN CodeShapeEval(shp[2], shp[3], shp[4]) = SpecShapeEval(shp[2], shp[3], shp[4])
    ELSE IF shp[1] = "grad" THEN CodeShapeGrad(shp[2], shp[3], shp[4]) = SpecShapeGrad(shp[2], shp[3], shp[4])
    ELSE LET s == CodeShapeRvs(shp[2], shp[4]) IN
         /\ s = SpecShapeRvs(shp[2], shp[4])
         \* draws are accepted back by pdf as that many points
         /\ WellFormed(Len(s), Prod(s), shp[4])
         /\ BarePoint(Len(s), Prod(s), shp[4]) <=> shp[2] = 0
         /\ NPoints(Len(s), Prod(s), shp[4]) = (IF shp[2] = 0 THEN 1 ELSE shp[2])
\* negative control: squeezing every 1-D input (dropping `and self.dim > 1`) is not consistent
SqueezeAll1D ==
  (phase = 2 /\ shp[1] = "eval") =>
    (IF shp[2] = 0 \/ shp[2] = 1 THEN <<>> ELSE <<RowsOf(shp[3], shp[4])>>) = SpecShapeEval(shp[2], shp[3], shp[4])

\* ---------------------------------------------------------------- phase 3
GradNames == <<"a", "b">>
GradTheorem ==
  phase = 3 =>
    LET q == CentralDiffMicroQ(gi.D, GradNames, gi.j, gi.row, 4, gi.hu) IN
    (Smooth(gi.D, GradNames, gi.j, gi.row, 4, gi.hu) =>
      q[1] = DerivativeMicro(gi.D, GradNames, GradNames[gi.j], gi.row, 4) * q[2])
\* negative control: without the one-linear-piece precondition the central difference is not the derivative
GradEverywhere ==
  phase = 3 =>
    LET q == CentralDiffMicroQ(gi.D, GradNames, gi.j, gi.row, 4, gi.hu)
        fin(r) == JointDefined(gi.D, GradNames, r, 4) /\ ~JointZero(gi.D, GradNames, r, 4)
    IN ((fin(gi.row) /\ fin(Shift(gi.row, gi.j, gi.hu)) /\ fin(Shift(gi.row, gi.j, -gi.hu))) =>
       q[1] = DerivativeMicro(gi.D, GradNames, GradNames[gi.j], gi.row, 4) * q[2])
\* the numeric side is coherent: the joint is zero exactly when a conditional is, at integer points the
\* product of the positive fake densities is positive
ZeroIff ==
  phase = 3 =>
    ((JointExact(gi.D, GradNames, gi.row, 4) /\ gi.row[1] >= 0 /\ gi.row[2] >= 0) =>
       /\ (JointZero(gi.D, GradNames, gi.row, 4) <=>
             \E i \in 1..2 : CondZero(gi.D, GradNames, GradNames[i], gi.row, 4, 0))
       /\ (~JointZero(gi.D, GradNames, gi.row, 4) => JointVal(gi.D, GradNames, gi.row, 4)[1] > 0))
=============================================================================

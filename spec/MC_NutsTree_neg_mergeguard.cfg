SPECIFICATION Spec
CONSTANTS
  MaxDepth = 2
  MergeGuard = FALSE
INVARIANT SelectedIsInSliceLeafOrPrevious
CHECK_DEADLOCK FALSE

SPECIFICATION Spec
CONSTANTS
  High = 3
  StreamLen = 6
  MaxIdx = 3
  MaxCalls = 3
INVARIANT HistoryIndependent
INVARIANT Distinct
INVARIANT InRange
INVARIANT Rejects
INVARIANT CacheConsistent
CHECK_DEADLOCK FALSE

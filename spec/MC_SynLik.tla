------------------------------ MODULE MC_SynLik ------------------------------
(* Whitening matrices for the exhaustive runs of SynLik.tla (cfg files cannot  *)
(* express sequences): signed permutations, a dyadic diagonal, a shear.         *)
EXTENDS SynLik
MCWs1 == {[W |-> <<<<-1>>>>, ws |-> 1], [W |-> <<<<2>>>>, ws |-> 1], [W |-> <<<<1>>>>, ws |-> 2], [W |-> <<<<3>>>>, ws |-> 2]}
MCWs2 == {[W |-> <<<<0, 1>>, <<1, 0>>>>, ws |-> 1], [W |-> <<<<0, -1>>, <<1, 0>>>>, ws |-> 1],
          [W |-> <<<<2, 0>>, <<0, 1>>>>, ws |-> 1], [W |-> <<<<1, 0>>, <<0, 4>>>>, ws |-> 2],
          [W |-> <<<<1, 1>>, <<0, 1>>>>, ws |-> 1], [W |-> <<<<1, 1>>, <<-1, 1>>>>, ws |-> 2]}
MCWs == IF D = 1 THEN MCWs1 ELSE MCWs2
=============================================================================

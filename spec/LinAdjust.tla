------------------------------ MODULE LinAdjust ------------------------------
(***************************************************************************)
(* elfi.methods.post_processing: adjust_posterior(sample, model,           *)
(* summary_names, parameter_names, LinearAdjustment())                     *)
(*                                                                         *)
(* One action per public call of the adjustment object:                    *)
(*   Fit    = RegressionAdjustment.fit  (_input_variables, _get_finite,    *)
(*            one LinearRegression per parameter over ITS finite rows)     *)
(*   Adjust = RegressionAdjustment.adjust (theta[finite] - X[finite].b)    *)
(*   Raise  = fit on a parameter without any finite row (sklearn refuses   *)
(*            an empty design matrix)                                      *)
(* The data are chosen freely in Init from a small integer domain with     *)
(* non-finite markers; the clauses (a)-(d) of property C17 are invariants  *)
(* of the state reached after Adjust, over exact rationals.                *)
(***************************************************************************)
EXTENDS Naturals, Integers, Sequences, FiniteSets, TLC, LinAdjustOps

CONSTANTS K,          \* number of summaries (regressors), 1 or 2
          NP,         \* number of parameters
          MinN, MaxN, \* numbers of rows
          RowTypes,   \* set of rows <<s_1..s_K, theta_1..theta_NP>> (values or non-finite markers)
          ObsSet,     \* set of observed summary vectors
          Affs,       \* affine re-expressions <<M, v>>: K x K integer matrix, translation vector
          Grid,       \* candidate slopes (integer K-vectors) for the least-squares comparison
          Centred     \* TRUE = the code; FALSE = negative control (regression without intercept)

VARIABLES rows,     \* the sample being assembled, one row <<summaries, parameters>> at a time
          data,     \* the call's inputs [S, obs, TH] once fixed (TH = NP parameter columns)
          pc, finite, models, out
vars == <<rows, data, pc, finite, models, out>>

NoData == [S |-> <<>>, obs |-> <<>>, TH |-> <<>>]
Init == /\ rows = <<>> /\ data = NoData
        /\ pc = "build" /\ finite = <<>> /\ models = <<>> /\ out = <<>>

\* The adjustment is equivariant under a permutation of the rows, so samples are enumerated as
\* multisets of rows: sequences that are non-decreasing in the lexicographic order.
RECURSIVE LexLeq(_, _)
LexLeq(a, b) == IF a = <<>> THEN TRUE
                ELSE IF Head(a) < Head(b) THEN TRUE
                ELSE IF Head(a) > Head(b) THEN FALSE
                ELSE LexLeq(Tail(a), Tail(b))

AddRow(r) == /\ pc = "build" /\ Len(rows) < MaxN
             /\ IF rows = <<>> THEN TRUE ELSE LexLeq(rows[Len(rows)], r)
             /\ rows' = Append(rows, r)
             /\ UNCHANGED <<data, pc, finite, models, out>>

\* the call: sample (rows) and model (observed summaries) are handed to adjust_posterior
Call(o) == /\ pc = "build" /\ Len(rows) >= MinN
           /\ data' = [S |-> [i \in 1..Len(rows) |-> SubSeq(rows[i], 1, K)],
                       obs |-> o,
                       TH |-> [j \in 1..NP |-> [i \in 1..Len(rows) |-> rows[i][K + j]]]]
           /\ pc' = "new"
           /\ UNCHANGED <<rows, finite, models, out>>

Fit == /\ pc = "new"
       /\ \A j \in 1..NP : Mask(data.S, data.TH[j]) # {}
       /\ finite' = [j \in 1..NP |-> Mask(data.S, data.TH[j])]
       /\ models' = [j \in 1..NP |-> Slope(data.S, data.obs, data.TH[j], finite'[j], Centred)]
       /\ pc' = "fitted"
       /\ UNCHANGED <<rows, data, out>>

Raise == /\ pc = "new"
         /\ \E j \in 1..NP : Mask(data.S, data.TH[j]) = {}
         /\ pc' = "raised"
         /\ UNCHANGED <<rows, data, finite, models, out>>

Adjust == /\ pc = "fitted"
          /\ out' = [j \in 1..NP |-> AdjustWith(data.S, data.obs, data.TH[j], finite[j], models[j])]
          /\ pc' = "done"
          /\ UNCHANGED <<rows, data, finite, models>>

Next == (\E r \in RowTypes : AddRow(r)) \/ (\E o \in ObsSet : Call(o)) \/ Fit \/ Raise \/ Adjust
Spec == Init /\ [][Next]_vars

\* ---- the property (C17, regression part) ----------------------------------------
Done == pc = "done"
Params == 1..NP
FRows(j) == SortedSeq(Mask(data.S, data.TH[j]))
X(i) == XRow(data.S, data.obs, i)

\* (a1) the slope is a least-squares slope: it satisfies the centred normal equations, and no
\*      candidate slope of the grid has a smaller residual sum of squares
NormalEquations ==
  Done => \A j \in Params :
    LET ne == NormalEq(data.S, data.obs, data.TH[j], Mask(data.S, data.TH[j]), TRUE)
        b == models[j]
    IN /\ b.den > 0
       /\ ne.A11 * b.num[1] + (IF K = 2 THEN ne.A12 * b.num[2] ELSE 0) = ne.C1 * b.den
       /\ K = 2 => ne.A12 * b.num[1] + ne.A22 * b.num[2] = ne.C2 * b.den
\* rss(num, den) = m^2 den^2 times the residual sum of squares of the regression WITH intercept
\* (centred data) and slope num/den
LeastSquares ==
  Done => \A j \in Params :
    LET F == Mask(data.S, data.TH[j])
        m == Cardinality(F)
        sy == SumF([i \in F |-> data.TH[j][i]], F)
        sx == [a \in 1..K |-> SumF([i \in F |-> X(i)[a]], F)]
        yc == [i \in F |-> m * data.TH[j][i] - sy]
        xc == [i \in F |-> [a \in 1..K |-> m * X(i)[a] - sx[a]]]
        rss(num, den) == SumF([i \in F |-> LET r == den * yc[i] - SumF([a \in 1..K |-> xc[i][a] * num[a]], 1..K) IN r * r], F)
        b == models[j]
        best == rss(b.num, b.den)
    IN \A g \in Grid : best <= rss(g, 1) * b.den * b.den
\* (a2) adjusted = accepted - slope . (simulated - observed), for the rows of the mask in row order
Formula ==
  Done => \A j \in Params :
    /\ Len(out[j]) = Len(FRows(j))
    /\ \A q \in 1..Len(out[j]) :
         LET i == FRows(j)[q] IN
         RatEq(out[j][q],
               <<data.TH[j][i] * models[j].den - SumF([a \in 1..K |-> X(i)[a] * models[j].num[a]], 1..K), models[j].den>>)
\* (b) only finite rows are used: the result is the result on the data with every other row deleted,
\*     and each parameter has its own mask (the other parameter columns do not matter)
Restrict(s, F) == LET r == SortedSeq(F) IN [q \in 1..Len(r) |-> s[r[q]]]
MaskOnly ==
  Done => \A j \in Params :
    LET F == Mask(data.S, data.TH[j]) IN
    /\ \A i \in F : IsFin(data.TH[j][i]) /\ \A a \in 1..K : IsFin(data.S[i][a])
    /\ \A i \in (1..Len(data.S)) \ F : ~IsFin(data.TH[j][i]) \/ \E a \in 1..K : ~IsFin(data.S[i][a])
    /\ SeqRatEq(out[j], Adjusted(Restrict(data.S, F), data.obs, Restrict(data.TH[j], F)))
\* (c) a draw whose simulated summaries equal the observed ones is unchanged
FixedPointRow ==
  Done => \A j \in Params : \A q \in 1..Len(out[j]) :
    IsObservedRow(data.S, data.obs, FRows(j)[q]) => RatEq(out[j][q], <<data.TH[j][FRows(j)[q]], 1>>)
\* (d) unaffected by an invertible affine re-expression of the summaries (when the least-squares
\*     slope is unique; otherwise the statement's "the slope" does not determine a result)
AffineInvariant ==
  Done => \A j \in Params : models[j].unique =>
    \A f \in Affs :
      SeqRatEq(out[j], Adjusted(MapRows(f[1], f[2], data.S), MapVec(f[1], f[2], data.obs), data.TH[j]))
\* the rank-deficient cases keep (c); there the code's minimum-norm choice is NOT affine invariant
\* (stated so that TLC confirms it: must be refuted)
AffineInvariantAlsoDegenerate ==
  Done => \A j \in Params : \A f \in Affs :
      SeqRatEq(out[j], Adjusted(MapRows(f[1], f[2], data.S), MapVec(f[1], f[2], data.obs), data.TH[j]))
=============================================================================

------------------------------ MODULE TopoSort ------------------------------
(***************************************************************************)
(* Design properties of the constant topological sort that C02 relies on:  *)
(*  - it is a topological order (dependency respecting);                   *)
(*  - restricted to any subset of nodes (the executor's `nodes_to_execute`, *)
(*    which varies with what the loaders supplied) the cached full order    *)
(*    is still dependency respecting (CacheSound);                         *)
(*  - the relative order of the user's nodes does NOT depend on the names   *)
(*    of the private constants - refuted for prefix-related names (F3).     *)
(* Model: every user node u (a stochastic node) has one private constant    *)
(* parent named "_" u "_" h with h the (random) suffix character.          *)
(***************************************************************************)
EXTENDS Naturals, Sequences, FiniteSets, TLC, TopoSortOps

CONSTANTS UserKeys,   \* sequence of user node names (each a sequence of character codes)
          Hex,        \* set of suffix characters
          UserEdges   \* set of <<i, j>>: edges between user nodes (indices into UserKeys)
US == 95
VARIABLES hx, sub, done
NU == Len(UserKeys)
Users == 1..NU
Const(u) == NU + u
Key(h) == [n \in 1..(2 * NU) |-> IF n <= NU THEN UserKeys[n] ELSE <<US>> \o UserKeys[n - NU] \o <<US, h[n - NU]>>]
Nodes == 1..(2 * NU)
Edges == UserEdges \cup {<<Const(u), u>> : u \in Users}

Init == hx \in [Users -> Hex] /\ sub \in SUBSET Nodes /\ done = FALSE
Next == ~done /\ done' = TRUE /\ UNCHANGED <<hx, sub>>
Spec == Init /\ [][Next]_<<hx, sub, done>>

Order(h) == ConstantOrder(Nodes, Edges, Key(h))
Topological == IsTopological(Order(hx), Edges)
\* the cached order restricted to the nodes that are executed in some batch respects dependencies
CacheSound == LET o == SelectSeq(Order(hx), LAMBDA n : n \in sub) IN
              \A e \in Edges : (e[1] \in sub /\ e[2] \in sub) => Pos(o, e[1]) < Pos(o, e[2])
RefHex == [u \in Users |-> CHOOSE c \in Hex : TRUE]
UserOrder(h) == SelectSeq(Order(h), LAMBDA n : n \in Users)
OrderIndependentOfPrivateNames == UserOrder(hx) = UserOrder(RefHex)
=============================================================================

-------------------------- MODULE Metropolis_Trace --------------------------
(***************************************************************************)
(* Trace validation for C09, Metropolis part.                              *)
(*                                                                         *)
(* A trace is one real call  metropolis(n, params0, target, sigma, warmup, *)
(* seed)  seen through the target callable supplied by the harness, which  *)
(* logs every argument it is called with - the exact proposals, including  *)
(* the hidden warm-up part.  States are ids: 0 = params0, i = the i-th     *)
(* proposal.  The harness replays RandomState(seed) (d normals, then one   *)
(* uniform per iteration) and logs per proposal i                          *)
(*   bases : every earlier state b with  proposal_i == state_b + sigma*z_i *)
(*           bit for bit, each with cmp = outcome of exp(t_i - t_b) < u_i  *)
(*           in the harness's own float evaluation ("lt" / "ge", "either"  *)
(*           when |exp(dt) - u| < 1e-12),                                  *)
(*   t     : class of target(proposal_i)   k : lattice level (t = k ln 2)  *)
(*   u30   : floor(u_i * 2^30)                                             *)
(* and per returned row the ids of the states it equals bit for bit and    *)
(* the class of its log-target.  Accept / reject is NOT logged: TLC infers *)
(* it for every iteration from the base of the next proposal (for the last *)
(* iteration from the last returned row) and judges it with the design     *)
(* module's rule; on lattice targets TLC also computes the comparison      *)
(* itself in integer arithmetic (MetropolisOps!CmpLattice).                *)
(*                                                                         *)
(* P:* clauses transcribe the statement, M:* are mechanism details,        *)
(* X:* = the harness oracle is inconsistent (machinery failure).           *)
(***************************************************************************)
EXTENDS Naturals, Integers, Sequences, FiniteSets, TLC, Json, IOUtils, MetropolisOps

Traces == JsonDeserialize(IOEnv.TRACE_FILE)

VARIABLES tid, l,
          cur,       \* id of the current state, as inferred so far
          chain,     \* chain[i] = id of the state after iteration i
          verdict, drift, done
vars == <<tid, l, cur, chain, verdict, drift, done>>

T == Traces[tid]
NS == Len(T.steps)
Range(s) == {s[i] : i \in 1..Len(s)}
BaseIds(i) == {r.b : r \in Range(T.steps[i].bases)}
KOf(c) == IF c = 0 THEN T.k0 ELSE T.steps[c].k
OracleCmp(i, c) == (CHOOSE r \in Range(T.steps[i].bases) : r.b = c).cmp
LatticeStep(i) == T.lattice /\ T.steps[i].t = "fin"
\* outcome of exp(t_i - t_c) < u_i: exact on the lattice, the harness's float evaluation elsewhere
CmpOf(i, c) == IF LatticeStep(i) THEN CmpLattice(T.steps[i].k, KOf(c), T.steps[i].u30) ELSE OracleCmp(i, c)

\* what the statement allows for iteration i from current state c
AllowedAcc(i, c) ==
  LET t == T.steps[i].t
      cmp == CmpOf(i, c)
  IN IF cmp = "either" THEN (IF t = "fin" THEN BOOLEAN ELSE {FALSE}) ELSE {AcceptsStmt(t, cmp)}

\* what the code did, read off the next proposal's base / the last returned row
OutIds(k) == Range(T.outs[k].ids)
FinalStateMayBe(x) == IF Len(T.outs) = 0 \/ T.res # "ok" THEN TRUE ELSE x \in OutIds(Len(T.outs))
ObservedAcc(i, c) ==
  {acc \in BOOLEAN : LET nx == IF acc THEN i ELSE c IN
                       IF i < NS THEN (BaseIds(i + 1) = {} \/ nx \in BaseIds(i + 1))   \* (an unmatched proposal is reported at i + 1)
                       ELSE FinalStateMayBe(nx)}

Init == /\ tid \in 1..Len(Traces) /\ l = 1 /\ cur = 0 /\ chain = <<>>
        /\ verdict = "ok" /\ drift = "" /\ done = FALSE

\* ---- end of the run --------------------------------------------------------------
JudgeEndP ==
  IF T.res # "ok" THEN "P:returns-the-requested-number-of-states"
  ELSE IF Len(T.outs) # T.n THEN "P:length"
  ELSE IF NS # T.n + T.warmup THEN "P:one-proposal-per-iteration"
  ELSE IF \E k \in 1..T.n : chain[T.warmup + k] \notin OutIds(k) THEN "P:output-is-chain-after-warmup"
  ELSE IF \E k \in 1..T.n : T.outs[k].t \in {"-inf", "nan"} THEN "P:finite-output"
  ELSE IF T.d1 # T.d2 THEN "P:pure"
  ELSE "ok"
JudgeEndM ==
  IF T.res = "ok" /\ T.ncalls # T.n + T.warmup + 1 THEN "M:one-target-call-per-state"
  ELSE IF T.res = "ok" /\ \E k \in 1..Len(T.outs) : T.outs[k].t # "fin" THEN "M:output-log-target-finite"
  ELSE ""

\* ---- one iteration -----------------------------------------------------------------
JudgeStepM(i, c) ==
  IF LatticeStep(i) /\ c \in BaseIds(i)
     /\ LET a == OracleCmp(i, c)  b == CmpLattice(T.steps[i].k, KOf(c), T.steps[i].u30)
        IN a # "either" /\ b # "either" /\ a # b
  THEN "X:float-oracle-disagrees-with-lattice-arithmetic" ELSE ""

Stop(v, m) == /\ verdict' = v /\ drift' = (IF drift = "" THEN m ELSE drift) /\ done' = TRUE
              /\ l' = l + 1 /\ UNCHANGED <<tid, cur, chain>>

Step ==
  /\ ~done
  /\ IF T.t0 # "fin"
     THEN \* not a valid start: outside the statement; the code refuses +-inf starts
          Stop("ok", IF T.t0 \in {"-inf", "inf"} /\ T.res # "raise" THEN "M:infinite-start-is-refused" ELSE "")
     ELSE IF l > NS THEN Stop(JudgeEndP, JudgeEndM)
     ELSE IF BaseIds(l) = {} THEN Stop("P:proposal-is-a-state-plus-sigma-z", "")
     ELSE IF cur \notin BaseIds(l) THEN Stop("P:proposal-is-current-plus-sigma-z", "")
     ELSE LET obs == ObservedAcc(l, cur)
              ok == obs \cap AllowedAcc(l, cur)
          IN IF obs = {} THEN Stop(IF l < NS THEN "P:proposal-is-current-plus-sigma-z" ELSE "P:state-is-previous-or-proposal", "")
             ELSE IF ok = {} THEN Stop("P:accept-iff", JudgeStepM(l, cur))
             ELSE \E acc \in ok :
                    LET nx == IF acc THEN l ELSE cur IN
                    /\ cur' = nx /\ chain' = Append(chain, nx)
                    /\ l' = l + 1 /\ verdict' = "ok"
                    /\ drift' = (IF drift = "" THEN JudgeStepM(l, cur) ELSE drift)
                    /\ done' = FALSE /\ UNCHANGED tid

Spec == Init /\ [][Step]_vars
Report == done => PrintT(<<"V", tid, l, verdict, drift>>)
=============================================================================

---------------------------- MODULE NpyStoreOps ----------------------------
(***************************************************************************)
(* elfi.store.NpyArray at FILE-OPERATION grain.                            *)
(*                                                                         *)
(* A batch is one value (the harness writes arrays whose every element is  *)
(* the batch's id).  The on-disk state is what the operating system has:   *)
(*   hdr  : number of batches announced by the .npy header                 *)
(*   data : the batches present after the header, by position              *)
(* Python's BufferedRandom sits in between: `wbuf` is the FIFO of writes   *)
(* accepted by fs.write() but not yet handed to the OS.  It is drained     *)
(*   - completely by fs.seek(), fs.truncate(), fs.flush(), fs.close()      *)
(*   - partially, at any time, by Python itself (buffer full): OSWrite     *)
(* and is LOST when the process is killed.  Memmap writes go straight to   *)
(* the page cache (the OS has them).                                       *)
(*                                                                         *)
(* One public call is a PROGRAM of micro-operations (Prog* below) so that  *)
(* a kill can fall between any two low-level file operations.              *)
(***************************************************************************)
EXTENDS Naturals, Integers, Sequences, FiniteSets

None == -1

\* effect of one buffered write reaching the OS
ApplyOS(w, hdr, data) ==
  IF w.k = "hdr" THEN <<w.n, data>>
  ELSE LET len == IF w.pos > Len(data) THEN w.pos ELSE Len(data)
       IN <<hdr, [i \in 1..len |-> IF i = w.pos THEN w.v ELSE IF i <= Len(data) THEN data[i] ELSE None]>>
RECURSIVE Drain(_, _, _)
Drain(ws, hdr, data) ==
  IF ws = <<>> THEN <<hdr, data>>
  ELSE LET r == ApplyOS(Head(ws), hdr, data) IN Drain(Tail(ws), r[1], r[2])

Prefix(s, n) == SubSeq(s, 1, IF n < Len(s) THEN n ELSE Len(s))
Loadable(hdr, data) == hdr <= Len(data) /\ \A i \in 1..hdr : data[i] # None
OnDisk(hdr, data) == Prefix(data, hdr)

\* ---- programs: the low-level operations of each public call, in code order ----
Op(k) == [k |-> k, a |-> 0, b |-> 0]
Op1(k, a) == [k |-> k, a |-> a, b |-> 0]
Op2(k, a, b) == [k |-> k, a |-> a, b |-> b]

\* _write_header_data(): nothing if no header is prepared; else fs.seek(12); fs.write(header)
ProgWriteHeader(hdrPrep) == IF hdrPrep = None THEN <<>> ELSE <<Op("seek"), Op("whdr")>>

\* append(array): fs.seek(pos); fs.write(bytes); shape += ; _prepare_header_data(); memmap = None
ProgAppend(rows, v) ==
  <<Op("seek"), Op2("wdata", Len(rows) + 1, v), Op1("prep", Len(rows) + 1), Op("inval"), Op("commit")>>

\* the `memmap` property: created on demand (np.memmap seeks to EOF).  syncHdr = TRUE models a variant
\* that writes a prepared header before exposing the data through a new memmap (candidate repair of F7).
ProgMemmap(hdrPrep, memValid, syncHdr) ==
  (IF syncHdr /\ ~memValid THEN ProgWriteHeader(hdrPrep) ELSE <<>>) \o <<Op("mmap")>>
\* __setitem__(slice, value): memmap[sl] = value
ProgOverwrite(i, v, hdrPrep, memValid, syncHdr) == ProgMemmap(hdrPrep, memValid, syncHdr) \o <<Op2("mwrite", i, v), Op("commit")>>

\* truncate(n): shape = n; _prepare_header_data(); [_write_header_data();] fs.seek(end); fs.truncate(); memmap = None
\* hdrFirst = TRUE is the repaired code (the header announcing the shorter length reaches the OS
\* before the data is cut); FALSE is the original order (finding F6).
ProgTruncate(n, hdrFirst) ==
  <<Op1("prep", n)>> \o (IF hdrFirst THEN <<Op("seek"), Op("whdr")>> ELSE <<>>)
     \o <<Op("seek"), Op1("ftrunc", n), Op("inval"), Op("commit")>>

\* flush(): _write_header_data(); fs.flush()
ProgFlush(hdrPrep) == ProgWriteHeader(hdrPrep) \o <<Op("fflush"), Op("flushed")>>

\* close() then a new NpyArray(filename): _write_header_data(); fs.close(); open; read header
ProgCloseReopen(hdrPrep) == ProgWriteHeader(hdrPrep) \o <<Op("close"), Op("flushed"), Op("reopen")>>

\* reading a batch: __getitem__ goes through the memmap (created on demand)
ProgRead(hdrPrep, memValid, syncHdr) == ProgMemmap(hdrPrep, memValid, syncHdr) \o <<Op("commit")>>

\* pickle round trip: __getstate__ flushes; __setstate__ opens a new instance on the same file
ProgPickle(hdrPrep) == ProgWriteHeader(hdrPrep) \o <<Op("fflush"), Op("flushed"), Op("reopen")>>
=============================================================================

----------------------------- MODULE SurrogateOps -----------------------------
(* Pure operators shared by the design module Surrogate.tla and the trace spec          *)
(* Surrogate_Trace.tla (C10 d, e).                                                      *)
EXTENDS Naturals, Sequences
IsPrefix(s, t) == Len(s) <= Len(t) /\ SubSeq(t, 1, Len(s)) = s
\* which code answers predict / predictive_gradients (gpy_regression.py:119-147, 198-222):
\*   self._gp is None                          -> the prior answer (zeros, ones)
\*   self.is_sampling and _kernel_is_default   -> the cached RBF algebra ("fast")
\*   otherwise                                 -> the GPy model ("lib")
PathOf(hasGp, isSampling, kernelDefault) ==
  IF ~hasGp THEN "nogp" ELSE IF isSampling /\ kernelDefault THEN "fast" ELSE "lib"
=============================================================================

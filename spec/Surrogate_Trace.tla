--------------------------- MODULE Surrogate_Trace ---------------------------
(***************************************************************************)
(* Trace validation for C10 (d) (e): histories of calls on a REAL          *)
(* elfi.methods.bo.gpy_regression.GPyRegression (driven directly along     *)
(* behaviours of Surrogate.tla, or by a real BOLFI fit / sample run).      *)
(*                                                                         *)
(* A trace: dim, kdef (was the surrogate built with the default kernel,    *)
(* i.e. does the fast path exist), events.  Every event carries            *)
(*   op    "update" | "optimize" | "sampling" | "predict" | "gradients"    *)
(*   k, ids  update: number of new rows and their ids, in the order given  *)
(*   b     sampling: the value assigned to is_sampling                     *)
(*   res   "ok" (no answer expected) | "val" | "raise" | "hang"            *)
(*   fast, fshape  what the surrogate's method returned: predict           *)
(*         <<mean, var>>, gradients <<gm_1..gm_d, gv_1..gv_d>> in fixed    *)
(*         point 10^-6 (FixedPoint codes for inf/nan/too big), and the     *)
(*         shapes of the two returned arrays                               *)
(*   lib, lshape   the same query answered by the underlying GPy model     *)
(*         itself (model.instance.predict / .predictive_gradients - the    *)
(*         trusted side), shapes as the library branch returns them        *)
(*   xids, yids    ids of the rows of .X and .Y after the event (-1 = a    *)
(*         row that is none of the rows ever handed to update; <<>> while  *)
(*         there is no GP)                                                 *)
(*   cached        _rbf_is_cached after the event                          *)
(*                                                                         *)
(* The trace spec follows the design module Surrogate.tla (evidence, is    *)
(* there a GP, isSampling) to know which PATH a query takes:               *)
(*   fast  iff  a GP exists /\ isSampling /\ kdef.                         *)
(*                                                                         *)
(* P:fast-equals-lib  a query on the fast path returns a value (no error), *)
(*                    arrays of the library's shapes, and every number     *)
(*                    within Tol of the library's                          *)
(* P:append-only      after every event X and Y are row-aligned, made of   *)
(*                    rows that were handed to update, the evidence before *)
(*                    the event is a prefix of the evidence after it, an   *)
(*                    update adds exactly its rows, nothing else adds any  *)
(* M:*                the code follows the design module (cache flag,      *)
(*                    order of the appended rows, library path = library,  *)
(*                    prior answer while there is no GP)                   *)
(* Total and deterministic.                                                *)
(***************************************************************************)
EXTENDS Naturals, Integers, Sequences, FiniteSets, TLC, Json, IOUtils, FixedPoint, SurrogateOps

Traces == JsonDeserialize(IOEnv.TRACE_FILE)

VARIABLES tid, l, ev, hasGp, sampling, verdict, drift, done
vars == <<tid, l, ev, hasGp, sampling, verdict, drift, done>>

T == Traces[tid]
Init == /\ tid \in 1..Len(Traces) /\ l = 1 /\ ev = <<>> /\ hasGp = FALSE /\ sampling = FALSE
        /\ verdict = "ok" /\ drift = "" /\ done = FALSE

Range(s) == {s[i] : i \in 1..Len(s)}
Tol(v) == 5 + Abs(v) \div 100000
Close(a, b) == IF FxFinite(a) /\ FxFinite(b) THEN Abs(a - b) <= Tol(b) ELSE a = b /\ a # FxNaN
AllClose(f, g) == Len(f) = Len(g) /\ \A i \in 1..Len(f) : Close(f[i], g[i])

IsQuery(e) == e.op \in {"predict", "gradients"}
Path(e) == PathOf(hasGp, sampling, T.kdef)
ExpLen(e) == IF e.op = "predict" THEN 2 ELSE 2 * T.dim

\* ---- (e) ---------------------------------------------------------------------------------------
AppendOnlyOK(e) ==
  IF e.op = "update"
  THEN /\ e.res = "ok"
       /\ e.xids = e.yids
       /\ -1 \notin Range(e.xids)
       /\ IsPrefix(ev, e.xids)
       /\ Len(e.xids) = Len(ev) + Len(e.ids)
       /\ Range(SubSeq(e.xids, Len(ev) + 1, Len(e.xids))) = Range(e.ids)
  ELSE /\ e.xids = e.yids
       /\ e.xids = ev

JudgeP(e) ==
  IF e.res = "hang" THEN (IF IsQuery(e) THEN "P:fast-equals-lib" ELSE "P:append-only")
  ELSE IF ~AppendOnlyOK(e) THEN "P:append-only"
  \* the accelerated path: where the design takes it, and wherever the surrogate is OBSERVED to have taken it (its cache flag is
  \* set after the query) - e.g. for a user's kernel that the code wrongly deems eligible
  ELSE IF IsQuery(e) /\ (Path(e) = "fast" \/ e.cached) /\
          ~(e.res = "val" /\ e.fshape = e.lshape /\ Len(e.fast) = ExpLen(e) /\ AllClose(e.fast, e.lib))
       THEN "P:fast-equals-lib"
  ELSE "ok"

JudgeM(e) ==
  IF e.op = "update" /\ e.res = "ok" /\ SubSeq(e.xids, Len(ev) + 1, Len(e.xids)) # e.ids THEN "M:appended-in-given-order"
  ELSE IF e.op = "optimize" /\ e.res # "ok" THEN "M:optimize-raised"
  ELSE IF IsQuery(e) /\ Path(e) = "lib" /\ ~(e.res = "val" /\ e.fshape = e.lshape /\ AllClose(e.fast, e.lib)) THEN "M:library-path-is-library"
  ELSE IF IsQuery(e) /\ Path(e) = "nogp" /\ e.res # "val" THEN "M:prior-answer-without-gp"
  ELSE IF IsQuery(e) /\ Path(e) = "fast" /\ ~e.cached THEN "M:fast-path-sets-cached"
  ELSE IF e.op = "predict" /\ Path(e) = "lib" /\ e.cached THEN "M:library-predict-clears-cached"
  ELSE ""

Step ==
  /\ ~done
  /\ IF l > Len(T.events) THEN done' = TRUE /\ UNCHANGED <<tid, l, ev, hasGp, sampling, verdict, drift>>
     ELSE LET e == T.events[l]
              j == JudgeP(e)
              m == IF drift = "" /\ j = "ok" THEN JudgeM(e) ELSE drift
          IN /\ verdict' = j
             /\ drift' = m
             /\ done' = (j # "ok")
             /\ l' = l + 1
             /\ UNCHANGED tid
             /\ ev' = IF j = "ok" THEN e.xids ELSE ev
             /\ hasGp' = (hasGp \/ (e.op = "update" /\ e.res = "ok"))
             /\ sampling' = IF e.op = "sampling" THEN e.b ELSE sampling

Spec == Init /\ [][Step]_vars
Report == done => PrintT(<<"V", tid, l, verdict, drift>>)
=============================================================================

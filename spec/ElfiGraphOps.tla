---------------------------- MODULE ElfiGraphOps ----------------------------
(***************************************************************************)
(* elfi.model.graphical_model.GraphicalModel + elfi_model.ElfiModel as     *)
(* operators on a store                                                    *)
(*   S.models   handle -> [nodes, edges, cell, obs, priv]                   *)
(*                nodes : set of names; edges : set of <<parent, child, p>> *)
(*                cell  : node -> address of its state dict (attr_dict)     *)
(*                obs   : address of the model's `observed` dict            *)
(*   S.heap     address -> [kind, op, param]   (the attr_dict contents)     *)
(*   S.oheap    address -> set of <<node, value>>  (an `observed` dict)      *)
(*   S.next     next fresh address                                          *)
(* Addresses make ALIASING representable: networkx's DiGraph(source_net)    *)
(* copies the node dicts but not the attr_dict objects inside them.        *)
(* Private constants (names starting with "_") are the nodes in `priv`.    *)
(* Edge params: positive integers = positional index (1-based here),       *)
(* negative integers = named (keyword) parents.                            *)
(***************************************************************************)
EXTENDS Naturals, Integers, Sequences, FiniteSets

Parents(E, c) == {e[1] : e \in {x \in E : x[2] = c}}
Children(E, p) == {e[2] : e \in {x \in E : x[1] = p}}
Degree(E, x) == Cardinality({e \in E : e[1] = x \/ e[2] = x})
RECURSIVE Desc(_, _, _)
Desc(E, front, acc) == LET new == UNION {Children(E, c) : c \in front} \ acc IN
                       IF new = {} THEN acc ELSE Desc(E, new, acc \cup new)
Descendants(E, x) == Desc(E, {x}, {})
Acyclic(N, E) == \A x \in N : x \notin Descendants(E, x)

\* positional parents of c, in order
NPos(E, c) == Cardinality({e \in E : e[2] = c /\ e[3] \in Nat})

Restrict(f, D) == [x \in D |-> f[x]]
Upd(f, x, v) == [y \in DOMAIN f \cup {x} |-> IF y = x THEN v ELSE f[y]]

\* ---- GraphicalModel.remove_node (recursive clean-up of sole private parents) + ElfiModel's pop of observed
\* m = [nodes, edges, cell, priv], od = observed dict content; returns <<m, od>>
RECURSIVE RemoveNode(_, _, _), RemoveAll(_, _, _)
RemoveNode(m, od, x) ==
  LET pos == {e[1] : e \in {f \in m.edges : f[2] = x /\ f[3] \in Nat}}    \* get_parents(): positional parents only
      E2 == {e \in m.edges : e[1] # x /\ e[2] # x}
      m2 == [nodes |-> m.nodes \ {x}, edges |-> E2, cell |-> Restrict(m.cell, m.nodes \ {x}), priv |-> m.priv \ {x}]
      od2 == {o \in od : o[1] # x}
      orphans == {p \in pos : p \in m.priv /\ p \in m2.nodes /\ Degree(E2, p) = 0}
  IN RemoveAll(m2, od2, orphans)
RemoveAll(m, od, S) ==
  IF S = {} THEN <<m, od>>
  ELSE LET x == CHOOSE y \in S : TRUE
           r == IF x \in m.nodes THEN RemoveNode(m, od, x) ELSE <<m, od>>
       IN RemoveAll(r[1], r[2], S \ {x})

\* ---- public operations on a store S ------------------------------------------------
Model(S, h) == S.models[h]
OD(S, h) == S.oheap[S.models[h].obs]
Bare(m) == [nodes |-> m.nodes, edges |-> m.edges, cell |-> m.cell, priv |-> m.priv]
SetModel(S, h, m, od) ==
  [S EXCEPT !.models = Upd(S.models, h, [nodes |-> m.nodes, edges |-> m.edges, cell |-> m.cell, obs |-> S.models[h].obs, priv |-> m.priv]),
            !.oheap = Upd(S.oheap, S.models[h].obs, od)]

\* NodeReference.__init__: add_node + one positional edge per parent (private constants for literals)
DoAdd(S, h, x, kind, op, parents, privs, isParam) ==
  LET m == Model(S, h)
      newPriv == {p \in privs : p \notin m.nodes}
      a0 == S.next
      first(p) == CHOOSE i \in 1..Len(parents) : parents[i] = p /\ \A j \in 1..(i - 1) : parents[j] # p
      pcell == [p \in newPriv |-> a0 + first(p)]
      N2 == m.nodes \cup {x} \cup newPriv
      cell2 == [y \in N2 |-> IF y = x THEN a0 ELSE IF y \in newPriv THEN pcell[y] ELSE m.cell[y]]
      heap2 == [a \in DOMAIN S.heap \cup {a0} \cup {pcell[p] : p \in newPriv} |->
                  IF a = a0 THEN [kind |-> kind, op |-> op, param |-> isParam]
                  ELSE IF \E p \in newPriv : pcell[p] = a THEN [kind |-> "const", op |-> 0, param |-> FALSE]
                  ELSE S.heap[a]]
      E2 == m.edges \cup {<<parents[i], x, i>> : i \in 1..Len(parents)}
  IN [S EXCEPT !.models = Upd(S.models, h, [nodes |-> N2, edges |-> E2, cell |-> cell2, obs |-> m.obs, priv |-> m.priv \cup newPriv]),
               !.heap = heap2, !.next = a0 + 1 + Len(parents)]

\* model.add_edge(parent, child, param_name): a NAMED parent (param < 0 encodes the keyword: -1 = "ka", -2 = "kb")
DoAddEdge(S, h, p, x, param) ==
  LET m == Model(S, h) IN SetModel(S, h, [m EXCEPT !.edges = m.edges \cup {<<p, x, param>>}], OD(S, h))

\* ElfiModel.remove_node
DoRemove(S, h, x) ==
  LET m == Model(S, h)
      r == RemoveNode(Bare(m), OD(S, h), x)
  IN SetModel(S, h, r[1], r[2])

\* ElfiModel.update_node(x, y) = NodeReference.become: x becomes y
DoBecome(S, h, x, y) ==
  LET m0 == Model(S, h)
      od0 == OD(S, h)
      hadObs == \E o \in od0 : o[1] = y
      yObs == IF hadObs THEN (CHOOSE o \in od0 : o[1] = y)[2] ELSE 0
      od1 == {o \in od0 : o[1] # y}                                  \* self.observed.pop(updating_name)
      outE == {e \in m0.edges : e[1] = x}                            \* out_edges = list(edges(node))
      ycell == m0.cell[y]
      r1 == RemoveNode(Bare(m0), od1, x)   \* self.remove_node(node)
      m1 == r1[1]
      \* add_node(node, attr_dict = the SAME dict object as the updating node's); add_edges_from(out_edges)
      \* (networkx add_edges_from re-creates missing end points with an empty dict: not modelled - see Consistent)
      m2 == [nodes |-> m1.nodes \cup {x}, edges |-> m1.edges \cup {e \in outE : e[2] \in m1.nodes \cup {x}},
             cell |-> [n \in m1.nodes \cup {x} |-> IF n = x THEN ycell ELSE m1.cell[n]], priv |-> m1.priv]
      \* transfer incoming edges of the updating node
      inE == {e \in m2.edges : e[2] = y}
      m3 == [m2 EXCEPT !.edges = m2.edges \cup {<<e[1], x, e[3]>> : e \in inE}]
      r4 == IF y \in m3.nodes THEN RemoveNode(m3, r1[2], y) ELSE <<m3, r1[2]>>               \* self.remove_node(updating_node)
      od5 == IF hadObs THEN {o \in r4[2] : o[1] # x} \cup {<<x, yObs>>} ELSE r4[2]
  IN SetModel(S, h, r4[1], od5)

\* parameter_names setter: writes the flag into every node's state dict
DoSetParams(S, h, P) ==
  LET m == Model(S, h)
      addrs == {m.cell[n] : n \in m.nodes}
      \* a cell shared by two nodes of the model gets the value of the last node visited; not modelled (cells are per node)
  IN [S EXCEPT !.heap = [a \in DOMAIN S.heap |->
        IF a \in addrs THEN [S.heap[a] EXCEPT !.param = (\E n \in m.nodes : m.cell[n] = a /\ n \in P)] ELSE S.heap[a]]]

\* model.observed[x] = v
DoSetObs(S, h, x, v) ==
  [S EXCEPT !.oheap = Upd(S.oheap, S.models[h].obs, {o \in OD(S, h) : o[1] # x} \cup {<<x, v>>})]

\* ElfiModel.copy(): networkx DiGraph(source_net).  shares = TRUE is the original behaviour (node state
\* dicts and the observed dict are shared with the source: finding F13); FALSE copies them.
DoCopy(S, h, h2, shares) ==
  LET m == Model(S, h)
      a0 == S.next
      ns == m.nodes
      idx(n) == Cardinality({k \in ns : m.cell[k] < m.cell[n]})
      cell2 == IF shares THEN m.cell ELSE [n \in ns |-> a0 + 1 + idx(n)]
      obs2 == IF shares THEN m.obs ELSE a0
  IN [models |-> Upd(S.models, h2, [nodes |-> ns, edges |-> m.edges, cell |-> cell2, obs |-> obs2, priv |-> m.priv]),
      heap |-> IF shares THEN S.heap
               ELSE [a \in DOMAIN S.heap \cup {cell2[n] : n \in ns} |->
                       IF \E n \in ns : cell2[n] = a THEN S.heap[m.cell[CHOOSE n \in ns : cell2[n] = a]] ELSE S.heap[a]],
      oheap |-> IF shares THEN S.oheap ELSE Upd(S.oheap, a0, OD(S, h)),
      next |-> IF shares THEN S.next ELSE a0 + 1 + Cardinality(ns)]
\* save + load (pickle): always a deep copy
DoSaveLoad(S, h, h2) == DoCopy(S, h, h2, FALSE)

\* ---- projection: what the public API shows of a model ------------------------------
Proj(S, h) ==
  LET m == Model(S, h) IN
  [nodes |-> {<<n, S.heap[m.cell[n]].kind, S.heap[m.cell[n]].op>> : n \in m.nodes},
   edges |-> m.edges,
   observed |-> OD(S, h),
   params |-> {n \in m.nodes : S.heap[m.cell[n]].param},
   priv |-> m.priv]

\* ---- consistency (clause a) -----------------------------------------------------------
Consistent(p) ==
  LET N == {t[1] : t \in p.nodes} IN
  /\ Acyclic(N, p.edges)
  /\ \A e \in p.edges : e[1] \in N /\ e[2] \in N
  /\ \A o \in p.observed : o[1] \in N
  /\ \A n \in p.priv : n \in N /\ Degree(p.edges, n) > 0
  /\ p.params \subseteq N
  \* every parameter slot (position or keyword) of a child is filled by at most one parent
  /\ \A e1, e2 \in p.edges : (e1[2] = e2[2] /\ e1[3] = e2[3]) => e1 = e2
=============================================================================

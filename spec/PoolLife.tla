------------------------------ MODULE PoolLife ------------------------------
(***************************************************************************)
(* EXTENSION (no listed property): the on-disk LIFECYCLE of                 *)
(* elfi.store.OutputPool / ArrayPool as a state machine - pool objects in   *)
(* Python variables (handles), pool folders <prefix>/<name> with the pool   *)
(* pickle, one pickle per store and one .npy file per NpyStore, and the     *)
(* process working directory.  Byte-level behaviour of NpyArray and crash   *)
(* consistency are NpyStore.tla (C06); what samplers see through a pool is  *)
(* Pool.tla / PoolApi.tla (C05).  Here: which directory, which pickle,      *)
(* which file, which count - through __init__, set_context, add_batch,      *)
(* remove_batch, get_batch, add_store, remove_store, clear, save, close,    *)
(* flush, delete, open, dropping the object, and renaming / copying the     *)
(* folder.                                                                  *)
(*                                                                         *)
(* One action per public call; its effect is the operator of the same name  *)
(* in PoolLifeOps.tla (transcribed from elfi/store.py, see there for the    *)
(* state, the deliberate deviations and the six REPAIRS in Fix).            *)
(*                                                                         *)
(* x     the abstract state [pools, disk, cwd, torn]                        *)
(* g     ghosts of the round trip: what each folder's pool looked like when *)
(*       close() last returned into it, and whether anything changed since  *)
(* viol  the per-call expectations (a raising call changes nothing, a call  *)
(*       changes nothing outside its own folder, delete removes the folder, *)
(*       close keeps the files, clear keeps the stores, the context rules,  *)
(*       the constructor refuses an existing folder) that some call so far  *)
(*       did not meet                                                       *)
(***************************************************************************)
EXTENDS PoolLifeOps

CONSTANTS KindsUsed, OutsSet, NsSet, Whats, Vals, MaxI, BSs, MaxOps, EnvMoves

VARIABLES x, g, viol, nops
vars == <<x, g, viol, nops>>

Init == x = S0 /\ g = G0 /\ viol = {} /\ nops = 0

Violated(S, T, c, raised) ==
  (IF AtomicOK(S, T, c, raised) THEN {} ELSE {"atomic"})
  \cup (IF IsolationOK(S, T, c) THEN {} ELSE {"isolation"})
  \cup (IF DeleteOK(S, T, c, raised) THEN {} ELSE {"delete"})
  \cup (IF CloseOK(S, T, c, raised) THEN {} ELSE {"close"})
  \cup (IF ClearOK(S, T, c, raised) THEN {} ELSE {"clear"})
  \cup (IF ContextOK(S, T, c, raised) THEN {} ELSE {"context"})
  \cup (IF NewOK(S, T, c, raised) THEN {} ELSE {"new"})

\* w = the transcribed call applied to x (each action names its own operator: Run's CASE would do the same)
Do(c, w) == /\ nops < MaxOps /\ ~x.torn /\ x.cwd = Home
         /\ LET r == Finish(x, c, w) IN
            /\ x' = r.s
            /\ g' = GhostStep(g, x, c, r)
            /\ viol' = viol \cup Violated(x, r.s, c, r.raised)
            /\ nops' = nops + 1
Call(op, h) == [C0 EXCEPT !.op = op, !.h = h]
Free == {h \in Handles : ~x.pools[h].ex}
\* a new object goes into the lowest free handle (handles are interchangeable)
Lowest(h) == h \in Free /\ \A h2 \in Free : h <= h2

CallNew == \E h \in Handles, kind \in KindsUsed, outs \in OutsSet, name \in Names \cup {""}, prefix \in Prefixes : Lowest(h) /\ LET c == [Call("new", h) EXCEPT !.kind = kind, !.outs = outs, !.name = name, !.prefix = prefix] IN Do(c, New(x, c))
CallSetContext == \E h \in Live(x), bs \in BSs, seed \in Seeds : LET c == [Call("set_context", h) EXCEPT !.bs = bs, !.seed = seed] IN Do(c, SetContext(x, c))
CallAddBatch == \E h \in Live(x), i \in 0..MaxI, ns \in NsSet, v \in Vals : LET c == [Call("add_batch", h) EXCEPT !.i = i, !.ns = ns, !.v = v] IN Do(c, AddBatch(x, c))
CallRemoveBatch == \E h \in Live(x), i \in 0..MaxI : LET c == [Call("remove_batch", h) EXCEPT !.i = i] IN Do(c, RemoveBatch(x, c))
CallGetBatch == \E h \in Live(x), i \in 0..MaxI, ns \in NsSet \cup {<<>>} : LET c == [Call("get_batch", h) EXCEPT !.i = i, !.ns = ns] IN Do(c, GetBatch(x, c))
CallAddStore == \E h \in Live(x), node \in Nodes, what \in Whats : LET c == [Call("add_store", h) EXCEPT !.node = node, !.what = what] IN Do(c, AddStore(x, c))
CallRemoveStore == \E h \in Live(x), node \in Nodes : LET c == [Call("remove_store", h) EXCEPT !.node = node] IN Do(c, RemoveStore(x, c))
CallClear == \E h \in Live(x) : LET c == Call("clear", h) IN Do(c, Clear(x, c))
CallFlush == \E h \in Live(x) : LET c == Call("flush", h) IN Do(c, Flush(x, c))
CallSave == \E h \in Live(x) : LET c == Call("save", h) IN Do(c, Save(x, c))
CallClose == \E h \in Live(x) : LET c == Call("close", h) IN Do(c, Close(x, c))
CallDelete == \E h \in Live(x) : LET c == Call("delete", h) IN Do(c, Delete(x, c))
CallOpen == \E h \in Handles, name \in AllNames, prefix \in Prefixes : Lowest(h) /\ LET c == [Call("open", h) EXCEPT !.name = name, !.prefix = prefix] IN Do(c, Open(x, c))
DropObject == \E h \in Live(x) : LET c == Call("drop", h) IN Do(c, Drop(x, c))
MoveFolder == EnvMoves /\ \E d1 \in Dirs, d2 \in Dirs : d1 # d2 /\ x.disk[d1].ex /\ ~x.disk[d2].ex /\ ~OpenIn(x, d1) /\ LET c == [Call("move", 0) EXCEPT !.d1 = d1, !.d2 = d2] IN Do(c, MoveDir(x, c))
CopyFolder == EnvMoves /\ \E d1 \in Dirs, d2 \in Dirs : d1 # d2 /\ x.disk[d1].ex /\ ~x.disk[d2].ex /\ ~OpenIn(x, d1) /\ LET c == [Call("copy", 0) EXCEPT !.d1 = d1, !.d2 = d2] IN Do(c, CopyDir(x, c))
\* the only thing that happens while the working directory is a pool folder
ChdirBack == /\ x.cwd # Home /\ ~x.torn /\ nops < MaxOps
             /\ x' = [x EXCEPT !.cwd = Home] /\ nops' = nops + 1 /\ UNCHANGED <<g, viol>>

Next == CallNew \/ CallSetContext \/ CallAddBatch \/ CallRemoveBatch \/ CallGetBatch \/ CallAddStore \/ CallRemoveStore
        \/ CallClear \/ CallFlush \/ CallSave \/ CallClose \/ CallDelete \/ CallOpen \/ DropObject \/ MoveFolder \/ CopyFolder
        \/ ChdirBack
Spec == Init /\ [][Next]_vars

\* ------------------------------------------------------------------ what a user relies on
RoundTrip == InvRoundTrip(x, g)
RoundTripInitialised == InvRoundTripInitialised(x, g)
NoPhantoms == InvNoPhantoms(x)
NewStoreIsEmpty == InvFreshIsEmpty(x)
CwdKept == InvCwdKept(x)
SelfContained == InvSelfContained(x)
AtomicCalls == "atomic" \notin viol
Isolation == "isolation" \notin viol
DeleteRemovesFolder == "delete" \notin viol
CloseKeepsFiles == "close" \notin viol
ClearKeepsStores == "clear" \notin viol
ContextRules == "context" \notin viol
NewRefusesExistingFolder == "new" \notin viol

\* ------------------------------------------------------------------ what the machine itself keeps (any Fix)
\* self.stores' keys are exactly the stores that exist; counts of an NpyStore never exceed what the object believes the
\* array holds unless it was loaded from a stale pickle; a store is closed only after it was initialised
Shape == \A h \in Live(x) : LET p == x.pools[h] IN
           /\ SeqSet(p.order) = {n \in Nodes : p.st[n].k # "absent"} /\ Len(p.order) = Cardinality(SeqSet(p.order))
           /\ \A n \in Nodes : LET st == p.st[n] IN st.k = "npy" => ((~st.op => st.ini) /\ st.d \in Dirs)
           /\ (HasCtx(p) => p.name # "")
\* files exist only in folders that exist; a pool pickle names each store at most once
DiskShape == \A d \in Dirs : LET r == x.disk[d] IN
               /\ (~r.ex => r = NoDirRec)
               /\ \A n \in Nodes : (r.npy[n].ini => r.npy[n].ex) /\ (~r.npy[n].ini => r.npy[n].data = <<>>)
\* a pool that was closed or deleted has no open initialised store it had at that time - unless a later call made one
\* (recorded, not an invariant: add_batch on a closed ArrayPool makes and fills stores that were None)
=============================================================================

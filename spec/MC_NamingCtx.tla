---------------------------- MODULE MC_NamingCtx ----------------------------
(* constants of NamingCtx.tla that a cfg file cannot express (negative numbers) *)
EXTENDS NamingCtx
MCBatchSizes == {-1, 0, 2}
MCBatchSizesNoZero == {-1, 2, 3}
MCSeeds == {-1, 0, 5, -2}
MCSeedsSmall == {-1, 5}
=============================================================================

"""Symbolic operations and model builder shared by the graph properties (C03, C02, C14, C05).

A scenario graph is a plain dict
   nodes: [names in an order where parents come first], kind: {name: kind}, pos: {name: [parents]},
   named: {name: [[param, parent], ...]}, obs: [names with given observed data], meta: [names with uses_meta],
   implicit: [const names that are created implicitly by passing their value as a parent]
Operations return TERMS (nested lists) recording exactly what they were called with (T1 of DESIGN §4):
   ["c", x] | ["wv", x] | ["obs", x] | ["BS"] | ["RS"] | ["META"] | ["-"] |
   ["app", op, [positional terms], [named terms in KEYS order]]
"""
import numpy as np

KEYS = ["batch_size", "meta", "observed", "random_state", "ka", "kb"]
ABSENT = ["-"]


class Sym:
    """A value that is its own provenance."""
    __slots__ = ("t",)

    def __init__(self, t):
        self.t = t

    def __repr__(self):
        return "Sym(%r)" % (self.t,)

    def __eq__(self, other):
        return isinstance(other, Sym) and self.t == other.t

    def __hash__(self):
        return hash(repr(self.t))


def term(v):
    if isinstance(v, Sym):
        return v.t
    if isinstance(v, tuple):      # the observed tuple built by elfi's args_to_tuple
        return ["app", "tuple", [term(x) for x in v], [ABSENT] * len(KEYS)]
    return ["?", repr(v)[:40]]


_RECORDERS = {}
EXPECT_BI = [0]         # the batch index the run metadata must carry (sessions of several batches set it per batch)
EXPECT_META = {}        # further expected fields of the run metadata when the driver knows them: submission_index, master_seed, model_name


def _token(bs, k, v):
    if k == "batch_size":
        return ["BS"] if v == bs else ["BS?", str(v)]
    if k == "random_state":
        return ["RS"] if isinstance(v, np.random.RandomState) else ["RS?", type(v).__name__]
    if k == "meta":
        ok = isinstance(v, dict) and v.get("batch_index") == EXPECT_BI[0] and "submission_index" in v and "master_seed" in v
        ok = ok and all(v.get(k) == want for k, want in EXPECT_META.items())
        return ["META"] if ok else ["META?", repr(v)[:40]]
    return term(v)


class SymOp:
    """Symbolic operation (picklable: models holding it can be saved and loaded)."""

    def __init__(self, name, key, bs, opid=0):
        self.name, self.key, self.bs, self.opid = name, key, bs, opid
        self.__name__ = "op_" + name

    def _count(self):
        c = _RECORDERS.setdefault(self.key, {})
        c[self.name] = c.get(self.name, 0) + 1

    def __call__(self, *args, **kwargs):
        self._count()
        named = [ABSENT] * len(KEYS)
        extra = []
        for k, v in kwargs.items():
            if k in KEYS:
                named[KEYS.index(k)] = _token(self.bs, k, v)
            else:
                extra.append(["?kw", k])
        return Sym(["app", self.name, [term(a) for a in args] + extra, named])


class SymDist(SymOp):
    """scipy-like distribution whose rvs returns a term"""

    def __call__(self, *a, **k):
        raise TypeError("a distribution is not callable")

    def rvs(self, *params, size=None, random_state=None, **kw):
        self._count()
        named = [ABSENT] * len(KEYS)
        named[KEYS.index("batch_size")] = ["BS"] if size == (self.bs,) else ["BS?", str(size)]
        named[KEYS.index("random_state")] = _token(self.bs, "random_state", random_state)
        for k, v in kw.items():
            if k in KEYS:
                named[KEYS.index(k)] = _token(self.bs, k, v)
        return Sym(["app", self.name, [term(a) for a in params], named])


class Recorder:
    _n = 0

    def __init__(self, bs):
        Recorder._n += 1
        self.key = Recorder._n
        self.bs = bs
        _RECORDERS[self.key] = {}

    @property
    def counts(self):
        return _RECORDERS[self.key]

    def make_op(self, name):
        return SymOp(name, self.key, self.bs)

    def make_dist(self, name):
        return SymDist(name, self.key, self.bs)

    def close(self):
        _RECORDERS.pop(self.key, None)


def _make_node(m, g, rec, x, name, implicit, observed):
    import elfi
    k = g["kind"][x]
    parents = [Sym(["c", p]) if p in implicit else m[p] for p in g["pos"][x]]
    kw = dict(model=m, name=name)
    if observed:
        kw["observed"] = Sym(["obs", x])
    cls = dict(op=elfi.Operation, prior=elfi.Prior, sim=elfi.Simulator, sum=elfi.Summary, disc=elfi.Discrepancy)[k]
    cls(rec.make_dist(x) if k == "prior" else rec.make_op(x), *parents, **kw)
    for (param, p) in g["named"].get(x, []):
        m.add_edge(p, name, param_name=param)
    if x in g.get("meta", []):
        m[name].uses_meta = True
    elif x in g.get("meta_false", []):
        m[name].uses_meta = False


def reinsert(m, g, rec, x):
    """The same graph after an edit history: node x is replaced (public `become`) by a fresh node of the same class, operation,
    parents and flags, and its observed data are attached again.  The meaning of the graph is unchanged; x now comes AFTER its
    children in the node (insertion) order of the source net, as after any user's `become` / late `add_edge`."""
    import elfi
    implicit = set(g.get("implicit", []))
    k = g["kind"][x]
    tmp = "re__tmp"         # the same temporary name every time: nothing of an earlier replacement may linger under it
    has_obs = x in set(g.get("obs", []))
    if k == "const":
        elfi.Constant(Sym(["c", x]), model=m, name=tmp)
    else:
        # the replacement brings the observation along (`become` moves the replacement's observed data to the node)
        _make_node(m, g, rec, x, tmp, implicit, observed=has_obs)
    m[x].become(m[tmp])


def build_model(g, rec, order=None, model_name="symg"):
    """Build the real ElfiModel of a scenario graph through the public constructors."""
    import elfi
    m = _build_model(g, rec, order, model_name)
    for x in g.get("reinsert", []):
        if x not in set(g.get("implicit", [])):
            reinsert(m, g, rec, x)
    return m


def _build_model(g, rec, order=None, model_name="symg"):
    import elfi
    m = elfi.ElfiModel(name=model_name)
    implicit = set(g.get("implicit", []))
    obs = set(g.get("obs", []))
    for x in (order or g["nodes"]):
        k = g["kind"][x]
        if k == "const":
            if x not in implicit:
                elfi.Constant(Sym(["c", x]), model=m, name=x)
            continue
        parents = [Sym(["c", p]) if p in implicit else m[p] for p in g["pos"][x]]
        kw = dict(model=m, name=x)
        if x in obs:
            kw["observed"] = Sym(["obs", x])
        if k == "op":
            elfi.Operation(rec.make_op(x), *parents, **kw)
        elif k == "prior":
            elfi.Prior(rec.make_dist(x), *parents, **kw)
        elif k == "sim":
            elfi.Simulator(rec.make_op(x), *parents, **kw)
        elif k == "sum":
            elfi.Summary(rec.make_op(x), *parents, **kw)
        elif k == "disc":
            elfi.Discrepancy(rec.make_op(x), *parents, **kw)
        else:
            raise ValueError(k)
        for (param, p) in g["named"].get(x, []):
            m.add_edge(p, x, param_name=param)
        if x in g.get("meta", []):
            m[x].uses_meta = True
        elif x in g.get("meta_false", []):
            m[x].uses_meta = False         # the flag is present but False: the node does NOT declare metadata
    return m


def out_name(o):
    return o[1] if o[0] == "n" else "_%s_observed" % o[1]

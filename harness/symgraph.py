"""Symbolic operations and model builder shared by the graph properties (C03, C02, C14, C05).

A scenario graph is a plain dict
   nodes: [names in an order where parents come first], kind: {name: kind}, pos: {name: [parents]},
   named: {name: [[param, parent], ...]}, obs: [names with given observed data], meta: [names with uses_meta],
   implicit: [const names that are created implicitly by passing their value as a parent]
Operations return TERMS (nested lists) recording exactly what they were called with (T1 of DESIGN §4):
   ["c", x] | ["wv", x] | ["obs", x] | ["BS"] | ["RS"] | ["META"] | ["-"] |
   ["app", op, [positional terms], [named terms in KEYS order]]
"""
import numpy as np

KEYS = ["batch_size", "meta", "observed", "random_state", "ka", "kb"]
ABSENT = ["-"]


class Sym:
    """A value that is its own provenance."""
    __slots__ = ("t",)

    def __init__(self, t):
        self.t = t

    def __repr__(self):
        return "Sym(%r)" % (self.t,)

    def __eq__(self, other):
        return isinstance(other, Sym) and self.t == other.t

    def __hash__(self):
        return hash(repr(self.t))


def term(v):
    if isinstance(v, Sym):
        return v.t
    if isinstance(v, tuple):      # the observed tuple built by elfi's args_to_tuple
        return ["app", "tuple", [term(x) for x in v], [ABSENT] * len(KEYS)]
    return ["?", repr(v)[:40]]


class Recorder:
    def __init__(self, bs):
        self.bs = bs
        self.counts = {}
        self.rs_ids = []          # (node, id(random_state), state digest before) for C02

    def token(self, k, v):
        if k == "batch_size":
            return ["BS"] if v == self.bs else ["BS?", str(v)]
        if k == "random_state":
            return ["RS"] if isinstance(v, np.random.RandomState) else ["RS?", type(v).__name__]
        if k == "meta":
            ok = isinstance(v, dict) and v.get("batch_index") == 0 and "submission_index" in v and "master_seed" in v
            return ["META"] if ok else ["META?", repr(v)[:40]]
        return term(v)

    def make_op(self, name):
        def op(*args, **kwargs):
            self.counts[name] = self.counts.get(name, 0) + 1
            named = [ABSENT] * len(KEYS)
            extra = []
            for k, v in kwargs.items():
                if k in KEYS:
                    named[KEYS.index(k)] = self.token(k, v)
                else:
                    extra.append(["?kw", k])
            return Sym(["app", name, [term(a) for a in args] + extra, named])
        op.__name__ = "op_" + name
        return op

    def make_dist(self, name):
        rec = self

        class Dist:
            """scipy-like distribution whose rvs returns a term"""

            def rvs(self, *params, size=None, random_state=None, **kw):
                rec.counts[name] = rec.counts.get(name, 0) + 1
                named = [ABSENT] * len(KEYS)
                named[KEYS.index("batch_size")] = ["BS"] if size == (rec.bs,) else ["BS?", str(size)]
                named[KEYS.index("random_state")] = rec.token("random_state", random_state)
                for k, v in kw.items():
                    if k in KEYS:
                        named[KEYS.index(k)] = rec.token(k, v)
                return Sym(["app", name, [term(a) for a in params], named])
        return Dist()


def build_model(g, rec, order=None, model_name="symg"):
    """Build the real ElfiModel of a scenario graph through the public constructors."""
    import elfi
    m = elfi.ElfiModel(name=model_name)
    implicit = set(g.get("implicit", []))
    obs = set(g.get("obs", []))
    for x in (order or g["nodes"]):
        k = g["kind"][x]
        if k == "const":
            if x not in implicit:
                elfi.Constant(Sym(["c", x]), model=m, name=x)
            continue
        parents = [Sym(["c", p]) if p in implicit else m[p] for p in g["pos"][x]]
        kw = dict(model=m, name=x)
        if x in obs:
            kw["observed"] = Sym(["obs", x])
        if k == "op":
            elfi.Operation(rec.make_op(x), *parents, **kw)
        elif k == "prior":
            elfi.Prior(rec.make_dist(x), *parents, **kw)
        elif k == "sim":
            elfi.Simulator(rec.make_op(x), *parents, **kw)
        elif k == "sum":
            elfi.Summary(rec.make_op(x), *parents, **kw)
        elif k == "disc":
            elfi.Discrepancy(rec.make_op(x), *parents, **kw)
        else:
            raise ValueError(k)
        for (param, p) in g["named"].get(x, []):
            m.add_edge(p, x, param_name=param)
        if x in g.get("meta", []):
            m[x].uses_meta = True
    return m


def out_name(o):
    return o[1] if o[0] == "n" else "_%s_observed" % o[1]

"""./check selftest [Cxx ...] [-j N]: binding demonstration.

Every mutants/<Cxx>__<name>.diff is applied to a scratch copy of the CURRENT /repo/elfi tree (outside /repo
and /verif, removed afterwards); the property's quick check must then print a VIOLATION line and exit 1.
"""
import concurrent.futures
import glob
import json
import os
import shutil
import subprocess
import sys
import tempfile

ROOT = os.path.dirname(os.path.dirname(os.path.abspath(__file__)))


def one(diff, tier="quick"):
    pid = os.path.basename(diff).split("__")[0]
    scratch = tempfile.mkdtemp(prefix="elfi_mut_")
    try:
        shutil.copytree("/repo/elfi", os.path.join(scratch, "elfi"), ignore=shutil.ignore_patterns("__pycache__"))
        p = subprocess.run(["patch", "-p1", "-s", "-d", scratch, "-i", diff], stdout=subprocess.PIPE, stderr=subprocess.STDOUT, text=True)
        if p.returncode != 0:
            return dict(diff=diff, pid=pid, status="patch-failed", out=p.stdout[-500:])
        env = dict(os.environ, VERIF_REPO=scratch, VERIF_OUT=os.path.join(scratch, "out"))
        env.pop("PYTHONHASHSEED", None)
        env.pop("ELFI_VERIF_TRACE", None)
        p = subprocess.run([os.path.join(ROOT, "check"), pid, "--tier", tier], env=env, stdout=subprocess.PIPE,
                           stderr=subprocess.STDOUT, text=True, timeout=3600)
        lines = [l for l in p.stdout.splitlines() if l.startswith(("VIOLATION", "PASS", "FAIL", "MACHINERY", "KNOWN", "DRIFT"))]
        viol = [l for l in lines if l.startswith("VIOLATION")]
        status = "caught" if (p.returncode == 1 and viol) else ("MISSED" if p.returncode == 0 else "machinery(rc=%d)" % p.returncode)
        clauses = sorted(set(l.split("clause=")[-1] for l in viol))
        return dict(diff=os.path.basename(diff), pid=pid, status=status, clauses=clauses, tail=lines[-3:] if status != "caught" else [])
    finally:
        shutil.rmtree(scratch, ignore_errors=True)


def main(argv):
    jobs = 4
    if "-j" in argv:
        jobs = int(argv[argv.index("-j") + 1])
        argv = [a for i, a in enumerate(argv) if a != "-j" and (i == 0 or argv[i - 1] != "-j")]
    sel = [a.upper() for a in argv]
    diffs = sorted(glob.glob(os.path.join(ROOT, "mutants", "*.diff")) + glob.glob(os.path.join(ROOT, "seeded", "*", "patch.diff")))
    todo = []
    for d in diffs:
        if "/seeded/" in d:
            meta = json.load(open(os.path.join(os.path.dirname(d), "meta.json")))
            if meta.get("assessment"):       # assessed as NOT a violation of its property (see meta.json): no VIOLATION is expected
                print("%-8s %-55s not-a-violation (assessment in meta.json)" % (meta["property"], "seeded_" + os.path.basename(os.path.dirname(d))))
                continue
            if meta.get("open_miss"):        # a confirmed violation that the property's own check does not report yet (DESIGN 10.5, round 6)
                print("%-8s %-55s OPEN MISS (%s)" % (meta["property"], "seeded_" + os.path.basename(os.path.dirname(d)), meta["open_miss"][:90]))
                continue
            pid = meta["property"]
            link = os.path.join(tempfile.gettempdir(), "%s__seeded_%s.diff" % (pid, os.path.basename(os.path.dirname(d))))
            shutil.copy(d, link)
            d = link
        pid = os.path.basename(d).split("__")[0]
        if not sel or pid in sel:
            todo.append(d)
    results = []
    with concurrent.futures.ThreadPoolExecutor(max_workers=jobs) as ex:
        for r in ex.map(one, todo):
            results.append(r)
            print("%-8s %-55s %s %s" % (r["pid"], r["diff"], r["status"], ",".join(r.get("clauses", []))[:120]))
            for l in r.get("tail", []):
                print("      ", l[:200])
            sys.stdout.flush()
    for d in todo:
        if d.startswith(tempfile.gettempdir()):
            try:
                os.remove(d)
            except OSError:
                pass
    missed = [r for r in results if r["status"] != "caught"]
    os.makedirs(os.path.join(ROOT, "out"), exist_ok=True)
    json.dump(results, open(os.path.join(ROOT, "out", "selftest.json"), "w"), indent=1)
    print("selftest: %d mutants, %d caught, %d not caught" % (len(results), len(results) - len(missed), len(missed)))
    return 0 if not missed else 1

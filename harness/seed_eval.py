"""python harness/seed_eval.py <PROP> <src_dir> [--tiers quick,thorough] [--name C01_3]
Evaluate an independently written seeded change: src_dir holds patch.diff, demo.py, note.txt.
1. confirm: demo exits 0 on the current /repo tree and non-zero with the patch (scratch copy outside /repo and /verif);
2. run the property's check against the patched scratch copy (VERIF_REPO) - quick, then thorough if quick misses;
3. store it under /verif/seeded/<PROP>_<name>/ with meta.json (only if step 1 confirmed).
Nothing is ever applied to /repo itself."""
import json
import os
import shutil
import subprocess
import sys
import tempfile
import time

ROOT = os.path.dirname(os.path.dirname(os.path.abspath(__file__)))


def run(cmd, env=None, timeout=7200, cwd=None):
    p = subprocess.run(cmd, env=env, cwd=cwd, stdout=subprocess.PIPE, stderr=subprocess.STDOUT, text=True, timeout=timeout)
    return p.returncode, p.stdout


def main(argv):
    prop, src = argv[0], argv[1].rstrip("/")
    tiers = ["quick", "thorough"]
    if "--tiers" in argv:
        tiers = argv[argv.index("--tiers") + 1].split(",")
    name = os.path.basename(os.path.dirname(src)).replace("_out", "") + "_" + os.path.basename(src)
    if "--name" in argv:
        name = argv[argv.index("--name") + 1]
    scratch = tempfile.mkdtemp(prefix="seed_eval_")
    meta = dict(property=prop, source=src, confirmed=False, checks=[])
    try:
        shutil.copytree("/repo/elfi", os.path.join(scratch, "clean", "elfi"), ignore=shutil.ignore_patterns("__pycache__"))
        shutil.copytree("/repo/elfi", os.path.join(scratch, "mut", "elfi"), ignore=shutil.ignore_patterns("__pycache__"))
        rc, out = run(["patch", "-p1", "-s", "-d", os.path.join(scratch, "mut"), "-i", os.path.join(src, "patch.diff")])
        if rc != 0:
            print("PATCH DOES NOT APPLY to the current tree:", out[-400:])
            meta["patch_applies"] = False
            return finish(meta, src, name, store=False)
        demo = os.path.join(src, "demo.py")
        res = {}
        for which in ("clean", "mut"):
            env = dict(os.environ, PYTHONPATH=os.path.join(scratch, which), PYTHONHASHSEED="0")
            rc, out = run(["/venv/bin/python", demo], env=env, timeout=1800, cwd=scratch)
            res[which] = rc
            meta["demo_%s_rc" % which] = rc
            meta["demo_%s_tail" % which] = out[-300:]
        meta["confirmed"] = (res["clean"] == 0 and res["mut"] != 0)
        if "--no-tests" not in argv:
            # the pinned suite (the 103 tests of /root/.vp/BASELINE.json) against the patched copy
            for f in ("tests", "setup.cfg"):
                srcp = os.path.join("/repo", f)
                if os.path.isdir(srcp):
                    shutil.copytree(srcp, os.path.join(scratch, "mut", f), ignore=shutil.ignore_patterns("__pycache__"))
                else:
                    shutil.copy(srcp, os.path.join(scratch, "mut", f))
            ids = open(os.path.join(ROOT, "harness", "stable_tests.txt")).read().split()
            env = dict(os.environ, PYTHONPATH=os.path.join(scratch, "mut"), PYTHONHASHSEED="0", OMP_NUM_THREADS="1")
            rc, out = run(["/venv/bin/python", "-m", "pytest", "-q", "-p", "no:cacheprovider", "--timeout=900"] + ids,
                          env=env, timeout=3000, cwd=os.path.join(scratch, "mut"))
            last = [l for l in out.splitlines() if l.strip()][-1:]
            meta["suite_rc"] = rc
            meta["suite_tail"] = last[0] if last else ""
            print("pinned suite with the patch: rc=%d %s" % (rc, meta["suite_tail"]))
            meta["confirmed"] = meta["confirmed"] and rc == 0
        print("demo: clean rc=%d, patched rc=%d -> %s" % (res["clean"], res["mut"], "CONFIRMED" if meta["confirmed"] else "NOT CONFIRMED"))
        caught = False
        for tier in tiers:
            env = dict(os.environ, VERIF_REPO=os.path.join(scratch, "mut"), VERIF_OUT=os.path.join(scratch, "out"))
            env.pop("PYTHONHASHSEED", None)
            env.pop("ELFI_VERIF_TRACE", None)
            t0 = time.time()
            rc, out = run([os.path.join(ROOT, "check"), prop, "--tier", tier], env=env)
            lines = [l for l in out.splitlines() if l.startswith(("VIOLATION", "PASS", "FAIL", "MACHINERY", "DRIFT"))]
            clauses = sorted(set(l.split("clause=")[-1] for l in lines if l.startswith("VIOLATION")))
            drift = [l for l in lines if l.startswith("DRIFT")]
            meta["checks"].append(dict(tier=tier, rc=rc, clauses=clauses, drift=drift[:5], wall_s=round(time.time() - t0, 1), tail=lines[-2:]))
            print("check %s --tier %s: rc=%d clauses=%s drift=%d" % (prop, tier, rc, clauses, len(drift)))
            if rc == 1 and clauses:
                caught = True
                break
        meta["caught"] = caught
        return finish(meta, src, name, store=meta["confirmed"])
    finally:
        shutil.rmtree(scratch, ignore_errors=True)


def finish(meta, src, name, store):
    if store:
        dst = os.path.join(ROOT, "seeded", name)
        os.makedirs(dst, exist_ok=True)
        for f in ("patch.diff", "demo.py", "note.txt"):
            if os.path.exists(os.path.join(src, f)):
                shutil.copy(os.path.join(src, f), os.path.join(dst, f))
        note = open(os.path.join(src, "note.txt")).read() if os.path.exists(os.path.join(src, "note.txt")) else ""
        meta["needs_to_manifest"] = note[:1500]
        old = os.path.join(dst, "meta.json")
        if os.path.exists(old):          # keep the hand-written history of earlier evaluations
            try:
                prev = json.load(open(old))
                for k in ("round", "first_evaluation", "strengthening", "assessment"):
                    if k in prev and k not in meta:
                        meta[k] = prev[k]
            except Exception:
                pass
        meta["ran"] = "harness/seed_eval.py: demo on clean/patched scratch copies of the current /repo tree; the 103 pinned tests (harness/stable_tests.txt) against the patched copy; ./check <prop> with VERIF_REPO=<patched copy>"
        json.dump(meta, open(os.path.join(dst, "meta.json"), "w"), indent=1)
        print("stored", dst)
    print(json.dumps({k: meta[k] for k in ("property", "confirmed", "caught") if k in meta}))
    return 0


if __name__ == "__main__":
    sys.exit(main(sys.argv[1:]))

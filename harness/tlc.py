"""Run TLC and parse what it reports.  Standard library only.

Every verdict of every check is computed by TLC; this module only starts the JVM, hands it
files, and reads off counts, coverage, printed tuples and counterexamples.
"""
import json
import os
import re
import shutil
import subprocess
import time

JAR = "/opt/veriftools/tla/tla2tools.jar"
DEPS = "/opt/veriftools/tla/CommunityModules-deps.jar"
SPEC_DIR = os.path.join(os.path.dirname(os.path.dirname(os.path.abspath(__file__))), "spec")


class MachineryFailure(Exception):
    """TLC could not run the model (parse error, timeout, evaluation error)."""

    def __init__(self, msg):
        keep = [l for l in str(msg).splitlines()
                if not l.startswith(("Parsing file", "Semantic processing of module", "Linting of module", "Running breadth-first", "TLC2 Version"))]
        super().__init__("\n".join(keep))


class TlcResult:
    def __init__(self):
        self.ok = True                  # no invariant/property violated
        self.violated = None            # name of violated invariant / property
        self.generated = 0              # states generated (= transitions explored + initial)
        self.distinct = 0
        self.depth = 0
        self.coverage = {}              # action name -> [distinct, total]
        self.printed = []               # parsed PrintT tuples
        self.trace_text = ""            # raw counterexample
        self.trace_states = []          # [(header, {var: text})]
        self.wall_s = 0.0
        self.out = ""
        self.cmd = ""

    def as_dict(self):
        return dict(ok=self.ok, violated=self.violated, generated=self.generated,
                    distinct=self.distinct, depth=self.depth, coverage=self.coverage,
                    wall_s=round(self.wall_s, 2), cmd=self.cmd)


# ---------------------------------------------------------------- TLA+ value reader
class _P:
    def __init__(self, s):
        self.s = s
        self.i = 0

    def ws(self):
        while self.i < len(self.s) and self.s[self.i] in " \t\r\n":
            self.i += 1

    def peek(self, k=1):
        return self.s[self.i:self.i + k]

    def value(self):
        self.ws()
        s = self.s
        if self.peek(2) == "<<":
            self.i += 2
            out = []
            self.ws()
            if self.peek(2) == ">>":
                self.i += 2
                return out
            while True:
                out.append(self.value())
                self.ws()
                if self.peek(2) == ">>":
                    self.i += 2
                    return out
                if self.peek() != ",":
                    raise ValueError("expected , in tuple at %d: %r" % (self.i, s[self.i:self.i + 30]))
                self.i += 1
        if self.peek() == "{":
            self.i += 1
            out = []
            self.ws()
            if self.peek() == "}":
                self.i += 1
                return ("set", out)
            while True:
                out.append(self.value())
                self.ws()
                if self.peek() == "}":
                    self.i += 1
                    return ("set", out)
                if self.peek() != ",":
                    raise ValueError("expected , in set")
                self.i += 1
        if self.peek() == "[":
            self.i += 1
            rec = {}
            while True:
                self.ws()
                m = re.match(r"[A-Za-z_][A-Za-z_0-9]*", s[self.i:])
                if not m:
                    raise ValueError("record field expected at %r" % s[self.i:self.i + 30])
                name = m.group(0)
                self.i += len(name)
                self.ws()
                if self.peek(3) != "|->":
                    raise ValueError("|-> expected")
                self.i += 3
                rec[name] = self.value()
                self.ws()
                if self.peek() == "]":
                    self.i += 1
                    return rec
                if self.peek() != ",":
                    raise ValueError("expected , in record")
                self.i += 1
        if self.peek() == '"':
            self.i += 1
            buf = []
            while True:
                c = s[self.i]
                if c == "\\":
                    n = s[self.i + 1]
                    buf.append({"n": "\n", "t": "\t"}.get(n, n))
                    self.i += 2
                elif c == '"':
                    self.i += 1
                    return "".join(buf)
                else:
                    buf.append(c)
                    self.i += 1
        m = re.match(r"-?\d+", s[self.i:])
        if m:
            self.i += len(m.group(0))
            return int(m.group(0))
        m = re.match(r"TRUE|FALSE", s[self.i:])
        if m:
            self.i += len(m.group(0))
            return m.group(0) == "TRUE"
        m = re.match(r"[A-Za-z_][A-Za-z_0-9]*", s[self.i:])
        if m:
            self.i += len(m.group(0))
            return ("mv", m.group(0))
        raise ValueError("cannot parse TLA value at %r" % s[self.i:self.i + 40])


def parse_value(text):
    p = _P(text)
    v = p.value()
    return v


_COV = re.compile(r"^<(\w+) line \d+, col \d+ to line \d+, col \d+ of module (\w+)>: (\d+):(\d+)")
_FINAL = re.compile(r"^(\d+) states generated, (\d+) distinct states found")
_DEPTH = re.compile(r"depth of the complete state graph search is (\d+)")
_INV = re.compile(r"^Error: Invariant (\S+) is violated")
_PROP = re.compile(r"^Error: (Temporal properties were violated|Action property (\S+) .*is violated|.*property.* violated)")
_STATE = re.compile(r"^State (\d+): (.*)$")
_SIM = re.compile(r"states checked: (\d+)|The number of states generated: (\d+)")


def run(module, cfg=None, workers=16, env=None, timeout=600, metadir=None, coverage=True,
        simulate=None, depth=None, seed=None, extra=None, deadlock=None, dfs=False,
        cwd=None, keep_out=False, cfg_text=None):
    """Run TLC on spec/<module>.tla with spec/<cfg>.cfg.  Returns TlcResult.

    Raises MachineryFailure on anything that is not "completed" or "property violated".
    """
    cwd = cwd or SPEC_DIR
    cfg = cfg or module
    if metadir is None:
        metadir = os.path.join("/verif/out", "_meta_%s_%d" % (cfg, os.getpid()))
    shutil.rmtree(metadir, ignore_errors=True)
    os.makedirs(metadir, exist_ok=True)
    cfg_path = cfg + ".cfg"
    if cfg_text is not None:
        # configuration generated by the driver (constants swept from python)
        cfg_path = os.path.join(os.path.dirname(metadir.rstrip("/")), "%s.cfg" % cfg)
        with open(cfg_path, "w") as f:
            f.write(cfg_text)
    jopts = ["-XX:+UseParallelGC", "-Xss16m", "-DTLA-Library=" + SPEC_DIR]
    if dfs:
        jopts.append("-Dtlc2.tool.queue.IStateQueue=StateDeque")
    cmd = ["java"] + jopts + ["-cp", JAR + ":" + DEPS, "tlc2.TLC", "-workers", str(workers),
                               "-metadir", metadir, "-noGenerateSpecTE", "-config", cfg_path]
    if coverage and not simulate:
        cmd += ["-coverage", "1"]
    if simulate:
        cmd += ["-simulate", simulate]
    if depth:
        cmd += ["-depth", str(depth)]
    if seed is not None:
        cmd += ["-seed", str(seed)]
    if deadlock is False:
        cmd += ["-deadlock"]
    if extra:
        cmd += list(extra)
    cmd.append(module + ".tla")
    e = dict(os.environ)
    if env:
        e.update({k: str(v) for k, v in env.items()})
    t0 = time.time()
    try:
        for attempt in range(3):
            p = subprocess.run(cmd, cwd=cwd, env=e, stdout=subprocess.PIPE, stderr=subprocess.STDOUT,
                               timeout=timeout, text=True, errors="replace")
            out = p.stdout
            rc = p.returncode
            # the JVM itself died (could not reserve its heap / was killed on a machine busy with other JVMs): TLC's own exit
            # codes are 0, 10-14 (violations) and 150-153 (spec errors); anything else without a TLC verdict is retried
            if rc in (0, 10, 11, 12, 13, 14, 75, 150, 151, 152, 153) or "Model checking completed" in out or "Error:" in out:
                break
            time.sleep(5 + 10 * attempt)
        timed_out = False
    except subprocess.TimeoutExpired as ex:
        out = ex.stdout if isinstance(ex.stdout, str) else (ex.stdout or b"").decode("utf8", "replace")
        rc = -9
        timed_out = True
    r = TlcResult()
    r.wall_s = time.time() - t0
    r.out = out
    r.cmd = " ".join(cmd[cmd.index("tlc2.TLC"):])
    shutil.rmtree(metadir, ignore_errors=True)
    if timed_out and not simulate:
        raise MachineryFailure("TLC timeout after %ss on %s/%s\n%s" % (timeout, module, cfg, out[-2000:]))
    in_trace = False
    cur = None
    pend = None      # TLC pretty-prints wide tuples over several lines: accumulate until they parse
    for line in out.splitlines():
        if pend is not None:
            pend.append(line)
            try:
                r.printed.append(parse_value(" ".join(pend)))
                pend = None
            except (ValueError, IndexError):
                if len(pend) > 4000:
                    raise MachineryFailure("unparseable PrintT output: %r" % " ".join(pend)[:500])
            continue
        if line.startswith("<<"):
            try:
                r.printed.append(parse_value(line))
            except (ValueError, IndexError):
                pend = [line]
            continue
        m = _COV.match(line)
        if m:
            k = m.group(1)
            a = r.coverage.setdefault(k, [0, 0])
            a[0] += int(m.group(3))
            a[1] += int(m.group(4))
            continue
        m = _FINAL.match(line)
        if m:
            r.generated = int(m.group(1))
            r.distinct = int(m.group(2))
            continue
        m = _DEPTH.search(line)
        if m:
            r.depth = int(m.group(1))
            continue
        m = _INV.match(line)
        if m:
            r.ok = False
            r.violated = m.group(1)
            in_trace = True
            continue
        if (line.startswith("Error: Temporal propert") and "violated" in line) or \
                (line.startswith("Error: Action property") and "violated" in line):
            r.ok = False
            mm = re.search(r"(?:Action property|Temporal property) (\S+)", line)
            r.violated = mm.group(1) if mm else "temporal"
            in_trace = True
            continue
        m = _STATE.match(line)
        if m and in_trace:
            cur = (m.group(2), {})
            r.trace_states.append(cur)
            continue
        if in_trace and cur is not None:
            mm = re.match(r"^/\\ (\w+) = (.*)$", line)
            if mm:
                cur[1][mm.group(1)] = mm.group(2)
                cur[1]["__last"] = mm.group(1)
            elif line.strip() == "":
                pass
            elif "__last" in cur[1] and not line.startswith("Error") and not re.match(r"^\d+ states", line):
                cur[1][cur[1]["__last"]] += " " + line.strip()
        if simulate:
            mm = _SIM.search(line)
            if mm:
                r.generated = max(r.generated, int(mm.group(1) or mm.group(2)))
    if in_trace:
        i = out.find("Error:")
        r.trace_text = out[i:i + 20000]
    for st in r.trace_states:
        st[1].pop("__last", None)
    if r.ok:
        bad = [l for l in out.splitlines() if l.startswith("Error:") or "Exception" in l and "at " not in l]
        finished = ("Model checking completed" in out) or (simulate and (timed_out or "Finished in" in out or "simulation" in out.lower()))
        if bad or not finished:
            ls = out.splitlines()
            k = next((i for i, l in enumerate(ls) if l.startswith("Error:")), max(0, len(ls) - 40))
            raise MachineryFailure("TLC failed on %s/%s (rc=%s)\n%s" % (module, cfg, rc, "\n".join(ls[k:k + 40])))
    if keep_out:
        r.out = out
    return r


def sany(module, cwd=None):
    cwd = cwd or SPEC_DIR
    p = subprocess.run(["java", "-cp", JAR + ":" + DEPS, "tla2sany.SANY", module + ".tla"], cwd=cwd,
                       stdout=subprocess.PIPE, stderr=subprocess.STDOUT, text=True)
    ok = p.returncode == 0 and "Semantic errors" not in p.stdout and "***Parse Error***" not in p.stdout \
        and "Fatal errors" not in p.stdout and "Could not find" not in p.stdout
    return ok, p.stdout


def write_json(path, obj):
    os.makedirs(os.path.dirname(path), exist_ok=True)
    with open(path, "w") as f:
        json.dump(obj, f, separators=(",", ":"))

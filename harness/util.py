"""Small helpers shared by the property drivers."""
import contextlib
import signal


class Hang(Exception):
    """The code under test did not return within the time limit (e.g. a mutant's endless loop)."""


@contextlib.contextmanager
def time_limit(seconds):
    def handler(signum, frame):
        raise Hang("no return within %ss" % seconds)
    old = signal.signal(signal.SIGALRM, handler)
    signal.setitimer(signal.ITIMER_REAL, seconds)
    try:
        yield
    finally:
        signal.setitimer(signal.ITIMER_REAL, 0)
        signal.signal(signal.SIGALRM, old)


def fx(x, unit=1000000):
    """float -> fixed-point integer in 1/unit (TLC integers are 32 bit), or a string for non-finite."""
    import math
    if isinstance(x, str):
        return x
    x = float(x)
    if math.isnan(x):
        return "nan"
    if math.isinf(x):
        return "inf" if x > 0 else "-inf"
    v = int(round(x * unit))
    if abs(v) >= 2 ** 31:
        raise OverflowError("fixed-point value out of TLC range: %r" % x)
    return v

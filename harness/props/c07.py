"""C07 - SMC-ABC populations satisfy thresholds, prior support and importance weights.

O1: Smc.tla: the round structure over populations incl. continued sampling (threshold in force per round,
    which population proposals / weights are taken from, n_sim totals, one population per list entry);
    negative control: the stale-quantiles IndexError of finding F22 (repaired).
    WQuantile.tla (C13) is the model of the quantile thresholds, Rejection.tla (C01) of each round.
O3: real SMC.sample runs (threshold lists, quantile lists, continued sampling in all four orders) over a
    bounded-uniform, an unbounded-normal and a hierarchical prior with dyadic discrepancies; every
    population is logged with scipy-evaluated oracle fields (T4) and validated by Smc_Trace.tla.
"""
import random

import numpy as np
import scipy.stats as ss

from harness import tlc
from harness.util import Hang, time_limit


class Sim:
    def __init__(self, npar):
        self.npar = npar
        self.__name__ = "sim"

    def __call__(self, *params, batch_size=1, random_state=None):
        t = sum(np.asarray(p, dtype=float).reshape(-1) for p in params)
        return t + random_state.normal(size=batch_size) * 0.5


def summ(y):
    return np.asarray(y, dtype=float)


def disc(s, observed=None):
    # dyadic discrepancies: multiples of 1/8
    return np.floor(np.abs(np.asarray(s, dtype=float) - observed[0]) * 8.0) / 8.0


def build(prior):
    import elfi
    m = elfi.ElfiModel(name="c07")
    if prior == "uniform":
        elfi.Prior("uniform", -1, 5, model=m, name="t1")
        names = ["t1"]
    elif prior == "normal":
        elfi.Prior("norm", 1, 2, model=m, name="t1")
        names = ["t1"]
    elif prior == "hier":      # hierarchical: t2 | t1 ~ U(t1, t1 + 2)
        elfi.Prior("uniform", 0, 2, model=m, name="t1")
        elfi.Prior("uniform", m["t1"], 2, model=m, name="t2")
        names = ["t1", "t2"]
    else:      # hierarchical through the SCALE: t2 | t1 ~ U(0, t1); the child's density is undefined (nan) for t1 <= 0
        elfi.Prior("uniform", 0, 1, model=m, name="t1")
        elfi.Prior("uniform", 0, m["t1"], model=m, name="t2")
        names = ["t1", "t2"]
    obs = 0.05 if prior == "hier_scale" else 2.0       # posterior mass next to the boundary t1 = 0
    elfi.Simulator(Sim(len(names)), *[m[n] for n in names], model=m, name="sim", observed=np.array([obs]))
    elfi.Summary(summ, m["sim"], model=m, name="S")
    elfi.Discrepancy(disc, m["S"], model=m, name="d")
    return m, names


def prior_logpdf(prior, X):
    """log prior density evaluated with scipy directly (not through ModelPrior)."""
    X = np.atleast_2d(X)
    if prior == "uniform":
        return ss.uniform.logpdf(X[:, 0], -1, 5)
    if prior == "normal":
        return ss.norm.logpdf(X[:, 0], 1, 2)
    if prior == "hier":
        return ss.uniform.logpdf(X[:, 0], 0, 2) + ss.uniform.logpdf(X[:, 1], X[:, 0], 2)
    with np.errstate(all="ignore"):
        return ss.uniform.logpdf(X[:, 0], 0, 1) + ss.uniform.logpdf(X[:, 1], 0, X[:, 0])


def mixture_logpdf(X, means, cov, weights):
    X = np.atleast_2d(X)
    w = np.asarray(weights, dtype=float) / np.sum(weights)
    dens = np.zeros(len(X))
    for mu, wi in zip(np.atleast_2d(means), w):
        dens += wi * ss.multivariate_normal.pdf(X, mean=mu, cov=cov)
    return np.log(dens)


def wvar_def(X, w):
    """reliability-weights unbiased variance, by the definition"""
    X = np.atleast_2d(X)
    w = np.asarray(w, dtype=float)
    V1, V2 = w.sum(), (w ** 2).sum()
    mu = (w[:, None] * X).sum(0) / V1
    return (w[:, None] * (X - mu) ** 2).sum(0) / (V1 - V2 / V1)


def f4(x):
    x = float(x)
    if not np.isfinite(x):
        return -999999 if x < 0 else 999999
    return int(round(x * 10000))


def record(sc):
    import elfi
    m, names = build(sc["prior"])
    counts = {}

    class RecSMC(elfi.SMC):
        def update(self, batch, batch_index):
            r = self.state["round"]
            counts[r] = counts.get(r, 0) + 1
            super().update(batch, batch_index)

    events = []
    tr = dict(n=sc["n"], bs=sc["bs"], events=events)
    try:
        with time_limit(600):
            smc = RecSMC(m["d"], batch_size=sc["bs"], seed=sc["seed"])
            npop = 0
            res = None
            for call in sc["calls"]:
                kw = dict(thresholds=[v / 8.0 for v in call["list"]]) if call["kind"] == "u" else dict(quantiles=[a / A for a, A in call["list"]])
                res = smc.sample(sc["n"], bar=False, **kw)
                if sc["seed"] % 2 == 0:
                    # the user LOOKS at the result (print, summaries of every population) before anything else is read:
                    # reading must not change what the result - and the sampler that goes on from it - holds
                    import contextlib
                    import io
                    try:
                        with contextlib.redirect_stdout(io.StringIO()):
                            str(res)
                            res.summary(all=True)
                            res.sample_means_summary(all=True)
                    except Exception:
                        pass
                forced = list(smc.objective["thresholds"])
                for i in range(npop, len(res.populations)):
                    p = res.populations[i]
                    X = np.column_stack([p.outputs[n] for n in names])
                    e = dict(ev="pop", raised="", sizes=[int(len(v)) for v in p.outputs.values()],
                             ds=[int(round(float(d) * 8)) for d in p.discrepancies], ws=[f4(w) for w in p.weights],
                             pp=[(f4(np.exp(v)) if np.isfinite(v) else 0) for v in prior_logpdf(sc["prior"], X)], thr_rep=int(round(float(p.threshold) * 8)),
                             nsim=int(p.n_sim), nb=int(counts.get(i, 0)), kind="", thr_user=0, a=0, A=1, thr_force=0,
                             lw=[], lp=[], lq=[], cov=[f4(c) for c in np.diag(np.atleast_2d(p.cov))], wvar=[f4(v) for v in wvar_def(X, p.weights)])
                    entry = call["list"][i - npop]
                    if call["kind"] == "u":
                        e["kind"], e["thr_user"] = "u", entry
                    elif i == 0:
                        e["kind"] = "q0"
                    else:
                        e["kind"], e["a"], e["A"] = "q", entry[0], entry[1]
                        e["thr_force"] = int(round(float(forced[i]) * 8))
                    if i > 0:
                        q = res.populations[i - 1]
                        Xq = np.column_stack([q.outputs[n] for n in names])
                        e["lw"] = [f4(np.log(w)) for w in p.weights]
                        e["lp"] = [f4(v) for v in prior_logpdf(sc["prior"], X)]
                        e["lq"] = [f4(v) for v in mixture_logpdf(X, Xq, np.atleast_2d(q.cov), q.weights)]
                    events.append(e)
                npop = len(res.populations)
            events.append(dict(ev="end", raised="", rtype="", nsim=int(res.n_sim)))
    except Hang:
        events.append(dict(ev="end", raised="Hang", rtype="Hang", nsim=-1))
    except Exception as ex:
        events.append(dict(ev="end", raised="%s: %s" % (type(ex).__name__, str(ex)[:100]), rtype=type(ex).__name__, nsim=-1))
    return tr


def scenarios(ctx):
    rnd = random.Random(ctx.seed)
    out = []
    n_runs = 64 if ctx.quick else 400
    for i in range(n_runs):
        prior = ["uniform", "normal", "hier", "hier_scale"][i % 4]

        def lst(kind):
            k = rnd.randint(1, 3)
            if kind == "u":
                start = rnd.choice([16, 12, 8])
                out_ = [max(2, start - 3 * j) for j in range(k)] if prior != "hier_scale" else [max(1, 6 - 2 * j) for j in range(k)]
                if i % 8 == 2 and prior != "hier_scale":
                    out_[-1] = 0          # exact matching: the threshold 0 is a threshold like any other
                return out_
            return [rnd.choice([[1, 2], [1, 4], [3, 4], [1, 1]]) for _ in range(k)]
        kinds = [rnd.choice(["u", "q"])]
        if i % 2 == 1:
            kinds.append(rnd.choice(["u", "q"]))       # continued sampling, all four orders
        out.append(dict(prior=prior, n=rnd.choice([2, 3, 5, 8]), bs=rnd.choice([1, 2, 4]), seed=(0 if i % 16 == 5 else rnd.randint(0, 2 ** 31 - 1)),
                        calls=[dict(kind=k, list=lst(k)) for k in kinds]))
    # the history of finding F22 (repaired): quantiles first, then thresholds on the same sampler
    out.append(dict(prior="uniform", n=3, bs=2, seed=5, calls=[dict(kind="q", list=[[1, 2], [1, 2]]), dict(kind="u", list=[6])]))
    return out


def mc_cfg(clear, invs):
    return """SPECIFICATION Spec
CONSTANTS
  Vals = {1, 2}
  MaxLen = 2
  MaxCalls = 2
  ClearStaleQuantiles = %s
%s
CHECK_DEADLOCK FALSE
""" % ("TRUE" if clear else "FALSE", "\n".join("INVARIANT " + i for i in invs))


def check_scenarios(ctx, scs):
    traces = [record(sc) for sc in scs]
    verdicts = ctx.validate("Smc_Trace", traces, chunk=40)
    for sc, tr, v in zip(scs, traces, verdicts):
        ctx.case(str(sc), nontrivial=sum(len(c["list"]) for c in sc["calls"]) >= 2)
        ctx.trace_events += len(tr["events"])
        if v["verdict"] != "ok":
            e = tr["events"][min(v["l"] - 2, len(tr["events"]) - 1)]
            ctx.fail(v["verdict"], sc, detail=dict(population=v["l"] - 1, event=e))
    return traces


def run(ctx):
    ctx.rule = ("seeded SMC.sample runs over three prior families (bounded uniform, unbounded normal, hierarchical), population sizes 2-8, batch "
                "sizes 1-4, 1-3 rounds given as dyadic threshold lists or dyadic quantile lists, half of them continued with a second sample() call "
                "(all four threshold/quantile orders); every population logged with scipy oracle fields.  Non-trivial = at least two populations.")
    ctx.clauses_decided = ["a: exactly n_samples particles, discrepancies within the threshold in force (user's, or the weighted quantile of the previous population)",
                           "b: positive prior density (scipy)", "c: first weights 1", "d: weight = prior / mixture of the previous population (T4 relation, scipy densities)",
                           "e: covariance = 2 x reliability-weights variance (T4 relation, definition evaluated by numpy)", "f: n_sim = total over all rounds, also under continued sampling"]
    ctx.trusted_base += ["scipy.stats densities (uniform, norm, multivariate_normal) as oracle fields", "numpy evaluation of the weighted-variance definition"]
    ctx.clauses_not_decided = ["the density values themselves (trusted: scipy)", "round-0 quantile threshold against all simulated draws (C01)"]
    inv = ["NeverRaises", "UsesLatestPopulation", "QuantileOfPrevious", "NSimAdds", "OneRoundPerListEntry"]
    ctx.tlc("Smc", "MC_Smc", cfg_text=mc_cfg(True, inv), expect_actions=["SetObjective", "EndRound", "Extract"], timeout=600)
    ctx.tlc("Smc", "MC_Smc_F22", cfg_text=mc_cfg(False, ["NeverRaises"]), expect_ok=False, timeout=600)
    from harness.props import x_adaptive_smc
    x_adaptive_smc.check_adaptive(ctx)      # extension: AdaptiveDistanceSMC / AdaptiveThresholdSMC (E: clauses, drift only)
    scs = scenarios(ctx)
    traces = check_scenarios(ctx, scs)
    for i in (0, len(scs) - 1):
        ctx.sample(dict(scenario=scs[i], populations=[{k: e[k] for k in ("kind", "ds", "ws", "thr_rep", "nsim", "nb")} for e in traces[i]["events"] if e["ev"] == "pop"][:3]))


def replay(ctx, scenario):
    check_scenarios(ctx, [scenario])

"""C04 - sampler results do not depend on worker scheduling or parallelism.

O1: Batches.tla exhaustively - every interleaving of Submit / GoWait / WaitNext / Finish against an
    adversarial client, every objective function, MaxPar <= 3, up to 3 SMC rounds, with liveness.
O3: real Rejection / SMC runs on id-valued models through a scheduled client (scripted or seeded
    is_ready answers, out-of-order task execution); the event logs are validated by
    Batches_Trace.tla, including equality with the sequential native-client run.
"""
import hashlib
import itertools
import json
import random

import numpy as np

from harness import tlc
from harness.t1 import T1Model
from harness.util import Hang, time_limit

ACTIONS = ["Submit", "GoWait", "WaitNext", "Finish"]


def mc_cfg(maxpar, rounds, smc, k, live=True):
    return """SPECIFICATION Spec
CONSTANTS
  MaxPar = %d
  Rounds = %d
  SmcCancel = %s
  K = %d
  ObjFns <- MCObjFns
INVARIANT InOrderOnce
INVARIANT Bounded
INVARIANT NoCancelledUsed
INVARIANT NoLeak
INVARIANT PendingAreTasks
INVARIANT ScheduleIndependent
INVARIANT PrefixOfCanonical
INVARIANT NeverWaitsOnNothing
%s
CHECK_DEADLOCK FALSE
""" % (maxpar, rounds, "TRUE" if smc else "FALSE", k, "PROPERTY Terminates" if live else "")


def arr_digest(h, a):
    a = np.ascontiguousarray(np.asarray(a, dtype=float))
    h.update(str(a.shape).encode())
    h.update(a.tobytes())


def sample_digest(res, smc):
    h = hashlib.sha256()
    pops = res.populations if smc else [res]
    for p in pops:
        for k in sorted(p.outputs):
            h.update(k.encode())
            arr_digest(h, p.outputs[k])
        arr_digest(h, [p.threshold])
        h.update(str(int(p.n_sim)).encode())
        if smc:
            arr_digest(h, p.weights)
    h.update(str(int(res.n_sim)).encode())
    h.update(str(int(res.n_batches)).encode())
    return h.hexdigest()[:20]


def make_table(sc):
    return sc["table"]


def run_sampler(sc, client):
    """One real run under the given client; returns (result, sampler)."""
    import elfi
    import elfi.client
    old = elfi.client._client
    elfi.client.set_client(client)
    try:
        tm = T1Model(make_table(sc), name="c04", n_params=sc.get("n_params", 1))
        kind = sc["kind"]
        maxpar = sc["maxpar"] if not client.__class__.__module__.endswith("native") else 1
        if kind.startswith("rej"):
            s = elfi.Rejection(tm.model["d"], batch_size=sc["bs"], seed=sc["seed"], max_parallel_batches=maxpar,
                               output_names=["S1"])
        else:
            s = elfi.SMC(tm.model["d"], batch_size=sc["bs"], seed=sc["seed"], max_parallel_batches=maxpar,
                         output_names=["S1"])
        if hasattr(client, "probe"):
            client.probe = lambda: dict(nb=int(s.state["n_batches"]), obj=int(s._objective_n_batches) if s.objective else 0,
                                        np=int(s.batches.num_pending), nx=int(s.batches.next_index))
        ab = sc.get("abandon")
        if ab:
            # the sampler was advanced by hand under ANOTHER objective and abandoned with batches outstanding; the next
            # sample() call starts over: nothing of the abandoned objective may be used or left behind
            if kind.startswith("rej"):
                s.set_objective(ab["n"], n_sim=ab["n_sim"])
            else:
                s.bar = False          # (SMC.update reads the progress-bar switch that only sample() sets: driving iterate() by hand needs it)
                s.set_objective(ab["n"], thresholds=[9.0, 8.0])
            for _k in range(ab["iters"]):
                if s.finished:
                    break
                s.iterate()
            if hasattr(client, "events"):
                del client.events[:]
        if kind == "rej-thr":
            res = s.sample(sc["n"], threshold=sc["thr"], bar=False)
        elif kind == "rej-q":
            res = s.sample(sc["n"], quantile=sc["q"], bar=False)
        elif kind == "rej-nsim":
            res = s.sample(sc["n"], n_sim=sc["n_sim"], bar=False)
        elif kind == "smc-thr":
            res = s.sample(sc["n"], thresholds=sc["thrs"], bar=False)
        elif kind == "smc-q":
            res = s.sample(sc["n"], quantiles=sc["qs"], bar=False)
        else:
            raise ValueError(kind)
        if hasattr(client, "probe"):
            end = client.probe()
            client.probe = None
            return res, end
        return res, None
    finally:
        elfi.client.set_client(old)


_SEQ = {}


def seq_digest(sc):
    key = (sc["kind"], sc["bs"], sc["n"], sc["seed"], tuple(sc["table"]), sc.get("thr"), sc.get("q"), sc.get("n_sim"),
           tuple(sc.get("thrs") or ()), tuple(sc.get("qs") or ()))
    if key not in _SEQ:
        import elfi.clients.native as native
        res, _ = run_sampler(sc, native.Client())
        _SEQ[key] = sample_digest(res, sc["kind"].startswith("smc"))
    return _SEQ[key]


HANGS = [0]


def record(sc):
    from harness.sched_client import ScheduledClient
    if HANGS[0] >= 3:
        return None
    seq = seq_digest(sc)
    cl = ScheduledClient(script=sc.get("script"), seed=sc.get("sched_seed", 0), p_ready=sc.get("p_ready", 0.5),
                         p_run=sc.get("p_run", 0.5), cores=sc.get("cores", 2))
    try:
        with time_limit(180):
            res, end = run_sampler(sc, cl)
        dg = sample_digest(res, sc["kind"].startswith("smc"))
        events = cl.events
        events.append(dict(ev="end", id=-1, left=len(cl.tasks), digest=dg, **end))
    except Exception as ex:  # the run died: report as an end event that cannot match
        if isinstance(ex, Hang):
            HANGS[0] += 1
        events = cl.events
        events.append(dict(ev="end", id=-1, left=len(cl.tasks), digest="raised:" + type(ex).__name__ + ":" + str(ex)[:80],
                           nb=-1, obj=-1, np=-1, nx=-1))
    for e in events:
        e.setdefault("bi", -1)
        e.setdefault("ans", False)
        e.setdefault("left", 0)
        e.setdefault("digest", "")
    return dict(maxpar=sc["maxpar"], seq=seq, kind=sc["kind"], events=events)


TABLES = [
    [3, 1, 4, 1, 5, 9, 2, 6, 5, 3, 5, 8, 9, 7, 9, 3, 2, 3, 8, 4, 6],
    [9, 9, 9, 9, 0, 9, 9, 1, 9, 9, 9, 2, 9, 9, 9, 9, 9, 0, 9, 9, 9, 9, 9],
    [5, 5, 5, 5, 5, 5, 5],
    [0, 7, 7, 7, 7, 7, 7, 7, 7, 7, 0, 7, 7],
]


def base_scenarios(ctx):
    """(kind, sizes, objective) combinations; schedules are added separately."""
    rnd = random.Random(ctx.seed + 4)
    out = []
    sizes = [(1, 1), (1, 2), (2, 1), (2, 2), (2, 3), (3, 2), (3, 5)]
    for ti, table in enumerate(TABLES):
        for (bs, n) in sizes:
            out.append(dict(kind="rej-thr", bs=bs, n=n, table=table, thr=rnd.choice([1, 2, 5]) if ti != 2 else 5))
            out.append(dict(kind="rej-nsim", bs=bs, n=n, table=table, n_sim=n + rnd.randint(0, 6)))
            out.append(dict(kind="rej-q", bs=bs, n=n, table=table, q=rnd.choice([0.5, 0.25, 1.0])))
    # threshold exactly 0 (exact-match ABC on a discrete simulator) is a valid threshold
    for table in (TABLES[1], TABLES[3]):
        for (bs, n) in [(1, 1), (2, 2), (3, 2)]:
            out.append(dict(kind="rej-thr", bs=bs, n=n, table=table, thr=0))
    out.append(dict(kind="smc-thr", bs=2, n=2, table=TABLES[3], thrs=[7, 0]))
    for table in TABLES[:1] + TABLES[2:3]:
        for (bs, n) in [(1, 2), (2, 2), (2, 3), (3, 2)]:
            out.append(dict(kind="smc-thr", bs=bs, n=n, table=table, thrs=[6, 5] if table is TABLES[2] else [5, 3, 2]))
            out.append(dict(kind="smc-q", bs=bs, n=n, table=table, qs=[0.5, 0.5, 0.5]))
    for i, sc in enumerate(out):
        sc["seed"] = 0 if i % 7 == 3 else 100 + (ctx.seed * 31 + i) % 50
    return out


def scenarios(ctx):
    rnd = random.Random(ctx.seed)
    out = []
    bases = base_scenarios(ctx)
    maxpars = [1, 2, 3] if ctx.quick else [1, 2, 3, 4, 6]
    # scripted answers: every is_ready answer sequence of length L (then seeded random)
    L = 4 if ctx.quick else 6
    scripted_bases = bases[::7] if ctx.quick else bases[::3]
    for b in scripted_bases:
        for mp in (2, 3):
            for script in itertools.product([False, True], repeat=L):
                out.append(dict(b, maxpar=mp, script=list(script), sched_seed=rnd.randint(0, 10 ** 6), p_ready=0.5, p_run=0.5))
    n_rand = 3 if ctx.quick else 25
    for b in bases:
        for mp in maxpars:
            for _ in range(n_rand):
                out.append(dict(b, maxpar=mp, sched_seed=rnd.randint(0, 10 ** 6), p_ready=rnd.choice([0.1, 0.5, 0.9, 1.0, 0.0]),
                                p_run=rnd.choice([0.0, 0.5, 1.0]), cores=rnd.choice([1, 2, 4])))
    return out


def check_scenarios(ctx, scs):
    traces = [record(sc) for sc in scs]
    scs = [sc for sc, tr in zip(scs, traces) if tr is not None]
    traces = [tr for tr in traces if tr is not None]
    for tr in traces:
        if tr["events"][-1]["ev"] != "end":
            raise tlc.MachineryFailure("trace without end event")
    verdicts = ctx.validate("Batches_Trace", traces, chunk=400)
    for sc, tr, v in zip(scs, traces, verdicts):
        sched = tuple((e["ev"], e["id"], e.get("ans")) for e in tr["events"])
        n_rm = sum(1 for e in tr["events"] if e["ev"] == "rm")
        n_false = sum(1 for e in tr["events"] if e["ev"] == "ready" and not e["ans"])
        ctx.case((sc["kind"], sc["bs"], sc["n"], sc["maxpar"], hash(sched)), nontrivial=(n_rm > 0 or n_false > 0))
        ctx.trace_events += len(tr["events"])
        if v["verdict"] != "ok":
            ctx.fail(v["verdict"], sc, detail=dict(at_event=v["l"] - 1, event=tr["events"][min(v["l"] - 2, len(tr["events"]) - 1)],
                                                   seq=tr["seq"], n_events=len(tr["events"])))
        elif v["drift"]:
            ctx.drifted(v["drift"], sc)
    return traces


# ------------------------------------------------------------------ extension: the real clients obey the ClientBase contract
def _f(x):
    return 3 * x + 1


def record_client(sc):
    """Random call sequences on a real client object (native / multiprocessing / dask local cluster); ClientContract_Trace judges them."""
    import elfi.clients.multiprocessing as mp
    import elfi.clients.native as native
    rnd = random.Random(sc["seed"])
    if sc["client"] == "dask":
        import elfi.client as ec
        keep = (ec._client, ec._default_class)
        import elfi.clients.dask as dk        # importing it makes dask the default client: undo that
        ec._client, ec._default_class = keep
        try:
            cl = dk.Client()
        except Exception:          # no local dask cluster could be started (busy machine): nothing to validate - drift-only extension
            return dict(events=[])
    else:
        cl = native.Client() if sc["client"] == "native" else mp.Client(num_processes=2)
    events, held = [], []
    try:
        for _ in range(sc["n"]):
            ch = ["apply", "apply", "sync"] + (["ready", "get", "rm", "ready"] if held else [])
            op = rnd.choice(ch)
            e = dict(ev=op, id=-1, x=0, val=0, ans=False, n=0, raised="")
            try:
                with time_limit(60):
                    if op == "apply":
                        e["x"] = rnd.randint(0, 50)
                        e["id"] = int(cl.apply(_f, e["x"]))
                        held.append(e["id"])
                    elif op == "sync":
                        e["x"] = rnd.randint(0, 50)
                        e["val"] = int(cl.apply_sync(_f, e["x"]))
                    elif op == "ready":
                        e["id"] = rnd.choice(held)
                        e["ans"] = bool(cl.is_ready(e["id"]))
                    elif op == "get":
                        e["id"] = held.pop(rnd.randrange(len(held)))
                        e["val"] = int(cl.get_result(e["id"]))
                    elif op == "rm":
                        e["id"] = held.pop(rnd.randrange(len(held)))
                        cl.remove_task(e["id"])
            except Exception as ex:
                e["raised"] = type(ex).__name__
            events.append(e)
            events.append(dict(ev="left", id=-1, x=0, val=0, ans=False, n=len(cl.tasks), raised=""))
    finally:
        try:
            cl.reset()
        except Exception:
            pass
    return dict(events=events)


def check_real_multiprocessing(ctx):
    """clause a with real worker processes: the multiprocessing client (2 and 3 processes) returns the sequential result"""
    import elfi.clients.multiprocessing as mp
    bases = [b for b in base_scenarios(ctx) if b["kind"] in ("rej-thr", "smc-thr", "rej-q")]
    rnd = random.Random(ctx.seed + 21)
    for b in rnd.sample(bases, 3 if ctx.quick else 12):
        for nproc in ((2,) if ctx.quick else (2, 3)):
            sc = dict(b, maxpar=nproc + 1)
            seq = seq_digest(sc)
            cl = mp.Client(num_processes=nproc)
            events = []
            try:
                with time_limit(600):
                    res, _ = run_sampler(dict(sc), cl)
                events.append(dict(ev="end", id=-1, left=len(cl.tasks), digest=sample_digest(res, sc["kind"].startswith("smc")), nb=0, obj=0, np=0, nx=0))
            except Exception as ex:
                events.append(dict(ev="end", id=-1, left=len(cl.tasks), digest="raised:" + type(ex).__name__, nb=-1, obj=-1, np=-1, nx=-1))
            finally:
                try:
                    cl.reset()
                except Exception:
                    pass
            for e in events:
                e.setdefault("bi", -1)
                e.setdefault("ans", False)
            tr = dict(maxpar=sc["maxpar"], seq=seq, kind=sc["kind"], events=events)
            v = ctx.validate("Batches_Trace", [tr], name="realmp")[0]
            ctx.case(("real-mp", sc["kind"], sc["bs"], sc["n"], nproc), nontrivial=True)
            if v["verdict"] != "ok":
                ctx.fail(v["verdict"], dict(sc, client="multiprocessing", nproc=nproc), detail=events[-1])


def check_clients(ctx):
    ctx.tlc("ClientContract", "MC_ClientContract", cfg_text="""SPECIFICATION Spec
CONSTANTS
  Args = {1, 2}
  MaxOps = 5
INVARIANT FreshIds
INVARIANT EachResultOnce
INVARIANT NoResultForHeld
CHECK_DEADLOCK FALSE
""", expect_actions=["Next"], timeout=600, label="ClientContract (extension)")
    rnd = random.Random(ctx.seed + 9)
    scs = [dict(client="native", seed=rnd.randint(0, 10 ** 6), n=rnd.randint(5, 25)) for _ in range(40 if ctx.quick else 400)]
    scs += [dict(client="multiprocessing", seed=rnd.randint(0, 10 ** 6), n=rnd.randint(5, 20)) for _ in range(3 if ctx.quick else 20)]
    if not ctx.quick:
        try:
            import dask.distributed  # noqa: F401
            scs += [dict(client="dask", seed=rnd.randint(0, 10 ** 6), n=rnd.randint(10, 25)) for _ in range(2)]
        except ImportError:
            pass
    traces = [record_client(sc) for sc in scs]
    verdicts = ctx.validate("ClientContract_Trace", traces, chunk=200, name="clients")
    for sc, tr, v in zip(scs, traces, verdicts):
        ctx.case(("client", sc["client"], sc["seed"], sc["n"]), nontrivial=sc["n"] >= 8)
        if v["verdict"] != "ok":
            if sc["client"] in ("native", "multiprocessing"):
                # elfi's own clients (anchors of C04) must BE clients: what the statement promises for every behaviour a client
                # may exhibit rests on fresh task ids, one result per task, nothing for a removed task
                ctx.fail("P:elfi-client-keeps-the-client-contract/" + v["verdict"].split(":", 1)[-1], dict(sc, family="client"),
                         detail=tr["events"][max(0, v["l"] - 2)])
            else:
                ctx.drifted(v["verdict"], sc, detail=tr["events"][max(0, v["l"] - 2)])


def record_abandoned(sc):
    from harness.sched_client import ScheduledClient
    cl = ScheduledClient(seed=sc["sched_seed"], p_ready=sc["p_ready"], p_run=sc["p_run"], cores=2)
    seq = "none"
    try:
        with time_limit(90):
            seq = seq_digest({k: v for k, v in sc.items() if k not in ("abandon", "family", "p_ready", "p_run", "sched_seed")})
        with time_limit(90):
            res, _ = run_sampler(dict(sc), cl)
        ev = dict(ev="end", id=-1, left=len(cl.tasks), digest=sample_digest(res, sc["kind"].startswith("smc")), nb=0, obj=0, np=0, nx=0)
    except Exception as ex:
        if isinstance(ex, Hang):
            HANGS[0] += 1
        ev = dict(ev="end", id=-1, left=len(cl.tasks), digest="raised:" + type(ex).__name__, nb=-1, obj=-1, np=-1, nx=-1)
    ev.update(bi=-1, ans=False)
    return dict(maxpar=sc["maxpar"], seq=seq, kind=sc["kind"], events=[ev])


def check_abandoned(ctx, scs=None):
    """a sampler advanced by hand under another objective, abandoned with batches outstanding, then asked to sample():
    judged on the end of the run only (result of the sequential fresh run, no task left) - Batches_Trace end event"""
    if scs is None:
        # (Rejection only: an SMC object KEEPS the populations of an earlier objective - continued sampling is a feature)
        bases = [b for b in base_scenarios(ctx) if b["kind"] in ("rej-thr", "rej-q", "rej-nsim")]
        rnd = random.Random(ctx.seed + 33)
        scs = []
        for b in rnd.sample(bases, 6 if ctx.quick else 40):
            for (p_ready, p_run) in ((0.0, 0.0), (0.3, 0.5)):
                scs.append(dict(b, maxpar=3, family="abandoned", p_ready=p_ready, p_run=p_run, sched_seed=rnd.randint(0, 10 ** 6),
                                abandon=dict(n=rnd.randint(1, 3), n_sim=rnd.randint(8, 20), iters=rnd.randint(1, 3))))
    traces = []
    for sc in scs:
        if HANGS[0] >= 2:          # the code under test does not terminate: enough evidence, do not burn the time budget
            break
        traces.append(record_abandoned(sc))
    scs = scs[:len(traces)]
    vs = ctx.validate("Batches_Trace", traces, name="abandoned") if traces else []
    for sc, tr, v in zip(scs, traces, vs):
        ctx.case(("abandoned", sc["kind"], sc["bs"], sc["n"], json.dumps(sc["abandon"]), sc["p_ready"]), nontrivial=True)
        if v["verdict"] != "ok":
            ctx.fail(v["verdict"], sc, detail=tr["events"][-1])


def run(ctx):
    ctx.rule = ("real Rejection (threshold | quantile | n_sim) and SMC (threshold lists | quantile lists) runs on id-valued models "
                "through a scheduled client: every is_ready answer script of length L for max_parallel_batches in {2,3}, plus seeded "
                "random schedules (ready probability, worker progress probability, out-of-order execution) for several "
                "max_parallel_batches; distinct = distinct (configuration, event sequence); non-trivial = the schedule made the "
                "sampler wait on an unready batch or cancel a speculative batch.")
    ctx.clauses_decided = ["a: same result as the sequential run (digest of outputs, thresholds, n_sim, weights)",
                           "b: in index order, each once", "c: bounded outstanding", "d: cancelled never used", "e: no task left"]
    ctx.clauses_not_decided = ["sampler runs on the dask / ipyparallel clients (dask: client contract only, thorough tier; ipyparallel: no cluster in the sandbox)"]
    if ctx.quick:
        runs = [(2, 1, False, 4), (2, 2, True, 2)]
    else:
        runs = [(1, 1, False, 4), (2, 1, False, 4), (3, 1, False, 5), (2, 2, True, 2), (3, 2, True, 2), (2, 3, True, 2), (3, 3, True, 2)]
    for (mp, r, smc, k) in runs:
        ctx.tlc("MC_Batches", "MC_Batches_mp%d_r%d_k%d" % (mp, r, k), cfg_text=mc_cfg(mp, r, smc, k),
                expect_actions=ACTIONS, timeout=1500)
    if not ctx.quick:
        # beyond the exhaustive bounds: random behaviours of larger instances (MaxPar 5, 3 SMC rounds; MaxPar 6 plain)
        for (mp, r, smc, k, num) in [(5, 3, True, 2, 30000), (6, 1, False, 4, 30000), (4, 2, True, 3, 30000)]:
            ctx.tlc("MC_Batches", "SIM_Batches_mp%d_r%d_k%d" % (mp, r, k), cfg_text=mc_cfg(mp, r, smc, k, live=False),
                    simulate="num=%d" % num, depth=120, seed=ctx.seed + 1, workers=8, coverage=False, timeout=900,
                    label="simulate Batches MaxPar=%d rounds=%d K=%d" % (mp, r, k))
    check_clients(ctx)
    check_real_multiprocessing(ctx)
    check_abandoned(ctx)
    scs = scenarios(ctx)
    traces = check_scenarios(ctx, scs)
    for i in (0, len(traces) // 2, len(traces) - 1):
        ctx.sample(dict(scenario=scs[i], events=traces[i]["events"][:12], n_events=len(traces[i]["events"])))
    from harness.props import x_round_gate
    x_round_gate.check_round_gate(ctx)      # extension: round / acquisition gating of ModelBased (BSL, BOLFIRE) and BayesianOptimization (E: clauses, drift only)


def replay(ctx, scenario):
    if scenario.get("family") == "client":
        tr = record_client(scenario)
        v = ctx.validate("ClientContract_Trace", [tr], name="clients")[0]
        ctx.case(("client", scenario["client"], scenario["seed"], scenario["n"]), nontrivial=True)
        if v["verdict"] != "ok":
            ctx.fail("P:elfi-client-keeps-the-client-contract/" + v["verdict"].split(":", 1)[-1], scenario, detail=tr["events"][max(0, v["l"] - 2)])
        return
    if scenario.get("family") == "abandoned":
        return check_abandoned(ctx, [scenario])
    check_scenarios(ctx, [scenario])

"""C06 - on-disk array stores keep exactly what was written, across reopen and crash.

O1: NpyStore.tla exhaustively: every sequence of public calls (append / overwrite / truncate / read /
    flush / close+reopen / pickle) at file-operation grain with Python's write buffer draining
    non-deterministically and a kill anywhere; negative controls F6 (original truncate order) and
    F7 (overwrite while an append is unflushed).
O3: (api) real NpyArray / NpyStore histories, observation after every call, numpy.load after every
    flush/close; (crash) each history replayed in a forked child that os._exit()s before/after
    low-level file call k; the parent loads the file.  Validated by NpyStore_Trace.tla.
"""
import itertools
import multiprocessing
import os
import pickle
import random
import shutil
import sys

import numpy as np

from harness import tlc

DTYPES = ["float64", "int32", "float32", "int64", "complex128", "uint8", "struct"]
STRUCT = [("a", "<f8"), ("b", "<i4")]           # "struct": rows of a structured (record) dtype


def np_dtype(name):
    return np.dtype(STRUCT) if name == "struct" else np.dtype(name)


def mc_cfg(vals, maxlen, maxcalls, hf, dirty, init, invs, props=("Refines",), sync=False):
    return """SPECIFICATION Spec
CONSTANTS
  Vals = {%s}
  MaxLen = %d
  MaxCalls = %d
  TruncHeaderFirst = %s
  MmapSyncsHeader = %s
  AllowDirtyOverwrite = %s
  InitRows <- %s
%s
%s
CHECK_DEADLOCK FALSE
""" % (",".join(map(str, vals)), maxlen, maxcalls, "TRUE" if hf else "FALSE", "TRUE" if sync else "FALSE", "TRUE" if dirty else "FALSE", init,
       "\n".join("INVARIANT " + i for i in invs), "\n".join("PROPERTY " + p for p in props))


# ------------------------------------------------------------------ executing a history
STRIDE = 4096


def pattern(v, size, dtype):
    """flattened (C order) content of the batch with id v: position dependent, so that a batch written in another
    element order, shifted or torn decodes to -1"""
    pos = np.arange(size)
    dtype = np_dtype(dtype) if isinstance(dtype, str) else np.dtype(dtype)
    if dtype.names:
        out = np.zeros(size, dtype=dtype)
        out["a"] = v * STRIDE + pos
        out["b"] = pos
        return out
    if dtype == np.uint8:
        return ((v * 37 + pos) % 256).astype(dtype)
    return (v * STRIDE + pos).astype(dtype)


def batch_array(sc, v):
    shape = (sc["bs"],) + tuple(sc["row_shape"])
    a = pattern(v, int(np.prod(shape)), sc["dtype"]).reshape(shape)
    dt = np_dtype(sc["dtype"])
    layout = sc.get("layout", "C")
    if layout == "F":            # same values, column-major memory
        a = np.asfortranarray(a)
    elif layout == "strided":    # a non-contiguous view
        big = np.zeros((2 * shape[0],) + shape[1:], dtype=dt)
        big[::2] = a
        a = big[::2]
    return a


def decode_batches(arr, bs):
    """array loaded from the file / read from the store -> ids per batch, -1 for a torn / permuted (mixed) batch;
    returns None when the number of rows is not a multiple of the batch size."""
    arr = np.asarray(arr)
    if len(arr) % bs != 0:
        return None
    out = []
    for i in range(len(arr) // bs):
        b = np.ascontiguousarray(arr[i * bs:(i + 1) * bs]).reshape(-1)
        if arr.dtype.kind == "V":          # structured rows (or raw void items: not the dtype that was written)
            if arr.dtype.names != ("a", "b"):
                out.append(-1)
                continue
            c = int(b[0]["a"]) // STRIDE if b[0]["a"] >= 0 else -1
            out.append(int(c) if c >= 0 and np.array_equal(b, pattern(c, b.size, arr.dtype)) else -1)
            continue
        first = int(np.real(b[0]))
        if arr.dtype == np.uint8:
            cands = [v for v in range(0, 64) if (v * 37) % 256 == first]
        else:
            cands = [first // STRIDE] if first >= 0 else []
        v = next((c for c in cands if np.array_equal(b, pattern(c, b.size, arr.dtype))), -1)
        out.append(int(v))
    return out


def load_file(fn, bs):
    try:
        a = np.load(fn)
    except Exception as ex:
        return False, [], "%s: %s" % (type(ex).__name__, str(ex)[:80])
    ids = decode_batches(a, bs)
    if ids is None:
        return True, [-1], "rows not a multiple of batch size: %d" % len(a)
    return True, ids, ""


def datafile(sc, fn):
    """the .npy file that holds the batches (level pool: <prefix>/<pool name>/a.npy)"""
    if sc["level"] == "pool":
        return os.path.join(fn[:-4], "a.npy")
    return fn


def cleanup(sc, fn):
    if sc["level"] == "pool":
        shutil.rmtree(fn[:-4], ignore_errors=True)
    elif os.path.exists(fn):
        os.remove(fn)


class Runner:
    """Executes the abstract calls of a scenario on a real NpyArray, NpyStore, or ArrayPool with one store 'a'."""

    def __init__(self, sc, fn, counter=None):
        import elfi.store as st
        self.st = st
        self.sc = sc
        self.fn = fn
        self.bs = sc["bs"]
        self.counter = counter
        init = [batch_array(sc, v) for v in sc["init"]]
        if sc["level"] == "pool":
            from elfi.model.elfi_model import ComputationContext
            self.pname, self.prefix = os.path.basename(fn)[:-4], os.path.dirname(fn)
            pool = st.ArrayPool(["a"], name=self.pname, prefix=self.prefix)
            pool.set_context(ComputationContext(batch_size=self.bs, seed=1))
            for i, b in enumerate(init):
                pool.add_batch({"a": b}, i)
            pool.flush()                             # initialised and flushed (init is never empty at this level)
            self.obj = pool
            return
        data = np.concatenate(init) if init else np.empty((0,) + tuple(sc["row_shape"]), dtype=np_dtype(sc["dtype"]))
        arr = st.NpyArray(fn, array=data)        # append + flush: initialised and flushed
        self.obj = arr if sc["level"] == "array" else st.NpyStore(arr, self.bs)

    def n(self):
        if self.sc["level"] == "pool":
            return len(self.obj.stores["a"])
        return len(self.obj) // self.bs if self.sc["level"] == "array" else len(self.obj)

    def call_pool(self, c):
        op, a, b = c
        pool = self.obj
        if op == "append":
            pool.add_batch({"a": batch_array(self.sc, a)}, self.n())
        elif op == "overwrite":
            pool.stores["a"][a - 1] = batch_array(self.sc, b)
        elif op == "truncate":
            if a == 0:
                pool.clear()
            else:
                while self.n() > a:
                    pool.remove_batch(self.n() - 1)
        elif op == "read":
            if self.n() > 0:
                _ = np.array(pool.get_batch(0)["a"])
        elif op == "flush":
            pool.flush()
        elif op == "reopen":
            pool.close()
            self.obj = self.st.ArrayPool.open(self.pname, prefix=self.prefix)
        else:
            raise ValueError(op)

    def call(self, c):
        op, a, b = c
        o, bs, level = self.obj, self.bs, self.sc["level"]
        if level == "pool":
            return self.call_pool(c)
        if op == "append":
            if level == "array":
                o.append(batch_array(self.sc, a))
            else:
                o[len(o)] = batch_array(self.sc, a)
        elif op == "overwrite":
            i = a - 1
            if level == "array":
                o[i * bs:(i + 1) * bs] = batch_array(self.sc, b)
            else:
                o[i] = batch_array(self.sc, b)
        elif op == "truncate":
            if level == "array":
                o.truncate(a * bs)
            elif a == 0:
                o.clear()
            else:
                while len(o) > a:
                    del o[len(o) - 1]
        elif op == "read":
            if self.n() > 0:
                _ = np.array(o[0:bs]) if level == "array" else np.array(o[0])
        elif op == "flush":
            o.flush()
        elif op == "reopen":
            o.close()
            self.obj = self.st.NpyArray(self.fn) if level == "array" else self.st.NpyStore(self.fn, bs)
        elif op == "reopen_n":     # NpyStore only: make the first `a` batches of the file available (documented argument)
            o.close()
            self.obj = self.st.NpyStore(self.fn, bs, n_batches=a)
        elif op == "pickle":
            data = pickle.dumps(o)
            if self.sc.get("decoy"):
                # unpickled in a working directory that holds ANOTHER .npy file of the same base name: the copy belongs to
                # the file it was pickled with
                d = self.fn[:-4] + "_cwd"
                os.makedirs(d, exist_ok=True)
                np.save(os.path.join(d, os.path.basename(self.fn)), np.arange(7, dtype=float))
                cwd = os.getcwd()
                os.chdir(d)
                try:
                    self.obj = pickle.loads(data)
                finally:
                    os.chdir(cwd)
                    shutil.rmtree(d, ignore_errors=True)
            else:
                self.obj = pickle.loads(data)
        else:
            raise ValueError(op)

    def observe(self):
        n = self.n()
        content = []
        for i in range(n):
            if self.sc["level"] == "pool":
                blk = self.obj.stores["a"][i]
            else:
                blk = self.obj[i * self.bs:(i + 1) * self.bs] if self.sc["level"] == "array" else self.obj[i]
            ids = decode_batches(np.array(blk), self.bs)
            content.append(ids[0] if ids and len(ids) == 1 else -1)
        return n, content

    def contains_ok(self):
        """`i in store` agrees with len (NpyStore only)."""
        if self.sc["level"] in ("array", "pool"):
            return True
        n = len(self.obj)
        return all((i in self.obj) == (i < n) for i in range(0, n + 2))


def tcalls(sc):
    return [dict(op=c[0], a=c[1], b=c[2]) for c in sc["calls"]]


def record_api(sc, workdir):
    fn = os.path.join(workdir, "api_%d_%d.npy" % (os.getpid(), random.getrandbits(40)))
    calls = tcalls(sc)
    try:
        try:
            r = Runner(sc, fn)
        except Exception as ex:       # initialising the store with its first batches raised: nothing is reported
            for tc in calls:
                tc["obs"] = dict(len=-1, content=[], looked=True, fileok=False, file=[], exc="init %s: %s" % (type(ex).__name__, str(ex)[:100]))
            return dict(kind="api", init=sc["init"], calls=calls, kill=0, obs=dict(loadable=True, content=[]))
        for c, tc in zip(sc["calls"], calls):
            try:
                r.call(c)
                # reading batches goes through the memmap and so touches the file: it is done after every
                # call only under policy "every"; otherwise only where the scenario says so (and at the end)
                look = sc.get("observe", "every") == "every" or (len(calls) and tc is calls[-1]) or tc.get("look")
                if look:
                    n, content = r.observe()
                else:
                    n, content = r.n(), []
                if not r.contains_ok():
                    n = -2
                obs = dict(len=n, content=content, looked=bool(look), fileok=True, file=[])
                if c[0] in ("flush", "reopen", "pickle", "reopen_n"):
                    ok, ids, _why = load_file(datafile(sc, fn), sc["bs"])
                    obs["fileok"], obs["file"] = ok, ids
            except Exception as ex:      # a valid call raised: the store no longer reports the list model
                obs = dict(len=-1, content=[], looked=True, fileok=False, file=[], exc="%s: %s" % (type(ex).__name__, str(ex)[:100]))
            tc["obs"] = obs
        try:
            r.obj.close()
        except Exception:
            pass
    finally:
        cleanup(sc, fn)
    for tc in calls:
        tc.setdefault("obs", dict(len=-1, content=[], looked=True, fileok=False, file=[]))
    return dict(kind="api", init=sc["init"], calls=calls, kill=0, obs=dict(loadable=True, content=[]))


def count_ops(sc, workdir):
    """Dry run: the low-level calls each public call performs -> [(n, name, call index)]."""
    from harness import crashfs
    fn = os.path.join(workdir, "dry_%d_%d.npy" % (os.getpid(), random.getrandbits(40)))
    counter = crashfs.Counter()
    crashfs.install(counter)
    try:
        try:
            r = Runner(sc, fn, counter)
        except Exception:
            sc["_completed_calls"] = 0
            return []
        start = counter.n
        completed = 0
        try:
            for j, c in enumerate(sc["calls"]):
                counter.call_index = j + 1
                r.call(c)
                completed = j + 1
        except Exception:
            pass          # the api trace of this history records the exception; kill points up to here
        counter.call_index = 0
        log = [x for x in counter.log if x[0] > start and x[2] > 0]
        sc["_completed_calls"] = completed
        try:
            r.obj.close()
        except Exception:
            pass
    finally:
        crashfs.uninstall()
        cleanup(sc, fn)
    return log


def record_crash(sc, workdir):
    """sc['kill'] = [k, phase]: fork a child that replays the history and dies at low-level call k."""
    from harness import crashfs
    fn = os.path.join(workdir, "crash_%d_%d.npy" % (os.getpid(), random.getrandbits(40)))
    k, phase = sc["kill"]
    sys.stdout.flush()
    pid = os.fork()
    if pid == 0:
        try:
            counter = crashfs.Counter(kill_at=k if phase != "callend" else None, phase=phase)
            crashfs.install(counter)
            r = Runner(sc, fn, counter)
            for j, c in enumerate(sc["calls"]):
                counter.call_index = j + 1
                r.call(c)
                if phase == "callend" and k == j + 1:
                    os._exit(77)      # killed right after public call j returned (e.g. after a memmap write)
        except BaseException:
            os._exit(78)
        os._exit(79)          # kill point not reached
    _pid, status = os.waitpid(pid, 0)
    code = os.waitstatus_to_exitcode(status)
    ok, ids, why = load_file(datafile(sc, fn), sc["bs"])
    cleanup(sc, fn)
    return dict(kind="crash", init=sc["init"], calls=tcalls(sc), kill=sc["kill_call"],
                obs=dict(loadable=ok, content=ids, why=why), child_exit=code)


def _work(args):
    sc, workdir = args
    if sc["kind"] == "api":
        return record_api(sc, workdir)
    return record_crash(sc, workdir)


# ------------------------------------------------------------------ scenarios
def valid_histories(rnd, n_calls, maxlen, init_len, exhaustive_ops=None, partial=False):
    """one random valid history of abstract calls; n is the number of batches the store makes available"""
    calls = []
    n = init_len
    nextv = 10
    for _ in range(n_calls):
        ops = ["append", "flush", "reopen", "pickle", "read"]
        if n > 0:
            ops += ["overwrite", "truncate", "truncate"]
        if partial and n > 0:
            ops += ["reopen_n", "reopen_n"]
        op = rnd.choice(ops)
        if op == "reopen_n":
            n = rnd.randint(0, n - 1)
            calls.append(["reopen_n", n, 0])
            continue
        if op == "append":
            if n >= maxlen:
                op = "flush"
            else:
                calls.append(["append", nextv, 0])
                nextv += 1
                n += 1
                continue
        if op == "overwrite":
            calls.append(["overwrite", rnd.randint(1, n), nextv])
            nextv += 1
        elif op == "truncate":
            t = rnd.choice([n - 1, n - 1, 0, rnd.randint(0, n - 1)])
            calls.append(["truncate", t, 0])
            n = t
        else:
            calls.append([op, 0, 0])
    return calls


def normalise(sc):
    """A store has no multi-batch truncation: `truncate a` on an NpyStore is the public calls del store[last] repeated
    (or clear() for a = 0).  Each public call is one call of the trace - the content between two of them is a logical
    content of its own (a kill there may legitimately leave it behind)."""
    if sc["level"] not in ("store", "pool"):
        return sc
    n, calls = len(sc["init"]), []
    for op, a, b in sc["calls"]:
        if op == "append":
            n += 1
        elif op == "reopen_n":
            n = a
        elif op == "truncate":
            if a > 0:
                for m in range(n - 1, a, -1):
                    calls.append(["truncate", m, 0])
            n = a
        calls.append([op, a, b])
    sc["calls"] = calls
    return sc


PINNED_F7 = dict(level="array", dtype="float64", row_shape=[], bs=2, init=[1],
                 calls=[["append", 2, 0], ["overwrite", 1, 3]], pinned="F7 history (fixed)")


def scenarios(ctx, workdir):
    rnd = random.Random(ctx.seed)
    hists = [dict(PINNED_F7)]
    n_h = 40 if ctx.quick else 400
    for i in range(n_h):
        level = rnd.choice(["array", "store"])
        sc = dict(level=level, dtype=rnd.choice(DTYPES), row_shape=rnd.choice([[], [2], [3, 2], [1]]),
                  bs=rnd.choice([1, 2, 3, 5]), init=[1, 2][:rnd.randint(0, 2)])
        sc["layout"] = rnd.choice(["C", "C", "F", "strided"])
        sc["decoy"] = i % 2 == 1
        partial = level == "store" and i % 4 == 0
        sc["calls"] = valid_histories(rnd, rnd.randint(2, 5 if ctx.quick else 7), 4, len(sc["init"]), partial=partial)
        hists.append(normalise(sc))
    # ArrayPool level: one on-disk store 'a' driven through the pool's own calls (add_batch / remove_batch / clear / flush /
    # close + ArrayPool.open); the batches live in <prefix>/<name>/a.npy
    for i in range(12 if ctx.quick else 150):
        sc = dict(level="pool", dtype=rnd.choice(DTYPES), row_shape=rnd.choice([[], [2], [3, 2]]), bs=rnd.choice([1, 2, 3]),
                  init=[1, 2][:rnd.randint(1, 2)], layout=rnd.choice(["C", "F", "strided"]))
        calls = valid_histories(rnd, rnd.randint(2, 5 if ctx.quick else 7), 4, len(sc["init"]))
        sc["calls"] = [(["flush", 0, 0] if c[0] == "pickle" else c) for c in calls]
        hists.append(normalise(sc))
    # a few histories with batches larger than Python's 8 KiB buffer (writes go straight to the OS)
    for i in range(3 if ctx.quick else 20):
        sc = dict(level=rnd.choice(["array", "store"]), dtype="float64", row_shape=[40], bs=30, init=[1])
        sc["calls"] = valid_histories(rnd, rnd.randint(2, 5), 4, 1)
        hists.append(normalise(sc))
    # systematic family: an unflushed append followed by EVERY sequence of up to 3 (thorough: 4) further calls over
    # {append, read, overwrite old batch, delete last, flush}: the window in which header and data can disagree
    alphabet = ["append", "read", "overwrite", "truncate", "flush"]
    for L in range(1, (3 if ctx.quick else 4) + 1):
        seqs = list(itertools.product(alphabet, repeat=L))
        if ctx.quick and L == 3:
            seqs = rnd.sample(seqs, 30)
        for seq in seqs:
            n, nextv, calls, ok = 2, 20, [["append", 9, 0]], True        # init [1], then the append
            for op in seq:
                if op == "append":
                    calls.append(["append", nextv, 0])
                    nextv += 1
                    n += 1
                elif op == "overwrite":
                    if n < 1:
                        ok = False
                        break
                    calls.append(["overwrite", 1, nextv])
                    nextv += 1
                elif op == "truncate":
                    if n < 1:
                        ok = False
                        break
                    n -= 1
                    calls.append(["truncate", n, 0])
                else:
                    calls.append([op, 0, 0])
            if ok:
                hists.append(dict(level="array" if len(hists) % 2 else "store", dtype="float64", row_shape=[], bs=2, init=[1], calls=calls,
                                  systematic=True))
    # systematic family for prefix views: a store opened with n_batches = k < number of batches in the file, then every
    # sequence of up to 2 (thorough: 3) calls over {append, read, overwrite, delete last, flush, reopen, pickle}
    alphabet = ["append", "read", "overwrite", "truncate", "flush", "reopen", "pickle"]
    for k in (0, 1, 2):
        for L in range(1, (2 if ctx.quick else 3) + 1):
            for seq in itertools.product(alphabet, repeat=L):
                n, nextv, calls, ok = k, 30, [["append", 9, 0], ["reopen_n", k, 0]], True      # file [1, 2, 9], view k
                for op in seq:
                    if op == "append":
                        calls.append(["append", nextv, 0])
                        nextv += 1
                        n += 1
                    elif op == "overwrite":
                        if n < 1:
                            ok = False
                            break
                        calls.append(["overwrite", n, nextv])
                        nextv += 1
                    elif op == "truncate":
                        if n < 1:
                            ok = False
                            break
                        n -= 1
                        calls.append(["truncate", n, 0])
                    elif op == "reopen":
                        ok = False        # a full reopen ends the prefix view (covered by the random histories)
                        break
                    else:
                        calls.append([op, 0, 0])
                if ok:
                    hists.append(dict(level="store", dtype="float64", row_shape=[], bs=2, init=[1, 2], calls=calls, systematic=True))
    out = []
    for h in hists:
        out.append(dict(h, kind="api", observe="every"))
        out.append(dict(h, kind="api", observe="last"))
        if any(c[0] == "reopen_n" for c in h["calls"]):
            continue        # partial views: clause a/b only (after a kill the file holds more than the view: not comparable)
        log = count_ops(h, workdir)
        for (k, name, j) in log:
            for phase in ("before", "after"):
                out.append(dict(h, kind="crash", kill=[k, phase], kill_call=j, kill_op=name))
        for j in range(1, h.pop("_completed_calls", 0) + 1):      # a kill right after every public call that returned
            out.append(dict(h, kind="crash", kill=[j, "callend"], kill_call=j, kill_op="return"))
    return out, len(hists)


def check_scenarios(ctx, scs):
    workdir = os.path.join(ctx.outdir, "files")
    os.makedirs(workdir, exist_ok=True)
    if len(scs) > 8:
        with multiprocessing.get_context("fork").Pool(12) as pool:
            traces = pool.map(_work, [(sc, workdir) for sc in scs], chunksize=8)
    else:
        traces = [_work((sc, workdir)) for sc in scs]
    verdicts = ctx.validate("NpyStore_Trace", traces, chunk=500)
    for sc, tr, v in zip(scs, traces, verdicts):
        key = (sc["kind"], sc["level"], sc["dtype"], tuple(sc["row_shape"]), sc["bs"], tuple(sc["init"]),
               tuple(tuple(c) for c in sc["calls"]), tuple(sc.get("kill", ())))
        ctx.case(key, nontrivial=(sc["kind"] == "crash" or len(sc["calls"]) >= 3))
        ctx.trace_events += len(tr["calls"])
        if sc["kind"] == "crash" and tr.get("child_exit") == 79:
            raise tlc.MachineryFailure("crash child did not reach its kill point: %r" % (sc,))
        if sc["kind"] == "crash" and tr.get("child_exit") == 78:
            continue      # the history itself raised in the child before the kill point: judged by its api trace
        if v["verdict"] != "ok":
            ctx.fail(v["verdict"], sc, detail=dict(obs=tr["obs"], calls=tr["calls"][:8]))
        elif v["drift"]:
            ctx.drifted(v["drift"], sc, detail=tr["obs"])
    return traces


def run(ctx):
    ctx.rule = ("seeded random valid histories (2-7 public calls: append / overwrite / truncate(del last, clear) / read / flush / "
                "close+reopen / pickle round trip) over NpyArray and NpyStore, 6 dtypes x 4 row shapes x batch sizes 1-5 (and 30x40 float64 "
                "batches, larger than Python's write buffer); each history once without kill (observation after every call, numpy.load after "
                "every flush/close) and once per (low-level file call k, before|after) with the child os._exit()ing there.  "
                "Non-trivial = a crash run, or an api history of >= 3 calls.")
    ctx.clauses_decided = ["a: reports the list model after any history", "b: standard .npy with the same content after flush/close",
                           "c: after a kill the file loads, batch aligned, and equals a logical content since the last completed flush"]
    ctx.clauses_not_decided = ["power-failure semantics (page cache loss, torn sector writes): outside a process kill",
                               "ArrayPool directory-level save/open histories are outside the statement (NpyStore is what ArrayPool stores batches in): covered by the PoolLife extension, drift only"]
    acts = ["BeginAppend", "BeginOverwrite", "BeginTruncate", "BeginRead", "BeginFlush", "BeginCloseReopen", "BeginPickle", "Micro", "OSWrite", "Crash"]
    good = ["FlushExact", "CrashSafe"]
    # (vals, maxlen, maxcalls, truncate-header-first, memmap-syncs-header, init, invariants, expected to hold)
    # the current code has both repairs; the two negative controls are the original orders (F6, F7)
    if ctx.quick:
        runs = [([1, 2], 3, 4, True, True, "Init1", good, True), ([1, 2], 3, 4, False, True, "Init1", ["CrashSafe"], False),
                ([1, 2], 3, 4, True, False, "Init1", ["CrashSafe"], False)]
    else:
        runs = [([1, 2], 3, 5, True, True, "Init1", good, True), ([1, 2], 3, 6, True, True, "Init0", good, True),
                ([1, 2, 3], 4, 5, True, True, "Init2", good, True),
                ([1, 2], 3, 4, False, True, "Init1", ["CrashSafe"], False), ([1, 2], 3, 4, True, False, "Init1", ["CrashSafe"], False)]
    for i, (vals, ml, mc, hf, sync, init, invs, ok) in enumerate(runs):
        dirty = True
        ctx.tlc("MC_NpyStore", "MC_NpyStore_%d" % i, cfg_text=mc_cfg(vals, ml, mc, hf, dirty, init, invs, sync=sync),
                expect_actions=acts if ok else None, expect_ok=ok, timeout=1500,
                label="NpyStore calls<=%d len<=%d truncHeaderFirst=%s mmapSyncsHeader=%s" % (mc, ml, hf, sync))
    workdir = os.path.join(ctx.outdir, "files")
    os.makedirs(workdir, exist_ok=True)
    scs, n_h = scenarios(ctx, workdir)
    traces = check_scenarios(ctx, scs)
    ctx.notes.append("%d histories, %d kill points" % (n_h, sum(1 for s in scs if s["kind"] == "crash")))
    crash_idx = [i for i, s in enumerate(scs) if s["kind"] == "crash"]
    for i in [0] + crash_idx[:1] + crash_idx[len(crash_idx) // 2:len(crash_idx) // 2 + 1]:
        ctx.sample(dict(scenario=scs[i], observed=traces[i]["obs"] if scs[i]["kind"] == "crash" else traces[i]["calls"][:3]))
    from harness.props import x_pool_life
    x_pool_life.check_pool_life(ctx)      # extension: ArrayPool / OutputPool on-disk lifecycle (E: clauses, drift only)


def replay(ctx, scenario):
    check_scenarios(ctx, [scenario])
